#include "sym.h"
#include "shapes.h"
#include "main.h"
#include <ImathMatrixAlgo.h>

// Matrix44<Sym>::gjInverse() (non-throwing) is an OPAQUE call of `M44.gjInverse`: its path tree explodes, so it is
// modelled by hand (lean/ImathVerif/Model/GaussJordan.lean, H-route, bitwise correspondence in harness/corr/c06_inv.cpp).
// The callee's Lean signature comes from harness/sym/index_gj.txt (passed as --idx).  For translator validation the
// call is evaluated with the real gjInverse at double / float.
IMATH_INTERNAL_NAMESPACE_HEADER_ENTER
template <> inline Matrix44<symns::Sym> Matrix44<symns::Sym>::gjInverse () const IMATH_NOEXCEPT
{
    return symns::opaqueA<Matrix44<symns::Sym>> ("M44.gjInverse", *this);
}
IMATH_INTERNAL_NAMESPACE_HEADER_EXIT
template <class T> static std::vector<T> nativeGj44 (const std::vector<T>& a)
{
    IMATH_INTERNAL_NAMESPACE::Matrix44<T> m;
    for (int i = 0; i < 4; ++i) for (int j = 0; j < 4; ++j) m.x[i][j] = a[4 * i + j];
    IMATH_INTERNAL_NAMESPACE::Matrix44<T> r = m.gjInverse ();
    std::vector<T> o;
    for (int i = 0; i < 4; ++i) for (int j = 0; j < 4; ++j) o.push_back (r.x[i][j]);
    return o;
}
// the callee at exact fractions, for the Lean-side validation (`rattv`): the EXACT inverse, or the identity for a singular
// matrix, computed by plain Gauss elimination with first-non-zero pivoting (deliberately not the algorithm of gjInverse).  The
// emitted Lean text calls the hand model `M44.gjInverse` at Rat, which is proved (Props/C06: M44_gjInverse_spec / _singular) to
// be exactly that; so the comparison validates the emitted CALL (which function, on which argument, in which arm).
static std::vector<symns::Frac> exactInverse44 (const std::vector<symns::Frac>& a)
{
    using symns::Frac;
    Frac w[4][8];
    for (int i = 0; i < 4; ++i) for (int j = 0; j < 4; ++j) { w[i][j] = a[4 * i + j]; w[i][4 + j] = Frac (i == j ? 1 : 0); }
    bool singular = false;
    for (int c = 0; c < 4 && !singular; ++c)
    {
        int p = -1;
        for (int r = c; r < 4; ++r) if (w[r][c] != Frac (0)) { p = r; break; }
        if (p < 0) { singular = true; break; }
        if (p != c) for (int j = 0; j < 8; ++j) std::swap (w[p][j], w[c][j]);
        Frac d = w[c][c];
        for (int j = 0; j < 8; ++j) w[c][j] = w[c][j] / d;
        for (int r = 0; r < 4; ++r) if (r != c) { Frac f = w[r][c]; if (f != Frac (0)) for (int j = 0; j < 8; ++j) w[r][j] = w[r][j] - f * w[c][j]; }
    }
    std::vector<Frac> o;
    for (int i = 0; i < 4; ++i) for (int j = 0; j < 4; ++j) o.push_back (singular ? Frac (i == j ? 1 : 0) : w[i][4 + j]);
    return o;
}
static int native_gj44 = (symns::natives ()["M44.gjInverse"] = symns::Native{&nativeGj44<double>, &nativeGj44<float>, &exactInverse44}, 0);

using namespace IMATH_INTERNAL_NAMESPACE;
#include "ops_c06.h"
int main (int argc, char** argv) { return symns::sym_main (argc, argv); }
