// C12 extractor, second translation unit (module C12E): the two OTHER overloads of the 3-D extractSHRT
//     extractSHRT (mat, s, h, Vec3& r, t, exc, Euler<T>::Order rOrder)      ImathMatrixAlgo.h 826-856
//     extractSHRT (mat, s, h, Euler<T>& r, t, exc)                          ImathMatrixAlgo.h 870-883
// for all 24 orders, and computeRSMatrix once more with small path trees.
//
// Everything these bodies CALL is an opaque call of a definition that the same check regenerates just before (tag c12,
// Gen/C12.lean, index passed as --idx) or of the hand model, so that the emitted definitions contain the overload bodies and
// nothing else (2-3 paths, a dozen lines each; in sym_c12.cpp the same wrappers carry the 8-path tree of extractEulerXYZ):
//     extractAndRemoveScalingAndShear<Sym>   -> SHRT.ear44Flag/Mat/Scl/Shr   (hand model, c12_shrt_opaque.h)
//     extractEulerXYZ<Sym>                   -> M44.extractEulerXYZ          (Gen/C12.lean, extracted by sym_c12.cpp from the real body)
//     Euler<Sym>::Euler (const Euler&, Order) -> M44.reorderFromXYZ_<ORDER>   (Gen/C12.lean, extracted by sym_c12.cpp from the real
//                                               constructor; the specialisation ABORTS unless the source order is XYZ)
// Everything else the overloads do — the `rOrder != XYZ` test, the plain constructor `Euler<T> (r, XYZ)`, `toXYZVector ()`,
// `r.order ()`, the assignment through the `Vec3<T>&` base reference of the `Euler<T>&` — runs symbolically.
// For translator validation the opaque calls are evaluated with the REAL functions at double / float.
#include <math.h>
#include "sym.h"
#include "c10frac.h" // FracS: the real templates at exact fractions (rattv), before any Imath header
// ImathMatrix.h calls `cos (r)` / `sin (r)` unqualified (Matrix44::rotate, used by Euler::extract): found by ADL for FracS
namespace symns
{
inline FracS cos (FracS a) { return std::cos (a); }
inline FracS sin (FracS a) { return std::sin (a); }
inline FracS sqrt (FracS a) { return std::sqrt (a); }
inline FracS atan2 (FracS a, FracS b) { return std::atan2 (a, b); }
} // namespace symns
#include "shapes.h"
#include "main.h"
#include <ImathMatrixAlgo.h>
#include <ImathEuler.h>
OPAQUE_LENGTH (Vec2, "V2", 2)
OPAQUE_LENGTH (Vec3, "V3", 3)
#include "c12_shrt_opaque.h"

#define C12_ALL_ORDERS(X)                                                                 \
    X (XYZ) X (XZY) X (YZX) X (YXZ) X (ZXY) X (ZYX)                                       \
    X (XZX) X (XYX) X (YXY) X (YZY) X (ZYZ) X (ZXZ)                                       \
    X (XYZr) X (XZYr) X (YZXr) X (YXZr) X (ZXYr) X (ZYXr)                                 \
    X (XZXr) X (XYXr) X (YXYr) X (YZYr) X (ZYZr) X (ZXZr)
IMATH_INTERNAL_NAMESPACE_HEADER_ENTER
template <>
inline void
extractEulerXYZ (const Matrix44<symns::Sym>& mat, Vec3<symns::Sym>& rot)
{
    rot = symns::opaqueA<Vec3<symns::Sym>> ("M44.extractEulerXYZ", mat);
}
template <>
inline Euler<symns::Sym>::Euler (const Euler<symns::Sym>& euler, Order p) IMATH_NOEXCEPT
{
    using symns::Sym;
    setOrder (p);
    if (euler.order () != XYZ)
    {
        fprintf (stderr, "sym_c12e: Euler (const Euler&, Order) called with a source order other than XYZ: the opaque model "
                         "M44.reorderFromXYZ_* does not cover it\n");
        abort ();
    }
    const char* nm = nullptr;
    switch (p)
    {
#define C12_ORDER_NAME(O) case O: nm = "M44.reorderFromXYZ_" #O; break;
        C12_ALL_ORDERS (C12_ORDER_NAME)
#undef C12_ORDER_NAME
        default: fprintf (stderr, "sym_c12e: Euler (const Euler&, Order): order %d is not one of the 24 enumerators\n", (int) p); abort ();
    }
    Vec3<Sym> v = symns::opaqueA<Vec3<Sym>> (nm, Vec3<Sym> (euler.x, euler.y, euler.z));
    x = v.x;
    y = v.y;
    z = v.z;
}
IMATH_INTERNAL_NAMESPACE_HEADER_EXIT

template <class T> static std::vector<T> nativeEulerXYZ (const std::vector<T>& a)
{
    IMATH_INTERNAL_NAMESPACE::Matrix44<T> m;
    for (int i = 0; i < 4; ++i) for (int j = 0; j < 4; ++j) m.x[i][j] = a[4 * i + j];
    IMATH_INTERNAL_NAMESPACE::Vec3<T> r (0);
    IMATH_INTERNAL_NAMESPACE::extractEulerXYZ (m, r);
    return std::vector<T>{r.x, r.y, r.z};
}
static int native_eulerXYZ = (symns::natives ()["M44.extractEulerXYZ"] = symns::Native{&nativeEulerXYZ<double>, &nativeEulerXYZ<float>}, 0);
template <class T, int order> static std::vector<T> nativeReorder (const std::vector<T>& a)
{
    typedef IMATH_INTERNAL_NAMESPACE::Euler<T> E;
    E src (IMATH_INTERNAL_NAMESPACE::Vec3<T> (a[0], a[1], a[2]), E::XYZ);
    E e (src, (typename E::Order) order);
    return std::vector<T>{e.x, e.y, e.z};
}
#define C12_NATIVE_REORDER(O)                                                                                                   \
    static int native_reorder_##O = (symns::natives ()["M44.reorderFromXYZ_" #O] = symns::Native{                                  \
        &nativeReorder<double, (int) IMATH_INTERNAL_NAMESPACE::Euler<double>::O>, &nativeReorder<float, (int) IMATH_INTERNAL_NAMESPACE::Euler<float>::O>}, 0);
C12_ALL_ORDERS (C12_NATIVE_REORDER)
// the same two callees at exact fractions (real templates at FracS, c10frac.h stubs) for the Lean-side validation
static std::vector<symns::Frac> fracEulerXYZ (const std::vector<symns::Frac>& a)
{
    return symns::fracRun ([&] {
        using symns::FracS;
        IMATH_INTERNAL_NAMESPACE::Matrix44<FracS> m;
        for (int i = 0; i < 4; ++i) for (int j = 0; j < 4; ++j) m.x[i][j] = FracS (a[4 * i + j]);
        IMATH_INTERNAL_NAMESPACE::Vec3<FracS> r (FracS (0));
        IMATH_INTERNAL_NAMESPACE::extractEulerXYZ (m, r);
        return std::vector<FracS>{r.x, r.y, r.z};
    });
}
static int nativeq_eulerXYZ = (symns::natives ()["M44.extractEulerXYZ"].q = &fracEulerXYZ, 0);
template <int order> static std::vector<symns::Frac> fracReorder (const std::vector<symns::Frac>& a)
{
    return symns::fracRun ([&] {
        using symns::FracS;
        typedef IMATH_INTERNAL_NAMESPACE::Euler<FracS> E;
        FracS x0 = FracS (a[0]), x1 = FracS (a[1]), x2 = FracS (a[2]);
        IMATH_INTERNAL_NAMESPACE::Vec3<FracS> v0 (x0, x1, x2);
        E src (v0, E::XYZ);
        E e (src, (typename E::Order) order);
        return std::vector<FracS>{e.x, e.y, e.z};
    });
}
#define C12_NATIVEQ_REORDER(O) \
    static int nativeq_reorder_##O = (symns::natives ()["M44.reorderFromXYZ_" #O].q = &fracReorder<(int) IMATH_INTERNAL_NAMESPACE::Euler<double>::O>, 0);
C12_ALL_ORDERS (C12_NATIVEQ_REORDER)

using namespace IMATH_INTERNAL_NAMESPACE;
#include "ops_c12e.h"
int main (int argc, char** argv) { return symns::sym_main (argc, argv); }
