// C04 extraction table: every arithmetic operator in every spelling, equality,
// approximate equality, accessors, getValue/setValue, converting constructors
// and foreign-type interop for Vec2/3/4, Color3/4, Shear6, Quat, Matrix22/33/44.
// TV runs at all seven element types for every entry.
#include <sstream>
#include <iomanip>
#include <climits>
#include <cfloat>
namespace symns
{
template <class T> struct OtherT { typedef double type; };
template <> struct OtherT<double> { typedef long double type; };
template <> struct OtherT<int64_t> { typedef long double type; }; // 64-bit significand: the round trip through S is exact for every int64, extremes included
template <> struct OtherT<Sym> { typedef SymB type; };
// foreign aggregates for the interop constructors / assignments
template <class T> struct FXY { T x, y; };
template <class T> struct FXYZ { T x, y, z; };
template <class T> struct FXYZW { T x, y, z, w; };
template <class T, int N> struct FSub { T d[N]; const T& operator[] (int i) const { return d[i]; } T& operator[] (int i) { return d[i]; } };
template <class T, int N> struct FSub2 { T d[N][N]; const T* operator[] (int i) const { return d[i]; } T* operator[] (int i) { return d[i]; } };

// counters reported next to the TV summary (hit counts of the special generators below); written by sym_c04.cpp
inline std::map<std::string, long>& c04stats () { static std::map<std::string, long> m; return m; }

//---------------------------------------------------------------------------------------------------
// (0) int / int64: the generic generator keeps |v| <= 100 (signed overflow is undefined behaviour).  Every branch-free
// entry is additionally run on EXTREME operands (max, min, max-1, min+1, +-2^(bits/2), large random values mixed with
// 0, +-1, +-2) chosen so that no intermediate result of the extracted tree leaves the range of T -- checked node by
// node in 128-bit arithmetic (also: divisor != 0, no min / -1).  Wrap-around itself is not exercised for int / int64
// (it is undefined); for short / unsigned char (promotion, truncation on store) the full-range mode of the generic
// generator does it.
typedef __int128 C04Wide;
template <class T> inline bool c04SafeNode (const Node* n, const std::map<const Node*, C04Wide>& env, std::map<const Node*, C04Wide>& memo, C04Wide& r)
{
    auto it = memo.find (n);
    if (it != memo.end ()) { r = it->second; return true; }
    const C04Wide lo = (C04Wide) std::numeric_limits<T>::lowest (), hi = (C04Wide) std::numeric_limits<T>::max ();
    C04Wide a = 0, b = 0;
    if (n->k.size () >= 1 && !c04SafeNode<T> (n->k[0], env, memo, a)) return false;
    if (n->k.size () >= 2 && !c04SafeNode<T> (n->k[1], env, memo, b)) return false;
    switch (n->op)
    {
        case VAR: { auto e = env.find (n); if (e == env.end ()) return false; r = e->second; break; }
        case LIT: if (n->lit != std::floor (n->lit)) return false; r = (C04Wide) n->lit; break;
        case ADD: r = a + b; break;
        case SUB: r = a - b; break;
        case MUL: r = a * b; break;
        case DIV: if (b == 0) return false; r = a / b; break;
        case NEG: r = -a; break;
        default: return false; // anything else: not known to be safe
    }
    if (r < lo || r > hi) return false;
    memo[n] = r;
    return true;
}
template <class T> TVFn makeTVIntX (void (*body) (Ctx<T>&), const char* ty)
{
    TVFn base = makeTV<T> (body);
    return [body, ty, base] (const FnRecord& f, unsigned long seed, int n, bool nozero, std::string& detail, TVStats& st) -> bool {
        if (!base (f, seed, n, nozero, detail, st)) return false;
        if (f.paths.size () != 1) return true; // the comparison trees have their own generators
        std::mt19937_64 g (seed ^ 0x51ed270b0f1e2d3cull);
        size_t nin = 0;
        for (auto& p : f.params) nin += p.vars.size ();
        const T mx = std::numeric_limits<T>::max (), mn = std::numeric_limits<T>::lowest ();
        const T half_ = (T) ((C04Wide) 1 << (sizeof (T) * 4 - 1)); // about sqrt (max): products near the boundary
        const T pool[] = {mx, mn, (T) (mx - 1), (T) (mn + 1), half_, (T) -half_, (T) (half_ + 1), (T) (mx / 2), (T) (mn / 2), (T) (mx / 3), 0, 1, -1, 2, -2, 3};
        std::string key = std::string ("intx.") + ty;
        long ran = 0;
        for (int k = 0; k < n / 2 + 4; ++k)
        {
            for (int attempt = 0; attempt < 40; ++attempt)
            {
                std::vector<T> in (nin);
                bool extreme = false;
                size_t one = g () % (nin ? nin : 1);
                for (size_t q = 0; q < nin; ++q)
                {
                    unsigned r = (unsigned) (g () % 16);
                    if (attempt > 20) r = (q == one) ? r % 10 : 10 + r % 3;      // later attempts: ONE extreme slot, partners from {0, 1, -1}
                    T x = (r == 9) ? (T) g () : pool[r];                          // r == 9: any bit pattern
                    in[q] = x;
                    if (x > (T) 100 || x < (T) -100) extreme = true;
                }
                if (!extreme) continue;
                std::map<const Node*, C04Wide> env, memo;
                size_t i = 0;
                for (auto& p : f.params) for (auto* v : p.vars) env[v] = (C04Wide) in[i++];
                bool safe = true;
                for (auto* v : f.paths[0].leaf.vals) { C04Wide r; if (!c04SafeNode<T> (v, env, memo, r)) { safe = false; break; } }
                if (!safe) continue;
                ++st.evals; ++st.nontrivial; ++ran;
                std::string d;
                if (!tvOne<T> (f, body, in, d))
                {
                    std::ostringstream s;
                    s << d << " :: in=";
                    for (auto& x : in) s << (long long) x << " ";
                    detail = s.str ();
                    return false;
                }
                break;
            }
        }
        c04stats ()[key + ".extreme_inputs_run"] += ran;
        ++c04stats ()[key + ".branch_free_entries"];
        if (ran >= n / 4) ++c04stats ()[key + ".branch_free_entries_with_extreme_inputs"];
        return true;
    };
}
// every EXTRACT_ALLT entry of this table: int and int64 through makeTVIntX
#undef EXTRACT_ALLT
#define EXTRACT_ALLT(module, ident, leanname, ...)                                                     \
    struct X_##ident { template <class T> static void run (symns::Ctx<T>& c) __VA_ARGS__ };            \
    static int reg_##ident = (symns::entries ().push_back (symns::Entry{module, leanname, symns::Opts (), &X_##ident::run<symns::Sym>, \
        {{"double", symns::makeTV<double> (&X_##ident::run<double>)}, {"float", symns::makeTV<float> (&X_##ident::run<float>)},  \
         {"half", symns::makeTV<half> (&X_##ident::run<half>)}, {"int", symns::makeTVIntX<int> (&X_##ident::run<int>, "int")},   \
         {"short", symns::makeTV<short> (&X_##ident::run<short>)}, {"int64", symns::makeTVIntX<int64_t> (&X_##ident::run<int64_t>, "int64")}, \
         {"uchar", symns::makeTV<unsigned char> (&X_##ident::run<unsigned char>)}}, symns::makeRun (&X_##ident::run<double>)}), 0);

//---------------------------------------------------------------------------------------------------
// (1) equalWithAbsError / equalWithRelError at all seven element types.
// C++ evaluates `((x1 > x2) ? x1 - x2 : x2 - x1) <= e` and `... <= e * abs (x1)` in the PROMOTED type:
// int for short / unsigned char, float for half (half arithmetic goes through operator float).  The tree is
// therefore evaluated at that type (inputs converted exactly) and the boolean compared with the real
// instantiation at T.  Inputs: twins (b = a, b = a except one slot, b within / just beyond e of a), full-range
// operands for short / unsigned char (where `x - v.x` stored back to T would wrap), NaN/inf for floating types.
template <class T> struct PromT { typedef T type; };
template <> struct PromT<short> { typedef int type; };
template <> struct PromT<unsigned char> { typedef int type; };
template <> struct PromT<half> { typedef float type; };

inline std::map<std::string, std::set<size_t>>& eqerrLeaves () { static std::map<std::string, std::set<size_t>> m; return m; }
inline std::map<std::string, size_t>& eqerrLeafCount () { static std::map<std::string, size_t> m; return m; }
template <class T> TVFn makeTVEqErr (void (*body) (Ctx<T>&), const char* ty)
{
    return [body, ty] (const FnRecord& f, unsigned long seed, int n, bool, std::string& detail, TVStats& st) -> bool {
        typedef typename PromT<T>::type P;
        std::mt19937_64 g (seed);
        size_t nin = 0;
        for (auto& p : f.params) nin += p.vars.size ();
        size_t N = (nin - 1) / 2; // a (N slots), b (N slots), e
        const bool isInt = std::numeric_limits<T>::is_integer, small = sizeof (T) <= 2 && isInt;
        std::string key = std::string ("eqerr.") + ty;
        for (int k = 0; k < 2 * n; ++k)
        {
            auto in = TVGen<T>::values (g, nin, (small && k % 2) ? 7 : k, true, false);
            T&   e  = in[2 * N];
            if (isInt) { long ev = (long) (g () % (small ? 300 : 12)); if (!std::numeric_limits<T>::is_signed) ev %= 256; e = (T) ev; }
            else if (double (e) < 0 && k % 8 != 7) e = T (-e);
            size_t slot = (size_t) (k / 6) % N; // cycles over the slots: every leaf `false at slot i` is reached
            switch (k % 6)
            {
                case 1: for (size_t i = 0; i < N; ++i) in[N + i] = in[i]; break;                        // equal
                case 2: for (size_t i = 0; i < N; ++i) in[N + i] = in[i];                                   // one slot differs, far
                        in[N + slot] = isInt ? T (in[slot] + T (small ? 77 : 40)) : T (float (double (in[slot]) * 3 + 1000)); break;
                case 3: for (size_t i = 0; i < N; ++i) in[N + i] = in[i];                                   // one slot differs by exactly e / e + 1 ulp-ish
                        if (isInt) in[N + slot] = T (in[slot] + e + T (g () & 1));
                        else in[N + slot] = T (float (double (in[slot]) + double (e) * ((g () & 1) ? 1.0 : 1.5))); break;
                case 4: for (size_t i = 0; i < N; ++i)                                                       // every slot within e
                            in[N + i] = isInt ? T (in[i] + T (g () % 2 ? e : T (0))) : T (float (double (in[i]) + double (e) * 0.5)); break;
                default: break;
            }
            if (isInt && !small && k % 6 == 5)
            {
                // int / int64 extremes without overflow: all operands within 1000 of max (or of min + 1), e in {0, 1}:
                // |x1 - x2| <= 1000 and e * |x1| <= max
                const bool top = (g () & 1) != 0;
                for (size_t i = 0; i < 2 * N; ++i)
                    in[i] = top ? (T) (std::numeric_limits<T>::max () - (T) (g () % 1000)) : (T) (std::numeric_limits<T>::lowest () + 1 + (T) (g () % 1000));
                if (g () % 3) for (size_t i = 0; i < N; ++i) in[N + i] = (g () % 4) ? in[i] : (T) (in[i] + (top ? -1 : 1) * (T) (g () % 2));
                e = (T) (g () % 2);
                ++c04stats ()[key + ".integer_extremes"];
            }
            if (!isInt && k % 12 == 11)
            {
                // floating types: NaN / inf in one operand slot or in e
                double sp = (g () & 1) ? std::numeric_limits<double>::infinity () : std::numeric_limits<double>::quiet_NaN ();
                in[g () % nin] = fromDouble<T> ((g () & 1) ? sp : -sp);
                ++c04stats ()[key + ".naninf"];
            }
            ++st.evals;
            for (size_t q = 1; q < in.size (); ++q) if (!sameBits (in[q], in[0])) { ++st.nontrivial; break; }
            Ctx<T> c;
            c.inputs = &in;
            body (c);
            std::vector<P> inP;
            for (auto& x : in) inP.push_back ((P) x);
            Evaluator<P> ev; std::vector<P> vals; std::vector<long> ints; std::string exc;
            bool ok = ev.run (f, inP, vals, ints, exc);
            if (ok) { st.hit[&f].insert (ev.leafIndex); eqerrLeaves ()[f.name].insert (ev.leafIndex); eqerrLeafCount ()[f.name] = f.paths.size (); }
            if (small) for (size_t i = 0; i < N; ++i) { long d = (long) in[i] - (long) in[N + i]; if (d != (long) (T) d) { ++c04stats ()[key + ".difference_wraps_in_T"]; break; } }
            if (ok && c.cints.size () == 1) ++c04stats ()[key + (c.cints[0] ? ".true" : ".false")];
            if (!ok || ints != c.cints)
            {
                std::ostringstream s;
                s.precision (17);
                s << "boolean differs: real=" << (c.cints.empty () ? -1 : c.cints[0]) << " tree(promoted)=" << (ints.empty () ? -1 : ints[0]) << " :: in=";
                for (auto& x : in) s << (double) x << " ";
                detail = s.str ();
                return false;
            }
        }
        return true;
    };
}
#define EXTRACT_EQERR(module, ident, leanname, ...)                                                    \
    struct X_##ident { template <class T> static void run (symns::Ctx<T>& c) __VA_ARGS__ };            \
    static int reg_##ident = (symns::entries ().push_back (symns::Entry{module, leanname, symns::Opts (), &X_##ident::run<symns::Sym>, \
        {{"double", symns::makeTVEqErr<double> (&X_##ident::run<double>, "double")}, {"float", symns::makeTVEqErr<float> (&X_##ident::run<float>, "float")},  \
         {"half", symns::makeTVEqErr<half> (&X_##ident::run<half>, "half")}, {"int", symns::makeTVEqErr<int> (&X_##ident::run<int>, "int")},              \
         {"short", symns::makeTVEqErr<short> (&X_##ident::run<short>, "short")}, {"int64", symns::makeTVEqErr<int64_t> (&X_##ident::run<int64_t>, "int64")}, \
         {"uchar", symns::makeTVEqErr<unsigned char> (&X_##ident::run<unsigned char>, "uchar")}}, symns::makeRun (&X_##ident::run<double>)}), 0);

//---------------------------------------------------------------------------------------------------
// (1b) == and != : the generic inputs almost never agree in the first k slots, so most leaves of the N+1-leaf
// trees would stay unreached.  Twins: b = a; b = a except ONE slot (cycling over the slots); for the floating types
// also +0 against -0 (equal) and NaN against itself (not equal) in one slot.
template <class T> TVFn makeTVTwin (void (*body) (Ctx<T>&), const char* ty)
{
    return [body, ty] (const FnRecord& f, unsigned long seed, int n, bool, std::string& detail, TVStats& st) -> bool {
        std::mt19937_64 g (seed);
        size_t nin = 0;
        for (auto& p : f.params) nin += p.vars.size ();
        size_t N = nin / 2;
        const bool isInt = std::numeric_limits<T>::is_integer;
        std::string key = std::string ("eq.") + ty;
        for (int k = 0; k < 2 * n; ++k)
        {
            auto in = TVGen<T>::values (g, nin, k, true, false);
            if (isInt && k % 8 >= 4)
            {
                // integer extremes (no arithmetic in == / !=, so any bit pattern is safe)
                const T ext[] = {std::numeric_limits<T>::max (), std::numeric_limits<T>::lowest (), (T) (std::numeric_limits<T>::max () - 1), (T) (std::numeric_limits<T>::lowest () + 1), 0, (T) -1};
                for (auto& x : in) x = (g () % 3 == 0) ? (T) g () : ext[g () % 6];
                ++c04stats ()[key + ".integer_extremes"];
            }
            size_t slot = (size_t) (k / 4) % N;
            if (k % 4 != 0) for (size_t i = 0; i < N; ++i) in[N + i] = in[i];
            if (k % 4 == 2) { in[N + slot] = isInt ? T (in[slot] + T (1 + g () % 5)) : T (float (double (in[slot]) + 0.5 + double (g () % 4))); ++c04stats ()[key + ".one_slot_differs"]; }
            if (k % 4 == 1) ++c04stats ()[key + ".equal"];
            if (!isInt && k % 4 == 3)
            {
                if (k % 8 == 3) { in[slot] = fromDouble<T> (0.0); in[N + slot] = fromDouble<T> (-0.0); ++c04stats ()[key + ".plus_zero_vs_minus_zero"]; }
                else { in[slot] = in[N + slot] = fromDouble<T> (std::numeric_limits<double>::quiet_NaN ()); ++c04stats ()[key + ".nan_vs_itself"]; }
            }
            ++st.evals;
            for (size_t q = 1; q < in.size (); ++q) if (!sameBits (in[q], in[0])) { ++st.nontrivial; break; }
            std::string d;
            size_t leaf = (size_t) -1;
            bool okOne = tvOne<T> (f, body, in, d, &leaf);
            if (leaf != (size_t) -1) st.hit[&f].insert (leaf);
            if (!okOne)
            {
                std::ostringstream s;
                s.precision (17);
                s << d << " :: in=";
                for (auto& x : in) s << (double) x << " ";
                detail = s.str ();
                return false;
            }
        }
        return true;
    };
}
#define EXTRACT_TWIN(module, ident, leanname, ...)                                                     \
    struct X_##ident { template <class T> static void run (symns::Ctx<T>& c) __VA_ARGS__ };            \
    static int reg_##ident = (symns::entries ().push_back (symns::Entry{module, leanname, symns::Opts (), &X_##ident::run<symns::Sym>, \
        {{"double", symns::makeTVTwin<double> (&X_##ident::run<double>, "double")}, {"float", symns::makeTVTwin<float> (&X_##ident::run<float>, "float")},  \
         {"half", symns::makeTVTwin<half> (&X_##ident::run<half>, "half")}, {"int", symns::makeTVTwin<int> (&X_##ident::run<int>, "int")},              \
         {"short", symns::makeTVTwin<short> (&X_##ident::run<short>, "short")}, {"int64", symns::makeTVTwin<int64_t> (&X_##ident::run<int64_t>, "int64")}, \
         {"uchar", symns::makeTVTwin<unsigned char> (&X_##ident::run<unsigned char>, "uchar")}}, symns::makeRun (&X_##ident::run<double>)}), 0);

//---------------------------------------------------------------------------------------------------
// (2) division entries: the divisor is non-zero for the INTEGER element types only (division by zero is undefined
// there); for double / float / half both operands also take +-0, +-inf, NaN, the smallest denormal and the largest
// finite value, and the result is compared bitwise (NaNs by NaN-ness) like every other entry.
template <class T> TVFn makeTVDivF (void (*body) (Ctx<T>&), const char* ty)
{
    return [body, ty] (const FnRecord& f, unsigned long seed, int n, bool, std::string& detail, TVStats& st) -> bool {
        std::mt19937_64 g (seed ^ 0x9e3779b97f4a7c15ull);
        size_t nin = 0;
        for (auto& p : f.params) nin += p.vars.size ();
        const double inf = std::numeric_limits<double>::infinity (), nan = std::numeric_limits<double>::quiet_NaN ();
        const T sp[] = {fromDouble<T> (0.0), fromDouble<T> (-0.0), fromDouble<T> (inf), fromDouble<T> (-inf), fromDouble<T> (nan),
                        std::numeric_limits<T>::denorm_min (), std::numeric_limits<T>::max (), T (-std::numeric_limits<T>::max ())};
        std::string key = std::string ("div.") + ty;
        for (int k = 0; k < n; ++k)
        {
            auto in = TVGen<T>::values (g, nin, k, false, false);
            if (k % 2)
            {
                // 1, 2 or all slots special (the divisor of a / s is the LAST input, of a / b the second half)
                size_t cnt = (k % 6 == 5) ? nin : 1 + g () % 2;
                for (size_t j = 0; j < cnt; ++j) in[cnt == nin ? j : (j == 0 ? nin - 1 - g () % ((nin + 1) / 2) : g () % nin)] = sp[g () % 8];
            }
            bool z = false, i = false, q = false;
            for (auto& x : in) { double d = (double) x; z |= d == 0; i |= std::isinf (d); q |= d != d; }
            c04stats ()[key + ".zero"] += z; c04stats ()[key + ".inf"] += i; c04stats ()[key + ".nan"] += q;
            ++st.evals;
            for (size_t q2 = 1; q2 < in.size (); ++q2) if (!sameBits (in[q2], in[0])) { ++st.nontrivial; break; }
            std::string d;
            if (!tvOne<T> (f, body, in, d))
            {
                std::ostringstream s;
                s.precision (17);
                s << d << " :: in=";
                for (auto& x : in) s << (double) x << " ";
                detail = s.str ();
                return false;
            }
        }
        return true;
    };
}
#define EXTRACT_DIV(module, ident, leanname, ...)                                                      \
    struct X_##ident { template <class T> static void run (symns::Ctx<T>& c) __VA_ARGS__ };            \
    static int reg_##ident = (symns::entries ().push_back (symns::Entry{module, leanname, symns::Opts ().nz (), &X_##ident::run<symns::Sym>, \
        {{"double", symns::makeTVDivF<double> (&X_##ident::run<double>, "double")}, {"float", symns::makeTVDivF<float> (&X_##ident::run<float>, "float")},  \
         {"half", symns::makeTVDivF<half> (&X_##ident::run<half>, "half")}, {"int", symns::makeTVIntX<int> (&X_##ident::run<int>, "int")},              \
         {"short", symns::makeTV<short> (&X_##ident::run<short>)}, {"int64", symns::makeTVIntX<int64_t> (&X_##ident::run<int64_t>, "int64")}, \
         {"uchar", symns::makeTV<unsigned char> (&X_##ident::run<unsigned char>)}}, symns::makeRun (&X_##ident::run<double>)}), 0);

//---------------------------------------------------------------------------------------------------
// (3) conversions between element types with the cast VISIBLE.  `SymS` is the scalar of the OTHER element type:
// its values are variables of type β, and converting one to `Sym` records a CAST node, emitted as an application
// of the parameter `cast : β → α`.  (SymB above converts silently: it only forces the templates to be instantiated.)
struct SymS
{
    const Node* n;
    SymS () : n (pool ().mk (LIT, {}, "", 0.0)) {}
    SymS (int v) : n (pool ().mk (LIT, {}, "", (double) v)) {}
    static SymS var (const Node* p) { SymS s; s.n = p; return s; }
    operator Sym () const { return Sym (pool ().mk (CAST, {n})); }
};
template <class X> inline X cvtD (double v) { if constexpr (std::is_same<X, half>::value) return half ((float) v); else return static_cast<X> (v); }
// A = source element type (all `src` inputs), B = destination element type (all outputs, `dst` inputs)
template <class A, class B> struct Ctx2
{
    const std::vector<double>* allIn = nullptr; size_t ap = 0; // replay: one list of numbers in parameter order
    static constexpr bool symbolic = std::is_same<B, Sym>::value;
    Ctx<Sym>*             sc = nullptr;
    const std::vector<A>* srcIn = nullptr; size_t sp = 0;
    const std::vector<B>* dstIn = nullptr; size_t dp = 0;
    std::vector<B>        outs;
    template <class G> G src (const std::string& name)
    {
        G               a{};
        std::vector<A*> ptrs;
        Agg<G>::flat (a, ptrs);
        if constexpr (symbolic)
        {
            std::vector<std::string> lv;
            Agg<G>::shape ()->leaves ("", lv);
            Param p{name, Agg<G>::shape (), {}, true};
            for (size_t i = 0; i < ptrs.size (); ++i)
            {
                Sym v    = Sym::var (name + "." + lv[i]);
                *ptrs[i] = SymS::var (v.n);
                p.vars.push_back (v.n);
            }
            if (sc->first) sc->rec->params.push_back (p);
        }
        else for (auto* p : ptrs) *p = allIn ? cvtD<A> ((*allIn)[ap++]) : (*srcIn)[sp++];
        return a;
    }
    template <class G> G dst (const std::string& name)
    {
        if constexpr (symbolic) return sc->template in<G> (name);
        else
        {
            G               a{};
            std::vector<B*> ptrs;
            Agg<G>::flat (a, ptrs);
            for (auto* p : ptrs) *p = allIn ? cvtD<B> ((*allIn)[ap++]) : (*dstIn)[dp++];
            return a;
        }
    }
    template <class G> void out (const G& a0)
    {
        if constexpr (symbolic) sc->out (a0);
        else
        {
            G               a = a0;
            std::vector<B*> ptrs;
            Agg<G>::flat (a, ptrs);
            for (auto* p : ptrs) outs.push_back (*p);
        }
    }
};
// the scalar conversion the property speaks of, and inputs on which it is not the identity
template <class A, class B> struct CastGen;
template <> struct CastGen<double, float>
{
    static double v (std::mt19937_64& g, int k)
    {
        static const double sp[] = {1.0 + 5.9604644775390625e-8, 1.0 + 5.9604644775390625e-8 + 1e-15, 1.0 + 3 * 5.9604644775390625e-8, 0.1, -0.1, 1e-40, -1e-40,
                                    1e-46, 7.006492321624085e-46, -0.0, 16777217.0, 3.4028234663852886e38, -3.4028234663852886e38, 1.0 / 3.0, 1e-300,
                                    std::numeric_limits<double>::infinity (), -std::numeric_limits<double>::infinity (), std::numeric_limits<double>::quiet_NaN ()};
        if (k % 3 == 0) return sp[g () % (sizeof (sp) / sizeof (double))];
        return std::uniform_real_distribution<double> (-1000.0, 1000.0) (g) * ((k % 3 == 1) ? 1.0 : 1e-3);
    }
};
template <> struct CastGen<float, half>
{
    static float v (std::mt19937_64& g, int k)
    {
        static const float sp[] = {65504.f, 65519.f, 65520.f, -65520.f, 1e-8f, 5.9604645e-8f, 2.9802322e-8f, 2.9802326e-8f, 0.1f, -0.1f, 1.0f + 4.8828125e-4f,
                                   1.0f + 3 * 4.8828125e-4f, -0.0f, 1e10f, 6.1e-5f, 6.0975552e-5f, 1.0f / 3.0f,
                                   std::numeric_limits<float>::infinity (), -std::numeric_limits<float>::infinity (), std::numeric_limits<float>::quiet_NaN ()};
        if (k % 3 == 0) return sp[g () % (sizeof (sp) / sizeof (float))];
        return std::uniform_real_distribution<float> (-1000.f, 1000.f) (g) * ((k % 3 == 1) ? 1.0f : 1e-4f);
    }
};
template <> struct CastGen<double, int>
{
    // only values whose truncation is representable (anything else is undefined behaviour of the scalar cast itself)
    static double v (std::mt19937_64& g, int k)
    {
        static const double sp[] = {0.5, -0.5, 0.999, -0.999, 1.5, -1.5, 2.5, -2.5, 2147483647.0, -2147483648.0, 2147483647.9, -2147483648.9, 1e9 + 0.7, -1e-300, -0.0, 1e-300};
        if (k % 3 == 0) return sp[g () % (sizeof (sp) / sizeof (double))];
        return std::uniform_real_distribution<double> (-1000.0, 1000.0) (g) * ((k % 3 == 1) ? 1.0 : 1e6);
    }
};
template <> struct CastGen<int, unsigned char>
{
    static int v (std::mt19937_64& g, int k)
    {
        static const int sp[] = {-1, 255, 256, 257, -256, -255, INT_MAX, INT_MIN, 511, 128, -128, 65535, 65536, 0};
        if (k % 3 == 0) return sp[g () % (sizeof (sp) / sizeof (int))];
        return (k % 3 == 1) ? (int) (g () % 1024) - 512 : (int) (uint32_t) g ();
    }
};
template <class A, class B> inline bool castTree (const Node* n, const std::map<const Node*, A>& senv, const std::map<const Node*, B>& denv, B& r)
{
    // the trees of the conversion entries are slot casts: CAST (source variable), a destination variable, or a literal
    if (n->op == CAST && n->k[0]->op == VAR) { auto it = senv.find (n->k[0]); if (it == senv.end ()) return false; r = static_cast<B> (it->second); return true; }
    if (n->op == VAR) { auto it = denv.find (n); if (it == denv.end ()) return false; r = it->second; return true; }
    if (n->op == LIT) { r = static_cast<B> ((float) n->lit); return true; }
    return false;
}
template <class A, class B> TVFn makeTVCast (void (*body) (Ctx2<A, B>&), const char* pair)
{
    return [body, pair] (const FnRecord& f, unsigned long seed, int n, bool, std::string& detail, TVStats& st) -> bool {
        std::mt19937_64 g (seed);
        std::string key = std::string ("cast.") + pair;
        if (f.paths.size () != 1) { detail = "conversion entry with more than one path"; return false; }
        for (int k = 0; k < n; ++k)
        {
            std::vector<A> sv; std::vector<B> dv;
            std::map<const Node*, A> senv; std::map<const Node*, B> denv;
            for (auto& p : f.params)
                for (auto* v : p.vars)
                {
                    if (p.src) { sv.push_back (CastGen<A, B>::v (g, k)); senv[v] = sv.back (); }
                    else { dv.push_back (TVGen<B>::values (g, 1, k, false, false)[0]); denv[v] = dv.back (); }
                }
            Ctx2<A, B> c;
            c.srcIn = &sv; c.dstIn = &dv;
            body (c);
            ++st.evals;
            bool inexact = false, distinct = false;
            for (auto& x : sv) { B b = static_cast<B> (x); if (!(static_cast<A> (b) == x) && x == x) inexact = true; if (!sameBits (x, sv[0])) distinct = true; }
            st.nontrivial += distinct;
            c04stats ()[key + ".evaluations"] += 1;
            c04stats ()[key + ".with_an_inexact_slot"] += inexact;
            const Leaf& l = f.paths[0].leaf;
            bool ok = l.vals.size () == c.outs.size ();
            std::ostringstream s;
            s.precision (17);
            for (size_t i = 0; ok && i < l.vals.size (); ++i)
            {
                B want;
                if (!castTree<A, B> (l.vals[i], senv, denv, want)) { s << "slot " << i << " of the extracted tree is not a plain slot cast"; ok = false; break; }
                if (!sameBits (want, c.outs[i])) { s << "component " << i << ": real=" << (double) c.outs[i] << " static_cast of the slot the tree names=" << (double) want; ok = false; }
            }
            if (!ok)
            {
                if (l.vals.size () != c.outs.size ()) s << "result arity differs";
                s << " :: in=";
                for (auto& x : sv) s << (double) x << " ";
                detail = s.str ();
                return false;
            }
        }
        return true;
    };
}
template <class F> inline RunFn makeRunCast (F body)
{
    // replay at double -> float: the numbers are consumed in parameter order (destination-typed inputs are converted to float)
    return [body] (const std::vector<double>& in, std::vector<double>& vals, std::vector<long>&, std::string&) {
        Ctx2<double, float> c;
        c.allIn = &in;
        body (c);
        vals.assign (c.outs.begin (), c.outs.end ());
    };
}
#define EXTRACT_CAST(module, ident, leanname, ...)                                                     \
    struct X_##ident { template <class A, class B> static void run (symns::Ctx2<A, B>& c) __VA_ARGS__ }; \
    static int reg_##ident = (symns::entries ().push_back (symns::Entry{module, leanname, symns::Opts (),  \
        [] (symns::Ctx<symns::Sym>& c) { symns::Ctx2<symns::SymS, symns::Sym> c2; c2.sc = &c; X_##ident::run<symns::SymS, symns::Sym> (c2); }, \
        {{"double>float", symns::makeTVCast<double, float> (&X_##ident::run<double, float>, "double>float")},       \
         {"float>half", symns::makeTVCast<float, half> (&X_##ident::run<float, half>, "float>half")},               \
         {"double>int", symns::makeTVCast<double, int> (&X_##ident::run<double, int>, "double>int")},               \
         {"int>uchar", symns::makeTVCast<int, unsigned char> (&X_##ident::run<int, unsigned char>, "int>uchar")}}, \
        symns::makeRunCast (&X_##ident::run<double, float>)}), 0);
}

#define IN(Ty, n) auto n = c.template in<Ty<T>> (#n)

// + - unary- with an operand of the same type
#define G_ADDSUB(M, Ty, id, L)                                                                      \
    EXTRACT_ALLT (M, id##_add, L ".add", { IN (Ty, a); IN (Ty, b); c.out (a + b); })                 \
    EXTRACT_ALLT (M, id##_addAssign, L ".addAssign", { IN (Ty, a); IN (Ty, b); a += b; c.out (a); }) \
    EXTRACT_ALLT (M, id##_sub, L ".sub", { IN (Ty, a); IN (Ty, b); c.out (a - b); })                 \
    EXTRACT_ALLT (M, id##_subAssign, L ".subAssign", { IN (Ty, a); IN (Ty, b); a -= b; c.out (a); }) \
    EXTRACT_ALLT (M, id##_neg, L ".neg", { IN (Ty, a); c.out (-a); })
#define G_NEGATE(M, Ty, id, L) EXTRACT_ALLT (M, id##_negate, L ".negate", { IN (Ty, a); a.negate (); c.out (a); })
// component-wise * / with an operand of the same type
#define G_MULDIV(M, Ty, id, L)                                                                      \
    EXTRACT_ALLT (M, id##_mul, L ".mul", { IN (Ty, a); IN (Ty, b); c.out (a * b); })                 \
    EXTRACT_ALLT (M, id##_mulAssign, L ".mulAssign", { IN (Ty, a); IN (Ty, b); a *= b; c.out (a); }) \
    EXTRACT_DIV (M, id##_div, L ".div", { IN (Ty, a); IN (Ty, b); c.out (a / b); })         \
    EXTRACT_DIV (M, id##_divAssign, L ".divAssign", { IN (Ty, a); IN (Ty, b); a /= b; c.out (a); })
// scalar on either side
#define G_SCALAR(M, Ty, id, L)                                                                      \
    EXTRACT_ALLT (M, id##_mulS, L ".mulS", { IN (Ty, a); T s = c.inS ("s"); c.out (a * s); })        \
    EXTRACT_ALLT (M, id##_mulSAssign, L ".mulSAssign", { IN (Ty, a); T s = c.inS ("s"); a *= s; c.out (a); }) \
    EXTRACT_ALLT (M, id##_smul, L ".smul", { T s = c.inS ("s"); IN (Ty, a); c.out (s * a); })        \
    EXTRACT_DIV (M, id##_divS, L ".divS", { IN (Ty, a); T s = c.inS ("s"); c.out (a / s); }) \
    EXTRACT_DIV (M, id##_divSAssign, L ".divSAssign", { IN (Ty, a); T s = c.inS ("s"); a /= s; c.out (a); })
// matrices: scalar + and - (compound only)
#define G_ADDS(M, Ty, id, L)                                                                        \
    EXTRACT_ALLT (M, id##_addSAssign, L ".addSAssign", { IN (Ty, a); T s = c.inS ("s"); a += s; c.out (a); }) \
    EXTRACT_ALLT (M, id##_subSAssign, L ".subSAssign", { IN (Ty, a); T s = c.inS ("s"); a -= s; c.out (a); })
#define G_EQ(M, Ty, id, L)                                                                          \
    EXTRACT_TWIN (M, id##_eq, L ".eq", { IN (Ty, a); IN (Ty, b); c.outB (a == b); })                 \
    EXTRACT_TWIN (M, id##_ne, L ".ne", { IN (Ty, a); IN (Ty, b); c.outB (a != b); })
#define G_EQERR(M, Ty, id, L)                                                                       \
    EXTRACT_EQERR (M, id##_eqAbs, L ".equalWithAbsError", { IN (Ty, a); IN (Ty, b); T e = c.inS ("e"); c.outB (a.equalWithAbsError (b, e)); }) \
    EXTRACT_EQERR (M, id##_eqRel, L ".equalWithRelError", { IN (Ty, a); IN (Ty, b); T e = c.inS ("e"); c.outB (a.equalWithRelError (b, e)); })
// operator[] read and write of every slot, raw pointer access
#define G_INDEX(M, Ty, id, L, N)                                                                    \
    EXTRACT_ALLT (M, id##_indexAll, L ".indexAll", { IN (Ty, a); const Ty<T>& ca = a; Ty<T> r; T* p = reinterpret_cast<T*> (&r); for (int i = 0; i < N; ++i) p[i] = ca[i]; c.out (r); }) \
    EXTRACT_ALLT (M, id##_setIndexAll, L ".setIndexAll", { IN (Ty, a); IN (Ty, b); const T* p = reinterpret_cast<const T*> (&b); for (int i = 0; i < N; ++i) a[i] = p[i]; c.out (a); }) \
    EXTRACT_ALLT (M, id##_getValuePtr, L ".getValuePtr", { IN (Ty, a); const Ty<T>& ca = a; const T* q = ca.getValue (); Ty<T> r; T* p = r.getValue (); for (int i = 0; i < N; ++i) p[i] = q[i]; c.out (r); })
#define G_INDEX2(M, Ty, id, L, N)                                                                   \
    EXTRACT_ALLT (M, id##_indexAll, L ".indexAll", { IN (Ty, a); const Ty<T>& ca = a; Ty<T> r; for (int i = 0; i < N; ++i) for (int j = 0; j < N; ++j) r.x[i][j] = ca[i][j]; c.out (r); }) \
    EXTRACT_ALLT (M, id##_setIndexAll, L ".setIndexAll", { IN (Ty, a); IN (Ty, b); for (int i = 0; i < N; ++i) for (int j = 0; j < N; ++j) a[i][j] = b.x[i][j]; c.out (a); }) \
    EXTRACT_ALLT (M, id##_getValuePtr, L ".getValuePtr", { IN (Ty, a); const Ty<T>& ca = a; const T* q = ca.getValue (); Ty<T> r; T* p = r.getValue (); for (int i = 0; i < N * N; ++i) p[i] = q[i]; c.out (r); })
// converting constructor / setValue / getValue through another element type S
#define G_CONVERT(M, Ty, id, L)                                                                     \
    EXTRACT_ALLT (M, id##_convert, L ".convertCtor", { typedef typename symns::OtherT<T>::type S; IN (Ty, a); Ty<S> s (a); Ty<T> b (s); c.out (b); }) \
    EXTRACT_ALLT (M, id##_setValueV, L ".setValueV", { typedef typename symns::OtherT<T>::type S; IN (Ty, a); IN (Ty, b); Ty<S> s (b); a.setValue (s); c.out (a); }) \
    EXTRACT_ALLT (M, id##_getValueV, L ".getValueV", { typedef typename symns::OtherT<T>::type S; IN (Ty, a); Ty<S> s; a.getValue (s); Ty<T> b (s); c.out (b); })

// ---- Vec2/3/4
#define VEC_ALL(Ty, id, L, N) G_ADDSUB ("C04Vec", Ty, id, L) G_NEGATE ("C04Vec", Ty, id, L) G_MULDIV ("C04Vec", Ty, id, L) G_SCALAR ("C04Vec", Ty, id, L) \
    G_EQ ("C04Vec", Ty, id, L) G_EQERR ("C04Vec", Ty, id, L) G_INDEX ("C04Vec", Ty, id, L, N) G_CONVERT ("C04Vec", Ty, id, L)
VEC_ALL (Vec2, v2, "V2", 2)
VEC_ALL (Vec3, v3, "V3", 3)
VEC_ALL (Vec4, v4, "V4", 4)
EXTRACT_ALLT ("C04Vec", v2_setValueS, "V2.setValueS", { typedef typename symns::OtherT<T>::type S; IN (Vec2, a); IN (Vec2, b); a.setValue (S (b.x), S (b.y)); c.out (a); })
EXTRACT_ALLT ("C04Vec", v3_setValueS, "V3.setValueS", { typedef typename symns::OtherT<T>::type S; IN (Vec3, a); IN (Vec3, b); a.setValue (S (b.x), S (b.y), S (b.z)); c.out (a); })
EXTRACT_ALLT ("C04Vec", v4_setValueS, "V4.setValueS", { typedef typename symns::OtherT<T>::type S; IN (Vec4, a); IN (Vec4, b); a.setValue (S (b.x), S (b.y), S (b.z), S (b.w)); c.out (a); })
EXTRACT_ALLT ("C04Vec", v2_getValueS, "V2.getValueS", { typedef typename symns::OtherT<T>::type S; IN (Vec2, a); S p, q; a.getValue (p, q); c.out (Vec2<T> (T (p), T (q))); })
EXTRACT_ALLT ("C04Vec", v3_getValueS, "V3.getValueS", { typedef typename symns::OtherT<T>::type S; IN (Vec3, a); S p, q, r; a.getValue (p, q, r); c.out (Vec3<T> (T (p), T (q), T (r))); })
EXTRACT_ALLT ("C04Vec", v4_getValueS, "V4.getValueS", { typedef typename symns::OtherT<T>::type S; IN (Vec4, a); S p, q, r, w; a.getValue (p, q, r, w); c.out (Vec4<T> (T (p), T (q), T (r), T (w))); })
EXTRACT_ALLT ("C04Vec", v2_ctorS, "V2.ctorScalar", { T s = c.inS ("s"); c.out (Vec2<T> (s)); })
EXTRACT_ALLT ("C04Vec", v3_ctorS, "V3.ctorScalar", { T s = c.inS ("s"); c.out (Vec3<T> (s)); })
EXTRACT_ALLT ("C04Vec", v4_ctorS, "V4.ctorScalar", { T s = c.inS ("s"); c.out (Vec4<T> (s)); })

EXTRACT_ALLT ("C04Vec", v4_fromV3, "V4.fromV3", { IN (Vec3, a); c.out (Vec4<T> (a)); })
// foreign-type interop (has_xy / has_xyz / has_xyzw / has_subscript)
EXTRACT_ALLT ("C04Vec", v2_interopXY, "V2.interopXY", { IN (Vec2, a); symns::FXY<T> f{a.x, a.y}; Vec2<T> b (f); Vec2<T> d; d = f; c.out (b); c.out (d); })
EXTRACT_ALLT ("C04Vec", v3_interopXYZ, "V3.interopXYZ", { IN (Vec3, a); symns::FXYZ<T> f{a.x, a.y, a.z}; Vec3<T> b (f); Vec3<T> d; d = f; c.out (b); c.out (d); })
EXTRACT_ALLT ("C04Vec", v4_interopXYZW, "V4.interopXYZW", { IN (Vec4, a); symns::FXYZW<T> f{a.x, a.y, a.z, a.w}; Vec4<T> b (f); Vec4<T> d; d = f; c.out (b); c.out (d); })
EXTRACT_ALLT ("C04Vec", v2_interopSub, "V2.interopSub", { IN (Vec2, a); symns::FSub<T, 2> f{{a.x, a.y}}; Vec2<T> b (f); Vec2<T> d; d = f; c.out (b); c.out (d); })
EXTRACT_ALLT ("C04Vec", v3_interopSub, "V3.interopSub", { IN (Vec3, a); symns::FSub<T, 3> f{{a.x, a.y, a.z}}; Vec3<T> b (f); Vec3<T> d; d = f; c.out (b); c.out (d); })
EXTRACT_ALLT ("C04Vec", v4_interopSub, "V4.interopSub", { IN (Vec4, a); symns::FSub<T, 4> f{{a.x, a.y, a.z, a.w}}; Vec4<T> b (f); Vec4<T> d; d = f; c.out (b); c.out (d); })

// ---- Color3 / Color4
G_ADDSUB ("C04Color", Color3, c3, "C3") G_NEGATE ("C04Color", Color3, c3, "C3") G_MULDIV ("C04Color", Color3, c3, "C3") G_SCALAR ("C04Color", Color3, c3, "C3")
G_ADDSUB ("C04Color", Color4, c4, "C4") G_NEGATE ("C04Color", Color4, c4, "C4") G_MULDIV ("C04Color", Color4, c4, "C4") G_SCALAR ("C04Color", Color4, c4, "C4")
G_EQ ("C04Color", Color4, c4, "C4") G_INDEX ("C04Color", Color4, c4, "C4", 4) G_CONVERT ("C04Color", Color4, c4, "C4")
EXTRACT_ALLT ("C04Color", c4_setValueS, "C4.setValueS", { typedef typename symns::OtherT<T>::type S; IN (Color4, a); IN (Color4, b); a.setValue (S (b.r), S (b.g), S (b.b), S (b.a)); c.out (a); })
EXTRACT_ALLT ("C04Color", c4_getValueS, "C4.getValueS", { typedef typename symns::OtherT<T>::type S; IN (Color4, a); S p, q, r, w; a.getValue (p, q, r, w); c.out (Color4<T> (T (p), T (q), T (r), T (w))); })
EXTRACT_ALLT ("C04Color", c3_fromV3, "C3.fromV3", { IN (Vec3, a); c.out (Color3<T> (a)); })
EXTRACT_ALLT ("C04Color", c3_ctorS, "C3.ctorScalar", { T s = c.inS ("s"); c.out (Color3<T> (s)); })
EXTRACT_ALLT ("C04Color", c4_ctorS, "C4.ctorScalar", { T s = c.inS ("s"); c.out (Color4<T> (s)); })

// ---- Shear6
G_ADDSUB ("C04Shear", Shear6, sh, "Shear6") G_NEGATE ("C04Shear", Shear6, sh, "Shear6") G_MULDIV ("C04Shear", Shear6, sh, "Shear6") G_SCALAR ("C04Shear", Shear6, sh, "Shear6")
G_EQ ("C04Shear", Shear6, sh, "Shear6") G_EQERR ("C04Shear", Shear6, sh, "Shear6") G_INDEX ("C04Shear", Shear6, sh, "Shear6", 6) G_CONVERT ("C04Shear", Shear6, sh, "Shear6")
EXTRACT_ALLT ("C04Shear", sh_setValueS, "Shear6.setValueS", { typedef typename symns::OtherT<T>::type S; IN (Shear6, a); IN (Shear6, b); a.setValue (S (b.xy), S (b.xz), S (b.yz), S (b.yx), S (b.zx), S (b.zy)); c.out (a); })
EXTRACT_ALLT ("C04Shear", sh_getValueS, "Shear6.getValueS", { typedef typename symns::OtherT<T>::type S; IN (Shear6, a); S p, q, r, u, v, w; a.getValue (p, q, r, u, v, w); c.out (Shear6<T> (T (p), T (q), T (r), T (u), T (v), T (w))); })
EXTRACT_ALLT ("C04Shear", sh_fromV3, "Shear6.fromV3", { IN (Vec3, a); Shear6<T> s (a); Shear6<T> t; t = a; c.out (s); c.out (t); })
EXTRACT_ALLT ("C04Shear", sh_ctor3, "Shear6.ctor3", { IN (Vec3, a); c.out (Shear6<T> (a.x, a.y, a.z)); })

// ---- Quat (+, -, unary -, scalar *, /; the quaternion product is C05)
EXTRACT_ALLT ("C04Quat", q_add, "Quat.add", { IN (Quat, a); IN (Quat, b); c.out (a + b); })
EXTRACT_ALLT ("C04Quat", q_addAssign, "Quat.addAssign", { IN (Quat, a); IN (Quat, b); a += b; c.out (a); })
EXTRACT_ALLT ("C04Quat", q_sub, "Quat.sub", { IN (Quat, a); IN (Quat, b); c.out (a - b); })
EXTRACT_ALLT ("C04Quat", q_subAssign, "Quat.subAssign", { IN (Quat, a); IN (Quat, b); a -= b; c.out (a); })
EXTRACT_ALLT ("C04Quat", q_neg, "Quat.neg", { IN (Quat, a); c.out (-a); })
EXTRACT_ALLT ("C04Quat", q_mulS, "Quat.mulS", { IN (Quat, a); T s = c.inS ("s"); c.out (a * s); })
EXTRACT_ALLT ("C04Quat", q_mulSAssign, "Quat.mulSAssign", { IN (Quat, a); T s = c.inS ("s"); a *= s; c.out (a); })
EXTRACT_ALLT ("C04Quat", q_smul, "Quat.smul", { T s = c.inS ("s"); IN (Quat, a); c.out (s * a); })
EXTRACT_DIV ("C04Quat", q_divS, "Quat.divS", { IN (Quat, a); T s = c.inS ("s"); c.out (a / s); })
EXTRACT_DIV ("C04Quat", q_divSAssign, "Quat.divSAssign", { IN (Quat, a); T s = c.inS ("s"); a /= s; c.out (a); })
G_EQ ("C04Quat", Quat, q, "Quat")
EXTRACT_ALLT ("C04Quat", q_indexAll, "Quat.indexAll", { IN (Quat, a); const Quat<T>& ca = a; c.out (Quat<T> (ca[0], ca[1], ca[2], ca[3])); })
EXTRACT_ALLT ("C04Quat", q_setIndexAll, "Quat.setIndexAll", { IN (Quat, a); IN (Quat, b); a[0] = b.r; a[1] = b.v.x; a[2] = b.v.y; a[3] = b.v.z; c.out (a); })
EXTRACT_ALLT ("C04Quat", q_convert, "Quat.convertCtor", { typedef typename symns::OtherT<T>::type S; IN (Quat, a); Quat<S> s (a); Quat<T> b (s); c.out (b); })
EXTRACT_ALLT ("C04Quat", q_ctor4, "Quat.ctor4", { IN (Quat, a); c.out (Quat<T> (a.r, a.v.x, a.v.y, a.v.z)); })
EXTRACT_ALLT ("C04Quat", q_ctorSV, "Quat.ctorSV", { IN (Quat, a); c.out (Quat<T> (a.r, a.v)); })

// ---- Matrix22/33/44 element-wise
#define MAT_ALL(Ty, id, L, N) G_ADDSUB ("C04Mat", Ty, id, L) G_NEGATE ("C04Mat", Ty, id, L) G_ADDS ("C04Mat", Ty, id, L) \
    EXTRACT_ALLT ("C04Mat", id##_mulS, L ".mulS", { IN (Ty, a); T s = c.inS ("s"); c.out (a * s); })        \
    EXTRACT_ALLT ("C04Mat", id##_mulSAssign, L ".mulSAssign", { IN (Ty, a); T s = c.inS ("s"); a *= s; c.out (a); }) \
    EXTRACT_ALLT ("C04Mat", id##_smul, L ".smul", { T s = c.inS ("s"); IN (Ty, a); c.out (s * a); })        \
    EXTRACT_DIV ("C04Mat", id##_divS, L ".divS", { IN (Ty, a); T s = c.inS ("s"); c.out (a / s); }) \
    EXTRACT_DIV ("C04Mat", id##_divSAssign, L ".divSAssign", { IN (Ty, a); T s = c.inS ("s"); a /= s; c.out (a); }) \
    G_EQ ("C04Mat", Ty, id, L) G_EQERR ("C04Mat", Ty, id, L) G_INDEX2 ("C04Mat", Ty, id, L, N)              \
    EXTRACT_ALLT ("C04Mat", id##_convert, L ".convertCtor", { typedef typename symns::OtherT<T>::type S; IN (Ty, a); Ty<S> s (a); Ty<T> b (s); c.out (b); }) \
    EXTRACT_ALLT ("C04Mat", id##_setValueM, L ".setValueM", { typedef typename symns::OtherT<T>::type S; IN (Ty, a); IN (Ty, b); Ty<S> s (b); a.setValue (s); c.out (a); }) \
    EXTRACT_ALLT ("C04Mat", id##_getValueM, L ".getValueM", { typedef typename symns::OtherT<T>::type S; IN (Ty, a); Ty<S> s; a.getValue (s); Ty<T> b (s); c.out (b); }) \
    EXTRACT_ALLT ("C04Mat", id##_assignS, L ".assignScalar", { IN (Ty, a); T s = c.inS ("s"); a = s; c.out (a); }) \
    EXTRACT_ALLT ("C04Mat", id##_ctorS, L ".ctorScalar", { T s = c.inS ("s"); c.out (Ty<T> (s)); })         \
    EXTRACT_ALLT ("C04Mat", id##_ctorArr, L ".ctorArray", { IN (Ty, a); T arr[N][N]; for (int i = 0; i < N; ++i) for (int j = 0; j < N; ++j) arr[i][j] = a.x[i][j]; c.out (Ty<T> (arr)); }) \
    EXTRACT_ALLT ("C04Mat", id##_interop, L ".interopSub2", { IN (Ty, a); symns::FSub2<T, N> f; for (int i = 0; i < N; ++i) for (int j = 0; j < N; ++j) f.d[i][j] = a.x[i][j]; Ty<T> b (f); Ty<T> d; d = f; c.out (b); c.out (d); })
MAT_ALL (Matrix22, m22, "M22", 2)
MAT_ALL (Matrix33, m33, "M33", 3)
MAT_ALL (Matrix44, m44, "M44", 4)
EXTRACT_ALLT ("C04Mat", m22_ctor4, "M22.ctorElems", { IN (Matrix22, a); c.out (Matrix22<T> (a.x[0][0], a.x[0][1], a.x[1][0], a.x[1][1])); })
EXTRACT_ALLT ("C04Mat", m33_ctor9, "M33.ctorElems", { IN (Matrix33, a); c.out (Matrix33<T> (a.x[0][0], a.x[0][1], a.x[0][2], a.x[1][0], a.x[1][1], a.x[1][2], a.x[2][0], a.x[2][1], a.x[2][2])); })
EXTRACT_ALLT ("C04Mat", m44_ctor16, "M44.ctorElems", { IN (Matrix44, a); c.out (Matrix44<T> (a.x[0][0], a.x[0][1], a.x[0][2], a.x[0][3], a.x[1][0], a.x[1][1], a.x[1][2], a.x[1][3], a.x[2][0], a.x[2][1], a.x[2][2], a.x[2][3], a.x[3][0], a.x[3][1], a.x[3][2], a.x[3][3])); })

// ---- stream output: the printed text with one opaque token per element, in three stream states
#define SHOW3(M, Ty, id, L)                                                                          \
    EXTRACT_ALLT (M, id##_show, L ".show", { IN (Ty, a); std::ostringstream os; os << a; c.outStr (os.str ()); })            \
    EXTRACT_ALLT (M, id##_showFixed, L ".showFixed", { IN (Ty, a); std::ostringstream os; os << std::fixed << std::setprecision (3) << a; c.outStr (os.str ()); }) \
    EXTRACT_ALLT (M, id##_showSci, L ".showSci", { IN (Ty, a); std::ostringstream os; os << std::scientific << std::setprecision (9) << a; c.outStr (os.str ()); })
SHOW3 ("C04Show", Vec2, v2, "V2") SHOW3 ("C04Show", Vec3, v3, "V3") SHOW3 ("C04Show", Vec4, v4, "V4")
SHOW3 ("C04Show", Color3, c3, "C3") SHOW3 ("C04Show", Color4, c4, "C4") SHOW3 ("C04Show", Shear6, sh, "Shear6") SHOW3 ("C04Show", Quat, q, "Quat")
SHOW3 ("C04Show", Matrix22, m22, "M22") SHOW3 ("C04Show", Matrix33, m33, "M33") SHOW3 ("C04Show", Matrix44, m44, "M44")

// ---- aliasing: compound operators whose right operand is the object itself or one of its own elements
// (a by-reference scalar parameter or an in-place body that reads an already updated member changes these)
#define G_SELF(M, Ty, id, L)                                                                         \
    EXTRACT_ALLT (M, id##_addSelf, L ".addAssignSelf", { IN (Ty, a); a += a; c.out (a); })            \
    EXTRACT_ALLT (M, id##_subSelf, L ".subAssignSelf", { IN (Ty, a); a -= a; c.out (a); })
#define G_SELFMD(M, Ty, id, L)                                                                       \
    EXTRACT_ALLT (M, id##_mulSelf, L ".mulAssignSelf", { IN (Ty, a); a *= a; c.out (a); })            \
    EXTRACT_DIV (M, id##_divSelf, L ".divAssignSelf", { IN (Ty, a); a /= a; c.out (a); })
#define G_ALIAS(M, Ty, id, L, N)                                                                     \
    EXTRACT_ALLT (M, id##_mulAlias0, L ".mulSAssignAliasFirst", { IN (Ty, a); T* p = reinterpret_cast<T*> (&a); a *= p[0]; c.out (a); })       \
    EXTRACT_ALLT (M, id##_mulAliasL, L ".mulSAssignAliasLast", { IN (Ty, a); T* p = reinterpret_cast<T*> (&a); a *= p[N - 1]; c.out (a); })    \
    EXTRACT_DIV (M, id##_divAlias0, L ".divSAssignAliasFirst", { IN (Ty, a); T* p = reinterpret_cast<T*> (&a); a /= p[0]; c.out (a); })    \
    EXTRACT_DIV (M, id##_divAliasL, L ".divSAssignAliasLast", { IN (Ty, a); T* p = reinterpret_cast<T*> (&a); a /= p[N - 1]; c.out (a); })
#define ALIAS_ALL(M, Ty, id, L, N) G_SELF (M, Ty, id, L) G_ALIAS (M, Ty, id, L, N)
ALIAS_ALL ("C04Alias", Vec2, v2, "V2", 2) G_SELFMD ("C04Alias", Vec2, v2, "V2")
ALIAS_ALL ("C04Alias", Vec3, v3, "V3", 3) G_SELFMD ("C04Alias", Vec3, v3, "V3")
ALIAS_ALL ("C04Alias", Vec4, v4, "V4", 4) G_SELFMD ("C04Alias", Vec4, v4, "V4")
ALIAS_ALL ("C04Alias", Color3, c3, "C3", 3) G_SELFMD ("C04Alias", Color3, c3, "C3")
ALIAS_ALL ("C04Alias", Color4, c4, "C4", 4) G_SELFMD ("C04Alias", Color4, c4, "C4")
ALIAS_ALL ("C04Alias", Shear6, sh, "Shear6", 6) G_SELFMD ("C04Alias", Shear6, sh, "Shear6")
ALIAS_ALL ("C04Alias", Quat, q, "Quat", 4)
ALIAS_ALL ("C04Alias", Matrix22, m22, "M22", 4)
ALIAS_ALL ("C04Alias", Matrix33, m33, "M33", 9)
ALIAS_ALL ("C04Alias", Matrix44, m44, "M44", 16)
EXTRACT_ALLT ("C04Alias", m22_addSAlias, "M22.addSAssignAliasFirst", { IN (Matrix22, a); a += a.x[0][0]; c.out (a); })
EXTRACT_ALLT ("C04Alias", m33_addSAlias, "M33.addSAssignAliasFirst", { IN (Matrix33, a); a += a.x[0][0]; c.out (a); })
EXTRACT_ALLT ("C04Alias", m44_addSAlias, "M44.addSAssignAliasFirst", { IN (Matrix44, a); a += a.x[0][0]; c.out (a); })
EXTRACT_ALLT ("C04Alias", m22_subSAlias, "M22.subSAssignAliasFirst", { IN (Matrix22, a); a -= a.x[0][0]; c.out (a); })
EXTRACT_ALLT ("C04Alias", m33_subSAlias, "M33.subSAssignAliasFirst", { IN (Matrix33, a); a -= a.x[0][0]; c.out (a); })
EXTRACT_ALLT ("C04Alias", m44_subSAlias, "M44.subSAssignAliasFirst", { IN (Matrix44, a); a -= a.x[0][0]; c.out (a); })

// ---- conversions between element types with the cast visible (EXTRACT_CAST: A = source, B = destination element type;
// TV at double->float, float->half, double->int, int->unsigned char against the scalar static_cast, slot by slot)
#define SRC(Ty, n) auto n = c.template src<Ty<A>> (#n)
#define DST(Ty, n) auto n = c.template dst<Ty<B>> (#n)
#define G_NARROW(M, Ty, id, L, SV, GV)                                                                  \
    EXTRACT_CAST (M, id##_nCtor, L ".narrowCtor", { SRC (Ty, a); c.out (Ty<B> (a)); })                   \
    EXTRACT_CAST (M, id##_nSetV, L "." SV, { DST (Ty, a); SRC (Ty, b); a.setValue (b); c.out (a); })     \
    EXTRACT_CAST (M, id##_nGetV, L "." GV, { SRC (Ty, a); DST (Ty, b); a.getValue (b); c.out (b); })
G_NARROW ("C04Vec", Vec2, v2, "V2", "narrowSetValueV", "narrowGetValueV")
G_NARROW ("C04Vec", Vec3, v3, "V3", "narrowSetValueV", "narrowGetValueV")
G_NARROW ("C04Vec", Vec4, v4, "V4", "narrowSetValueV", "narrowGetValueV")
G_NARROW ("C04Color", Color4, c4, "C4", "narrowSetValueV", "narrowGetValueV")
G_NARROW ("C04Shear", Shear6, sh, "Shear6", "narrowSetValueV", "narrowGetValueV")
G_NARROW ("C04Mat", Matrix22, m22, "M22", "narrowSetValueM", "narrowGetValueM")
G_NARROW ("C04Mat", Matrix33, m33, "M33", "narrowSetValueM", "narrowGetValueM")
G_NARROW ("C04Mat", Matrix44, m44, "M44", "narrowSetValueM", "narrowGetValueM")
EXTRACT_CAST ("C04Mat", m22_nSetThe, "M22.narrowSetTheMatrix", { DST (Matrix22, a); SRC (Matrix22, b); a.setTheMatrix (b); c.out (a); })
EXTRACT_CAST ("C04Mat", m33_nSetThe, "M33.narrowSetTheMatrix", { DST (Matrix33, a); SRC (Matrix33, b); a.setTheMatrix (b); c.out (a); })
EXTRACT_CAST ("C04Mat", m44_nSetThe, "M44.narrowSetTheMatrix", { DST (Matrix44, a); SRC (Matrix44, b); a.setTheMatrix (b); c.out (a); })
EXTRACT_CAST ("C04Quat", q_nCtor, "Quat.narrowCtor", { SRC (Quat, a); c.out (Quat<B> (a)); })
EXTRACT_CAST ("C04Vec", v2_nSetS, "V2.narrowSetValueS", { DST (Vec2, a); SRC (Vec2, b); a.setValue (b.x, b.y); c.out (a); })
EXTRACT_CAST ("C04Vec", v3_nSetS, "V3.narrowSetValueS", { DST (Vec3, a); SRC (Vec3, b); a.setValue (b.x, b.y, b.z); c.out (a); })
EXTRACT_CAST ("C04Vec", v4_nSetS, "V4.narrowSetValueS", { DST (Vec4, a); SRC (Vec4, b); a.setValue (b.x, b.y, b.z, b.w); c.out (a); })
EXTRACT_CAST ("C04Vec", v2_nGetS, "V2.narrowGetValueS", { SRC (Vec2, a); DST (Vec2, b); a.getValue (b.x, b.y); c.out (b); })
EXTRACT_CAST ("C04Vec", v3_nGetS, "V3.narrowGetValueS", { SRC (Vec3, a); DST (Vec3, b); a.getValue (b.x, b.y, b.z); c.out (b); })
EXTRACT_CAST ("C04Vec", v4_nGetS, "V4.narrowGetValueS", { SRC (Vec4, a); DST (Vec4, b); a.getValue (b.x, b.y, b.z, b.w); c.out (b); })
EXTRACT_CAST ("C04Color", c4_nSetS, "C4.narrowSetValueS", { DST (Color4, a); SRC (Color4, b); a.setValue (b.r, b.g, b.b, b.a); c.out (a); })
EXTRACT_CAST ("C04Color", c4_nGetS, "C4.narrowGetValueS", { SRC (Color4, a); DST (Color4, b); a.getValue (b.r, b.g, b.b, b.a); c.out (b); })
EXTRACT_CAST ("C04Shear", sh_nSetS, "Shear6.narrowSetValueS", { DST (Shear6, a); SRC (Shear6, b); a.setValue (b.xy, b.xz, b.yz, b.yx, b.zx, b.zy); c.out (a); })
EXTRACT_CAST ("C04Shear", sh_nGetS, "Shear6.narrowGetValueS", { SRC (Shear6, a); DST (Shear6, b); a.getValue (b.xy, b.xz, b.yz, b.yx, b.zx, b.zy); c.out (b); })
EXTRACT_CAST ("C04Vec", v4_nFromV3, "V4.narrowFromV3", { SRC (Vec3, a); c.out (Vec4<B> (a)); })
EXTRACT_CAST ("C04Color", c3_nFromV3, "C3.narrowFromV3", { SRC (Vec3, a); c.out (Color3<B> (a)); })
EXTRACT_CAST ("C04Shear", sh_nFromV3, "Shear6.narrowFromV3", { SRC (Vec3, a); DST (Shear6, t); Shear6<B> s (a); t = a; c.out (s); c.out (t); })

// ---- raw C arrays through the partial specialisations has_subscript<Base[N], Base, N> / has_double_subscript<Base[R][C], ...>
EXTRACT_ALLT ("C04Vec", v2_interopArr, "V2.interopArr", { IN (Vec2, a); T f[2] = {a.x, a.y}; Vec2<T> b (f); Vec2<T> d; d = f; c.out (b); c.out (d); })
EXTRACT_ALLT ("C04Vec", v3_interopArr, "V3.interopArr", { IN (Vec3, a); T f[3] = {a.x, a.y, a.z}; Vec3<T> b (f); Vec3<T> d; d = f; c.out (b); c.out (d); })
EXTRACT_ALLT ("C04Vec", v4_interopArr, "V4.interopArr", { IN (Vec4, a); T f[4] = {a.x, a.y, a.z, a.w}; Vec4<T> b (f); Vec4<T> d; d = f; c.out (b); c.out (d); })
#define G_ARR2(Ty, id, L, N) EXTRACT_ALLT ("C04Mat", id##_interopArr2, L ".interopArr2", { IN (Ty, a); T f[N][N]; for (int i = 0; i < N; ++i) for (int j = 0; j < N; ++j) f[i][j] = a.x[i][j]; Ty<T> d; d = f; c.out (d); })
G_ARR2 (Matrix22, m22, "M22", 2) G_ARR2 (Matrix33, m33, "M33", 3) G_ARR2 (Matrix44, m44, "M44", 4)

// ---- operator<< leaves the caller's stream state as it found it (the matrix operators switch the stream to scientific / showpoint
// while printing, in both arms of `if (s.flags () & fixed)`).  A run-time observation recorded as a Boolean literal: four stream states
// (default / precision 5; fixed / 3; scientific / 9; showpos + left + fill '*' / 7), flags, precision and fill compared before and after.
#define SHOWKEEPS(M, Ty, id, L)                                                                        \
    EXTRACT_ALLT (M, id##_showKeeps, L ".showKeepsState", { IN (Ty, a); bool kept = true;              \
        for (int st = 0; st < 4; ++st) { std::ostringstream os;                                         \
            if (st == 0) os << std::setprecision (5); if (st == 1) os << std::fixed << std::setprecision (3);                    \
            if (st == 2) os << std::scientific << std::setprecision (9); if (st == 3) os << std::showpos << std::left << std::setfill ('*') << std::setprecision (7); \
            auto fl = os.flags (); auto pr = os.precision (); auto fi = os.fill ();                     \
            os << a; kept = kept && os.flags () == fl && os.precision () == pr && os.fill () == fi; }   \
        c.outB (kept); })
SHOWKEEPS ("C04Show", Vec2, v2, "V2") SHOWKEEPS ("C04Show", Vec3, v3, "V3") SHOWKEEPS ("C04Show", Vec4, v4, "V4") SHOWKEEPS ("C04Show", Color3, c3, "C3")
SHOWKEEPS ("C04Show", Color4, c4, "C4") SHOWKEEPS ("C04Show", Shear6, sh, "Shear6") SHOWKEEPS ("C04Show", Quat, q, "Quat")
SHOWKEEPS ("C04Show", Matrix22, m22, "M22") SHOWKEEPS ("C04Show", Matrix33, m33, "M33") SHOWKEEPS ("C04Show", Matrix44, m44, "M44")

// ---- same-type copy assignment / copy constructor / element-list constructors on their own (r2 audit N3: the hand-unrolled
// operator= (const X&) bodies of the non-matrix types and Color3 (T,T,T) were reached by no entry; the element-list
// constructors only inside the composite getValueS entries, where two compensating swaps would pass)
#define G_COPY(M, Ty, id, L)                                                                            \
    EXTRACT_ALLT (M, id##_assign, L ".assign", { IN (Ty, a); IN (Ty, b); a = b; c.out (a); })            \
    EXTRACT_ALLT (M, id##_copyCtor, L ".copyCtor", { IN (Ty, a); Ty<T> b (a); c.out (b); })
G_COPY ("C04Vec", Vec2, v2, "V2") G_COPY ("C04Vec", Vec3, v3, "V3") G_COPY ("C04Vec", Vec4, v4, "V4")
G_COPY ("C04Color", Color3, c3, "C3") G_COPY ("C04Color", Color4, c4, "C4") G_COPY ("C04Shear", Shear6, sh, "Shear6") G_COPY ("C04Quat", Quat, q, "Quat")
G_COPY ("C04Mat", Matrix22, m22, "M22") G_COPY ("C04Mat", Matrix33, m33, "M33") G_COPY ("C04Mat", Matrix44, m44, "M44")
EXTRACT_ALLT ("C04Vec", v2_ctorElems, "V2.ctorElems", { IN (Vec2, a); c.out (Vec2<T> (a.x, a.y)); })
EXTRACT_ALLT ("C04Vec", v3_ctorElems, "V3.ctorElems", { IN (Vec3, a); c.out (Vec3<T> (a.x, a.y, a.z)); })
EXTRACT_ALLT ("C04Vec", v4_ctorElems, "V4.ctorElems", { IN (Vec4, a); c.out (Vec4<T> (a.x, a.y, a.z, a.w)); })
EXTRACT_ALLT ("C04Color", c3_ctorElems, "C3.ctorElems", { IN (Color3, a); c.out (Color3<T> (a.x, a.y, a.z)); })
EXTRACT_ALLT ("C04Color", c4_ctorElems, "C4.ctorElems", { IN (Color4, a); c.out (Color4<T> (a.r, a.g, a.b, a.a)); })
EXTRACT_ALLT ("C04Shear", sh_ctorElems, "Shear6.ctorElems", { IN (Shear6, a); c.out (Shear6<T> (a.xy, a.xz, a.yz, a.yx, a.zx, a.zy)); })
// Matrix44 (Matrix33 r, Vec3 t): r in the upper-left block, t in the last row, (0,0,0,1) in the last column
EXTRACT_ALLT ("C04Mat", m44_ctorRT, "M44.ctorRT", { IN (Matrix33, r); IN (Vec3, t); c.out (Matrix44<T> (r, t)); })
