// C04 extraction table: every arithmetic operator in every spelling, equality,
// approximate equality, accessors, getValue/setValue, converting constructors
// and foreign-type interop for Vec2/3/4, Color3/4, Shear6, Quat, Matrix22/33/44.
// TV runs at all seven element types for the operator entries.
namespace symns
{
template <class T> struct OtherT { typedef double type; };
template <> struct OtherT<double> { typedef long double type; };
template <> struct OtherT<Sym> { typedef SymB type; };
// foreign aggregates for the interop constructors / assignments
template <class T> struct FXY { T x, y; };
template <class T> struct FXYZ { T x, y, z; };
template <class T> struct FXYZW { T x, y, z, w; };
template <class T, int N> struct FSub { T d[N]; const T& operator[] (int i) const { return d[i]; } T& operator[] (int i) { return d[i]; } };
template <class T, int N> struct FSub2 { T d[N][N]; const T* operator[] (int i) const { return d[i]; } T* operator[] (int i) { return d[i]; } };
}

#define IN(Ty, n) auto n = c.template in<Ty<T>> (#n)
#define NZ symns::Opts ().nz ()

// + - unary- with an operand of the same type
#define G_ADDSUB(M, Ty, id, L)                                                                      \
    EXTRACT_ALLT (M, id##_add, L ".add", { IN (Ty, a); IN (Ty, b); c.out (a + b); })                 \
    EXTRACT_ALLT (M, id##_addAssign, L ".addAssign", { IN (Ty, a); IN (Ty, b); a += b; c.out (a); }) \
    EXTRACT_ALLT (M, id##_sub, L ".sub", { IN (Ty, a); IN (Ty, b); c.out (a - b); })                 \
    EXTRACT_ALLT (M, id##_subAssign, L ".subAssign", { IN (Ty, a); IN (Ty, b); a -= b; c.out (a); }) \
    EXTRACT_ALLT (M, id##_neg, L ".neg", { IN (Ty, a); c.out (-a); })
#define G_NEGATE(M, Ty, id, L) EXTRACT_ALLT (M, id##_negate, L ".negate", { IN (Ty, a); a.negate (); c.out (a); })
// component-wise * / with an operand of the same type
#define G_MULDIV(M, Ty, id, L)                                                                      \
    EXTRACT_ALLT (M, id##_mul, L ".mul", { IN (Ty, a); IN (Ty, b); c.out (a * b); })                 \
    EXTRACT_ALLT (M, id##_mulAssign, L ".mulAssign", { IN (Ty, a); IN (Ty, b); a *= b; c.out (a); }) \
    EXTRACT_ALLT_OPT (M, id##_div, L ".div", NZ, { IN (Ty, a); IN (Ty, b); c.out (a / b); })         \
    EXTRACT_ALLT_OPT (M, id##_divAssign, L ".divAssign", NZ, { IN (Ty, a); IN (Ty, b); a /= b; c.out (a); })
// scalar on either side
#define G_SCALAR(M, Ty, id, L)                                                                      \
    EXTRACT_ALLT (M, id##_mulS, L ".mulS", { IN (Ty, a); T s = c.inS ("s"); c.out (a * s); })        \
    EXTRACT_ALLT (M, id##_mulSAssign, L ".mulSAssign", { IN (Ty, a); T s = c.inS ("s"); a *= s; c.out (a); }) \
    EXTRACT_ALLT (M, id##_smul, L ".smul", { T s = c.inS ("s"); IN (Ty, a); c.out (s * a); })        \
    EXTRACT_ALLT_OPT (M, id##_divS, L ".divS", NZ, { IN (Ty, a); T s = c.inS ("s"); c.out (a / s); }) \
    EXTRACT_ALLT_OPT (M, id##_divSAssign, L ".divSAssign", NZ, { IN (Ty, a); T s = c.inS ("s"); a /= s; c.out (a); })
// matrices: scalar + and - (compound only)
#define G_ADDS(M, Ty, id, L)                                                                        \
    EXTRACT_ALLT (M, id##_addSAssign, L ".addSAssign", { IN (Ty, a); T s = c.inS ("s"); a += s; c.out (a); }) \
    EXTRACT_ALLT (M, id##_subSAssign, L ".subSAssign", { IN (Ty, a); T s = c.inS ("s"); a -= s; c.out (a); })
#define G_EQ(M, Ty, id, L)                                                                          \
    EXTRACT_ALLT (M, id##_eq, L ".eq", { IN (Ty, a); IN (Ty, b); c.outB (a == b); })                 \
    EXTRACT_ALLT (M, id##_ne, L ".ne", { IN (Ty, a); IN (Ty, b); c.outB (a != b); })
#define G_EQERR(M, Ty, id, L)                                                                       \
    EXTRACT (M, id##_eqAbs, L ".equalWithAbsError", { IN (Ty, a); IN (Ty, b); T e = c.inS ("e"); c.outB (a.equalWithAbsError (b, e)); }) \
    EXTRACT (M, id##_eqRel, L ".equalWithRelError", { IN (Ty, a); IN (Ty, b); T e = c.inS ("e"); c.outB (a.equalWithRelError (b, e)); })
// operator[] read and write of every slot, raw pointer access
#define G_INDEX(M, Ty, id, L, N)                                                                    \
    EXTRACT_ALLT (M, id##_indexAll, L ".indexAll", { IN (Ty, a); const Ty<T>& ca = a; Ty<T> r; T* p = reinterpret_cast<T*> (&r); for (int i = 0; i < N; ++i) p[i] = ca[i]; c.out (r); }) \
    EXTRACT_ALLT (M, id##_setIndexAll, L ".setIndexAll", { IN (Ty, a); IN (Ty, b); const T* p = reinterpret_cast<const T*> (&b); for (int i = 0; i < N; ++i) a[i] = p[i]; c.out (a); }) \
    EXTRACT_ALLT (M, id##_getValuePtr, L ".getValuePtr", { IN (Ty, a); const Ty<T>& ca = a; const T* q = ca.getValue (); Ty<T> r; T* p = r.getValue (); for (int i = 0; i < N; ++i) p[i] = q[i]; c.out (r); })
#define G_INDEX2(M, Ty, id, L, N)                                                                   \
    EXTRACT_ALLT (M, id##_indexAll, L ".indexAll", { IN (Ty, a); const Ty<T>& ca = a; Ty<T> r; for (int i = 0; i < N; ++i) for (int j = 0; j < N; ++j) r.x[i][j] = ca[i][j]; c.out (r); }) \
    EXTRACT_ALLT (M, id##_setIndexAll, L ".setIndexAll", { IN (Ty, a); IN (Ty, b); for (int i = 0; i < N; ++i) for (int j = 0; j < N; ++j) a[i][j] = b.x[i][j]; c.out (a); }) \
    EXTRACT_ALLT (M, id##_getValuePtr, L ".getValuePtr", { IN (Ty, a); const Ty<T>& ca = a; const T* q = ca.getValue (); Ty<T> r; T* p = r.getValue (); for (int i = 0; i < N * N; ++i) p[i] = q[i]; c.out (r); })
// converting constructor / setValue / getValue through another element type S
#define G_CONVERT(M, Ty, id, L)                                                                     \
    EXTRACT_ALLT (M, id##_convert, L ".convertCtor", { typedef typename symns::OtherT<T>::type S; IN (Ty, a); Ty<S> s (a); Ty<T> b (s); c.out (b); }) \
    EXTRACT_ALLT (M, id##_setValueV, L ".setValueV", { typedef typename symns::OtherT<T>::type S; IN (Ty, a); IN (Ty, b); Ty<S> s (b); a.setValue (s); c.out (a); }) \
    EXTRACT_ALLT (M, id##_getValueV, L ".getValueV", { typedef typename symns::OtherT<T>::type S; IN (Ty, a); Ty<S> s; a.getValue (s); Ty<T> b (s); c.out (b); })

// ---- Vec2/3/4
#define VEC_ALL(Ty, id, L, N) G_ADDSUB ("C04Vec", Ty, id, L) G_NEGATE ("C04Vec", Ty, id, L) G_MULDIV ("C04Vec", Ty, id, L) G_SCALAR ("C04Vec", Ty, id, L) \
    G_EQ ("C04Vec", Ty, id, L) G_EQERR ("C04Vec", Ty, id, L) G_INDEX ("C04Vec", Ty, id, L, N) G_CONVERT ("C04Vec", Ty, id, L)
VEC_ALL (Vec2, v2, "V2", 2)
VEC_ALL (Vec3, v3, "V3", 3)
VEC_ALL (Vec4, v4, "V4", 4)
EXTRACT_ALLT ("C04Vec", v2_setValueS, "V2.setValueS", { typedef typename symns::OtherT<T>::type S; IN (Vec2, a); IN (Vec2, b); a.setValue (S (b.x), S (b.y)); c.out (a); })
EXTRACT_ALLT ("C04Vec", v3_setValueS, "V3.setValueS", { typedef typename symns::OtherT<T>::type S; IN (Vec3, a); IN (Vec3, b); a.setValue (S (b.x), S (b.y), S (b.z)); c.out (a); })
EXTRACT_ALLT ("C04Vec", v4_setValueS, "V4.setValueS", { typedef typename symns::OtherT<T>::type S; IN (Vec4, a); IN (Vec4, b); a.setValue (S (b.x), S (b.y), S (b.z), S (b.w)); c.out (a); })
EXTRACT_ALLT ("C04Vec", v2_getValueS, "V2.getValueS", { typedef typename symns::OtherT<T>::type S; IN (Vec2, a); S p, q; a.getValue (p, q); c.out (Vec2<T> (T (p), T (q))); })
EXTRACT_ALLT ("C04Vec", v3_getValueS, "V3.getValueS", { typedef typename symns::OtherT<T>::type S; IN (Vec3, a); S p, q, r; a.getValue (p, q, r); c.out (Vec3<T> (T (p), T (q), T (r))); })
EXTRACT_ALLT ("C04Vec", v4_getValueS, "V4.getValueS", { typedef typename symns::OtherT<T>::type S; IN (Vec4, a); S p, q, r, w; a.getValue (p, q, r, w); c.out (Vec4<T> (T (p), T (q), T (r), T (w))); })
EXTRACT_ALLT ("C04Vec", v2_ctorS, "V2.ctorScalar", { T s = c.inS ("s"); c.out (Vec2<T> (s)); })
EXTRACT_ALLT ("C04Vec", v3_ctorS, "V3.ctorScalar", { T s = c.inS ("s"); c.out (Vec3<T> (s)); })
EXTRACT_ALLT ("C04Vec", v4_ctorS, "V4.ctorScalar", { T s = c.inS ("s"); c.out (Vec4<T> (s)); })

EXTRACT_ALLT ("C04Vec", v4_fromV3, "V4.fromV3", { IN (Vec3, a); c.out (Vec4<T> (a)); })
// foreign-type interop (has_xy / has_xyz / has_xyzw / has_subscript)
EXTRACT_ALLT ("C04Vec", v2_interopXY, "V2.interopXY", { IN (Vec2, a); symns::FXY<T> f{a.x, a.y}; Vec2<T> b (f); Vec2<T> d; d = f; c.out (b); c.out (d); })
EXTRACT_ALLT ("C04Vec", v3_interopXYZ, "V3.interopXYZ", { IN (Vec3, a); symns::FXYZ<T> f{a.x, a.y, a.z}; Vec3<T> b (f); Vec3<T> d; d = f; c.out (b); c.out (d); })
EXTRACT_ALLT ("C04Vec", v4_interopXYZW, "V4.interopXYZW", { IN (Vec4, a); symns::FXYZW<T> f{a.x, a.y, a.z, a.w}; Vec4<T> b (f); Vec4<T> d; d = f; c.out (b); c.out (d); })
EXTRACT_ALLT ("C04Vec", v2_interopSub, "V2.interopSub", { IN (Vec2, a); symns::FSub<T, 2> f{{a.x, a.y}}; Vec2<T> b (f); Vec2<T> d; d = f; c.out (b); c.out (d); })
EXTRACT_ALLT ("C04Vec", v3_interopSub, "V3.interopSub", { IN (Vec3, a); symns::FSub<T, 3> f{{a.x, a.y, a.z}}; Vec3<T> b (f); Vec3<T> d; d = f; c.out (b); c.out (d); })
EXTRACT_ALLT ("C04Vec", v4_interopSub, "V4.interopSub", { IN (Vec4, a); symns::FSub<T, 4> f{{a.x, a.y, a.z, a.w}}; Vec4<T> b (f); Vec4<T> d; d = f; c.out (b); c.out (d); })

// ---- Color3 / Color4
G_ADDSUB ("C04Color", Color3, c3, "C3") G_NEGATE ("C04Color", Color3, c3, "C3") G_MULDIV ("C04Color", Color3, c3, "C3") G_SCALAR ("C04Color", Color3, c3, "C3")
G_ADDSUB ("C04Color", Color4, c4, "C4") G_NEGATE ("C04Color", Color4, c4, "C4") G_MULDIV ("C04Color", Color4, c4, "C4") G_SCALAR ("C04Color", Color4, c4, "C4")
G_EQ ("C04Color", Color4, c4, "C4") G_INDEX ("C04Color", Color4, c4, "C4", 4) G_CONVERT ("C04Color", Color4, c4, "C4")
EXTRACT_ALLT ("C04Color", c4_setValueS, "C4.setValueS", { typedef typename symns::OtherT<T>::type S; IN (Color4, a); IN (Color4, b); a.setValue (S (b.r), S (b.g), S (b.b), S (b.a)); c.out (a); })
EXTRACT_ALLT ("C04Color", c4_getValueS, "C4.getValueS", { typedef typename symns::OtherT<T>::type S; IN (Color4, a); S p, q, r, w; a.getValue (p, q, r, w); c.out (Color4<T> (T (p), T (q), T (r), T (w))); })
EXTRACT_ALLT ("C04Color", c3_fromV3, "C3.fromV3", { IN (Vec3, a); c.out (Color3<T> (a)); })
EXTRACT_ALLT ("C04Color", c3_ctorS, "C3.ctorScalar", { T s = c.inS ("s"); c.out (Color3<T> (s)); })
EXTRACT_ALLT ("C04Color", c4_ctorS, "C4.ctorScalar", { T s = c.inS ("s"); c.out (Color4<T> (s)); })

// ---- Shear6
G_ADDSUB ("C04Shear", Shear6, sh, "Shear6") G_NEGATE ("C04Shear", Shear6, sh, "Shear6") G_MULDIV ("C04Shear", Shear6, sh, "Shear6") G_SCALAR ("C04Shear", Shear6, sh, "Shear6")
G_EQ ("C04Shear", Shear6, sh, "Shear6") G_EQERR ("C04Shear", Shear6, sh, "Shear6") G_INDEX ("C04Shear", Shear6, sh, "Shear6", 6) G_CONVERT ("C04Shear", Shear6, sh, "Shear6")
EXTRACT_ALLT ("C04Shear", sh_setValueS, "Shear6.setValueS", { typedef typename symns::OtherT<T>::type S; IN (Shear6, a); IN (Shear6, b); a.setValue (S (b.xy), S (b.xz), S (b.yz), S (b.yx), S (b.zx), S (b.zy)); c.out (a); })
EXTRACT_ALLT ("C04Shear", sh_getValueS, "Shear6.getValueS", { typedef typename symns::OtherT<T>::type S; IN (Shear6, a); S p, q, r, u, v, w; a.getValue (p, q, r, u, v, w); c.out (Shear6<T> (T (p), T (q), T (r), T (u), T (v), T (w))); })
EXTRACT_ALLT ("C04Shear", sh_fromV3, "Shear6.fromV3", { IN (Vec3, a); Shear6<T> s (a); Shear6<T> t; t = a; c.out (s); c.out (t); })
EXTRACT_ALLT ("C04Shear", sh_ctor3, "Shear6.ctor3", { IN (Vec3, a); c.out (Shear6<T> (a.x, a.y, a.z)); })

// ---- Quat (+, -, unary -, scalar *, /; the quaternion product is C05)
EXTRACT_ALLT ("C04Quat", q_add, "Quat.add", { IN (Quat, a); IN (Quat, b); c.out (a + b); })
EXTRACT_ALLT ("C04Quat", q_addAssign, "Quat.addAssign", { IN (Quat, a); IN (Quat, b); a += b; c.out (a); })
EXTRACT_ALLT ("C04Quat", q_sub, "Quat.sub", { IN (Quat, a); IN (Quat, b); c.out (a - b); })
EXTRACT_ALLT ("C04Quat", q_subAssign, "Quat.subAssign", { IN (Quat, a); IN (Quat, b); a -= b; c.out (a); })
EXTRACT_ALLT ("C04Quat", q_neg, "Quat.neg", { IN (Quat, a); c.out (-a); })
EXTRACT_ALLT ("C04Quat", q_mulS, "Quat.mulS", { IN (Quat, a); T s = c.inS ("s"); c.out (a * s); })
EXTRACT_ALLT ("C04Quat", q_mulSAssign, "Quat.mulSAssign", { IN (Quat, a); T s = c.inS ("s"); a *= s; c.out (a); })
EXTRACT_ALLT ("C04Quat", q_smul, "Quat.smul", { T s = c.inS ("s"); IN (Quat, a); c.out (s * a); })
EXTRACT_ALLT_OPT ("C04Quat", q_divS, "Quat.divS", NZ, { IN (Quat, a); T s = c.inS ("s"); c.out (a / s); })
EXTRACT_ALLT_OPT ("C04Quat", q_divSAssign, "Quat.divSAssign", NZ, { IN (Quat, a); T s = c.inS ("s"); a /= s; c.out (a); })
G_EQ ("C04Quat", Quat, q, "Quat")
EXTRACT_ALLT ("C04Quat", q_indexAll, "Quat.indexAll", { IN (Quat, a); const Quat<T>& ca = a; c.out (Quat<T> (ca[0], ca[1], ca[2], ca[3])); })
EXTRACT_ALLT ("C04Quat", q_setIndexAll, "Quat.setIndexAll", { IN (Quat, a); IN (Quat, b); a[0] = b.r; a[1] = b.v.x; a[2] = b.v.y; a[3] = b.v.z; c.out (a); })
EXTRACT_ALLT ("C04Quat", q_convert, "Quat.convertCtor", { typedef typename symns::OtherT<T>::type S; IN (Quat, a); Quat<S> s (a); Quat<T> b (s); c.out (b); })
EXTRACT_ALLT ("C04Quat", q_ctor4, "Quat.ctor4", { IN (Quat, a); c.out (Quat<T> (a.r, a.v.x, a.v.y, a.v.z)); })
EXTRACT_ALLT ("C04Quat", q_ctorSV, "Quat.ctorSV", { IN (Quat, a); c.out (Quat<T> (a.r, a.v)); })

// ---- Matrix22/33/44 element-wise
#define MAT_ALL(Ty, id, L, N) G_ADDSUB ("C04Mat", Ty, id, L) G_NEGATE ("C04Mat", Ty, id, L) G_ADDS ("C04Mat", Ty, id, L) \
    EXTRACT_ALLT ("C04Mat", id##_mulS, L ".mulS", { IN (Ty, a); T s = c.inS ("s"); c.out (a * s); })        \
    EXTRACT_ALLT ("C04Mat", id##_mulSAssign, L ".mulSAssign", { IN (Ty, a); T s = c.inS ("s"); a *= s; c.out (a); }) \
    EXTRACT_ALLT ("C04Mat", id##_smul, L ".smul", { T s = c.inS ("s"); IN (Ty, a); c.out (s * a); })        \
    EXTRACT_ALLT_OPT ("C04Mat", id##_divS, L ".divS", NZ, { IN (Ty, a); T s = c.inS ("s"); c.out (a / s); }) \
    EXTRACT_ALLT_OPT ("C04Mat", id##_divSAssign, L ".divSAssign", NZ, { IN (Ty, a); T s = c.inS ("s"); a /= s; c.out (a); }) \
    G_EQ ("C04Mat", Ty, id, L) G_EQERR ("C04Mat", Ty, id, L) G_INDEX2 ("C04Mat", Ty, id, L, N)              \
    EXTRACT_ALLT ("C04Mat", id##_convert, L ".convertCtor", { typedef typename symns::OtherT<T>::type S; IN (Ty, a); Ty<S> s (a); Ty<T> b (s); c.out (b); }) \
    EXTRACT_ALLT ("C04Mat", id##_setValueM, L ".setValueM", { typedef typename symns::OtherT<T>::type S; IN (Ty, a); IN (Ty, b); Ty<S> s (b); a.setValue (s); c.out (a); }) \
    EXTRACT_ALLT ("C04Mat", id##_getValueM, L ".getValueM", { typedef typename symns::OtherT<T>::type S; IN (Ty, a); Ty<S> s; a.getValue (s); Ty<T> b (s); c.out (b); }) \
    EXTRACT_ALLT ("C04Mat", id##_assignS, L ".assignScalar", { IN (Ty, a); T s = c.inS ("s"); a = s; c.out (a); }) \
    EXTRACT_ALLT ("C04Mat", id##_ctorS, L ".ctorScalar", { T s = c.inS ("s"); c.out (Ty<T> (s)); })         \
    EXTRACT_ALLT ("C04Mat", id##_ctorArr, L ".ctorArray", { IN (Ty, a); T arr[N][N]; for (int i = 0; i < N; ++i) for (int j = 0; j < N; ++j) arr[i][j] = a.x[i][j]; c.out (Ty<T> (arr)); }) \
    EXTRACT_ALLT ("C04Mat", id##_interop, L ".interopSub2", { IN (Ty, a); symns::FSub2<T, N> f; for (int i = 0; i < N; ++i) for (int j = 0; j < N; ++j) f.d[i][j] = a.x[i][j]; Ty<T> b (f); Ty<T> d; d = f; c.out (b); c.out (d); })
MAT_ALL (Matrix22, m22, "M22", 2)
MAT_ALL (Matrix33, m33, "M33", 3)
MAT_ALL (Matrix44, m44, "M44", 4)
EXTRACT_ALLT ("C04Mat", m22_ctor4, "M22.ctorElems", { IN (Matrix22, a); c.out (Matrix22<T> (a.x[0][0], a.x[0][1], a.x[1][0], a.x[1][1])); })
EXTRACT_ALLT ("C04Mat", m33_ctor9, "M33.ctorElems", { IN (Matrix33, a); c.out (Matrix33<T> (a.x[0][0], a.x[0][1], a.x[0][2], a.x[1][0], a.x[1][1], a.x[1][2], a.x[2][0], a.x[2][1], a.x[2][2])); })
EXTRACT_ALLT ("C04Mat", m44_ctor16, "M44.ctorElems", { IN (Matrix44, a); c.out (Matrix44<T> (a.x[0][0], a.x[0][1], a.x[0][2], a.x[0][3], a.x[1][0], a.x[1][1], a.x[1][2], a.x[1][3], a.x[2][0], a.x[2][1], a.x[2][2], a.x[2][3], a.x[3][0], a.x[3][1], a.x[3][2], a.x[3][3])); })

// ---- stream output: the printed text with one opaque token per element, in three stream states
#include <sstream>
#include <iomanip>
#define SHOW3(M, Ty, id, L)                                                                          \
    EXTRACT_ALLT (M, id##_show, L ".show", { IN (Ty, a); std::ostringstream os; os << a; c.outStr (os.str ()); })            \
    EXTRACT_ALLT (M, id##_showFixed, L ".showFixed", { IN (Ty, a); std::ostringstream os; os << std::fixed << std::setprecision (3) << a; c.outStr (os.str ()); }) \
    EXTRACT_ALLT (M, id##_showSci, L ".showSci", { IN (Ty, a); std::ostringstream os; os << std::scientific << std::setprecision (9) << a; c.outStr (os.str ()); })
SHOW3 ("C04Show", Vec2, v2, "V2") SHOW3 ("C04Show", Vec3, v3, "V3") SHOW3 ("C04Show", Vec4, v4, "V4")
SHOW3 ("C04Show", Color3, c3, "C3") SHOW3 ("C04Show", Color4, c4, "C4") SHOW3 ("C04Show", Shear6, sh, "Shear6") SHOW3 ("C04Show", Quat, q, "Quat")
SHOW3 ("C04Show", Matrix22, m22, "M22") SHOW3 ("C04Show", Matrix33, m33, "M33") SHOW3 ("C04Show", Matrix44, m44, "M44")

// ---- aliasing: compound operators whose right operand is the object itself or one of its own elements
// (a by-reference scalar parameter or an in-place body that reads an already updated member changes these)
#define G_SELF(M, Ty, id, L)                                                                         \
    EXTRACT_ALLT (M, id##_addSelf, L ".addAssignSelf", { IN (Ty, a); a += a; c.out (a); })            \
    EXTRACT_ALLT (M, id##_subSelf, L ".subAssignSelf", { IN (Ty, a); a -= a; c.out (a); })
#define G_SELFMD(M, Ty, id, L)                                                                       \
    EXTRACT_ALLT (M, id##_mulSelf, L ".mulAssignSelf", { IN (Ty, a); a *= a; c.out (a); })            \
    EXTRACT_ALLT_OPT (M, id##_divSelf, L ".divAssignSelf", NZ, { IN (Ty, a); a /= a; c.out (a); })
#define G_ALIAS(M, Ty, id, L, N)                                                                     \
    EXTRACT_ALLT (M, id##_mulAlias0, L ".mulSAssignAliasFirst", { IN (Ty, a); T* p = reinterpret_cast<T*> (&a); a *= p[0]; c.out (a); })       \
    EXTRACT_ALLT (M, id##_mulAliasL, L ".mulSAssignAliasLast", { IN (Ty, a); T* p = reinterpret_cast<T*> (&a); a *= p[N - 1]; c.out (a); })    \
    EXTRACT_ALLT_OPT (M, id##_divAlias0, L ".divSAssignAliasFirst", NZ, { IN (Ty, a); T* p = reinterpret_cast<T*> (&a); a /= p[0]; c.out (a); })    \
    EXTRACT_ALLT_OPT (M, id##_divAliasL, L ".divSAssignAliasLast", NZ, { IN (Ty, a); T* p = reinterpret_cast<T*> (&a); a /= p[N - 1]; c.out (a); })
#define ALIAS_ALL(M, Ty, id, L, N) G_SELF (M, Ty, id, L) G_ALIAS (M, Ty, id, L, N)
ALIAS_ALL ("C04Alias", Vec2, v2, "V2", 2) G_SELFMD ("C04Alias", Vec2, v2, "V2")
ALIAS_ALL ("C04Alias", Vec3, v3, "V3", 3) G_SELFMD ("C04Alias", Vec3, v3, "V3")
ALIAS_ALL ("C04Alias", Vec4, v4, "V4", 4) G_SELFMD ("C04Alias", Vec4, v4, "V4")
ALIAS_ALL ("C04Alias", Color3, c3, "C3", 3) G_SELFMD ("C04Alias", Color3, c3, "C3")
ALIAS_ALL ("C04Alias", Color4, c4, "C4", 4) G_SELFMD ("C04Alias", Color4, c4, "C4")
ALIAS_ALL ("C04Alias", Shear6, sh, "Shear6", 6) G_SELFMD ("C04Alias", Shear6, sh, "Shear6")
ALIAS_ALL ("C04Alias", Quat, q, "Quat", 4)
ALIAS_ALL ("C04Alias", Matrix22, m22, "M22", 4)
ALIAS_ALL ("C04Alias", Matrix33, m33, "M33", 9)
ALIAS_ALL ("C04Alias", Matrix44, m44, "M44", 16)
EXTRACT_ALLT ("C04Alias", m22_addSAlias, "M22.addSAssignAliasFirst", { IN (Matrix22, a); a += a.x[0][0]; c.out (a); })
EXTRACT_ALLT ("C04Alias", m33_addSAlias, "M33.addSAssignAliasFirst", { IN (Matrix33, a); a += a.x[0][0]; c.out (a); })
EXTRACT_ALLT ("C04Alias", m44_addSAlias, "M44.addSAssignAliasFirst", { IN (Matrix44, a); a += a.x[0][0]; c.out (a); })
EXTRACT_ALLT ("C04Alias", m22_subSAlias, "M22.subSAssignAliasFirst", { IN (Matrix22, a); a -= a.x[0][0]; c.out (a); })
EXTRACT_ALLT ("C04Alias", m33_subSAlias, "M33.subSAssignAliasFirst", { IN (Matrix33, a); a -= a.x[0][0]; c.out (a); })
EXTRACT_ALLT ("C04Alias", m44_subSAlias, "M44.subSAssignAliasFirst", { IN (Matrix44, a); a -= a.x[0][0]; c.out (a); })
