// C11 residue measurement (DESIGN.md §2.4): what the Lean theorems do not cover — ROUNDING: of the builders,
// of `toMatrix (extract M) = M` (exact arithmetic: proved for every rotation matrix, Props/C11Round.lean) at and
// within 1e-k of gimbal lock and on matrices not built by toMatrix33 (section H), of the "within π of the
// target" and single-precision claims — measured on the REAL float/double code
// against a long-double oracle built from an INDEPENDENT table of the decoded axes (the table proved
// in lean/ImathVerif/Lemmas/C11Lemmas.lean: Ord.i_table, j_table, h_table, static_table).
//
//   c11_residue <seed> <n>      prints `RESIDUE-FAIL <section>:<order>:<T> …` lines and one summary line
#include <ImathEuler.h>
#include <ImathMatrixAlgo.h>
#include <ImathQuat.h>
#include <cstdio>
#include <cstdlib>
#include <cmath>
#include <map>
#include <random>
#include <string>
#include <vector>
using namespace IMATH_INTERNAL_NAMESPACE;
typedef long double LD;
static const LD PI_LD = 3.14159265358979323846264338327950288L;

struct OrdInfo { const char* name; int code; int i, j, h; bool stat, rep; };
// name, header value (checked against the real enumerator below), first/second/third axis, static frame, repeated axis
static const OrdInfo ORD[24] = {
    {"XYZ", 0x0101, 0, 1, 2, true, false},  {"XZY", 0x0001, 0, 2, 1, true, false},  {"YZX", 0x1101, 1, 2, 0, true, false},
    {"YXZ", 0x1001, 1, 0, 2, true, false},  {"ZXY", 0x2101, 2, 0, 1, true, false},  {"ZYX", 0x2001, 2, 1, 0, true, false},
    {"XZX", 0x0011, 0, 2, 0, true, true},   {"XYX", 0x0111, 0, 1, 0, true, true},   {"YXY", 0x1011, 1, 0, 1, true, true},
    {"YZY", 0x1111, 1, 2, 1, true, true},   {"ZYZ", 0x2011, 2, 1, 2, true, true},   {"ZXZ", 0x2111, 2, 0, 2, true, true},
    {"XYZr", 0x2000, 2, 1, 0, false, false}, {"XZYr", 0x2100, 2, 0, 1, false, false}, {"YZXr", 0x1000, 1, 0, 2, false, false},
    {"YXZr", 0x1100, 1, 2, 0, false, false}, {"ZXYr", 0x0000, 0, 2, 1, false, false}, {"ZYXr", 0x0100, 0, 1, 2, false, false},
    {"XZXr", 0x2110, 2, 0, 2, false, true},  {"XYXr", 0x2010, 2, 1, 2, false, true},  {"YXYr", 0x1110, 1, 2, 1, false, true},
    {"YZYr", 0x1010, 1, 0, 1, false, true},  {"ZYZr", 0x0110, 0, 1, 0, false, true},  {"ZXZr", 0x0010, 0, 2, 0, false, true}};

struct M3 { LD m[3][3]; };
static M3 mul (const M3& a, const M3& b)
{
    M3 r;
    for (int i = 0; i < 3; ++i) for (int j = 0; j < 3; ++j) { LD s = 0; for (int k = 0; k < 3; ++k) s += a.m[i][k] * b.m[k][j]; r.m[i][j] = s; }
    return r;
}
// elementary rotation, Imath row-vector convention (Spec/EulerSpec.lean `rotAx`)
static M3 rotAx (int ax, LD t)
{
    LD c = cosl (t), s = sinl (t);
    M3 r = {{{1, 0, 0}, {0, 1, 0}, {0, 0, 1}}};
    int j = (ax + 1) % 3, k = (ax + 2) % 3;
    r.m[j][j] = c; r.m[j][k] = s; r.m[k][j] = -s; r.m[k][k] = c;
    return r;
}
// SPEC: R_i(θ1)·R_j(θ2)·R_h(θ3), angles reversed for rotating frames
static M3 oracle (const OrdInfo& o, LD x, LD y, LD z)
{
    LD t1 = o.stat ? x : z, t3 = o.stat ? z : x;
    return mul (mul (rotAx (o.i, t1), rotAx (o.j, y)), rotAx (o.h, t3));
}
template <class M> static LD dist (const M& a, const M3& b)
{
    LD d = 0;
    for (int i = 0; i < 3; ++i) for (int j = 0; j < 3; ++j) d = std::max (d, fabsl ((LD) a[i][j] - b.m[i][j]));
    return d;
}
template <class M> static M3 toLD (const M& a)
{
    M3 r;
    for (int i = 0; i < 3; ++i) for (int j = 0; j < 3; ++j) r.m[i][j] = (LD) a[i][j];
    return r;
}
static LD dist (const M3& a, const M3& b)
{
    LD d = 0;
    for (int i = 0; i < 3; ++i) for (int j = 0; j < 3; ++j) d = std::max (d, fabsl (a.m[i][j] - b.m[i][j]));
    return d;
}

static std::mt19937_64 rng;
static long evals = 0, failures = 0, gimbalExact = 0, gimbalNear = 0, flipTaken = 0, flipNotTaken = 0;
static long otherOrderConverted = 0, otherOrderSame = 0, foreignQuat = 0, foreignSignedPerm = 0, foreignSignedPermGimbal = 0, foreignProduct = 0, foreignAxisAngle = 0;
static std::map<std::string, double> worst; // section -> worst error in units of its bound's scale
static void note (const std::string& sec, double v) { if (v > worst[sec]) worst[sec] = v; }
template <class T> static const char* tn () { return sizeof (T) == 4 ? "float" : "double"; }

template <class T>
static void fail (const char* sec, const OrdInfo& o, T x, T y, T z, double err, double bound, const char* extra = "")
{
    ++failures;
    // at most 2 lines per (section, order, type) so that one broken member cannot hide another
    static std::map<std::string, int> printed;
    std::string key = std::string (sec) + ":" + o.name + ":" + tn<T> ();
    if (++printed[key] <= 2 && printed.size () <= 400)
        printf ("RESIDUE-FAIL %s:%s:%s err=%.6g bound=%.6g angles=%.17g %.17g %.17g %s\n", sec, o.name, tn<T> (), err, bound, (double) x, (double) y,
                (double) z, extra);
}

template <class T> static void oneTriple (const OrdInfo& o, T x, T y, T z, bool gimbal)
{
    typedef Euler<T> E;
    const LD eps = std::numeric_limits<T>::epsilon ();
    typename E::Order ord = (typename E::Order) o.code;
    LD amax = std::max (std::max (fabsl ((LD) x), fabsl ((LD) y)), std::max (fabsl ((LD) z), (LD) 1));
    E  e (x, y, z, ord);
    // A. the three builders against the spec (angles are exact inputs; the oracle uses the same values)
    M3 want = oracle (o, x, y, z);
    Matrix33<T> m3 = e.toMatrix33 ();
    Matrix44<T> m4 = e.toMatrix44 ();
    Quat<T>     q  = e.toQuat ();
    ++evals;
    {
        // sin/cos of an angle of magnitude a carries an absolute argument error eps*a/2 in T: bound 8 eps * max(1,|angle|)
        LD b = 8 * eps * amax;
        LD d3 = dist (m3, want), d4 = dist (m4, want), dq = dist (q.toMatrix33 (), want);
        note ("toMatrix_vs_spec_over_eps_amax", (double) (std::max (d3, std::max (d4, dq)) / (eps * amax)));
        if (d3 > b) fail<T> ("toMatrix33-vs-spec", o, x, y, z, (double) d3, (double) b);
        if (d4 > b) fail<T> ("toMatrix44-vs-spec", o, x, y, z, (double) d4, (double) b);
        if (dq > b) fail<T> ("toQuat-vs-spec", o, x, y, z, (double) dq, (double) b);
        bool embedOk = m4[0][3] == 0 && m4[1][3] == 0 && m4[2][3] == 0 && m4[3][0] == 0 && m4[3][1] == 0 && m4[3][2] == 0 && m4[3][3] == 1;
        for (int i = 0; i < 3; ++i) for (int j = 0; j < 3; ++j) embedOk = embedOk && m4[i][j] == m3[i][j];
        if (!embedOk) fail<T> ("toMatrix44-embed", o, x, y, z, 1, 0);
        if (e.order () != ord) fail<T> ("order", o, x, y, z, 1, 0);
    }
    // F. XYZ-layout constructor / setXYZVector / toXYZVector: exact slot permutations, mutually inverse;
    //    slot [first axis] of toXYZVector is the first angle etc. (independent table: i, j, third distinct axis)
    {
        int kk = 3 - o.i - o.j;
        Vec3<T> v = e.toXYZVector ();
        if (!(v[o.i] == x && v[o.j] == y && v[kk] == z)) fail<T> ("toXYZVector-slots", o, x, y, z, 1, 0);
        E s (ord);
        s.setXYZVector (v);
        if (!(s.x == x && s.y == y && s.z == z)) fail<T> ("setXYZVector-inverse", o, x, y, z, 1, 0);
        E c (v, ord, E::XYZLayout), c3 (v.x, v.y, v.z, ord, E::XYZLayout), ci (Vec3<T> (x, y, z), ord, E::IJKLayout);
        if (!(c.x == x && c.y == y && c.z == z && c.order () == ord)) fail<T> ("ctorXYZLayout", o, x, y, z, 1, 0);
        if (!(c3.x == x && c3.y == y && c3.z == z && c3.order () == ord)) fail<T> ("ctorXYZLayoutScalars", o, x, y, z, 1, 0);
        if (!(ci.x == x && ci.y == y && ci.z == z && ci.order () == ord)) fail<T> ("ctorIJKLayout", o, x, y, z, 1, 0);
        E cc (e), ca (ord == E::XYZ ? E::ZYX : E::XYZ);
        ca = e;
        if (!(cc.x == x && cc.y == y && cc.z == z && cc.order () == ord && ca.x == x && ca.y == y && ca.z == z && ca.order () == ord))
            fail<T> ("copy", o, x, y, z, 1, 0);
        Vec3<T> w = c.toXYZVector ();
        if (!(w.x == v.x && w.y == v.y && w.z == v.z)) fail<T> ("toXYZVector-inverse", o, x, y, z, 1, 0);
        int ai, aj, ak, mi, mj, mk;
        e.angleOrder (ai, aj, ak);
        e.angleMapping (mi, mj, mk);
        int mm[3] = {mi, mj, mk};
        if (!(ai == o.i && aj == o.j && ak == kk)) fail<T> ("angleOrder", o, x, y, z, 1, 0);
        if (!(mm[o.i] == 0 && mm[o.j] == 1 && mm[kk] == 2)) fail<T> ("angleMapping", o, x, y, z, 1, 0);
    }
    // B. extract (3x3, 4x4, quaternion) and convert back: the rotation is reproduced, also at gimbal lock
    {
        E e3 (ord), e4 (ord), eq (ord);
        e3.extract (m3);
        e4.extract (m4);
        eq.extract (q);
        bool same = (e3.x == e4.x || (e3.x != e3.x && e4.x != e4.x)) && (e3.y == e4.y || (e3.y != e3.y && e4.y != e4.y)) &&
                    (e3.z == e4.z || (e3.z != e3.z && e4.z != e4.z));
        if (!same) fail<T> ("extract33-vs-extract44", o, x, y, z, 1, 0);
        M3 src = toLD (m3);
        M3 back3 = oracle (o, e3.x, e3.y, e3.z);
        M3 backq = oracle (o, eq.x, eq.y, eq.z);
        LD d = dist (back3, src), dq = dist (backq, toLD (q.toMatrix33 ()));
        LD b = 24 * eps;
        note (gimbal ? "roundtrip_gimbal_over_eps" : "roundtrip_over_eps", (double) (std::max (d, dq) / eps));
        if (!(d <= b)) fail<T> (gimbal ? "extract-roundtrip-gimbal" : "extract-roundtrip", o, x, y, z, (double) d, (double) b);
        if (!(dq <= b)) fail<T> ("extract-quat-roundtrip", o, x, y, z, (double) dq, (double) b);
        // the real toMatrix33 of the extracted angles as well
        LD dr = dist (E (e3.x, e3.y, e3.z, ord).toMatrix33 (), src);
        if (!(dr <= b)) fail<T> ("extract-toMatrix-real", o, x, y, z, (double) dr, (double) b);
        // extracted angles are in the principal ranges
        LD lim = PI_LD * (1 + 4 * eps);
        if (!(fabsl ((LD) e3.x) <= lim && fabsl ((LD) e3.y) <= lim && fabsl ((LD) e3.z) <= lim)) fail<T> ("extract-range", o, x, y, z, 1, 0);
    }
    // C. re-ordering constructor preserves the rotation (to every other order)
    {
        int k = (int) (rng () % 24);
        const OrdInfo& n = ORD[k];
        E r (e, (typename E::Order) n.code);
        M3 got = oracle (n, r.x, r.y, r.z);
        LD d = dist (got, toLD (m3)), b = 24 * eps;
        note ("reorder_over_eps", (double) (d / eps));
        if (!(d <= b)) fail<T> ("reorder", o, x, y, z, (double) d, (double) b, n.name);
        if (r.order () != (typename E::Order) n.code) fail<T> ("reorder-order", o, x, y, z, 1, 0, n.name);
    }
}

// H. `extract` on rotation matrices that were NOT produced by this library's toMatrix33 of the same order ("any rotation
//    matrix"): unit quaternions, the 24 signed-permutation rotations (exact 0/±1 entries in every position, gimbal-locked
//    for many orders), products of two builders of different orders, Matrix44::setAxisAngle.  Oracle unchanged:
//    oracle (o, extracted angles) ≈ M, to 24 eps plus the input's own orthonormality defect.
template <class T> static LD orthoDefect (const Matrix33<T>& M)
{
    LD d = 0;
    for (int i = 0; i < 3; ++i)
        for (int j = 0; j < 3; ++j)
        {
            LD s = 0;
            for (int k = 0; k < 3; ++k) s += (LD) M[i][k] * (LD) M[j][k];
            d = std::max (d, fabsl (s - (i == j ? 1 : 0)));
        }
    return d;
}
template <class T> static void foreignOne (const OrdInfo& o, const Matrix33<T>& M, const char* sec, const char* noteKey)
{
    typedef Euler<T> E;
    const LD eps = std::numeric_limits<T>::epsilon ();
    typename E::Order ord = (typename E::Order) o.code;
    ++evals;
    E e3 (ord), e4 (ord);
    e3.extract (M);
    Matrix44<T> M4 (M[0][0], M[0][1], M[0][2], 0, M[1][0], M[1][1], M[1][2], 0, M[2][0], M[2][1], M[2][2], 0, 0, 0, 0, 1);
    e4.extract (M4);
    bool same = (e3.x == e4.x || (e3.x != e3.x && e4.x != e4.x)) && (e3.y == e4.y || (e3.y != e3.y && e4.y != e4.y)) &&
                (e3.z == e4.z || (e3.z != e3.z && e4.z != e4.z));
    if (!same) fail<T> ("extract33-vs-extract44", o, e3.x, e3.y, e3.z, 1, 0, sec);
    LD def = orthoDefect (M);
    LD b = 24 * eps + 4 * def;
    LD d = dist (oracle (o, e3.x, e3.y, e3.z), toLD (M));
    LD dr = dist (E (e3.x, e3.y, e3.z, ord).toMatrix33 (), toLD (M));
    note (noteKey, (double) (std::max (d, dr) / eps));
    if (!(d <= b)) fail<T> (sec, o, e3.x, e3.y, e3.z, (double) d, (double) b, "oracle(extracted) vs input matrix");
    if (!(dr <= b)) fail<T> (sec, o, e3.x, e3.y, e3.z, (double) dr, (double) b, "real toMatrix33(extracted) vs input matrix");
    // constructor form
    E ec (M, ord);
    if (!(ec.x == e3.x || (ec.x != ec.x && e3.x != e3.x)) || !(ec.y == e3.y || (ec.y != ec.y && e3.y != e3.y)) || ec.order () != ord)
        fail<T> ("ctor-matrix", o, e3.x, e3.y, e3.z, 1, 0, sec);
}
template <class T> static void foreignAll (int n)
{
    std::uniform_real_distribution<double> U (-1.0, 1.0);
    // the 24 signed-permutation rotations, every order
    int perms[6][3] = {{0, 1, 2}, {0, 2, 1}, {1, 0, 2}, {1, 2, 0}, {2, 0, 1}, {2, 1, 0}};
    for (int oi = 0; oi < 24; ++oi)
        for (int p = 0; p < 6; ++p)
            for (int sg = 0; sg < 8; ++sg)
            {
                Matrix33<T> M (0, 0, 0, 0, 0, 0, 0, 0, 0);
                for (int r = 0; r < 3; ++r) M[r][perms[p][r]] = ((sg >> r) & 1) ? T (-1) : T (1);
                if (M.determinant () != T (1)) continue;
                ++foreignSignedPerm;
                const OrdInfo& o = ORD[oi];
                // gimbal-locked for this order: non-repeated |M[i][k]| = 1, repeated |M[i][i]| = 1 (k = the third decoded axis)
                int kk = 3 - o.i - o.j;
                if (o.rep ? (M[o.i][o.i] != 0) : (M[o.i][kk] != 0)) ++foreignSignedPermGimbal;
                foreignOne<T> (o, M, "extract-foreign-signedperm", "foreign_signedperm_over_eps");
            }
    for (int oi = 0; oi < 24; ++oi)
    {
        const OrdInfo& o = ORD[oi];
        for (int t = 0; t < n; ++t)
        {
            // random unit quaternion (normalised in T)
            Quat<T> q ((T) U (rng), (T) U (rng), (T) U (rng), (T) U (rng));
            if (q.length () < T (0.1)) continue;
            q.normalize ();
            ++foreignQuat;
            foreignOne<T> (o, q.toMatrix33 (), "extract-foreign-quat", "foreign_quat_over_eps");
            // product of two builders of different orders (rounded product)
            const OrdInfo &o1 = ORD[rng () % 24], &o2 = ORD[rng () % 24];
            Matrix33<T> P = Euler<T> ((T) (U (rng) * 3), (T) (U (rng) * 3), (T) (U (rng) * 3), (typename Euler<T>::Order) o1.code).toMatrix33 () *
                            Euler<T> ((T) (U (rng) * 3), (T) (U (rng) * 3), (T) (U (rng) * 3), (typename Euler<T>::Order) o2.code).toMatrix33 ();
            ++foreignProduct;
            foreignOne<T> (o, P, "extract-foreign-product", "foreign_product_over_eps");
            // Matrix44::setAxisAngle about a random axis (every third time about a coordinate axis by a multiple of π/2: near-exact gimbal)
            Vec3<T> ax ((T) U (rng), (T) U (rng), (T) U (rng));
            T       ang = (T) (U (rng) * 3.1);
            if (t % 3 == 0) { ax = Vec3<T> (0, 0, 0); ax[rng () % 3] = 1; ang = (T) (M_PI / 2 * (double) ((long) (rng () % 8) - 4)); }
            if (ax.length () < T (0.1)) continue;
            Matrix44<T> A;
            A.setAxisAngle (ax, ang);
            Matrix33<T> A3 (A[0][0], A[0][1], A[0][2], A[1][0], A[1][1], A[1][2], A[2][0], A[2][1], A[2][2]);
            ++foreignAxisAngle;
            foreignOne<T> (o, A3, "extract-foreign-axisangle", "foreign_axisangle_over_eps");
        }
    }
}

// D. makeNear / nearestRotation / simpleXYZRotation: the six non-repeated fixed-axis orders
template <class T> static void nearTriple (const OrdInfo& o, T x, T y, T z, T tx, T ty, T tz)
{
    typedef Euler<T> E;
    typename E::Order ord = (typename E::Order) o.code;
    const LD epsf = std::numeric_limits<float>::epsilon (); // angleMod returns float for every T
    LD amax = 1;
    for (T v : {x, y, z, tx, ty, tz}) amax = std::max (amax, fabsl ((LD) v));
    ++evals;
    E e (x, y, z, ord), t (tx, ty, tz, ord);
    M3 before = oracle (o, x, y, z);
    E  n = e;
    n.makeNear (t);
    M3 after = oracle (o, n.x, n.y, n.z);
    // single precision: each angle is target + float(angleMod(...)), computed in T
    LD b = 8 * epsf * amax;
    LD d = dist (after, before);
    note ("makeNear_rotation_over_epsf_amax", (double) (d / (epsf * amax)));
    if (!(d <= b)) fail<T> ("makeNear-rotation", o, x, y, z, (double) d, (double) b);
    LD lim = PI_LD + 4 * epsf * amax;
    LD w = std::max (fabsl ((LD) n.x - tx), std::max (fabsl ((LD) n.y - ty), fabsl ((LD) n.z - tz)));
    note ("makeNear_excess_over_pi_in_epsf_amax", (double) ((w - PI_LD) / (epsf * amax)));
    if (!(w <= lim)) fail<T> ("makeNear-within-pi", o, x, y, z, (double) w, (double) lim);
    if (n.order () != ord) fail<T> ("makeNear-order", o, x, y, z, 1, 0);
    // target given in a DIFFERENT order (makeNear converts it with the re-ordering constructor): rotation still unchanged
    {
        const OrdInfo& other = ORD[rng () % 24];
        E t2 (tx, ty, tz, (typename E::Order) other.code), n2 = e;
        n2.makeNear (t2);
        LD d4 = dist (oracle (o, n2.x, n2.y, n2.z), before);
        note ("makeNear_other_order_rotation_over_epsf_amax", (double) (d4 / (epsf * amax)));
        if (!(d4 <= b)) fail<T> ("makeNear-rotation-other-order", o, x, y, z, (double) d4, (double) b, other.name);
        if (n2.order () != ord) fail<T> ("makeNear-order", o, x, y, z, 1, 0, other.name);
        // … and every angle within π of the target EXPRESSED IN e's ORDER (what the re-ordering constructor returns; that it
        // is the same rotation as t2 is section C); the converted angles are O(π), so the scale is max(1, |x|,|y|,|z|)
        E  t2c = (other.code == o.code) ? t2 : E (t2, ord); // same order: makeNear uses the target's angles as they are
        LD amax2 = 1;
        for (T v : {x, y, z, t2c.x, t2c.y, t2c.z}) amax2 = std::max (amax2, fabsl ((LD) v));
        LD lim2 = PI_LD + 4 * epsf * amax2;
        LD w4 = std::max (fabsl ((LD) n2.x - t2c.x), std::max (fabsl ((LD) n2.y - t2c.y), fabsl ((LD) n2.z - t2c.z)));
        note ("makeNear_other_order_excess_over_pi_in_epsf_amax", (double) ((w4 - PI_LD) / (epsf * amax2)));
        if (!(w4 <= lim2)) fail<T> ("makeNear-within-pi-other-order", o, x, y, z, (double) w4, (double) lim2, other.name);
        if (other.code != o.code) ++otherOrderConverted; else ++otherOrderSame;
    }
    // nearestRotation on XYZ-layout vectors
    Vec3<T> xyz = e.toXYZVector (), txyz = t.toXYZVector (), s = xyz;
    E::nearestRotation (s, txyz, ord);
    E ns (ord);
    ns.setXYZVector (s);
    LD d2 = dist (oracle (o, ns.x, ns.y, ns.z), before);
    if (!(d2 <= b)) fail<T> ("nearestRotation-rotation", o, x, y, z, (double) d2, (double) b);
    LD w2 = std::max (fabsl ((LD) s.x - txyz.x), std::max (fabsl ((LD) s.y - txyz.y), fabsl ((LD) s.z - txyz.z)));
    if (!(w2 <= lim)) fail<T> ("nearestRotation-within-pi", o, x, y, z, (double) w2, (double) lim);
    // which alternative was chosen (hit counts)
    Vec3<T> simple = xyz;
    E::simpleXYZRotation (simple, txyz);
    if (s.x == simple.x && s.y == simple.y && s.z == simple.z) ++flipNotTaken; else ++flipTaken;
    E se (ord);
    se.setXYZVector (simple);
    LD d3 = dist (oracle (o, se.x, se.y, se.z), before);
    if (!(d3 <= b)) fail<T> ("simpleXYZRotation-rotation", o, x, y, z, (double) d3, (double) b);
    LD w3 = std::max (fabsl ((LD) simple.x - txyz.x), std::max (fabsl ((LD) simple.y - txyz.y), fabsl ((LD) simple.z - txyz.z)));
    if (!(w3 <= lim)) fail<T> ("simpleXYZRotation-within-pi", o, x, y, z, (double) w3, (double) lim);
}

// E. angleMod: in [-π, π] and congruent modulo 2π, to single precision
template <class T> static void angleModOne (T x)
{
    ++evals;
    const LD epsf = std::numeric_limits<float>::epsilon ();
    float r = Euler<T>::angleMod (x);
    // periods of 2·π_T; π_T differs from π by up to eps_T·π/2, so k periods drift by k·eps_T·π
    LD k = fabsl ((LD) x) / (2 * PI_LD);
    LD tol = 2 * epsf * PI_LD + (k + 1) * (LD) std::numeric_limits<T>::epsilon () * PI_LD * 2;
    OrdInfo dummy = {"angleMod", 0, 0, 0, 0, true, false};
    if (!(fabsl ((LD) r) <= PI_LD + tol)) fail<T> ("angleMod-range", dummy, x, T (0), T (0), (double) fabsl ((LD) r), (double) (PI_LD + tol));
    LD diff = ((LD) r - (LD) x) / (2 * PI_LD);
    LD off  = fabsl (diff - roundl (diff)) * 2 * PI_LD;
    note ("angleMod_congruence_over_tol", (double) (off / tol));
    if (!(off <= tol)) fail<T> ("angleMod-congruent", dummy, x, T (0), T (0), (double) off, (double) tol);
}

// G. the free functions of ImathMatrixAlgo.h against their builders (principal range), also with uniform scale
template <class T> static void algoOne (T x, T y, T z, T scale)
{
    ++evals;
    const LD eps = std::numeric_limits<T>::epsilon ();
    OrdInfo dX = {"extractEulerXYZ", 0, 0, 0, 0, true, false}, dZ = {"extractEulerZYX", 0, 0, 0, 0, true, false};
    Matrix44<T> m;
    m.setEulerAngles (Vec3<T> (x, y, z));
    {
        // Matrix44::setEulerAngles = the XYZ rotation of the spec (a different operation order than toMatrix44: not bitwise)
        LD ds = dist (m, oracle (ORD[0], x, y, z));
        OrdInfo dS = {"XYZ", 0, 0, 0, 0, true, false};
        note ("setEulerAngles_vs_spec_over_eps", (double) (ds / eps));
        if (!(ds <= 8 * eps)) fail<T> ("setEulerAngles", dS, x, y, z, (double) ds, (double) (8 * eps));
    }
    Matrix44<T> ms = m;
    for (int i = 0; i < 3; ++i) for (int j = 0; j < 3; ++j) ms[i][j] *= scale;
    Vec3<T> r;
    extractEulerXYZ (ms, r);
    // conditioning 1/cos(y) for the outer angles
    LD cond = 1 / std::max ((LD) 1e-3, fabsl (cosl ((LD) y)));
    LD b = 16 * eps * cond;
    LD d = std::max (fabsl ((LD) r.x - x), std::max (fabsl ((LD) r.y - y), fabsl ((LD) r.z - z)));
    note ("extractEulerXYZ_angle_err_over_eps_cond", (double) (d / (eps * cond)));
    if (!(d <= b)) fail<T> ("extractEulerXYZ", dX, x, y, z, (double) d, (double) b);
    Matrix44<T> mz = Euler<T> (x, y, z, Euler<T>::ZYX).toMatrix44 ();
    for (int i = 0; i < 3; ++i) for (int j = 0; j < 3; ++j) mz[i][j] *= scale;
    extractEulerZYX (mz, r);
    d = std::max (fabsl ((LD) r.x - x), std::max (fabsl ((LD) r.y - y), fabsl ((LD) r.z - z)));
    note ("extractEulerZYX_angle_err_over_eps_cond", (double) (d / (eps * cond)));
    if (!(d <= b)) fail<T> ("extractEulerZYX", dZ, x, y, z, (double) d, (double) b);
    OrdInfo d2 = {"extractEuler22", 0, 0, 0, 0, true, false}, d3 = {"extractEuler33", 0, 0, 0, 0, true, false};
    Matrix22<T> m2; m2.setRotation (x);
    Matrix33<T> m3; m3.setRotation (x);
    for (int i = 0; i < 2; ++i) for (int j = 0; j < 2; ++j) { m2[i][j] *= scale; m3[i][j] *= scale; }
    T r2, r3;
    extractEuler (m2, r2);
    extractEuler (m3, r3);
    LD d22 = fabsl ((LD) r2 - x), d33 = fabsl ((LD) r3 - x);
    note ("extractEuler2D_angle_err_over_eps", (double) (std::max (d22, d33) / eps));
    if (!(d22 <= 8 * eps)) fail<T> ("extractEuler22", d2, x, y, z, (double) d22, (double) (8 * eps));
    if (!(d33 <= 8 * eps)) fail<T> ("extractEuler33", d3, x, y, z, (double) d33, (double) (8 * eps));
}

template <class T> static void runAll (int n)
{
    {
        std::uniform_real_distribution<double> V (-1.0, 1.0);
        for (int t = 0; t < 20 * n; ++t)
        {
            double x = V (rng) * 3.1, y = V (rng) * 1.5, z = V (rng) * 3.1;
            double sc = (t % 3 == 0) ? 1.0 : std::pow (2.0, (double) ((long) (rng () % 21) - 10));
            algoOne<T> ((T) x, (T) y, (T) z, (T) sc);
        }
    }
    std::uniform_real_distribution<double> U (-1.0, 1.0);
    for (int oi = 0; oi < 24; ++oi)
    {
        const OrdInfo& o = ORD[oi];
        if ((int) (typename Euler<T>::Order) o.code != o.code) { printf ("RESIDUE-FAIL table:%s\n", o.name); ++failures; }
        for (int t = 0; t < n; ++t)
        {
            // angles over several periods
            auto ang = [&] () { return U (rng) * M_PI + 2 * M_PI * (double) ((long) (rng () % 7) - 3); };
            double x = ang (), y = ang (), z = ang ();
            bool   gimbal = false;
            int    cls = t % 4;
            if (cls >= 2)
            {
                // middle angle at / within 1e-k of gimbal lock: ±π/2 (non-repeated), 0 or π (repeated), plus whole periods
                double g = o.rep ? ((rng () & 1) ? 0.0 : M_PI) : ((rng () & 1) ? M_PI / 2 : -M_PI / 2);
                g += 2 * M_PI * (double) ((long) (rng () % 5) - 2);
                if (cls == 2) { y = g; ++gimbalExact; }
                else { y = g + ((rng () & 1) ? 1 : -1) * std::pow (10.0, -(double) (1 + rng () % 15)); ++gimbalNear; }
                gimbal = true;
            }
            oneTriple<T> (o, (T) x, (T) y, (T) z, gimbal);
            if (!o.rep && o.stat)
            {
                double tx = ang (), ty = ang (), tz = ang ();
                if (t % 3 == 0) { tx = x + U (rng) * 0.1; ty = y + U (rng) * 0.1; tz = z + U (rng) * 0.1; }          // target close by
                if (t % 3 == 1) { tx = M_PI + x + U (rng) * 0.1; ty = M_PI - y + U (rng) * 0.1; tz = M_PI + z + U (rng) * 0.1; } // close to the flipped triple
                nearTriple<T> (o, (T) x, (T) y, (T) z, (T) tx, (T) ty, (T) tz);
            }
        }
    }
    foreignAll<T> (std::max (1, n / 4));
    for (int t = 0; t < 40 * n; ++t)
    {
        double x;
        switch (t % 4)
        {
            case 0: x = U (rng) * 8 * M_PI; break;
            case 1: x = (double) ((long) (rng () % 17) - 8) * M_PI + U (rng) * std::pow (10.0, -(double) (rng () % 10)); break;
            case 2: x = U (rng) * M_PI * (1 + 1e-6 * U (rng)); break;
            default: x = U (rng) * 64 * M_PI; break;
        }
        angleModOne<T> ((T) x);
    }
}

int main (int argc, char** argv)
{
    unsigned long seed = argc > 1 ? strtoul (argv[1], 0, 10) : 1;
    int           n    = argc > 2 ? atoi (argv[2]) : 200;
    rng.seed (seed * 7919ul + 11);
    runAll<double> (n);
    runAll<float> (n);
    printf ("HITS other_order_converted=%ld other_order_same=%ld foreign_quat=%ld foreign_signedperm=%ld foreign_signedperm_gimbal=%ld foreign_product=%ld foreign_axisangle=%ld\n",
            otherOrderConverted, otherOrderSame, foreignQuat, foreignSignedPerm, foreignSignedPermGimbal, foreignProduct, foreignAxisAngle);
    printf ("RESIDUE evals=%ld failures=%ld gimbal_exact=%ld gimbal_near=%ld flip_taken=%ld flip_not_taken=%ld", evals, failures, gimbalExact, gimbalNear, flipTaken, flipNotTaken);
    for (auto& kv : worst) printf (" %s=%.4g", kv.first.c_str (), kv.second);
    printf ("\n");
    return failures ? 1 : 0;
}
