// C11 correspondence harness (H-route): calls the REAL Euler<T> bit-field code and angleMod and
// prints canonical lines that Driver/Euler.lean reproduces from Model/EulerOrder.lean.
//
//   c11_corr order <lo> <hi>      every bit pattern p in [lo,hi) cast to Euler<T>::Order:
//        `p legal order(setOrder p) frameStatic initialRepeated parityEven initialAxis i j k mi mj mk`
//        (Euler<float> and Euler<double> are both run and must agree)
//   c11_corr anglemod <seed> <n>  structured inputs x for T = double and T = float:
//        `<d|f> <bits of x> <bits of static_cast<T>(M_PI)> <bits of the float returned by angleMod (x)>`
//   c11_corr anglemod-float-all <stride> <offset> <threads>
//        EVERY float bit pattern p ≡ offset (mod stride) (stride 1 = all 2^32), no Lean driver involved: for finite x
//        r = Euler<float>::angleMod (x) must satisfy |r| ≤ float (M_PI) EXACTLY and r ≡ x modulo 2·float (M_PI) EXACTLY
//        (fmodl (x, P) − r ∈ {0, ±P} in long double; all three numbers are floats of magnitude < 2P, the difference is exact);
//        these two conditions determine r up to the choice between +π_f and −π_f.  Also the float neighbours of every
//        multiple k·π_f, |k| ≤ 4096, are always included.  Prints one `AMALL …` summary line and up to 20 `AMALL-FAIL` lines.
//   c11_corr anglemod-double-sweep <seed> <n> <kmax>   T = double, structured + random, exact range / half-float-ulp congruence (see below)
#include <ImathEuler.h>
#include <cstdio>
#include <cstdlib>
#include <cstring>
#include <cmath>
#include <random>
#include <string>
#include <vector>
#include <thread>
#include <atomic>
#include <mutex>
using namespace IMATH_INTERNAL_NAMESPACE;

template <class T> static std::string orderLine (int p)
{
    typedef Euler<T> E;
    E e;
    typename E::Order o = (typename E::Order) p;
    e.setOrder (o);
    int i, j, k, mi, mj, mk;
    e.angleOrder (i, j, k);
    e.angleMapping (mi, mj, mk);
    char buf[256];
    snprintf (buf, sizeof buf, "%d %d %d %d %d %d %d %d %d %d %d %d %d", p, E::legal (o) ? 1 : 0, (int) e.order (), e.frameStatic () ? 1 : 0,
              e.initialRepeated () ? 1 : 0, e.parityEven () ? 1 : 0, (int) e.initialAxis (), i, j, k, mi, mj, mk);
    return buf;
}

static unsigned long long bitsOf (double x) { unsigned long long u; memcpy (&u, &x, 8); return u; }
static unsigned bitsOf (float x) { unsigned u; memcpy (&u, &x, 4); return u; }

template <class T> static void amLine (T x)
{
    if (!std::isfinite ((double) x)) return;
    const T pi = static_cast<T> (M_PI);
    float   r  = Euler<T>::angleMod (x);
    if (sizeof (T) == 8) printf ("d %llx %llx %x\n", (unsigned long long) bitsOf ((double) x), (unsigned long long) bitsOf ((double) pi), bitsOf (r));
    else printf ("f %x %x %x\n", bitsOf ((float) x), bitsOf ((float) pi), bitsOf (r));
}

template <class T> static void amAll (unsigned long seed, int n)
{
    std::mt19937_64 g (seed * 2654435761ul + sizeof (T));
    const T pi = static_cast<T> (M_PI);
    std::uniform_real_distribution<double> U (-1.0, 1.0);
    std::vector<T> xs;
    // boundaries: k·π, k·2π and their neighbours (up to 8 ulps on either side), for |k| ≤ 12
    for (int k = -12; k <= 12; ++k)
    {
        for (T base : {T (k * pi), T (k * (2 * pi)), T (k * M_PI), T ((k + 0.5) * pi)})
        {
            T lo = base, hi = base;
            xs.push_back (base);
            for (int s = 0; s < 8; ++s)
            {
                lo = std::nextafter (lo, T (-1e30)); hi = std::nextafter (hi, T (1e30));
                xs.push_back (lo); xs.push_back (hi);
            }
        }
    }
    for (T v : {T (0), T (-0.0), T (1e-30), T (-1e-30), T (1), T (-1), T (3), T (-3), T (4), T (-4), T (1e6), T (-1e6), T (1e15), T (-1e15), T (1e30), T (-1e30)})
        xs.push_back (v);
    for (int t = 0; t < n; ++t)
    {
        int    cls = t % 6;
        double x;
        switch (cls)
        {
            case 0: x = U (g) * 4 * M_PI; break;                                          // a couple of periods
            case 1: x = U (g) * 40 * M_PI; break;                                         // several periods
            case 2: x = (double) ((long) (g () % 41) - 20) * M_PI + U (g) * std::pow (10.0, -(double) (g () % 9)); break; // within 1e-k of k·π
            case 3: x = U (g) * std::pow (10.0, (double) (g () % 12)); break;               // graded magnitudes
            case 4: x = (double) ((long) (g () % 2001) - 1000) * 2 * M_PI + U (g) * 1e-5; break; // near far multiples of 2π
            default: x = U (g) * M_PI * (1 + 1e-7 * U (g)); break;                         // inside / just outside [-π, π]
        }
        xs.push_back (T (x));
    }
    for (T x : xs) amLine<T> (x);
}

int main (int argc, char** argv)
{
    std::string mode = argc > 1 ? argv[1] : "";
    if (mode == "order")
    {
        int lo = atoi (argv[2]), hi = atoi (argv[3]);
        for (int p = lo; p < hi; ++p)
        {
            std::string a = orderLine<float> (p), b = orderLine<double> (p);
            if (a != b) printf ("MISMATCH-float-double %s | %s\n", a.c_str (), b.c_str ());
            else printf ("%s\n", a.c_str ());
        }
        return 0;
    }
    if (mode == "anglemod")
    {
        unsigned long seed = strtoul (argv[2], 0, 10);
        int           n    = atoi (argv[3]);
        amAll<double> (seed, n);
        amAll<float> (seed, n);
        return 0;
    }
    if (mode == "anglemod-float-all")
    {
        unsigned long stride = strtoul (argv[2], 0, 10), offset = strtoul (argv[3], 0, 10);
        int           nth    = argc > 4 ? atoi (argv[4]) : 4;
        if (stride == 0) stride = 1;
        const float       pif = static_cast<float> (M_PI);
        const long double P   = 2.0L * (long double) pif;
        std::atomic<unsigned long long> evals (0), nonfinite (0), bad (0), noWrap (0), plus (0), minus (0), atPi (0);
        std::mutex                      mu;
        auto one = [&] (unsigned p, unsigned long long* c) {
            float x;
            memcpy (&x, &p, 4);
            if (!std::isfinite (x)) { ++c[1]; return; }
            float       r = Euler<float>::angleMod (x);
            long double a = fmodl ((long double) x, P), d = a - (long double) r;
            ++c[0];
            bool ok = std::fabs (r) <= pif && (d == 0 || d == P || d == -P);
            if (d == 0) ++c[3]; else if (d == -P) ++c[4]; else if (d == P) ++c[5];
            if (std::fabs (r) == pif) ++c[6];
            if (!ok)
            {
                ++c[2];
                std::lock_guard<std::mutex> g (mu);
                static int printed = 0;
                if (++printed <= 20) printf ("AMALL-FAIL x_bits=%08x x=%.9g r_bits=%08x r=%.9g fmodl=%.21Lg\n", p, (double) x, bitsOf (r), (double) r, a);
            }
        };
        std::vector<std::thread> th;
        for (int t = 0; t < nth; ++t)
            th.emplace_back ([&, t] {
                unsigned long long c[7] = {0, 0, 0, 0, 0, 0, 0};
                // thread t handles the indices i ≡ t (mod nth) of the arithmetic progression offset + i·stride
                for (unsigned long long p = offset + (unsigned long long) t * stride; p < (1ull << 32); p += (unsigned long long) nth * stride) one ((unsigned) p, c);
                evals += c[0]; nonfinite += c[1]; bad += c[2]; noWrap += c[3]; plus += c[4]; minus += c[5]; atPi += c[6];
            });
        for (auto& t : th) t.join ();
        // neighbours of k·π_f (the only places where a boundary slip `<` ↔ `<=` can show)
        unsigned long long c[7] = {0, 0, 0, 0, 0, 0, 0};
        for (int k = -4096; k <= 4096; ++k)
        {
            float b = (float) ((double) k * (double) pif), lo = b, hi = b;
            one (bitsOf (b), c);
            for (int s = 0; s < 4; ++s) { lo = std::nextafter (lo, -INFINITY); hi = std::nextafter (hi, INFINITY); one (bitsOf (lo), c); one (bitsOf (hi), c); }
        }
        evals += c[0]; bad += c[2]; noWrap += c[3]; plus += c[4]; minus += c[5]; atPi += c[6];
        printf ("AMALL evals=%llu nonfinite=%llu failures=%llu no_wrap=%llu plus_2pi=%llu minus_2pi=%llu result_at_pm_pi=%llu stride=%lu\n",
                (unsigned long long) evals, (unsigned long long) nonfinite, (unsigned long long) bad, (unsigned long long) noWrap,
                (unsigned long long) plus, (unsigned long long) minus, (unsigned long long) atPi, stride);
        return bad ? 1 : 0;
    }
    if (mode == "anglemod-double-sweep")
    {
        // T = double, C++ side only (the Lean-model comparison tolerates one float ulp; this does not): for x = k·M_PI ± j ulps
        // (|k| ≤ kmax, j ≤ 8), x = k·2·M_PI ± j ulps and n random doubles (±1e6, ±50, graded magnitudes): the returned float r
        // must satisfy |r| ≤ float (M_PI) EXACTLY and be within HALF A FLOAT ULP (at r) of a value exactly congruent to x
        // modulo 2·M_PI: fmodl (x, P) − r ∈ {0, ±P} ± ½ulp_f(r); fmodl is exact and the difference of a double and a float of
        // magnitude < 2P is exact in long double.  I.e. r is a correctly rounded float of an exact representative.
        unsigned long seed = strtoul (argv[2], 0, 10);
        long          n    = atol (argv[3]);
        long          kmax = argc > 4 ? atol (argv[4]) : 65536;
        const float       pif = static_cast<float> (M_PI);
        const long double P   = 2.0L * (long double) M_PI; // 2·M_PI is exact in double
        unsigned long long evals = 0, bad = 0, noWrap = 0, plus = 0, minus = 0, atPi = 0, abovePiD = 0;
        long double        worst = 0;
        auto one = [&] (double x) {
            if (!std::isfinite (x)) return;
            float       r = Euler<double>::angleMod (x);
            long double a = fmodl ((long double) x, P), d = a - (long double) r;
            long double up = (long double) std::nextafter (r, INFINITY) - (long double) r, dn = (long double) r - (long double) std::nextafter (r, -INFINITY);
            long double half = 0.5L * std::max (up, dn);
            long double e0 = fabsl (d), e1 = fabsl (d - P), e2 = fabsl (d + P), e = std::min (e0, std::min (e1, e2));
            ++evals;
            if (e == e0) ++noWrap; else if (e == e2) ++plus; else ++minus;
            if (std::fabs (r) == pif) ++atPi;
            if (std::fabs ((double) r) > M_PI) ++abovePiD;
            worst = std::max (worst, e / half);
            if (!(std::fabs (r) <= pif && e <= half))
            {
                if (++bad <= 20) printf ("AMDBL-FAIL x_bits=%016llx x=%.17g r_bits=%08x r=%.9g off=%.6Lg half_ulp=%.6Lg\n", bitsOf (x), x, bitsOf (r), (double) r, e, half);
            }
        };
        for (long k = -kmax; k <= kmax; ++k)
            for (double base : {(double) k * M_PI, (double) k * (2 * M_PI)})
            {
                double lo = base, hi = base;
                one (base);
                for (int j = 0; j < 8; ++j) { lo = std::nextafter (lo, -INFINITY); hi = std::nextafter (hi, INFINITY); one (lo); one (hi); }
            }
        std::mt19937_64 g (seed * 0x9E3779B97F4A7C15ull + 77);
        std::uniform_real_distribution<double> U (-1.0, 1.0);
        for (long t = 0; t < n; ++t)
        {
            double x;
            switch (t % 4)
            {
                case 0: x = U (g) * 1e6; break;
                case 1: x = U (g) * 50; break;
                case 2: x = U (g) * std::pow (10.0, (double) ((long) (g () % 30) - 12)); break;
                default: x = (double) ((long) (g () % 2000001) - 1000000) * M_PI * (1 + U (g) * 1e-9); break;
            }
            one (x);
        }
        printf ("AMDBL evals=%llu failures=%llu no_wrap=%llu plus_2pi=%llu minus_2pi=%llu result_at_pm_pi_f=%llu result_above_double_pi=%llu worst_over_half_ulp=%.4Lf\n",
                evals, bad, noWrap, plus, minus, atPi, abovePiD, worst);
        return bad ? 1 : 0;
    }
    fprintf (stderr, "usage: c11_corr order <lo> <hi> | anglemod <seed> <n> | anglemod-float-all <stride> <offset> <threads>\n");
    return 2;
}
