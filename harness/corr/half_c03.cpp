// Correspondence harness for C03 (half as a numeric type): runs the *real*
// class half / halfFunction / stream operators from /repo/src/Imath and prints
// the same canonical lines as lean/Driver/Half.lean.
//
//   class_all                 65,536 lines: classification bits + bits of -h
//   round_all <n>             65,536 lines: h.round(n).bits()
//   lut <f> <dmin> <dmax>     65,536 lines: halfFunction<unsigned> table read through operator()
//   arith_eval                stdin "h <a> <b>" | "f <a> <floatbits>" -> results of += -= *= /=
//   arith_list                stdin line 1 half patterns, line 2 float patterns -> per a two row hashes
//   arith_blocks <lo> <hi>    per a: hash over all 65,536 half right-hand sides x 4 operators
//   textio                    every finite half through operator<< then operator>>; mismatches + summary
//
// NaN results of arithmetic are printed as 0x7e00 (the model's Float32 has a
// single canonical NaN), everything else bit-exactly.
#include <half.h>
#include <halfFunction.h>
#include <cstdio>
#include <cstring>
#include <cstdlib>
#include <cstdint>
#include <string>
#include <sstream>
#include <iostream>
#include <thread>
#include <vector>
using namespace IMATH_NAMESPACE;

static float u2f (uint32_t u) { float f; memcpy (&f, &u, 4); return f; }
static half  mk (uint32_t b) { half h; h.setBits ((uint16_t) b); return h; }
static uint16_t canon (half h) { return h.isNan () ? (uint16_t) 0x7e00 : h.bits (); }

// the four compound operators, half and float right-hand side
static uint16_t op_h (int op, uint16_t a, uint16_t b)
{
    half x = mk (a), y = mk (b);
    switch (op) { case 0: x += y; break; case 1: x -= y; break; case 2: x *= y; break; default: x /= y; }
    return canon (x);
}
static uint16_t op_f (int op, uint16_t a, uint32_t fb)
{
    half x = mk (a); float y = u2f (fb);
    switch (op) { case 0: x += y; break; case 1: x -= y; break; case 2: x *= y; break; default: x /= y; }
    return canon (x);
}

static const uint64_t FNV0 = 1469598103934665603ull, FNVP = 1099511628211ull;

static uint64_t row_hash_h (uint16_t a, const std::vector<uint16_t>& bs)
{
    uint64_t h = FNV0;
    for (uint16_t b : bs) for (int op = 0; op < 4; ++op) h = (h ^ (uint64_t) op_h (op, a, b)) * FNVP;
    return h;
}
static uint64_t row_hash_f (uint16_t a, const std::vector<uint32_t>& fs)
{
    uint64_t h = FNV0;
    for (uint32_t f : fs) for (int op = 0; op < 4; ++op) h = (h ^ (uint64_t) op_f (op, a, f)) * FNVP;
    return h;
}

template <class F> static void parallel (size_t n, F job)
{
    unsigned nt = 16;
    std::vector<std::thread> th;
    for (unsigned t = 0; t < nt; ++t) th.emplace_back ([=] { for (size_t i = t; i < n; i += nt) job (i); });
    for (auto& t : th) t.join ();
}

struct FId { unsigned operator() (half x) const { return x.bits (); } };
struct FNeg { unsigned operator() (half x) const { return (-x).bits (); } };
struct FRound3 { unsigned operator() (half x) const { return x.round (3).bits (); } };

template <class F> static void dump_lut (F f, half dmin, half dmax)
{
    halfFunction<unsigned> hf (f, dmin, dmax, 0x10000u, 0x10001u, 0x10002u, 0x10003u);
    for (uint32_t b = 0; b < 65536; ++b) printf ("%x\n", hf (mk (b)));
}

static std::vector<std::string> words (const std::string& l)
{
    std::vector<std::string> w; std::istringstream is (l); std::string s;
    while (is >> s) w.push_back (s);
    return w;
}

int main (int argc, char** argv)
{
    if (argc < 2) return 2;
    std::string cmd = argv[1];
    if (cmd == "class_all")
    {
        for (uint32_t b = 0; b < 65536; ++b)
        {
            half h = mk (b);
            int c = (h.isFinite () ? 1 : 0) + (h.isNormalized () ? 2 : 0) + (h.isDenormalized () ? 4 : 0) +
                    (h.isZero () ? 8 : 0) + (h.isNan () ? 16 : 0) + (h.isInfinity () ? 32 : 0) + (h.isNegative () ? 64 : 0);
            printf ("%d %x\n", c, (-h).bits ());
        }
        return 0;
    }
    if (cmd == "round_all" && argc > 2)
    {
        unsigned n = (unsigned) atoi (argv[2]);
        for (uint32_t b = 0; b < 65536; ++b) printf ("%x\n", mk (b).round (n).bits ());
        return 0;
    }
    if (cmd == "lut" && argc > 4)
    {
        std::string f = argv[2];
        half dmin = mk ((uint32_t) strtoul (argv[3], 0, 16)), dmax = mk ((uint32_t) strtoul (argv[4], 0, 16));
        if (f == "neg") dump_lut (FNeg (), dmin, dmax);
        else if (f == "round3") dump_lut (FRound3 (), dmin, dmax);
        else dump_lut (FId (), dmin, dmax);
        return 0;
    }
    if (cmd == "arith_eval")
    {
        std::string l;
        while (std::getline (std::cin, l))
        {
            auto w = words (l);
            if (w.size () != 3) continue;
            uint16_t a = (uint16_t) strtoul (w[1].c_str (), 0, 16);
            uint32_t b = (uint32_t) strtoul (w[2].c_str (), 0, 16);
            for (int op = 0; op < 4; ++op)
                printf ("%x%c", w[0] == "h" ? op_h (op, a, (uint16_t) b) : op_f (op, a, b), op == 3 ? '\n' : ' ');
        }
        return 0;
    }
    if (cmd == "arith_list")
    {
        std::string l1, l2;
        std::getline (std::cin, l1); std::getline (std::cin, l2);
        std::vector<uint16_t> hs; std::vector<uint32_t> fs;
        for (auto& s : words (l1)) hs.push_back ((uint16_t) strtoul (s.c_str (), 0, 16));
        for (auto& s : words (l2)) fs.push_back ((uint32_t) strtoul (s.c_str (), 0, 16));
        std::vector<uint64_t> r1 (hs.size ()), r2 (hs.size ());
        uint64_t *p1 = r1.data (), *p2 = r2.data ();
        const std::vector<uint16_t>* ph = &hs; const std::vector<uint32_t>* pf = &fs;
        parallel (hs.size (), [=] (size_t i) { p1[i] = row_hash_h ((*ph)[i], *ph); p2[i] = row_hash_f ((*ph)[i], *pf); });
        for (size_t i = 0; i < hs.size (); ++i) printf ("%llx %llx\n", (unsigned long long) r1[i], (unsigned long long) r2[i]);
        return 0;
    }
    if (cmd == "arith_blocks" && argc > 3)
    {
        uint32_t lo = (uint32_t) atol (argv[2]), hi = (uint32_t) atol (argv[3]);
        std::vector<uint16_t> all (65536);
        for (uint32_t b = 0; b < 65536; ++b) all[b] = (uint16_t) b;
        std::vector<uint64_t> r (hi - lo);
        uint64_t* pr = r.data (); const std::vector<uint16_t>* pa = &all;
        parallel (hi - lo, [=] (size_t i) { pr[i] = row_hash_h ((uint16_t) (lo + i), *pa); });
        for (size_t i = 0; i < r.size (); ++i) printf ("%llx\n", (unsigned long long) r[i]);
        return 0;
    }
    if (cmd == "textio")
    {
        unsigned n = 0, bad = 0;
        for (uint32_t b = 0; b < 65536; ++b)
        {
            half h = mk (b);
            if (!h.isFinite ()) continue;
            ++n;
            std::stringstream ss;
            ss << h;                      // real operator<< (half.cpp)
            std::string text = ss.str ();
            half g = mk (0x7fff);
            ss >> g;                      // real operator>>
            bool ok = !ss.fail () && g.bits () == h.bits ();
            if (!ok) { ++bad; if (bad <= 20) printf ("mismatch %x %s %x fail=%d\n", b, text.c_str (), g.bits (), (int) ss.fail ()); }
            if (b == 0x8000 || b == 0x3c00 || b == 0x0001 || b == 0x7bff || b == 0x3555 || b == 0xc4f3)
                printf ("sample %x %s %x\n", b, text.c_str (), g.bits ());
        }
        printf ("textio finite=%u mismatches=%u\n", n, bad);
        return 0;
    }
    return 2;
}
