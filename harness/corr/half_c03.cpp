// Correspondence harness for C03 (half as a numeric type): runs the *real*
// class half / halfFunction / stream operators from /repo/src/Imath and prints
// the same canonical lines as lean/Driver/Half.lean.
//
//   class_all                 65,536 lines: classification bits + bits of -h
//   classf_all                65,536 lines: classification bits, bits of -h, std::fpclassify (float (h)) as
//                             0 zero / 1 normal / 2 subnormal / 3 infinite / 4 nan, std::signbit (float (h))
//   round_all <n>             65,536 lines: h.round(n).bits()
//   lut <f> <dmin> <dmax>     65,536 lines: halfFunction<unsigned> table read through operator()
//   lutv <T> <f> <dmin> <dmax> <dflt> <pinf> <ninf> <nan>   the same for T = u(nsigned) | f(loat) | h(alf), all
//                             seven constructor arguments explicit (hex); table entries printed as integers
//                             (T = float stores float (bits), T = half stores the half with those bits)
//   lutd <T> <f>              ONE-argument constructor halfFunction<T> hf (f): the header's default arguments
//   lutd2 <T> <f> <dmin>      two-argument constructor (domainMax and the four values defaulted)
//                             (with -DIMATH_HAVE_LARGE_STACK the object holds the 65,536-entry array itself and is
//                             copyable: the table is then read through a COPY of the constructed object)
//   arith_eval                stdin "h <a> <b>" | "f <a> <floatbits>" -> results of += -= *= /=
//   arith_list                stdin line 1 half patterns, line 2 float patterns -> per a two row hashes
//   arith_blocks <lo> <hi>    per a: hash over all 65,536 half right-hand sides x 4 operators
//   arith_self_list           stdin as arith_list; NO model: x op= y against half (float (x) op float (y)) written
//                             out here, BIT-EXACTLY (NaN sign and payload included), half and float rhs; also
//                             half::operator= (float) against half (f)
//   arith_self_blocks <lo> <hi>   the same for every a in [lo,hi) x all 65,536 half rhs x 4 operators
//   arith_self_frows          stdin one line of float patterns: EVERY half a (all 65,536) x those float rhs x 4
//                             operators, same bit-exact self-check
//   textio [precision]        every finite half through operator<< then operator>>; mismatches + summary
//                             (precision: std::setprecision on the stream; default = the stream's default 6)
//   textio_dec <digits>       every decimal d.dd..e+-k with <digits> significant digits whose value is a
//                             normalized half magnitude: text -> operator>> -> operator<< (scientific,
//                             digits-1 decimals) must reproduce the text
//
// NaN results of arithmetic are printed as 0x7e00 in the arith_eval/list/blocks
// modes (the model's Float32 has a single canonical NaN), everything else bit-exactly.
#include <half.h>
#include <halfFunction.h>
#include <cstdio>
#include <cstring>
#include <cstdlib>
#include <cstdint>
#include <string>
#include <sstream>
#include <iostream>
#include <thread>
#include <vector>
#include <cmath>
#include <iomanip>
#include <memory>
#include <mutex>
#include <limits>
using namespace IMATH_NAMESPACE;

static float u2f (uint32_t u) { float f; memcpy (&f, &u, 4); return f; }
static half  mk (uint32_t b) { half h; h.setBits ((uint16_t) b); return h; }
static uint16_t canon (half h) { return h.isNan () ? (uint16_t) 0x7e00 : h.bits (); }

// the four compound operators, half and float right-hand side
static uint16_t op_h (int op, uint16_t a, uint16_t b)
{
    half x = mk (a), y = mk (b);
    switch (op) { case 0: x += y; break; case 1: x -= y; break; case 2: x *= y; break; default: x /= y; }
    return canon (x);
}
static uint16_t op_f (int op, uint16_t a, uint32_t fb)
{
    half x = mk (a); float y = u2f (fb);
    switch (op) { case 0: x += y; break; case 1: x -= y; break; case 2: x *= y; break; default: x /= y; }
    return canon (x);
}

static const uint64_t FNV0 = 1469598103934665603ull, FNVP = 1099511628211ull;

static uint64_t row_hash_h (uint16_t a, const std::vector<uint16_t>& bs)
{
    uint64_t h = FNV0;
    for (uint16_t b : bs) for (int op = 0; op < 4; ++op) h = (h ^ (uint64_t) op_h (op, a, b)) * FNVP;
    return h;
}
static uint64_t row_hash_f (uint16_t a, const std::vector<uint32_t>& fs)
{
    uint64_t h = FNV0;
    for (uint32_t f : fs) for (int op = 0; op < 4; ++op) h = (h ^ (uint64_t) op_f (op, a, f)) * FNVP;
    return h;
}

template <class F> static void parallel (size_t n, F job)
{
    unsigned nt = 16;
    std::vector<std::thread> th;
    for (unsigned t = 0; t < nt; ++t) th.emplace_back ([=] { for (size_t i = t; i < n; i += nt) job (i); });
    for (auto& t : th) t.join ();
}

struct FId { unsigned operator() (half x) const { return x.bits (); } };
struct FNeg { unsigned operator() (half x) const { return (-x).bits (); } };
struct FRound3 { unsigned operator() (half x) const { return x.round (3).bits (); } };

template <class F> static void dump_lut (F f, half dmin, half dmax)
{
    halfFunction<unsigned> hf (f, dmin, dmax, 0x10000u, 0x10001u, 0x10002u, 0x10003u);
    for (uint32_t b = 0; b < 65536; ++b) printf ("%x\n", hf (mk (b)));
}

// ---- halfFunction<T> for T = unsigned, float, half -------------------------------------------------
template <class T> struct Conv;
template <> struct Conv<unsigned> { static unsigned from (unsigned v) { return v; } static unsigned out (unsigned t) { return t; } };
template <> struct Conv<float> { static float from (unsigned v) { return (float) v; } static unsigned out (float t) { return (unsigned) t; } };
template <> struct Conv<half> { static half from (unsigned v) { return mk (v & 0xffff); } static unsigned out (half t) { return t.bits (); } };

template <class T> struct Fn
{
    int which;
    T operator() (half x) const
    {
        unsigned r = which == 1 ? (-x).bits () : which == 2 ? x.round (3).bits () : x.bits ();
        return Conv<T>::from (r);
    }
};
static int which_f (const std::string& f) { return f == "neg" ? 1 : f == "round3" ? 2 : 0; }

template <class T> static void print_table (const halfFunction<T>& hf)
{
#ifdef IMATH_HAVE_LARGE_STACK
    // the large-stack flavour is an ordinary copyable aggregate: read through a copy
    std::unique_ptr<halfFunction<T>> cp (new halfFunction<T> (hf));
    for (uint32_t b = 0; b < 65536; ++b) printf ("%x\n", Conv<T>::out ((*cp) (mk (b))));
#else
    for (uint32_t b = 0; b < 65536; ++b) printf ("%x\n", Conv<T>::out (hf (mk (b))));
#endif
}

template <class T> static int lut_cmd (const std::string& cmd, int argc, char** argv)
{
    Fn<T> f { which_f (argv[3]) };
    auto H = [&] (int i) { return (uint32_t) strtoul (argv[i], 0, 16); };
    std::unique_ptr<halfFunction<T>> hf;       // heap: 65,536 x T may be an array member (IMATH_HAVE_LARGE_STACK)
    if (cmd == "lutd" && argc == 4) hf.reset (new halfFunction<T> (f));
    else if (cmd == "lutd2" && argc == 5) hf.reset (new halfFunction<T> (f, mk (H (4))));
    else if (cmd == "lutv" && argc == 10)
        hf.reset (new halfFunction<T> (f, mk (H (4)), mk (H (5)), Conv<T>::from (H (6)), Conv<T>::from (H (7)),
                                       Conv<T>::from (H (8)), Conv<T>::from (H (9))));
    else return 2;
    print_table (*hf);
    return 0;
}

// ---- arithmetic self-check: the property's right-hand side written out, bit-exact -------------------
// half (float (x) op float (y)); volatile temporaries so that the compiler cannot merge this
// computation with the one inside the half operator under test.
static uint16_t ref_op (int op, float fx, float fy)
{
    volatile float a = fx, b = fy;
    volatile float r;
    switch (op) { case 0: r = a + b; break; case 1: r = a - b; break; case 2: r = a * b; break; default: r = a / b; }
    return half ((float) r).bits ();
}
static uint16_t raw_h (int op, uint16_t a, uint16_t b)
{
    half x = mk (a), y = mk (b);
    switch (op) { case 0: x += y; break; case 1: x -= y; break; case 2: x *= y; break; default: x /= y; }
    return x.bits ();
}
static uint16_t raw_f (int op, uint16_t a, uint32_t fb)
{
    half x = mk (a); float y = u2f (fb);
    switch (op) { case 0: x += y; break; case 1: x -= y; break; case 2: x *= y; break; default: x /= y; }
    return x.bits ();
}
struct SelfStat
{
    std::mutex m;
    unsigned long long evals = 0, bad = 0, nan_results = 0, nan_neg = 0, nan_payload = 0, commuted = 0;
    std::vector<std::string> first;
};
// One comparison.  For + and * with BOTH operands NaN the C++ expression `p + q` does not determine
// which operand's payload the hardware instruction propagates (the compiler may emit either operand
// order), so the commuted reference is accepted there too and counted.
static inline void self_one (SelfStat& loc, char kind, int op, uint16_t a, uint32_t b, uint16_t got, float fx, float fy)
{
    uint16_t e = ref_op (op, fx, fy);
    ++loc.evals;
    if ((e & 0x7c00) == 0x7c00 && (e & 0x3ff))
    {
        ++loc.nan_results;
        if (e & 0x8000) ++loc.nan_neg;
        if ((e & 0x7fff) != 0x7e00) ++loc.nan_payload;
    }
    if (got == e) return;
    if (op == 0 || op == 2)
        if (fx != fx && fy != fy && got == ref_op (op, fy, fx)) { ++loc.commuted; return; }
    ++loc.bad;
    if (loc.first.size () < 4)
    {
        char buf[160];
        snprintf (buf, sizeof buf, "mismatch %c %x %d %x got=%x expected=%x", kind, a, op, b, got, e);
        loc.first.push_back (buf);
    }
}
static void self_merge (SelfStat& g, SelfStat& loc)
{
    std::lock_guard<std::mutex> lk (g.m);
    g.evals += loc.evals; g.bad += loc.bad; g.nan_results += loc.nan_results; g.nan_neg += loc.nan_neg;
    g.nan_payload += loc.nan_payload; g.commuted += loc.commuted;
    for (auto& s : loc.first) if (g.first.size () < 20) g.first.push_back (s);
}
static void self_report (SelfStat& g, const char* tag)
{
    for (auto& s : g.first) printf ("%s\n", s.c_str ());
    printf ("%s evals=%llu mismatches=%llu nan_results=%llu negative_nan=%llu noncanonical_payload=%llu commuted_accepted=%llu\n",
            tag, g.evals, g.bad, g.nan_results, g.nan_neg, g.nan_payload, g.commuted);
}

static std::vector<std::string> words (const std::string& l)
{
    std::vector<std::string> w; std::istringstream is (l); std::string s;
    while (is >> s) w.push_back (s);
    return w;
}

int main (int argc, char** argv)
{
    if (argc < 2) return 2;
    std::string cmd = argv[1];
    if (cmd == "class_all")
    {
        for (uint32_t b = 0; b < 65536; ++b)
        {
            half h = mk (b);
            int c = (h.isFinite () ? 1 : 0) + (h.isNormalized () ? 2 : 0) + (h.isDenormalized () ? 4 : 0) +
                    (h.isZero () ? 8 : 0) + (h.isNan () ? 16 : 0) + (h.isInfinity () ? 32 : 0) + (h.isNegative () ? 64 : 0);
            printf ("%d %x\n", c, (-h).bits ());
        }
        return 0;
    }
    if (cmd == "classf_all")
    {
        for (uint32_t b = 0; b < 65536; ++b)
        {
            half h = mk (b);
            int c = (h.isFinite () ? 1 : 0) + (h.isNormalized () ? 2 : 0) + (h.isDenormalized () ? 4 : 0) +
                    (h.isZero () ? 8 : 0) + (h.isNan () ? 16 : 0) + (h.isInfinity () ? 32 : 0) + (h.isNegative () ? 64 : 0);
            volatile float f = float (h);          // the platform's classification of the converted value
            int k = std::fpclassify ((float) f);
            int fc = k == FP_ZERO ? 0 : k == FP_NORMAL ? 1 : k == FP_SUBNORMAL ? 2 : k == FP_INFINITE ? 3 : k == FP_NAN ? 4 : 9;
            printf ("%d %x %d %d\n", c, (-h).bits (), fc, std::signbit ((float) f) ? 1 : 0);
        }
        return 0;
    }
    if (cmd == "round_all" && argc > 2)
    {
        unsigned n = (unsigned) atoi (argv[2]);
        for (uint32_t b = 0; b < 65536; ++b) printf ("%x\n", mk (b).round (n).bits ());
        return 0;
    }
    if (cmd == "lut" && argc > 4)
    {
        std::string f = argv[2];
        half dmin = mk ((uint32_t) strtoul (argv[3], 0, 16)), dmax = mk ((uint32_t) strtoul (argv[4], 0, 16));
        if (f == "neg") dump_lut (FNeg (), dmin, dmax);
        else if (f == "round3") dump_lut (FRound3 (), dmin, dmax);
        else dump_lut (FId (), dmin, dmax);
        return 0;
    }
    if ((cmd == "lutv" || cmd == "lutd" || cmd == "lutd2") && argc > 3)
    {
        std::string t = argv[2];
        if (t == "u") return lut_cmd<unsigned> (cmd, argc, argv);
        if (t == "f") return lut_cmd<float> (cmd, argc, argv);
        if (t == "h") return lut_cmd<half> (cmd, argc, argv);
        return 2;
    }
    if (cmd == "arith_self_list")
    {
        std::string l1, l2;
        std::getline (std::cin, l1); std::getline (std::cin, l2);
        std::vector<uint16_t> hs; std::vector<uint32_t> fs;
        for (auto& s : words (l1)) hs.push_back ((uint16_t) strtoul (s.c_str (), 0, 16));
        for (auto& s : words (l2)) fs.push_back ((uint32_t) strtoul (s.c_str (), 0, 16));
        SelfStat g, ga; SelfStat* pg = &g;
        const std::vector<uint16_t>* ph = &hs; const std::vector<uint32_t>* pf = &fs;
        parallel (hs.size (), [=] (size_t i) {
            SelfStat loc; uint16_t a = (*ph)[i]; float fx = float (mk (a));
            for (uint16_t b : *ph) for (int op = 0; op < 4; ++op) self_one (loc, 'h', op, a, b, raw_h (op, a, b), fx, float (mk (b)));
            for (uint32_t f : *pf) for (int op = 0; op < 4; ++op) self_one (loc, 'f', op, a, f, raw_f (op, a, f), fx, u2f (f));
            self_merge (*pg, loc);
        });
        self_report (g, "arith_self");
        // half::operator= (float) (no caller elsewhere in the library): against the constructor
        for (uint32_t f : fs)
        {
            half h = mk (0x1234); h = u2f (f);
            half k (u2f (f));
            ++ga.evals;
            if (h.bits () != k.bits ())
            {
                ++ga.bad;
                if (ga.first.size () < 4) { char buf[96]; snprintf (buf, sizeof buf, "mismatch = %x got=%x expected=%x", f, h.bits (), k.bits ()); ga.first.push_back (buf); }
            }
        }
        self_report (ga, "assign_float");
        return 0;
    }
    if (cmd == "arith_self_frows")
    {
        std::string l1;
        std::getline (std::cin, l1);
        std::vector<uint32_t> fs;
        for (auto& s : words (l1)) fs.push_back ((uint32_t) strtoul (s.c_str (), 0, 16));
        SelfStat g; SelfStat* pg = &g;
        const std::vector<uint32_t>* pf = &fs;
        parallel (65536, [=] (size_t i) {
            SelfStat loc; uint16_t a = (uint16_t) i; float fx = float (mk (a));
            for (uint32_t f : *pf) for (int op = 0; op < 4; ++op) self_one (loc, 'f', op, a, f, raw_f (op, a, f), fx, u2f (f));
            self_merge (*pg, loc);
        });
        self_report (g, "arith_self");
        return 0;
    }
    if (cmd == "arith_self_blocks" && argc > 3)
    {
        uint32_t lo = (uint32_t) atol (argv[2]), hi = (uint32_t) atol (argv[3]);
        SelfStat g; SelfStat* pg = &g;
        parallel (hi - lo, [=] (size_t i) {
            SelfStat loc; uint16_t a = (uint16_t) (lo + i); float fx = float (mk (a));
            for (uint32_t b = 0; b < 65536; ++b)
            {
                float fy = float (mk (b));
                for (int op = 0; op < 4; ++op) self_one (loc, 'h', op, a, b, raw_h (op, a, (uint16_t) b), fx, fy);
            }
            self_merge (*pg, loc);
        });
        self_report (g, "arith_self");
        return 0;
    }
    if (cmd == "arith_eval")
    {
        std::string l;
        while (std::getline (std::cin, l))
        {
            auto w = words (l);
            if (w.size () != 3) continue;
            uint16_t a = (uint16_t) strtoul (w[1].c_str (), 0, 16);
            uint32_t b = (uint32_t) strtoul (w[2].c_str (), 0, 16);
            for (int op = 0; op < 4; ++op)
                printf ("%x%c", w[0] == "h" ? op_h (op, a, (uint16_t) b) : op_f (op, a, b), op == 3 ? '\n' : ' ');
        }
        return 0;
    }
    if (cmd == "arith_list")
    {
        std::string l1, l2;
        std::getline (std::cin, l1); std::getline (std::cin, l2);
        std::vector<uint16_t> hs; std::vector<uint32_t> fs;
        for (auto& s : words (l1)) hs.push_back ((uint16_t) strtoul (s.c_str (), 0, 16));
        for (auto& s : words (l2)) fs.push_back ((uint32_t) strtoul (s.c_str (), 0, 16));
        std::vector<uint64_t> r1 (hs.size ()), r2 (hs.size ());
        uint64_t *p1 = r1.data (), *p2 = r2.data ();
        const std::vector<uint16_t>* ph = &hs; const std::vector<uint32_t>* pf = &fs;
        parallel (hs.size (), [=] (size_t i) { p1[i] = row_hash_h ((*ph)[i], *ph); p2[i] = row_hash_f ((*ph)[i], *pf); });
        for (size_t i = 0; i < hs.size (); ++i) printf ("%llx %llx\n", (unsigned long long) r1[i], (unsigned long long) r2[i]);
        return 0;
    }
    if (cmd == "arith_blocks" && argc > 3)
    {
        uint32_t lo = (uint32_t) atol (argv[2]), hi = (uint32_t) atol (argv[3]);
        std::vector<uint16_t> all (65536);
        for (uint32_t b = 0; b < 65536; ++b) all[b] = (uint16_t) b;
        std::vector<uint64_t> r (hi - lo);
        uint64_t* pr = r.data (); const std::vector<uint16_t>* pa = &all;
        parallel (hi - lo, [=] (size_t i) { pr[i] = row_hash_h ((uint16_t) (lo + i), *pa); });
        for (size_t i = 0; i < r.size (); ++i) printf ("%llx\n", (unsigned long long) r[i]);
        return 0;
    }
    if (cmd == "textio")
    {
        unsigned n = 0, bad = 0;
        int prec = argc > 2 ? atoi (argv[2]) : -1;
        for (uint32_t b = 0; b < 65536; ++b)
        {
            half h = mk (b);
            if (!h.isFinite ()) continue;
            ++n;
            std::stringstream ss;
            if (prec >= 0) ss << std::setprecision (prec);
            ss << h;                      // real operator<< (half.cpp)
            std::string text = ss.str ();
            half g = mk (0x7fff);
            ss >> g;                      // real operator>>
            bool ok = !ss.fail () && g.bits () == h.bits ();
            if (!ok) { ++bad; if (bad <= 20) printf ("mismatch %x %s %x fail=%d\n", b, text.c_str (), g.bits (), (int) ss.fail ()); }
            if (b == 0x8000 || b == 0x3c00 || b == 0x0001 || b == 0x7bff || b == 0x3555 || b == 0xc4f3)
                printf ("sample %x %s %x\n", b, text.c_str (), g.bits ());
        }
        printf ("textio finite=%u mismatches=%u\n", n, bad);
        return 0;
    }
    if (cmd == "textio_dec" && argc > 2)
    {
        // decimal -> half -> decimal with `digits` significant digits (numeric_limits<half>::digits10 is the
        // largest count for which this is the identity on the normalized range)
        int digits = atoi (argv[2]);
        if (digits < 1 || digits > 6) return 2;
        long lo = 1, n = 0, bad = 0;
        for (int i = 1; i < digits; ++i) lo *= 10;
        const double hmin = std::ldexp (1.0, -14), hmax = 65504.0;
        for (int k = -6; k <= 5; ++k)
            for (long d = lo; d < lo * 10; ++d)
                for (int sg = 0; sg < 2; ++sg)
                {
                    char text[64];
                    // d.dd..e+-kk written from the integer digits: no floating-point formatting on the way in
                    std::string ds = std::to_string (d);
                    snprintf (text, sizeof text, "%s%c%s%se%c%02d", sg ? "-" : "", ds[0], digits > 1 ? "." : "", ds.c_str () + 1,
                              k < 0 ? '-' : '+', k < 0 ? -k : k);
                    double v = strtod (text, 0);
                    if (std::fabs (v) < hmin || std::fabs (v) > hmax) continue;
                    ++n;
                    std::stringstream in (text);
                    half h = mk (0x7fff);
                    in >> h;                                   // real operator>>
                    std::stringstream os;
                    os << std::scientific << std::setprecision (digits - 1) << h;   // real operator<<
                    bool ok = !in.fail () && os.str () == text;
                    if (!ok) { ++bad; if (bad <= 20) printf ("mismatch %s %x %s\n", text, h.bits (), os.str ().c_str ()); }
                    if (n == 1 || (d == 655 && k == 4 && !sg) || (d == 101 && k == 0 && sg))
                        printf ("sample %s %x %s\n", text, h.bits (), os.str ().c_str ());
                }
        printf ("textio_dec digits=%d decimals=%ld mismatches=%ld\n", digits, n, bad);
        return 0;
    }
    return 2;
}
