// C12 correspondence harness: calls the REAL code (ImathMatrixAlgo.h templates and the functions of
// ImathMatrixAlgo.cpp, which is #included so that the helpers of its anonymous namespace — one
// twoSidedJacobiRotation / jacobiRotation step — can be called directly) at double and prints
//     CASE <driver input> => <result>
// lines; tools/props/c12.py feeds <driver input> to lean/Driver/SHRT.lean (the hand models at Float) and
// compares <result> as text (bit patterns).  Also self-checks computeRSMatrix against the sequence of real calls
// it is documented to perform ("RS" lines) and prints hit counters ("STATS").
//   c12_corr <seed> <n>
#include <cstdint>
#include <ImathMatrixAlgo.cpp>
#include <ImathEuler.h>
#include "c12_structured.h"
#include <cstdio>
#include <cstring>
#include <random>
#include <string>
#include <vector>
#include <map>

using namespace IMATH_INTERNAL_NAMESPACE;
// Element type: double (default) or, with -DC12_FLOAT, float — the `float` instantiations of the same templates / of the functions
// explicitly instantiated in ImathMatrixAlgo.cpp, compared with the models evaluated at Float32 (lines are prefixed with `f32`).
#ifdef C12_FLOAT
typedef float T;
typedef uint32_t BITS;
#define CASEP "CASE f32 "
#define HEXFMT "%08llx"
static const int TINY_LO = 20, TINY_HI = 45, HUGE_LO = 10, HUGE_HI = 38, SMALL_LO = 30, SMALL_HI = 37, GRADE = 5, LEN_EXP = 45;
static const double DENORM = 1.401298464324817e-45, EPS_T = 1.1920928955078125e-07, NEARDIAG = 1e-8;
#else
typedef double T;
typedef uint64_t BITS;
#define CASEP "CASE "
#define HEXFMT "%016llx"
static const int TINY_LO = 150, TINY_HI = 320, HUGE_LO = 100, HUGE_HI = 300, SMALL_LO = 290, SMALL_HI = 307, GRADE = 12, LEN_EXP = 320;
static const double DENORM = 4.9406564584124654e-324, EPS_T = 2.220446049250313e-16, NEARDIAG = 1e-17;
#endif

static std::map<std::string, long> stats;
static std::string hin (T x)
{
    BITS u; memcpy (&u, &x, sizeof u);
    char b[32]; snprintf (b, sizeof b, HEXFMT, (unsigned long long) u);
    return b;
}
static std::string hx (T x)
{
    if (x != x) return "nan";
    return hin (x);
}
template <class M> static std::string hm (const M& m, int n, bool in = false)
{
    std::string s;
    for (int i = 0; i < n; ++i) for (int j = 0; j < n; ++j) s += (s.empty () ? "" : " ") + (in ? hin (m[i][j]) : hx (m[i][j]));
    return s;
}
template <class V> static std::string hv (const V& v, int n, bool in = false)
{
    std::string s;
    for (int i = 0; i < n; ++i) s += (s.empty () ? "" : " ") + (in ? hin (v[i]) : hx (v[i]));
    return s;
}

static std::mt19937_64 g;
static double U (double a, double b) { return std::uniform_real_distribution<double> (a, b) (g); }
static int I (int a, int b) { return std::uniform_int_distribution<int> (a, b) (g); }
static double sgn () { return (g () & 1) ? 1.0 : -1.0; }

// ---------------------------------------------------------------- generators of affine matrices
static Matrix44<T> gen44 (int cls)
{
    Matrix44<T> m;
    auto randomRot = [] () { Matrix44<T> r; r.rotate (Vec3<T> (U (-3.1, 3.1), U (-1.5, 1.5), U (-3.1, 3.1))); return r; };
    switch (cls)
    {
        case 0: // S*H*R*T, graded conditioning
        case 1: // with negative scales / reflections
        {
            int k = I (0, GRADE);
            Vec3<T> s (U (0.5, 2) * std::pow (10.0, I (-k, k)), U (0.5, 2) * std::pow (10.0, I (-k, k)), U (0.5, 2) * std::pow (10.0, I (-k, k)));
            if (cls == 1) { s.x *= sgn (); s.y *= sgn (); s.z *= sgn (); }
            Vec3<T> h (U (-2, 2), U (-2, 2), U (-2, 2));
            if (g () % 4 == 0) h = Vec3<T> (0, 0, 0);
            Matrix44<T> S, H, Tm;
            S.setScale (s); H.setShear (h); Tm.setTranslation (Vec3<T> (U (-10, 10), U (-10, 10), U (-10, 10)));
            m = S * H * randomRot () * Tm;
            break;
        }
        case 2: // zero rows / zero matrix / exactly dependent rows (guard: zero scale)
        {
            for (int i = 0; i < 3; ++i) for (int j = 0; j < 3; ++j) m[i][j] = I (-3, 3);
            int w = I (0, 4);
            if (w == 0) for (int j = 0; j < 3; ++j) m[I (0, 2)][j] = 0;
            if (w == 1) for (int i = 0; i < 3; ++i) for (int j = 0; j < 3; ++j) m[i][j] = 0;
            if (w == 2) { int a = I (0, 2), b = (a + 1 + I (0, 1)) % 3; for (int j = 0; j < 3; ++j) m[b][j] = 2 * m[a][j]; }
            if (w == 3) for (int j = 0; j < 3; ++j) m[2][j] = m[0][j] + m[1][j];
            break;
        }
        case 3: // one row tiny relative to the others (lengthTiny arm, denormals), tiny overall scale, huge overall scale
        {
            m = randomRot ();
            int w = I (0, 3);
            double f = w == 0 ? std::pow (10.0, -I (TINY_LO, TINY_HI)) : w == 1 ? DENORM * I (1, 1000) : std::pow (10.0, I (HUGE_LO, HUGE_HI));
            int r = I (0, 2);
            if (w == 3) { for (int i = 0; i < 3; ++i) for (int j = 0; j < 3; ++j) m[i][j] *= std::pow (10.0, -I (SMALL_LO, SMALL_HI)); }
            else for (int j = 0; j < 3; ++j) m[r][j] *= f;
            break;
        }
        case 4: // small integers (often exactly singular, exactly orthogonal rows, negative determinant)
            for (int i = 0; i < 3; ++i) for (int j = 0; j < 3; ++j) m[i][j] = I (-2, 2);
            m[3][0] = I (-2, 2); m[3][1] = I (-2, 2); m[3][2] = I (-2, 2);
            break;
        default: // general, non-affine last column
            for (int i = 0; i < 4; ++i) for (int j = 0; j < 4; ++j) m[i][j] = U (-4, 4);
    }
    return m;
}
static Matrix33<T> gen33 (int cls)
{
    Matrix33<T> m;
    switch (cls)
    {
        case 0:
        case 1:
        {
            int k = I (0, GRADE);
            Vec2<T> s (U (0.5, 2) * std::pow (10.0, I (-k, k)), U (0.5, 2) * std::pow (10.0, I (-k, k)));
            if (cls == 1) { s.x *= sgn (); s.y *= sgn (); }
            Matrix33<T> S, H, R, Tm;
            S.setScale (s); H.setShear (g () % 4 == 0 ? 0.0 : U (-2, 2)); R.setRotation (U (-3.1, 3.1)); Tm.setTranslation (Vec2<T> (U (-10, 10), U (-10, 10)));
            m = S * H * R * Tm;
            break;
        }
        case 2:
        {
            for (int i = 0; i < 2; ++i) for (int j = 0; j < 2; ++j) m[i][j] = I (-3, 3);
            int w = I (0, 3);
            if (w == 0) for (int j = 0; j < 2; ++j) m[I (0, 1)][j] = 0;
            if (w == 1) for (int i = 0; i < 2; ++i) for (int j = 0; j < 2; ++j) m[i][j] = 0;
            if (w == 2) for (int j = 0; j < 2; ++j) m[1][j] = -3 * m[0][j];
            break;
        }
        case 3:
        {
            m.setRotation (U (-3.1, 3.1));
            int w = I (0, 3);
            double f = w == 0 ? std::pow (10.0, -I (TINY_LO, TINY_HI)) : w == 1 ? DENORM * I (1, 1000) : std::pow (10.0, I (HUGE_LO, HUGE_HI));
            int r = I (0, 1);
            if (w == 3) { for (int i = 0; i < 2; ++i) for (int j = 0; j < 2; ++j) m[i][j] *= std::pow (10.0, -I (SMALL_LO, SMALL_HI)); }
            else for (int j = 0; j < 2; ++j) m[r][j] *= f;
            break;
        }
        case 4:
            for (int i = 0; i < 2; ++i) for (int j = 0; j < 2; ++j) m[i][j] = I (-2, 2);
            m[2][0] = I (-2, 2); m[2][1] = I (-2, 2);
            break;
        default:
            for (int i = 0; i < 3; ++i) for (int j = 0; j < 3; ++j) m[i][j] = U (-4, 4);
    }
    return m;
}

static void caseEar44 (const Matrix44<T>& m0)
{
    Matrix44<T> m = m0; Vec3<T> scl (0), shr (0);
    bool ok = extractAndRemoveScalingAndShear (m, scl, shr, false);
    bool threw = false;
    { Matrix44<T> m2 = m0; Vec3<T> a, b; try { extractAndRemoveScalingAndShear (m2, a, b, true); } catch (const std::domain_error&) { threw = true; } }
    if (threw == ok) { printf ("SELF-FAIL ear44 exc/non-exc disagree\n"); }
    stats[ok ? "ear44_true" : "ear44_false"]++;
    if (ok && (scl.x < 0)) stats["ear44_flipped"]++;
    printf (CASEP "ear44 %s => ", hm (m0, 4, true).c_str ());
    if (!ok) printf ("0\n");
    else printf ("1 %s %s %s\n", hm (m, 4).c_str (), hv (scl, 3).c_str (), hv (shr, 3).c_str ());
}
static void caseEar33 (const Matrix33<T>& m0)
{
    Matrix33<T> m = m0; Vec2<T> scl (0); T shr = 0;
    bool ok = extractAndRemoveScalingAndShear (m, scl, shr, false);
    bool threw = false;
    { Matrix33<T> m2 = m0; Vec2<T> a; T b; try { extractAndRemoveScalingAndShear (m2, a, b, true); } catch (const std::domain_error&) { threw = true; } }
    if (threw == ok) { printf ("SELF-FAIL ear33 exc/non-exc disagree\n"); }
    stats[ok ? "ear33_true" : "ear33_false"]++;
    if (ok && scl.y < 0) stats["ear33_flipped"]++;
    printf (CASEP "ear33 %s => ", hm (m0, 3, true).c_str ());
    if (!ok) printf ("0\n");
    else printf ("1 %s %s %s\n", hm (m, 3).c_str (), hv (scl, 2).c_str (), hx (shr).c_str ());
}

// ---------------------------------------------------------------- computeRSMatrix against the documented sequence of real calls
static void caseRS ()
{
    Matrix44<T> A = gen44 (I (0, 4)), B = gen44 (I (0, 4));
    for (int ka = 0; ka < 2; ++ka) for (int ks = 0; ks < 2; ++ks)
    {
        bool threw = false; Matrix44<T> r;
        try { r = computeRSMatrix (ka != 0, ks != 0, A, B); } catch (const std::domain_error&) { threw = true; }
        Vec3<T> as, ah, ar, at, bs, bh, br, bt;
        bool okA = extractSHRT (A, as, ah, ar, at, false), okB = extractSHRT (B, bs, bh, br, bt, false);
        bool good;
        if (!okA || !okB) good = threw;
        else
        {
            Matrix44<T> e; e.makeIdentity (); e.translate (at); e.rotate (ka ? ar : br); e.scale (ks ? as : bs);
            good = !threw && memcmp (&e, &r, sizeof e) == 0;
        }
        stats[threw ? "rs_throw" : "rs_ok"]++;
        if (!good) printf ("RS-FAIL keepRotateA=%d keepScaleA=%d A=%s B=%s\n", ka, ks, hm (A, 4, true).c_str (), hm (B, 4, true).c_str ());
    }
}

// ---------------------------------------------------------------- Jacobi steps
template <int n> struct MatOf;
template <> struct MatOf<3> { typedef Matrix33<T> M; typedef Vec3<T> V; };
template <> struct MatOf<4> { typedef Matrix44<T> M; typedef Vec4<T> V; };

template <class M> static M randMat (int n, int cls)
{
    M m;
    for (int i = 0; i < n; ++i) for (int j = 0; j < n; ++j) m[i][j] = cls == 1 ? (double) I (-3, 3) : U (-2, 2);
    if (cls == 2) for (int i = 0; i < n; ++i) for (int j = 0; j < i; ++j) m[i][j] = m[j][i];              // symmetric
    if (cls == 3) for (int i = 0; i < n; ++i) for (int j = 0; j < n; ++j) if (i != j) m[i][j] = 0;           // diagonal
    if (cls == 4) for (int i = 0; i < n; ++i) for (int j = 0; j < n; ++j) if (i != j) m[i][j] *= NEARDIAG;      // nearly diagonal
    if (cls == 5) { for (int i = 0; i < n; ++i) m[i][i] = 0; for (int i = 0; i < n; ++i) for (int j = 0; j < i; ++j) m[i][j] = -m[j][i]; } // w + z = 0
    return m;
}
static const double TOLS[] = {EPS_T, 0.0, 1e-3, 0.5};

static bool step3 (int j, int k, Matrix33<T>& A, Matrix33<T>& Um, Matrix33<T>& Vm, T tol)
{
    if (j == 0 && k == 1) return twoSidedJacobiRotation<T, 0, 1, 2> (A, Um, Vm, tol);
    if (j == 0 && k == 2) return twoSidedJacobiRotation<T, 0, 2, 1> (A, Um, Vm, tol);
    return twoSidedJacobiRotation<T, 1, 2, 0> (A, Um, Vm, tol);
}
static void caseJ3 ()
{
    static const int P[3][2] = {{0, 1}, {0, 2}, {1, 2}};
    int p = I (0, 2); T tol = TOLS[I (0, 3)];
    Matrix33<T> A = randMat<Matrix33<T>> (3, I (0, 5)), Um = randMat<Matrix33<T>> (3, 0), Vm = randMat<Matrix33<T>> (3, 0);
    printf (CASEP "jstep3 %d %d %s %s %s %s => ", P[p][0], P[p][1], hin (tol).c_str (), hm (A, 3, true).c_str (), hm (Um, 3, true).c_str (), hm (Vm, 3, true).c_str ());
    bool ch = step3 (P[p][0], P[p][1], A, Um, Vm, tol);
    stats[ch ? "jstep3_changed" : "jstep3_unchanged"]++;
    printf ("%d %s %s %s\n", ch ? 1 : 0, hm (A, 3).c_str (), hm (Um, 3).c_str (), hm (Vm, 3).c_str ());
}
static void caseJ4 ()
{
    static const int P[6][2] = {{0, 1}, {0, 2}, {0, 3}, {1, 2}, {1, 3}, {2, 3}};
    int p = I (0, 5); T tol = TOLS[I (0, 3)];
    Matrix44<T> A = randMat<Matrix44<T>> (4, I (0, 5)), Um = randMat<Matrix44<T>> (4, 0), Vm = randMat<Matrix44<T>> (4, 0);
    printf (CASEP "jstep4 %d %d %s %s %s %s => ", P[p][0], P[p][1], hin (tol).c_str (), hm (A, 4, true).c_str (), hm (Um, 4, true).c_str (), hm (Vm, 4, true).c_str ());
    bool ch = twoSidedJacobiRotation (A, P[p][0], P[p][1], Um, Vm, tol);
    stats[ch ? "jstep4_changed" : "jstep4_unchanged"]++;
    printf ("%d %s %s %s\n", ch ? 1 : 0, hm (A, 4).c_str (), hm (Um, 4).c_str (), hm (Vm, 4).c_str ());
}
static void caseE3 ()
{
    int p = I (0, 2); T tol = TOLS[I (0, 3)];
    Matrix33<T> A = randMat<Matrix33<T>> (3, 2 + (g () % 3 == 0 ? I (1, 2) : 0)), Vm = randMat<Matrix33<T>> (3, 0);
    Vec3<T> Z (U (-1, 1), U (-1, 1), U (-1, 1));
    static const int P[3][2] = {{0, 1}, {0, 2}, {1, 2}};
    printf (CASEP "estep3 %d %d %s %s %s %s => ", P[p][0], P[p][1], hin (tol).c_str (), hm (A, 3, true).c_str (), hm (Vm, 3, true).c_str (), hv (Z, 3, true).c_str ());
    bool ch = p == 0 ? jacobiRotation<0, 1, 2> (A, Vm, Z, tol) : p == 1 ? jacobiRotation<0, 2, 1> (A, Vm, Z, tol) : jacobiRotation<1, 2, 0> (A, Vm, Z, tol);
    stats[ch ? "estep3_changed" : "estep3_unchanged"]++;
    printf ("%d %s %s %s\n", ch ? 1 : 0, hm (A, 3).c_str (), hm (Vm, 3).c_str (), hv (Z, 3).c_str ());
}
static void caseE4 ()
{
    int p = I (0, 5); T tol = TOLS[I (0, 3)];
    Matrix44<T> A = randMat<Matrix44<T>> (4, 2 + (g () % 3 == 0 ? I (1, 2) : 0)), Vm = randMat<Matrix44<T>> (4, 0);
    const Matrix44<T> Vm0 = Vm;
    Vec4<T> Z (U (-1, 1), U (-1, 1), U (-1, 1), U (-1, 1));
    static const int P[6][2] = {{0, 1}, {0, 2}, {0, 3}, {1, 2}, {1, 3}, {2, 3}};
    printf (CASEP "estep4 %d %d %s %s %s %s => ", P[p][0], P[p][1], hin (tol).c_str (), hm (A, 4, true).c_str (), hm (Vm, 4, true).c_str (), hv (Z, 4, true).c_str ());
    bool ch;
    switch (p)
    {
        case 0: ch = jacobiRotation<0, 1, 2, 3> (A, Vm, Z, tol); break;
        case 1: ch = jacobiRotation<0, 2, 1, 3> (A, Vm, Z, tol); break;
        case 2: ch = jacobiRotation<0, 3, 1, 2> (A, Vm, Z, tol); break;
        case 3: ch = jacobiRotation<1, 2, 0, 3> (A, Vm, Z, tol); break;
        case 4: ch = jacobiRotation<1, 3, 0, 2> (A, Vm, Z, tol); break;
        default: ch = jacobiRotation<2, 3, 0, 1> (A, Vm, Z, tol);
    }
    // the 4x4 body returns true on the early exit too: tell the two arms apart by whether V was rotated
    stats["estep4"]++;
    stats[memcmp (&Vm, &Vm0, sizeof Vm) != 0 ? "estep4_changed" : "estep4_unchanged"]++;
    printf ("%d %s %s %s\n", ch ? 1 : 0, hm (A, 4).c_str (), hm (Vm, 4).c_str (), hv (Z, 4).c_str ());
}

// whole solvers (the driver loops the modelled step and applies the modelled post-passes)
template <int n> static void runSVD (const typename MatOf<n>::M& A, T tol, const char* stat)
{
    typedef typename MatOf<n>::M M; typedef typename MatOf<n>::V V;
    M U0, V0, U1, V1; V S0, S1;
    jacobiSVD (A, U0, S0, V0, tol, false);
    T dU = U0.determinant (), dV = V0.determinant ();
    jacobiSVD (A, U1, S1, V1, tol, true);
    printf (CASEP "svd%d 0 %s %s %s %s => %s %s %s\n", n, hin (dU).c_str (), hin (dV).c_str (), hin (tol).c_str (), hm (A, n, true).c_str (), hm (U0, n).c_str (), hv (S0, n).c_str (), hm (V0, n).c_str ());
    printf (CASEP "svd%d 1 %s %s %s %s => %s %s %s\n", n, hin (dU).c_str (), hin (dV).c_str (), hin (tol).c_str (), hm (A, n, true).c_str (), hm (U1, n).c_str (), hv (S1, n).c_str (), hm (V1, n).c_str ());
    stats[std::string (stat) + (n == 3 ? "3" : "4")] += 2;
    if (dU < 0 || dV < 0) stats["svd_force_flips"]++;
    // did the solver rotate at all?  (U = V = I means "treated as already diagonal")
    bool ident = true;
    for (int i = 0; i < n; ++i) for (int j = 0; j < n; ++j) if (U0[i][j] != (i == j) && U0[i][j] != -(T) (i == j)) ident = false;
    if (!ident) stats[std::string (stat) + "_rotated"]++;
}
template <int n> static void caseSVD ()
{
    typedef typename MatOf<n>::M M;
    int cls = I (0, 7);
    M A = randMat<M> (n, cls % 6);
    if (cls == 6) { for (int j = 0; j < n; ++j) A[n - 1][j] = A[0][j]; }                 // rank-deficient
    if (cls == 7) { A = randMat<M> (n, 3); A[1][1] = A[0][0]; if (g () & 1) A[n - 1][n - 1] = -A[n - 1][n - 1]; } // repeated, reflection
    runSVD<n> (A, TOLS[I (0, 2)], "svd");
}
template <int n> static void runEig (typename MatOf<n>::M A, T tol, const char* stat)
{
    typedef typename MatOf<n>::M M; typedef typename MatOf<n>::V V;
    M A0 = A, Vm; V S;
    jacobiEigenSolver (A, S, Vm, tol);
    printf (CASEP "eig%d %s %s => %s %s %s\n", n, hin (tol).c_str (), hm (A0, n, true).c_str (), hm (A, n).c_str (), hv (S, n).c_str (), hm (Vm, n).c_str ());
    stats[std::string (stat) + (n == 3 ? "3" : "4")]++;
}
template <int n> static void caseEig ()
{
    typedef typename MatOf<n>::M M;
    int cls = I (0, 3);
    M A = randMat<M> (n, cls == 0 ? 2 : cls == 1 ? 3 : cls == 2 ? 1 : 4);
    for (int i = 0; i < n; ++i) for (int j = 0; j < i; ++j) A[i][j] = A[j][i];
    runEig<n> (A, TOLS[I (0, 2)], "eig");
}
// deterministic structured sparse matrices (c12_structured.h), every tier
template <int n> static void structuredCases ()
{
    typedef typename MatOf<n>::M M;
    const T eps = (T) EPS_T;
    for (auto& nm : c12Structured<M, T, n> (false)) runSVD<n> (nm.second, eps, "svd_structured");
    for (auto& nm : c12Structured<M, T, n> (true)) { runEig<n> (nm.second, eps, "eig_structured"); runSVD<n> (nm.second, eps, "svd_structured"); }
}
static void caseIdx ()
{
    // maxEigenVector / minEigenVector index selection, observed on a diagonal matrix (eigenvectors = unit vectors)
    int n = 3 + (g () & 1);
    T s[4];
    for (int i = 0; i < n; ++i) s[i] = (T) I (-3, 3) * (g () % 3 == 0 ? 1.0 : U (0.5, 1.5));
    int mx = -1, mn = -1;
    if (n == 3)
    {
        Matrix33<T> A; for (int i = 0; i < 3; ++i) A[i][i] = s[i];
        Matrix33<T> B = A; Vec3<T> v, w; maxEigenVector (A, v); minEigenVector (B, w);
        for (int i = 0; i < 3; ++i) { if (v[i] == 1) mx = i; if (w[i] == 1) mn = i; }
    }
    else
    {
        Matrix44<T> A; for (int i = 0; i < 4; ++i) A[i][i] = s[i];
        Matrix44<T> B = A; Vec4<T> v, w; maxEigenVector (A, v); minEigenVector (B, w);
        for (int i = 0; i < 4; ++i) { if (v[i] == 1) mx = i; if (w[i] == 1) mn = i; }
    }
    std::string in; for (int i = 0; i < n; ++i) in += " " + hin (s[i]);
    printf (CASEP "idx %d%s => %d %d\n", n, in.c_str (), mx, mn);
    stats["idx"]++;
}

int main (int argc, char** argv)
{
    unsigned long seed = argc > 1 ? strtoul (argv[1], 0, 10) : 1;
    int n = argc > 2 ? atoi (argv[2]) : 200;
    g.seed (seed * 2654435761ul + 12);
    // fixed witnesses first: the 3-4-5 rotation with translation (3, 4)
    { Matrix33<T> w (0.8, 0.6, 0, -0.6, 0.8, 0, 3, 4, 1); caseEar33 (w); }
    structuredCases<3> (); structuredCases<4> ();
    for (int i = 0; i < n; ++i)
    {
        caseEar44 (gen44 (i % 6));
        caseEar33 (gen33 (i % 6));
        if (i % 4 == 0) caseRS ();
        caseJ3 (); caseJ4 (); caseE3 (); caseE4 ();
        if (i % 4 == 1) { caseSVD<3> (); caseSVD<4> (); caseEig<3> (); caseEig<4> (); }
        if (i % 8 == 2) caseIdx ();
        if (i % 16 == 3)
        {
            Vec3<T> v (U (-1, 1) * std::pow (10.0, -I (0, LEN_EXP)), U (-1, 1) * std::pow (10.0, -I (0, LEN_EXP)), U (-1, 1) * std::pow (10.0, -I (0, LEN_EXP)));
            printf (CASEP "len3 %s => %s\n", hv (v, 3, true).c_str (), hx (v.length ()).c_str ());
            Vec2<T> w (v.x, v.y);
            printf (CASEP "len2 %s => %s\n", hv (w, 2, true).c_str (), hx (w.length ()).c_str ());
        }
    }
    printf ("STATS");
    for (auto& kv : stats) printf (" %s=%ld", kv.first.c_str (), kv.second);
    printf ("\n");
    return 0;
}
