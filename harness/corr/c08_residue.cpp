// C08 residue measurement (DESIGN.md §2.4) — MEASURED, NOT PROVED (level: partial).
//
// The Lean theorems (Props/C08.lean) say what length()/normalize() compute in exact arithmetic.  What C08
// additionally claims about floating point — "length() within a few ulps of the true norm, including vectors
// whose squares underflow or are subnormal; zero only for the zero vector; normalize* returns a vector of
// length 1 within a few ulps, same sign and ratio per component, zero for zero, never NaN/inf" — is measured
// here by calling the REAL Vec2/3/4<float|double> members on structured inputs and comparing with a 113-bit
// reference.
//
// Reference: every input component is a float/double, so its square is exact in __float128 (<= 106
// significant bits, exponent range +-16382 covers (2^-1074)^2 .. (2^511)^2); the sum of <= 4 non-negative
// exact terms has relative error <= 3*2^-113 and sqrtq adds <= 2^-112: the reference norm is good to
// ~2^-110 relative, i.e. < 2^-57 ulp of double.  No cancellation occurs (all terms >= 0).
//
// Domain: since /repo 16a5ca8 length() also takes the scaled branch when the sum of squares OVERFLOWS, so vectors
// whose squared length overflows but whose length is representable are inside what length()/normalize must
// handle: components up to max/2 (then ||v|| <= sqrt(4)*max/2 = max for N <= 4).  Vectors whose length itself
// exceeds max stay excluded (none is generated; a reference norm > max is skipped and counted).
//
// Inputs (mode "sweep"): for T in {float,double}, N in {2,3,4}: EVERY binary exponent from the smallest
// subnormal up to the largest with |x| <= max/2, x mantissa patterns {1.0, 1.5, 1+ulp, 2-ulp, random...}
// x structures {single non-zero component at each position with signed zeros elsewhere, all equal (random
// signs), mixed magnitudes with exponent gaps {0,1,2,p/2,p-1,p,p+1,2p,random up to the full range}, signed
// zeros mixed with two non-zero components}, plus vectors scaled so that dot() lands just below / at / just
// above the 2*min threshold of length(), around norm = min, and just below / at / just above dot = max (the
// overflow guard), plus all-zero vectors with every sign pattern.
// Mode "lattice": small integer vectors [-3,3]^N at four scales (direct branch / lengthTiny branch for
// underflow / subnormal / lengthTiny branch for overflowing squares), used by the failing-input search.
//
// Classes of the length() bounds are derived from the REFERENCE (exact dot in 113 bits), never from the code's own dot: a vector
// whose exact dot is >= 2*min belongs to a "direct" class whatever the code did with it.  Next to the exact thresholds (where the
// rounded dot may legitimately fall on either side) the larger of the two adjacent bounds applies.
// BRANCH PROBE: the harness evaluates both algorithms itself in T — sqrt(x*x + y*y + ...) and max*sqrt(sum (|x_i|/max)^2) — and
// compares length() BITWISE with both.  Where the two differ, whichever length() equals tells which branch the code took; required:
// scaled iff dot < 2*min || dot > max, decided on the T-valued dot when the harness's left-to-right dot equals the code's dot()
// bit for bit (it does), otherwise on the exact dot outside a margin of 16*N*u; a result equal to NEITHER is reported too.  Mode
// "sweep" adds dense placements around both thresholds and constructed vectors whose T-valued dot is EXACTLY 2*min, its
// predecessor, max, so that a moved/raised threshold, a changed factor, `<` -> `<=` and a dropped disjunct are all visible.
// Mode "lattice" additionally requires, at scale 1 (all squares and their sum exact), length() == RN(sqrt(dot)) and
// normalize*()[i] == RN(v[i] / length()) BIT FOR BIT (correctly rounded sqrt and division, nothing else).
// Mode "exhaustive" (thorough tier): ALL positive finite floats x <= max/2 in the single-component families Vec2f(x,0),
// Vec3f(0,x,0), Vec4f(0,0,0,x) and the all-equal families (x,x), (x,x,x), (x,x,x,x) (signs taken from the low bits of x), oracle in
// double (|x| resp. |x|*sqrt(N); relative error 2^-52, i.e. 2^-28 float ulps), multi-threaded: length(), normalize(), normalized() on
// every float, the other four forms on every 8th block of 2^20 consecutive floats.
//
// Output: one "RESIDUE ..." summary line, "CLASS ..." lines (per type x dimension x class maxima and counts)
// and "RESIDUE-FAIL <fn> <type> <what> ..." lines with the offending input as hex floats.
#include <ImathVec.h>
#include <quadmath.h>
#include <cstdio>
#include <cstdlib>
#include <cstring>
#include <cmath>
#include <algorithm>
#include <map>
#include <random>
#include <stdexcept>
#include <string>
#include <thread>
#include <atomic>
#include <mutex>
#include <vector>
using namespace IMATH_NAMESPACE;
typedef __float128 Q;

static std::mt19937_64 rng;
static long            evals = 0, failures = 0, vectors = 0;
static std::string     fnFilter; // lattice mode: only report failures of this function ("" = all)

// ---------------------------------------------------------------------------------------------------
// bounds ("a few ulps"), fixed at the clean-tree maximum over seeds 1-3 (thorough sweep) + 1, see
// tools/props/c08.py; the measured maxima are reported in the evidence on every run.
//   length():  class A = lengthTiny branch, subnormal norm      class B = lengthTiny branch, normal norm
//              class C = direct branch, dot < 2^10 * 2*min      class D = direct branch, the rest
//              class E = lengthTiny branch because the squares overflow (dot > max): same bound as class B
//   ("branch" in these names = the branch REQUIRED for the reference dot; which branch the code really took is the branch probe's business)
// Clean-tree maxima (seeds 1-3, sweep with 2 and 24 random mantissas per exponent; calibrated on /repo 16a5ca8 with the classes taken
// from the REFERENCE dot and the dense / constructed threshold vectors included):
//   length A 1.49  B 2.87  C 2.08  D 1.74  E 2.85 ulps;  unit 1.73 eps;  ratio 4.08 u   (maxima over every clean calibration run so far).     (bounds = these + 1, rounded up to 0.1)
#ifndef LENGTH_BOUND_A
#define LENGTH_BOUND_A 2.5
#define LENGTH_BOUND_B 3.9
#define LENGTH_BOUND_C 3.1
#define LENGTH_BOUND_D 2.8
#define UNIT_BOUND_V 2.8
#define RATIO_BOUND_V 5.1
#endif
static const double LENGTH_BOUND[5] = {LENGTH_BOUND_A, LENGTH_BOUND_B, LENGTH_BOUND_C, LENGTH_BOUND_D, LENGTH_BOUND_B};
static const double UNIT_BOUND      = UNIT_BOUND_V;  // | ||r|| - 1 | in units of epsilon, normal norms only
static const double RATIO_BOUND     = RATIO_BOUND_V; // |r_i*||v|| - v_i| in units of u*|v_i| (+ 1 denormal step of r_i)
static const char*  CLASSNAME[5]    = {"tiny-branch/subnormal-norm", "tiny-branch/normal-norm", "direct/near-threshold", "direct", "scaled-branch/squares-overflow"};
static long         skippedNormAboveMax = 0;

template <class T> struct Lim
{
    static constexpr int p = std::numeric_limits<T>::digits;
    static int eminNormal () { return std::numeric_limits<T>::min_exponent - 1; }             // -126 / -1022
    static int eminSub () { return eminNormal () - (p - 1); }                                   // -149 / -1074
    static int emaxIn () { return std::numeric_limits<T>::max_exponent - 2; }                 // 126 / 1022: (2-ulp)*2^e <= max/2
    static const char* name () { return sizeof (T) == 4 ? "float" : "double"; }
};
template <class T> static Q ulpAt (Q ref)
{
    ref = fabsq (ref);
    int e = ref > 0 ? ilogbq (ref) : Lim<T>::eminNormal ();
    if (e < Lim<T>::eminNormal ()) e = Lim<T>::eminNormal ();
    return ldexpq ((Q) 1, e - (Lim<T>::p - 1));
}

template <class T, int N> struct VecOf;
template <class T> struct VecOf<T, 2> { typedef Vec2<T> type; };
template <class T> struct VecOf<T, 3> { typedef Vec3<T> type; };
template <class T> struct VecOf<T, 4> { typedef Vec4<T> type; };

struct Stat { double maxv = 0; long n = 0; std::string worst; };
static const char* advTag = nullptr; // set while a NAMED adversarial class of the scaled branch is generated (two-maxima, max-subnormal)
static std::map<std::string, Stat> stats; // key: metric|type|dim|class

template <class T, int N> static std::string show (const typename VecOf<T, N>::type& v)
{
    std::string s;
    char        b[64];
    for (int i = 0; i < N; ++i) { snprintf (b, 64, "%a%s", (double) v[i], i + 1 < N ? "," : ""); s += b; }
    return s;
}
static void note (const std::string& key, double val, const std::string& in)
{
    Stat& s = stats[key];
    ++s.n;
    if (s.n == 1 || val > s.maxv) { s.maxv = val; s.worst = in; }
}
static void fail (const char* fn, const char* ty, const char* what, const std::string& in, const std::string& detail)
{
    if (!fnFilter.empty () && fnFilter != fn) return;
    ++failures;
    if (failures <= 200) printf ("RESIDUE-FAIL %s %s %s in=%s %s\n", fn, ty, what, in.c_str (), detail.c_str ());
}
static const char* FN (int N, const char* f)
{
    static std::map<std::string, std::string> m;
    std::string k = std::string ("V") + char ('0' + N) + "." + f;
    return m.emplace (k, k).first->second.c_str ();
}

template <class T, int N> static Q normQ (const typename VecOf<T, N>::type& v, Q* dot = nullptr)
{
    Q s = 0;
    for (int i = 0; i < N; ++i) s += (Q) v[i] * (Q) v[i];
    if (dot) *dot = s;
    return sqrtq (s);
}

// the six normalize forms; returns false when the form threw std::domain_error, sets other for anything else
template <class V> static bool callForm (int form, const V& in, V& out, bool& other)
{
    other = false;
    out   = in;
    try
    {
        switch (form)
        {
            case 0: out.normalize (); break;
            case 1: out.normalizeExc (); break;
            case 2: out.normalizeNonNull (); break;
            case 3: out = in.normalized (); break;
            case 4: out = in.normalizedExc (); break;
            default: out = in.normalizedNonNull (); break;
        }
    }
    catch (const std::domain_error&) { return false; }
    catch (...) { other = true; return false; }
    return true;
}
static const char* FORM[6] = {"normalize", "normalizeExc", "normalizeNonNull", "normalized", "normalizedExc", "normalizedNonNull"};

// class of a vector from the REFERENCE: exact dot (113 bits) against 2*min, 2^11*min and max; reference norm against min
template <class T> static int classOf (Q dotq, Q ref)
{
    const Q minN = ldexpq ((Q) 1, Lim<T>::eminNormal ());
    if (dotq < 2 * minN) return ref < minN ? 0 : 1;
    if (dotq > (Q) std::numeric_limits<T>::max ()) return 4;
    return dotq < ldexpq (minN, 11) ? 2 : 3;
}

// The two algorithms of length(), written out here in T (the harness is compiled with the same -O1 -ffp-contract=off):
// what the code must equal BITWISE on one side or the other of its guard.
template <class T, int N> static T refDot (const typename VecOf<T, N>::type& v)
{
    T s = v[0] * v[0];
    for (int i = 1; i < N; ++i) s = s + v[i] * v[i];
    return s;
}
template <class T, int N> static T refScaled (const typename VecOf<T, N>::type& v)
{
    T a[N], m = T (0);
    for (int i = 0; i < N; ++i) { a[i] = v[i] < T (0) ? -v[i] : v[i]; if (a[i] == T (0)) a[i] = T (0); }
    m = a[0];
    for (int i = 1; i < N; ++i) if (m < a[i]) m = a[i];
    if (m == T (0)) return T (0);
    for (int i = 0; i < N; ++i) a[i] = a[i] / m;
    T s = a[0] * a[0];
    for (int i = 1; i < N; ++i) s = s + a[i] * a[i];
    return m * std::sqrt (s);
}
template <class T> static bool sameBitsT (T a, T b) { return std::memcmp (&a, &b, sizeof (T)) == 0; }

struct BranchStat { long direct = 0, scaled = 0, same = 0, sharp2min = 0, sharpPred2min = 0, sharpMax = 0, nearLo = 0, nearHi = 0, ambiguous = 0; };
static std::map<std::string, BranchStat> branchStats; // key: type|dim

// which branch did length() take?  (decided only where the two algorithms give different bits)
template <class T, int N> static void branchProbe (const typename VecOf<T, N>::type& v, T l, T dotT, Q dotq, Q margin, const std::string& in)
{
    const char* ty = Lim<T>::name ();
    char key[32]; snprintf (key, 32, "%s|%d", ty, N);
    BranchStat& bs = branchStats[key];
    const T twoMin = T (2) * std::numeric_limits<T>::min (), mx = std::numeric_limits<T>::max ();
    T d = refDot<T, N> (v), rd = std::sqrt (d), rs = refScaled<T, N> (v);
    // expectation: sharp (on the T-valued dot) when the harness's own left-to-right dot is bit-identical to the code's dot(),
    // otherwise from the exact dot outside the margin
    int expect = -1; // 0 direct, 1 scaled
    bool sharp = sameBitsT (d, dotT);
    if (sharp) expect = (d < twoMin || d > mx) ? 1 : 0;
    else if (dotq < 2 * (Q) std::numeric_limits<T>::min () * (1 - margin) || dotq > (Q) mx * (1 + margin)) expect = 1;
    else if (dotq >= 2 * (Q) std::numeric_limits<T>::min () * (1 + margin) && dotq <= (Q) mx * (1 - margin)) expect = 0;
    if (expect < 0) { ++bs.ambiguous; return; }
    if (!std::isfinite (rd) && expect == 0) return; // cannot happen (dot <= max)
    if (expect == 1 && !std::isfinite (rs)) return;
    if (std::isfinite (rd) && sameBitsT (rd, rs)) { ++bs.same; return; } // both algorithms give the same bits: not decidable here
    bool isD = std::isfinite (rd) && sameBitsT (l, rd), isS = sameBitsT (l, rs);
    char det[240];
    snprintf (det, 240, "got=%a direct=%a scaled=%a dot=%a (2*min=%a max=%a)", (double) l, (double) rd, (double) rs, (double) d, (double) twoMin, (double) mx);
    if (!isD && !isS) { fail (FN (N, "length"), ty, "algorithm-neither-direct-nor-scaled", in, det); return; }
    if (expect == 0 && !isD) { fail (FN (N, "length"), ty, "branch-scaled-taken-where-direct-required", in, det); return; }
    if (expect == 1 && !isS) { fail (FN (N, "length"), ty, "branch-direct-taken-where-scaled-required", in, det); return; }
    if (expect == 0) ++bs.direct; else ++bs.scaled;
    if (sharp)
    {
        if (sameBitsT (d, twoMin)) ++bs.sharp2min;
        if (sameBitsT (d, std::nextafter (twoMin, T (0)))) ++bs.sharpPred2min;
        if (sameBitsT (d, mx)) ++bs.sharpMax;
        if (d >= twoMin && d < T (4) * twoMin) ++bs.nearLo;          // direct, within a factor 4 above the threshold
        if (d < twoMin && d >= twoMin / T (4)) ++bs.nearLo;
        if (d > mx / T (4)) ++bs.nearHi;                             // within a factor 4 of max, or overflowed
    }
}

template <class T, int N> static void checkVector (const typename VecOf<T, N>::type& v)
{
    typedef typename VecOf<T, N>::type V;
    const char* ty = Lim<T>::name ();
    std::string in = show<T, N> (v);
    ++vectors;
    bool isZero = true;
    for (int i = 0; i < N; ++i) if (v[i] != T (0)) isZero = false;
    Q dotq, ref = normQ<T, N> (v, &dotq);
    const Q minN = ldexpq ((Q) 1, Lim<T>::eminNormal ());
    char    dim[8]; snprintf (dim, 8, "%d", N);
    if (ref > (Q) std::numeric_limits<T>::max ()) { ++skippedNormAboveMax; return; } // length itself not representable: outside C08

    // ---- length() -------------------------------------------------------------------------------
    T    l      = v.length ();
    T    dotT   = v.dot (v);
    // class and bound from the REFERENCE dot (never from the code's own dot); next to a threshold the looser neighbour applies
    const Q margin = 16 * (Q) N * ldexpq ((Q) 1, -Lim<T>::p);
    int  cls    = classOf<T> (dotq, ref);
    double lengthBound = std::max (LENGTH_BOUND[cls], std::max (LENGTH_BOUND[classOf<T> (dotq * (1 - margin), ref)], LENGTH_BOUND[classOf<T> (dotq * (1 + margin), ref)]));
    const char* brName = cls <= 1 ? "tiny-branch" : cls == 4 ? "scaled-overflow" : "direct";
    ++evals;
    if (!isZero && std::isfinite (l)) branchProbe<T, N> (v, l, dotT, dotq, margin, in);
    if (isZero)
    {
        if (!(l == T (0))) fail (FN (N, "length"), ty, "zero-vector-length-not-0", in, "");
    }
    else
    {
        if (!std::isfinite (l)) fail (FN (N, "length"), ty, "nonfinite", in, "got=" + std::to_string ((double) l));
        else if (l == T (0)) fail (FN (N, "length"), ty, "zero-for-nonzero-vector", in, "");
        else
        {
            double err = (double) (fabsq ((Q) l - ref) / ulpAt<T> (ref));
            note (std::string ("length_ulps|") + ty + "|" + dim + "|" + CLASSNAME[cls], err, in);
            if (advTag) note (std::string ("length_ulps_adv|") + ty + "|" + dim + "|" + advTag, err, in);
            if (err > lengthBound)
            {
                char d[200]; snprintf (d, 200, "got=%a ref=%a err_ulps=%.3f bound=%.1f class=%s", (double) l, (double) ref, err, lengthBound, CLASSNAME[cls]);
                fail (FN (N, "length"), ty, "ulp-error", in, d);
            }
        }
    }
    // ---- length2() == dot(v,v), and close to the exact sum ----------------------------------------
    {
        T l2 = v.length2 ();
        ++evals;
        if (std::memcmp (&l2, &dotT, sizeof (T)) != 0) fail (FN (N, "length2"), ty, "differs-from-dot", in, "");
        Q u = ldexpq ((Q) 1, -Lim<T>::p), slack = (Q) N * ldexpq ((Q) 1, Lim<T>::eminSub ());
        Q e = fabsq ((Q) l2 - dotq);
        bool   l2ovf = dotq > (Q) std::numeric_limits<T>::max () * (1 + (Q) N * u); // exact dot (nearly) overflows: inf is the correct result
        double r = l2ovf ? 0 : dotq > 0 ? (double) ((e > slack ? e - slack : 0) / (u * dotq)) : (double) (e > 0);
        if (!std::isfinite (l2) && !l2ovf && dotq <= (Q) std::numeric_limits<T>::max () * (1 - (Q) N * u)) r = 1e30;
        else if (!std::isfinite (l2)) r = 0;
        if (!l2ovf && std::isfinite (l2)) note (std::string ("length2_err_over_u|") + ty + "|" + dim + "|all", r, in);
        if (r > N) { char d[120]; snprintf (d, 120, "got=%a exact=%a err/u=%.3f", (double) l2, (double) dotq, r); fail (FN (N, "length2"), ty, "rounding", in, d); }
    }
    // ---- the six normalize forms ------------------------------------------------------------------
    for (int form = 0; form < 6; ++form)
    {
        if (isZero && (form == 2 || form == 5)) continue; // NonNull: precondition v != 0
        const char* fn = FN (N, FORM[form]);
        V    r;
        bool other, ok = callForm (form, v, r, other);
        ++evals;
        bool isExc = form == 1 || form == 4;
        if (other) { fail (fn, ty, "unexpected-exception-type", in, ""); continue; }
        if (isExc && isZero) { if (ok) fail (fn, ty, "no-throw-for-zero-vector", in, ""); continue; }
        if (!ok) { fail (fn, ty, isExc ? "throws-for-nonzero-vector" : "throws", in, ""); continue; }
        if (isZero)
        {
            for (int i = 0; i < N; ++i) if (!(r[i] == T (0))) { fail (fn, ty, "zero-vector-not-mapped-to-zero", in, "out=" + show<T, N> (r)); break; }
            continue;
        }
        bool finite = true;
        for (int i = 0; i < N; ++i) if (!std::isfinite (r[i])) finite = false;
        if (!finite) { fail (fn, ty, "nonfinite", in, "out=" + show<T, N> (r) + (ref < minN ? " (subnormal norm)" : " (normal norm)")); continue; }
        // sign of every component (signed zeros included) and |r_i| <= 1
        for (int i = 0; i < N; ++i)
        {
            if (std::signbit (r[i]) != std::signbit (v[i])) { fail (fn, ty, "sign", in, "out=" + show<T, N> (r)); break; }
            if (v[i] == T (0) && !(r[i] == T (0))) { fail (fn, ty, "zero-component-not-kept", in, "out=" + show<T, N> (r)); break; }
            if (std::fabs ((double) r[i]) > 1.0 + 4 * (double) std::numeric_limits<T>::epsilon ()) { fail (fn, ty, "component-above-1", in, "out=" + show<T, N> (r)); break; }
        }
        if (ref < minN) { note (std::string ("normalize_subnormal_norm_finite|") + ty + "|" + dim + "|" + FORM[form], 0, in); continue; } // property excludes subnormal norms from the accuracy claim
        // unit length
        Q      rn   = normQ<T, N> (r);
        double uerr = (double) (fabsq (rn - 1) / (Q) std::numeric_limits<T>::epsilon ());
        note (std::string ("unit_err_eps|") + ty + "|" + dim + "|" + brName, uerr, in);
        note (std::string ("unit_by_form|") + ty + "|" + dim + "|" + brName + "/" + FORM[form], uerr, in);
        if (uerr > UNIT_BOUND) { char d[160]; snprintf (d, 160, "|r|=1%+.3g err_eps=%.3f bound=%.1f out=", (double) (rn - 1), uerr, UNIT_BOUND); fail (fn, ty, "unit-length", in, d + show<T, N> (r)); }
        // ratio: r_i * ||v|| = v_i up to a few u (plus one denormal step when r_i is subnormal)
        Q u = ldexpq ((Q) 1, -Lim<T>::p);
        for (int i = 0; i < N; ++i)
        {
            if (v[i] == T (0)) continue;
            Q e     = fabsq ((Q) r[i] * ref - (Q) v[i]);
            Q slack = ldexpq (ref, Lim<T>::eminSub ()); // one denormal step of r_i, scaled
            double q = (double) ((e > slack ? e - slack : 0) / (u * fabsq ((Q) v[i])));
            note (std::string ("ratio_err_u|") + ty + "|" + dim + "|" + brName, q, in);
            note (std::string ("ratio_by_form|") + ty + "|" + dim + "|" + brName + "/" + FORM[form], q, in);
            if (q > RATIO_BOUND) { char d[160]; snprintf (d, 160, "component=%d err_u=%.3f bound=%.1f out=", i, q, RATIO_BOUND); fail (fn, ty, "ratio", in, d + show<T, N> (r)); break; }
        }
    }
}

// ---------------------------------------------------------------------------------------------------
// input generators
template <class T> static T mant (int k)
{
    const T eps = std::numeric_limits<T>::epsilon ();
    switch (k)
    {
        case 0: return T (1);
        case 1: return T (1.5);
        case 2: return T (1) + eps;
        case 3: return T (2) - eps;
        default: { std::uniform_real_distribution<double> U (1.0, 2.0); T m = (T) U (rng); return m < T (2) ? m : T (1); }
    }
}
template <class T> static T sgn (T x) { return (rng () & 1) ? -x : x; }
template <class T> static T val (int k, int e)
{
    if (e < Lim<T>::eminSub ()) e = Lim<T>::eminSub ();
    T x = std::ldexp (mant<T> (k), e);
    if (x == T (0)) x = std::numeric_limits<T>::denorm_min ();
    return x;
}

template <class T, int N> static void sweepExponent (int e, int reps)
{
    typedef typename VecOf<T, N>::type V;
    const int p = Lim<T>::p;
    for (int k = 0; k < 4 + reps; ++k)
    {
        T x = val<T> (k, e);
        // single non-zero component at each position, signed zeros elsewhere
        for (int pos = 0; pos < N; ++pos)
        {
            V v;
            for (int i = 0; i < N; ++i) v[i] = i == pos ? sgn (x) : sgn (T (0));
            checkVector<T, N> (v);
        }
        // all equal, random signs
        { V v; for (int i = 0; i < N; ++i) v[i] = sgn (x); checkVector<T, N> (v); }
        // mixed magnitudes
        int full = e - Lim<T>::eminSub ();
        const int gaps[9] = {0, 1, 2, p / 2, p - 1, p, p + 1, 2 * p, full > 0 ? (int) (rng () % (unsigned) (full + 1)) : 0};
        for (int g = 0; g < 9; ++g)
        {
            V   v;
            int pos = (int) (rng () % N);
            for (int i = 0; i < N; ++i)
            {
                if (i == pos) { v[i] = sgn (x); continue; }
                int d = (rng () & 1) ? gaps[g] : (gaps[g] > 0 ? (int) (rng () % (unsigned) (gaps[g] + 1)) : 0);
                v[i]  = sgn (val<T> (4, e - d));
                if (std::fabs (v[i]) > std::fabs (x) && e == Lim<T>::emaxIn ()) v[i] = sgn (x); // stay within max/2
            }
            checkVector<T, N> (v);
        }
        // NAMED adversarial classes of the scaled algorithm (audit r2 N6):
        //  two-maxima: 2..N components equal to +-x (each |x_i|/max rounds to exactly 1, the sum of squares in lengthTiny is k + noise), the
        //  rest x*2^-(p/2+j), j = -2..2, i.e. at the limit where (x_i/max)^2 drops below the last bit of the sum
        for (int j = -2; j <= (N == 2 ? -2 : 2); ++j)
        {
            V   v;
            int kk = N == 2 ? 2 : 2 + (int) (rng () % (unsigned) (N - 1));
            int first = (int) (rng () % N);
            T   small = std::ldexp (x, -(p / 2 + j));
            for (int i = 0; i < N; ++i) v[i] = sgn (((i - first + N) % N) < kk ? x : small);
            advTag = "two-maxima"; checkVector<T, N> (v); advTag = nullptr;
        }
        //  max-subnormal: the maximum is SUBNORMAL and the other components are pred(max) / max/2 / denorm_min: |x_i|/max is 1 - ulp-ish or
        //  a coarse fraction, and max*sqrt(s) is rounded in the subnormal range (may not round to 0, may not be NaN/inf through 1/max)
        if (e < Lim<T>::eminNormal ())
            for (int c = 0; c < 4; ++c)
            {
                V   v;
                int pos = (int) (rng () % N);
                for (int i = 0; i < N; ++i)
                {
                    int w = c < 3 ? c : (int) (rng () % 3);
                    T   o = w == 0 ? std::nextafter (x, T (0)) : w == 1 ? x / T (2) : std::numeric_limits<T>::denorm_min ();
                    v[i]  = sgn (i == pos ? x : o);
                }
                advTag = "max-subnormal"; checkVector<T, N> (v); advTag = nullptr;
            }
        // signed zeros mixed with two non-zero components
        if (N > 2)
        {
            V   v;
            int a = (int) (rng () % N), b = (a + 1 + (int) (rng () % (N - 1))) % N;
            for (int i = 0; i < N; ++i) v[i] = sgn (T (0));
            v[a] = sgn (x);
            v[b] = sgn (val<T> (4, e - (int) (rng () % 3)));
            if (std::fabs (v[b]) > std::fabs (x) && e == Lim<T>::emaxIn ()) v[b] = sgn (x);
            checkVector<T, N> (v);
        }
    }
}

// vectors whose dot() lands around the 2*min threshold of length(), around min (norm^2 at the subnormal border),
// and around max (the overflow guard: direct branch just below, scaled branch just above)
template <class T, int N> static void sweepThreshold (int n)
{
    typedef typename VecOf<T, N>::type V;
    // factors: coarse, and dense next to 1 (down to 2^-(p-4): the components are rounded to T, so the placed dot is good to ~2u)
    std::vector<double> factors = {0.25, 0.5, 0.9, 0.999, 1.0, 1.001, 1.1, 2.0, 4.0, 64.0};
    for (int k : {10, Lim<T>::p - 8, Lim<T>::p - 6, Lim<T>::p - 4}) { factors.push_back (1.0 - std::ldexp (1.0, -k)); factors.push_back (1.0 + std::ldexp (1.0, -k)); }
    const Q      targets[3] = {2 * (Q) std::numeric_limits<T>::min (), ldexpq ((Q) std::numeric_limits<T>::min (), Lim<T>::eminNormal ()),
                               (Q) std::numeric_limits<T>::max ()}; // dot ~ 2*min ; norm ~ min ; dot ~ max (overflow guard)
    for (int it = 0; it < n; ++it)
        for (int tg = 0; tg < 3; ++tg)
            for (double f : factors)
            {
                Q   u[N], s = 0;
                int spread = (int) (rng () % 4) * (Lim<T>::p / 3);
                for (int i = 0; i < N; ++i) { u[i] = ldexpq ((Q) mant<T> (4), -(int) (rng () % (unsigned) (spread + 1))); if (rng () % 5 == 0 && i) u[i] = 0; s += u[i] * u[i]; }
                Q scale = sqrtq (targets[tg] * (Q) f / s);
                V v;
                for (int i = 0; i < N; ++i) v[i] = sgn ((T) (u[i] * scale));
                checkVector<T, N> (v);
            }
}

// constructed vectors (two non-zero components, the rest zero) whose T-VALUED dot is EXACTLY a given value — 2*min (direct: the
// comparison is strict), its predecessor (scaled), max (direct: strict again) — and on which the two algorithms give different bits,
// so that the branch probe decides.  Found by scanning the second component over neighbouring floats.
template <class T, int N> static long thresholdExactOne (T target, int want)
{
    typedef typename VecOf<T, N>::type V;
    long found = 0;
    for (int attempt = 0; attempt < 4000 && found < want; ++attempt)
    {
        std::uniform_real_distribution<double> U (0.15, 0.85);
        double f = U (rng);
        T x = (T) (std::sqrt (f) * std::sqrt ((double) target));
        T y0 = (T) std::sqrt ((double) target - (double) x * (double) x);
        int a = (int) (rng () % N), b = (a + 1 + (int) (rng () % (N - 1))) % N;
        T y = y0;
        for (int k = 0; k < 40; ++k) y = std::nextafter (y, T (0));
        for (int k = 0; k < 80; ++k, y = std::nextafter (y, std::numeric_limits<T>::infinity ()))
        {
            V v;
            for (int i = 0; i < N; ++i) v[i] = T (0);
            v[a] = x; v[b] = y;
            T d = refDot<T, N> (v);
            if (!sameBitsT (d, target)) continue;
            T rd = std::sqrt (d), rs = refScaled<T, N> (v);
            if (sameBitsT (rd, rs)) continue;
            v[a] = sgn (x); v[b] = sgn (y);
            checkVector<T, N> (v);
            ++found;
            break;
        }
    }
    return found;
}
static std::map<std::string, long> exactProbes; // key: type|dim|target
template <class T, int N> static void thresholdExact (int want)
{
    const T twoMin = T (2) * std::numeric_limits<T>::min (), mx = std::numeric_limits<T>::max ();
    char key[48];
    snprintf (key, 48, "%s|%d|dot==2*min", Lim<T>::name (), N); exactProbes[key] += thresholdExactOne<T, N> (twoMin, want);
    snprintf (key, 48, "%s|%d|dot==pred(2*min)", Lim<T>::name (), N); exactProbes[key] += thresholdExactOne<T, N> (std::nextafter (twoMin, T (0)), want);
    snprintf (key, 48, "%s|%d|dot==max", Lim<T>::name (), N); exactProbes[key] += thresholdExactOne<T, N> (mx, want);
    snprintf (key, 48, "%s|%d|dot==succ(2*min)", Lim<T>::name (), N); exactProbes[key] += thresholdExactOne<T, N> (std::nextafter (twoMin, mx), want);
}

template <class T, int N> static void zeros ()
{
    typename VecOf<T, N>::type v;
    for (int m = 0; m < (1 << N); ++m) { for (int i = 0; i < N; ++i) v[i] = (m >> i & 1) ? -T (0) : T (0); checkVector<T, N> (v); }
}

template <class T, int N> static void sweep (int reps, int stride)
{
    zeros<T, N> ();
    for (int e = Lim<T>::eminSub (); e <= Lim<T>::emaxIn (); e += stride) sweepExponent<T, N> (e, reps);
    sweepExponent<T, N> (Lim<T>::emaxIn (), reps);
    sweepThreshold<T, N> (40 * (reps + 1));
    thresholdExact<T, N> (8 * (reps + 1));
}

// scale 1: every square and the sum are exact small integers, so length() must be the CORRECTLY ROUNDED square root of the exact
// dot and every normalize form the CORRECTLY ROUNDED quotient v[i] / length() — bit for bit, not "within a few ulps".
static long latticeExactChecks = 0, latticeExactAmbiguous = 0;
template <class T, int N> static void latticeExact (const typename VecOf<T, N>::type& v)
{
    typedef typename VecOf<T, N>::type V;
    const char* ty = Lim<T>::name ();
    std::string in = show<T, N> (v);
    bool isZero = true;
    for (int i = 0; i < N; ++i) if (v[i] != T (0)) isZero = false;
    if (isZero) return;
    Q dotq; normQ<T, N> (v, &dotq);
    T want = (T) sqrtq (dotq), want2 = std::sqrt ((T) dotq); // 113-bit sqrt rounded to T; hardware sqrt of the exact integer
    if (!sameBitsT (want, want2)) { ++latticeExactAmbiguous; return; } // the two oracles disagree (double rounding): not judged
    T l = v.length ();
    ++evals; ++latticeExactChecks;
    if (!sameBitsT (l, want))
    {
        char d[160]; snprintf (d, 160, "got=%a correctly_rounded_sqrt_of_%g=%a", (double) l, (double) dotq, (double) want);
        fail (FN (N, "length"), ty, "lattice-not-correctly-rounded-sqrt", in, d);
    }
    for (int form = 0; form < 6; ++form)
    {
        V r; bool other, ok = callForm (form, v, r, other);
        ++evals; ++latticeExactChecks;
        if (!ok) continue; // reported by checkVector
        for (int i = 0; i < N; ++i)
        {
            T q1 = (T) ((Q) v[i] / (Q) want), q2 = v[i] / want;
            if (!sameBitsT (q1, q2)) { ++latticeExactAmbiguous; continue; }
            if (!sameBitsT (r[i], q1))
            {
                char d[200]; snprintf (d, 200, "component=%d got=%a correctly_rounded_quotient=%a (of %a / %a)", i, (double) r[i], (double) q1, (double) v[i], (double) want);
                fail (FN (N, FORM[form]), ty, "lattice-not-correctly-rounded-quotient", in, d);
                break;
            }
        }
    }
}

// integer lattice [-3,3]^N at four scales: direct branch (exact squares), lengthTiny branch (underflow), subnormal,
// lengthTiny branch because the squares overflow
template <class T, int N> static void lattice ()
{
    typename VecOf<T, N>::type v;
    const int scales[4] = {0, Lim<T>::eminNormal () / 2 - 8, Lim<T>::eminSub () + 4, std::numeric_limits<T>::max_exponent / 2 + 6};
    int       idx[4]    = {0, 0, 0, 0};
    long      total     = 1;
    for (int i = 0; i < N; ++i) total *= 7;
    for (int sc = 0; sc < 4; ++sc)
        for (long c = 0; c < total; ++c)
        {
            long r = c;
            for (int i = 0; i < N; ++i) { idx[i] = (int) (r % 7) - 3; r /= 7; }
            for (int i = 0; i < N; ++i) v[i] = std::ldexp ((T) idx[i], scales[sc]);
            checkVector<T, N> (v);
            if (sc == 0) latticeExact<T, N> (v);
        }
}

// ---------------------------------------------------------------------------------------------------
// EXHAUSTIVE float families (thorough tier).  Oracle in double: for a single non-zero component the norm is |x| exactly; for the
// all-equal family |x|*sqrt(N) (double sqrt: relative error 2^-53, i.e. < 2^-28 float ulps).
struct ExStat
{
    double maxLen[5] = {0, 0, 0, 0, 0}; long nLen[5] = {0, 0, 0, 0, 0}; unsigned worstLen[5] = {0, 0, 0, 0, 0};
    double maxUnit = 0, maxRatio = 0; unsigned worstUnit = 0, worstRatio = 0;
    long n = 0, evals = 0, lengthExact = 0, subnormalNorm = 0;
    std::vector<std::string> fails;
    void merge (const ExStat& o)
    {
        for (int c = 0; c < 5; ++c) { if (o.maxLen[c] > maxLen[c] || (nLen[c] == 0 && o.nLen[c])) { maxLen[c] = o.maxLen[c]; worstLen[c] = o.worstLen[c]; } nLen[c] += o.nLen[c]; }
        if (o.maxUnit > maxUnit) { maxUnit = o.maxUnit; worstUnit = o.worstUnit; }
        if (o.maxRatio > maxRatio) { maxRatio = o.maxRatio; worstRatio = o.worstRatio; }
        n += o.n; evals += o.evals; lengthExact += o.lengthExact; subnormalNorm += o.subnormalNorm;
        for (auto& f : o.fails) if (fails.size () < 40) fails.push_back (f);
    }
};
static float bitsToFloat (unsigned b) { float f; std::memcpy (&f, &b, 4); return f; }

// family 0: single component at position pos;  family 1: all components +-x (signs from the low bits of x)
template <int N> static void exhaustiveBlock (int family, int pos, unsigned lo, unsigned hi, bool allForms, ExStat& st)
{
    typedef typename VecOf<float, N>::type V;
    const double minN = std::ldexp (1.0, -126), eps = std::numeric_limits<float>::epsilon (), u = std::ldexp (1.0, -24);
    const double sqrtN = std::sqrt ((double) N), fmax = std::numeric_limits<float>::max ();
    char fam[24]; snprintf (fam, 24, family == 0 ? "single@%d" : "all-equal", pos);
    auto failx = [&] (const char* fn, const char* what, unsigned b, const std::string& det) {
        if (st.fails.size () < 40) { char h[160]; snprintf (h, 160, "RESIDUE-FAIL %s float exhaustive-%s:%s in=bits:0x%08x(%a) ", FN (N, fn), fam, what, b, (double) bitsToFloat (b)); st.fails.push_back (h + det); }
        else st.fails.push_back ("");
    };
    for (unsigned b = lo; b < hi; ++b)
    {
        float x = bitsToFloat (b);
        V v;
        for (int i = 0; i < N; ++i) v[i] = family == 0 ? (i == pos ? ((b & 1) ? -x : x) : (((b >> (1 + i)) & 1) ? -0.0f : 0.0f)) : (((b >> i) & 1) ? -x : x);
        double ref = family == 0 ? (double) x : (double) x * sqrtN, dq = family == 0 ? (double) x * (double) x : (double) N * ((double) x * (double) x);
        // (x*x is exact in double; N*x*x loses at most 2^-53 relative, irrelevant for the class)
        int cls = dq < 2 * minN ? (ref < minN ? 0 : 1) : dq > fmax ? 4 : dq < 2048 * minN ? 2 : 3;
        ++st.n;
        float l = v.length ();
        ++st.evals;
        if (!std::isfinite (l)) { failx ("length", "nonfinite", b, ""); continue; }
        if (l == 0.0f) { failx ("length", "zero-for-nonzero-vector", b, ""); continue; }
        int e; std::frexp (ref, &e); e -= 1; if (e < -126) e = -126;
        double err = std::fabs ((double) l - ref) / std::ldexp (1.0, e - 23);
        if (err == 0) ++st.lengthExact;
        ++st.nLen[cls];
        if (err > st.maxLen[cls]) { st.maxLen[cls] = err; st.worstLen[cls] = b; }
        if (err > LENGTH_BOUND[cls]) { char d[120]; snprintf (d, 120, "got=%a ref=%a err_ulps=%.3f bound=%.1f class=%s", (double) l, ref, err, LENGTH_BOUND[cls], CLASSNAME[cls]); failx ("length", "ulp-error", b, d); }
        for (int form = 0; form < 6; ++form)
        {
            if (!allForms && form != 0 && form != 3) continue; // normalize() and normalized() on every float, the other four on every 8th block
            V r; bool other, ok = callForm (form, v, r, other);
            ++st.evals;
            if (other || !ok) { failx (FORM[form], other ? "unexpected-exception-type" : "throws-for-nonzero-vector", b, ""); continue; }
            bool bad = false;
            for (int i = 0; i < N && !bad; ++i)
            {
                if (!std::isfinite (r[i])) { failx (FORM[form], "nonfinite", b, ""); bad = true; }
                else if (std::signbit (r[i]) != std::signbit (v[i])) { failx (FORM[form], "sign", b, ""); bad = true; }
                else if (v[i] == 0.0f && r[i] != 0.0f) { failx (FORM[form], "zero-component-not-kept", b, ""); bad = true; }
                else if (std::fabs ((double) r[i]) > 1.0 + 4 * eps) { failx (FORM[form], "component-above-1", b, ""); bad = true; }
            }
            if (bad) continue;
            if (ref < minN) { if (form == 0) ++st.subnormalNorm; continue; } // accuracy claim excludes subnormal norms
            double s2 = 0;
            for (int i = 0; i < N; ++i) s2 += (double) r[i] * (double) r[i];
            double uerr = std::fabs (std::sqrt (s2) - 1.0) / eps;
            if (uerr > st.maxUnit) { st.maxUnit = uerr; st.worstUnit = b; }
            // single component: the normalised component must be +-1 within ONE ulp; all-equal: the general unit bound
            double ub = family == 0 ? 1.0 : UNIT_BOUND;
            if (uerr > ub) { char d[100]; snprintf (d, 100, "err_eps=%.3f bound=%.1f out0=%a", uerr, ub, (double) r[0]); failx (FORM[form], "unit-length", b, d); continue; }
            for (int i = 0; i < N; ++i)
            {
                if (v[i] == 0.0f) continue;
                double ee = std::fabs ((double) r[i] * ref - (double) v[i]), slack = ref * std::ldexp (1.0, -149);
                double q = (ee > slack ? ee - slack : 0) / (u * std::fabs ((double) v[i]));
                if (q > st.maxRatio) { st.maxRatio = q; st.worstRatio = b; }
                if (q > RATIO_BOUND) { char d[100]; snprintf (d, 100, "component=%d err_u=%.3f bound=%.1f", i, q, RATIO_BOUND); failx (FORM[form], "ratio", b, d); break; }
            }
        }
    }
}

template <int N> static void exhaustiveFamily (int family, int pos, int nthreads, unsigned stride, unsigned offset)
{
    const unsigned first = 1, last = 0x7EFFFFFFu; // smallest subnormal .. max/2
    const unsigned block = stride > 1 ? (1u << 14) : (1u << 20); // slice mode: blocks of 2^14 floats, so every binade (2^23 floats) is visited 512/stride times
    std::vector<ExStat> sts (nthreads);
    std::vector<std::thread> th;
    std::atomic<unsigned long> next ((unsigned long) first + (unsigned long) block * (offset % stride));
    for (int t = 0; t < nthreads; ++t)
        th.emplace_back ([&, t] () {
            for (;;)
            {
                unsigned long lo = next.fetch_add ((unsigned long) block * stride);
                if (lo > last) break;
                unsigned long hi = std::min<unsigned long> (lo + block, (unsigned long) last + 1);
                exhaustiveBlock<N> (family, pos, (unsigned) lo, (unsigned) hi, ((lo - first) / block / stride) % 8 == 0, sts[t]);
            }
        });
    for (auto& t : th) t.join ();
    ExStat tot;
    for (auto& s : sts) tot.merge (s);
    char fam[24]; snprintf (fam, 24, family == 0 ? "single@%d" : "all-equal", pos);
    vectors += tot.n; evals += tot.evals;
    for (auto& f : tot.fails) { ++failures; if (!f.empty () && failures <= 200) printf ("%s\n", f.c_str ()); }
    printf ("EXHAUSTIVE float|%d|%s vectors=%ld evals=%ld length_bit_exact=%ld subnormal_norm=%ld unit_max_eps=%.4f(0x%08x) ratio_max_u=%.4f(0x%08x)",
            N, fam, tot.n, tot.evals, tot.lengthExact, tot.subnormalNorm, tot.maxUnit, tot.worstUnit, tot.maxRatio, tot.worstRatio);
    for (int c = 0; c < 5; ++c) printf (" len[%s]=%.4f/n=%ld(0x%08x)", CLASSNAME[c], tot.maxLen[c], tot.nLen[c], tot.worstLen[c]);
    printf ("\n");
}

int main (int argc, char** argv)
{
    unsigned long seed = argc > 1 ? strtoul (argv[1], 0, 10) : 1;
    std::string   mode = argc > 2 ? argv[2] : "sweep";
    rng.seed (seed * 0x9E3779B97F4A7C15ull + 12345);
    if (mode == "lattice")
    {
        fnFilter = argc > 3 ? argv[3] : "";
        if (fnFilter == "all") fnFilter = "";
        lattice<float, 2> (); lattice<float, 3> (); lattice<float, 4> ();
        lattice<double, 2> (); lattice<double, 3> (); lattice<double, 4> ();
    }
    else if (mode == "exhaustive")
    {
        // exhaustive <threads> [stride [offset]]: stride > 1 = SLICE: of the blocks of 2^14 consecutive floats, block number b is visited iff
        // b % stride == offset % stride (quick tier: stride 64, offset = seed, so successive seeds cover different floats)
        int      nth    = argc > 3 ? atoi (argv[3]) : (int) std::thread::hardware_concurrency ();
        unsigned stride = argc > 4 ? (unsigned) atoi (argv[4]) : 1, offset = argc > 5 ? (unsigned) atoi (argv[5]) : 0;
        if (nth < 1) nth = 1;
        if (stride < 1) stride = 1;
        exhaustiveFamily<2> (0, 0, nth, stride, offset); exhaustiveFamily<3> (0, 1, nth, stride, offset); exhaustiveFamily<4> (0, 3, nth, stride, offset);
        exhaustiveFamily<2> (1, 0, nth, stride, offset); exhaustiveFamily<3> (1, 0, nth, stride, offset); exhaustiveFamily<4> (1, 0, nth, stride, offset);
    }
    else
    {
        int reps = argc > 3 ? atoi (argv[3]) : 2, stride = argc > 4 ? atoi (argv[4]) : 1;
        if (stride < 1) stride = 1;
        sweep<float, 2> (reps, stride); sweep<float, 3> (reps, stride); sweep<float, 4> (reps, stride);
        sweep<double, 2> (reps, stride); sweep<double, 3> (reps, stride); sweep<double, 4> (reps, stride);
    }
    for (auto& kv : branchStats)
        printf ("BRANCH %s decided_direct=%ld decided_scaled=%ld same_bits_both_algorithms=%ld ambiguous_next_to_threshold=%ld dot==2*min=%ld dot==pred(2*min)=%ld dot==max=%ld "
                "within_x4_of_2*min=%ld within_x4_of_max_or_above=%ld\n", kv.first.c_str (), kv.second.direct, kv.second.scaled, kv.second.same, kv.second.ambiguous,
                kv.second.sharp2min, kv.second.sharpPred2min, kv.second.sharpMax, kv.second.nearLo, kv.second.nearHi);
    for (auto& kv : exactProbes) printf ("EXACTPROBE %s constructed=%ld\n", kv.first.c_str (), kv.second);
    if (mode == "lattice") printf ("LATTICE-EXACT checks=%ld not_judged_oracles_disagree=%ld\n", latticeExactChecks, latticeExactAmbiguous);
    for (auto& kv : stats) printf ("CLASS %s max=%.4f n=%ld worst=%s\n", kv.first.c_str (), kv.second.maxv, kv.second.n, kv.second.worst.c_str ());
    printf ("RESIDUE mode=%s seed=%lu vectors=%ld evals=%ld failures=%ld skipped_norm_above_max=%ld\n", mode.c_str (), seed, vectors, evals, failures, skippedNormAboveMax);
    return failures ? 1 : 0;
}
