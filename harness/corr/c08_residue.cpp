// C08 residue measurement (DESIGN.md §2.4) — MEASURED, NOT PROVED (level: partial).
//
// The Lean theorems (Props/C08.lean) say what length()/normalize() compute in exact arithmetic.  What C08
// additionally claims about floating point — "length() within a few ulps of the true norm, including vectors
// whose squares underflow or are subnormal; zero only for the zero vector; normalize* returns a vector of
// length 1 within a few ulps, same sign and ratio per component, zero for zero, never NaN/inf" — is measured
// here by calling the REAL Vec2/3/4<float|double> members on structured inputs and comparing with a 113-bit
// reference.
//
// Reference: every input component is a float/double, so its square is exact in __float128 (<= 106
// significant bits, exponent range +-16382 covers (2^-1074)^2 .. (2^511)^2); the sum of <= 4 non-negative
// exact terms has relative error <= 3*2^-113 and sqrtq adds <= 2^-112: the reference norm is good to
// ~2^-110 relative, i.e. < 2^-57 ulp of double.  No cancellation occurs (all terms >= 0).
//
// Domain: since /repo 16a5ca8 length() also takes the scaled branch when the sum of squares OVERFLOWS, so vectors
// whose squared length overflows but whose length is representable are inside what length()/normalize must
// handle: components up to max/2 (then ||v|| <= sqrt(4)*max/2 = max for N <= 4).  Vectors whose length itself
// exceeds max stay excluded (none is generated; a reference norm > max is skipped and counted).
//
// Inputs (mode "sweep"): for T in {float,double}, N in {2,3,4}: EVERY binary exponent from the smallest
// subnormal up to the largest with |x| <= max/2, x mantissa patterns {1.0, 1.5, 1+ulp, 2-ulp, random...}
// x structures {single non-zero component at each position with signed zeros elsewhere, all equal (random
// signs), mixed magnitudes with exponent gaps {0,1,2,p/2,p-1,p,p+1,2p,random up to the full range}, signed
// zeros mixed with two non-zero components}, plus vectors scaled so that dot() lands just below / at / just
// above the 2*min threshold of length(), around norm = min, and just below / at / just above dot = max (the
// overflow guard), plus all-zero vectors with every sign pattern.
// Mode "lattice": small integer vectors [-3,3]^N at four scales (direct branch / lengthTiny branch for
// underflow / subnormal / lengthTiny branch for overflowing squares), used by the failing-input search.
//
// Output: one "RESIDUE ..." summary line, "CLASS ..." lines (per type x dimension x class maxima and counts)
// and "RESIDUE-FAIL <fn> <type> <what> ..." lines with the offending input as hex floats.
#include <ImathVec.h>
#include <quadmath.h>
#include <cstdio>
#include <cstdlib>
#include <cstring>
#include <cmath>
#include <algorithm>
#include <map>
#include <random>
#include <stdexcept>
#include <string>
#include <vector>
using namespace IMATH_NAMESPACE;
typedef __float128 Q;

static std::mt19937_64 rng;
static long            evals = 0, failures = 0, vectors = 0;
static std::string     fnFilter; // lattice mode: only report failures of this function ("" = all)

// ---------------------------------------------------------------------------------------------------
// bounds ("a few ulps"), fixed at the clean-tree maximum over seeds 1-3 (thorough sweep) + 1, see
// tools/props/c08.py; the measured maxima are reported in the evidence on every run.
//   length():  class A = lengthTiny branch, subnormal norm      class B = lengthTiny branch, normal norm
//              class C = direct branch, dot < 2^10 * 2*min      class D = direct branch, the rest
//              class E = lengthTiny branch because the squares overflow (dot > max): same bound as class B
// Clean-tree maxima (seeds 1-3, sweep with 2 and 24 random mantissas per exponent; re-calibrated on /repo 16a5ca8):
//   length A 1.44  B 2.65  C 2.15  D 1.58  E 2.75 ulps;  unit 1.71 eps;  ratio 3.87 u.
#ifndef LENGTH_BOUND_A
#define LENGTH_BOUND_A 2.5
#define LENGTH_BOUND_B 3.7
#define LENGTH_BOUND_C 3.2
#define LENGTH_BOUND_D 2.6
#define UNIT_BOUND_V 2.8
#define RATIO_BOUND_V 4.9
#endif
static const double LENGTH_BOUND[5] = {LENGTH_BOUND_A, LENGTH_BOUND_B, LENGTH_BOUND_C, LENGTH_BOUND_D, LENGTH_BOUND_B};
static const double UNIT_BOUND      = UNIT_BOUND_V;  // | ||r|| - 1 | in units of epsilon, normal norms only
static const double RATIO_BOUND     = RATIO_BOUND_V; // |r_i*||v|| - v_i| in units of u*|v_i| (+ 1 denormal step of r_i)
static const char*  CLASSNAME[5]    = {"tiny-branch/subnormal-norm", "tiny-branch/normal-norm", "direct/near-threshold", "direct", "scaled-branch/squares-overflow"};
static long         skippedNormAboveMax = 0;

template <class T> struct Lim
{
    static constexpr int p = std::numeric_limits<T>::digits;
    static int eminNormal () { return std::numeric_limits<T>::min_exponent - 1; }             // -126 / -1022
    static int eminSub () { return eminNormal () - (p - 1); }                                   // -149 / -1074
    static int emaxIn () { return std::numeric_limits<T>::max_exponent - 2; }                 // 126 / 1022: (2-ulp)*2^e <= max/2
    static const char* name () { return sizeof (T) == 4 ? "float" : "double"; }
};
template <class T> static Q ulpAt (Q ref)
{
    ref = fabsq (ref);
    int e = ref > 0 ? ilogbq (ref) : Lim<T>::eminNormal ();
    if (e < Lim<T>::eminNormal ()) e = Lim<T>::eminNormal ();
    return ldexpq ((Q) 1, e - (Lim<T>::p - 1));
}

template <class T, int N> struct VecOf;
template <class T> struct VecOf<T, 2> { typedef Vec2<T> type; };
template <class T> struct VecOf<T, 3> { typedef Vec3<T> type; };
template <class T> struct VecOf<T, 4> { typedef Vec4<T> type; };

struct Stat { double maxv = 0; long n = 0; std::string worst; };
static std::map<std::string, Stat> stats; // key: metric|type|dim|class

template <class T, int N> static std::string show (const typename VecOf<T, N>::type& v)
{
    std::string s;
    char        b[64];
    for (int i = 0; i < N; ++i) { snprintf (b, 64, "%a%s", (double) v[i], i + 1 < N ? "," : ""); s += b; }
    return s;
}
static void note (const std::string& key, double val, const std::string& in)
{
    Stat& s = stats[key];
    ++s.n;
    if (s.n == 1 || val > s.maxv) { s.maxv = val; s.worst = in; }
}
static void fail (const char* fn, const char* ty, const char* what, const std::string& in, const std::string& detail)
{
    if (!fnFilter.empty () && fnFilter != fn) return;
    ++failures;
    if (failures <= 200) printf ("RESIDUE-FAIL %s %s %s in=%s %s\n", fn, ty, what, in.c_str (), detail.c_str ());
}
static const char* FN (int N, const char* f)
{
    static std::map<std::string, std::string> m;
    std::string k = std::string ("V") + char ('0' + N) + "." + f;
    return m.emplace (k, k).first->second.c_str ();
}

template <class T, int N> static Q normQ (const typename VecOf<T, N>::type& v, Q* dot = nullptr)
{
    Q s = 0;
    for (int i = 0; i < N; ++i) s += (Q) v[i] * (Q) v[i];
    if (dot) *dot = s;
    return sqrtq (s);
}

// the six normalize forms; returns false when the form threw std::domain_error, sets other for anything else
template <class V> static bool callForm (int form, const V& in, V& out, bool& other)
{
    other = false;
    out   = in;
    try
    {
        switch (form)
        {
            case 0: out.normalize (); break;
            case 1: out.normalizeExc (); break;
            case 2: out.normalizeNonNull (); break;
            case 3: out = in.normalized (); break;
            case 4: out = in.normalizedExc (); break;
            default: out = in.normalizedNonNull (); break;
        }
    }
    catch (const std::domain_error&) { return false; }
    catch (...) { other = true; return false; }
    return true;
}
static const char* FORM[6] = {"normalize", "normalizeExc", "normalizeNonNull", "normalized", "normalizedExc", "normalizedNonNull"};

template <class T, int N> static void checkVector (const typename VecOf<T, N>::type& v)
{
    typedef typename VecOf<T, N>::type V;
    const char* ty = Lim<T>::name ();
    std::string in = show<T, N> (v);
    ++vectors;
    bool isZero = true;
    for (int i = 0; i < N; ++i) if (v[i] != T (0)) isZero = false;
    Q dotq, ref = normQ<T, N> (v, &dotq);
    const Q minN = ldexpq ((Q) 1, Lim<T>::eminNormal ());
    char    dim[8]; snprintf (dim, 8, "%d", N);
    if (ref > (Q) std::numeric_limits<T>::max ()) { ++skippedNormAboveMax; return; } // length itself not representable: outside C08

    // ---- length() -------------------------------------------------------------------------------
    T    l      = v.length ();
    T    dotT   = v.dot (v);
    bool tinyBr = dotT < T (2) * std::numeric_limits<T>::min ();
    bool ovfBr  = dotT > std::numeric_limits<T>::max ();
    int  cls    = tinyBr ? (ref < minN ? 0 : 1) : ovfBr ? 4 : (dotq < ldexpq (minN, 11) ? 2 : 3);
    const char* brName = tinyBr ? "tiny-branch" : ovfBr ? "scaled-overflow" : "direct";
    ++evals;
    if (isZero)
    {
        if (!(l == T (0))) fail (FN (N, "length"), ty, "zero-vector-length-not-0", in, "");
    }
    else
    {
        if (!std::isfinite (l)) fail (FN (N, "length"), ty, "nonfinite", in, "got=" + std::to_string ((double) l));
        else if (l == T (0)) fail (FN (N, "length"), ty, "zero-for-nonzero-vector", in, "");
        else
        {
            double err = (double) (fabsq ((Q) l - ref) / ulpAt<T> (ref));
            note (std::string ("length_ulps|") + ty + "|" + dim + "|" + CLASSNAME[cls], err, in);
            if (err > LENGTH_BOUND[cls])
            {
                char d[200]; snprintf (d, 200, "got=%a ref=%a err_ulps=%.3f bound=%.1f class=%s", (double) l, (double) ref, err, LENGTH_BOUND[cls], CLASSNAME[cls]);
                fail (FN (N, "length"), ty, "ulp-error", in, d);
            }
        }
    }
    // ---- length2() == dot(v,v), and close to the exact sum ----------------------------------------
    {
        T l2 = v.length2 ();
        ++evals;
        if (std::memcmp (&l2, &dotT, sizeof (T)) != 0) fail (FN (N, "length2"), ty, "differs-from-dot", in, "");
        Q u = ldexpq ((Q) 1, -Lim<T>::p), slack = (Q) N * ldexpq ((Q) 1, Lim<T>::eminSub ());
        Q e = fabsq ((Q) l2 - dotq);
        bool   l2ovf = dotq > (Q) std::numeric_limits<T>::max () * (1 + (Q) N * u); // exact dot (nearly) overflows: inf is the correct result
        double r = l2ovf ? 0 : dotq > 0 ? (double) ((e > slack ? e - slack : 0) / (u * dotq)) : (double) (e > 0);
        if (!std::isfinite (l2) && !l2ovf && dotq <= (Q) std::numeric_limits<T>::max () * (1 - (Q) N * u)) r = 1e30;
        else if (!std::isfinite (l2)) r = 0;
        if (!l2ovf && std::isfinite (l2)) note (std::string ("length2_err_over_u|") + ty + "|" + dim + "|all", r, in);
        if (r > N) { char d[120]; snprintf (d, 120, "got=%a exact=%a err/u=%.3f", (double) l2, (double) dotq, r); fail (FN (N, "length2"), ty, "rounding", in, d); }
    }
    // ---- the six normalize forms ------------------------------------------------------------------
    for (int form = 0; form < 6; ++form)
    {
        if (isZero && (form == 2 || form == 5)) continue; // NonNull: precondition v != 0
        const char* fn = FN (N, FORM[form]);
        V    r;
        bool other, ok = callForm (form, v, r, other);
        ++evals;
        bool isExc = form == 1 || form == 4;
        if (other) { fail (fn, ty, "unexpected-exception-type", in, ""); continue; }
        if (isExc && isZero) { if (ok) fail (fn, ty, "no-throw-for-zero-vector", in, ""); continue; }
        if (!ok) { fail (fn, ty, isExc ? "throws-for-nonzero-vector" : "throws", in, ""); continue; }
        if (isZero)
        {
            for (int i = 0; i < N; ++i) if (!(r[i] == T (0))) { fail (fn, ty, "zero-vector-not-mapped-to-zero", in, "out=" + show<T, N> (r)); break; }
            continue;
        }
        bool finite = true;
        for (int i = 0; i < N; ++i) if (!std::isfinite (r[i])) finite = false;
        if (!finite) { fail (fn, ty, "nonfinite", in, "out=" + show<T, N> (r) + (ref < minN ? " (subnormal norm)" : " (normal norm)")); continue; }
        // sign of every component (signed zeros included) and |r_i| <= 1
        for (int i = 0; i < N; ++i)
        {
            if (std::signbit (r[i]) != std::signbit (v[i])) { fail (fn, ty, "sign", in, "out=" + show<T, N> (r)); break; }
            if (v[i] == T (0) && !(r[i] == T (0))) { fail (fn, ty, "zero-component-not-kept", in, "out=" + show<T, N> (r)); break; }
            if (std::fabs ((double) r[i]) > 1.0 + 4 * (double) std::numeric_limits<T>::epsilon ()) { fail (fn, ty, "component-above-1", in, "out=" + show<T, N> (r)); break; }
        }
        if (ref < minN) { note (std::string ("normalize_subnormal_norm_finite|") + ty + "|" + dim + "|" + FORM[form], 0, in); continue; } // property excludes subnormal norms from the accuracy claim
        // unit length
        Q      rn   = normQ<T, N> (r);
        double uerr = (double) (fabsq (rn - 1) / (Q) std::numeric_limits<T>::epsilon ());
        note (std::string ("unit_err_eps|") + ty + "|" + dim + "|" + brName, uerr, in);
        if (uerr > UNIT_BOUND) { char d[160]; snprintf (d, 160, "|r|=1%+.3g err_eps=%.3f bound=%.1f out=", (double) (rn - 1), uerr, UNIT_BOUND); fail (fn, ty, "unit-length", in, d + show<T, N> (r)); }
        // ratio: r_i * ||v|| = v_i up to a few u (plus one denormal step when r_i is subnormal)
        Q u = ldexpq ((Q) 1, -Lim<T>::p);
        for (int i = 0; i < N; ++i)
        {
            if (v[i] == T (0)) continue;
            Q e     = fabsq ((Q) r[i] * ref - (Q) v[i]);
            Q slack = ldexpq (ref, Lim<T>::eminSub ()); // one denormal step of r_i, scaled
            double q = (double) ((e > slack ? e - slack : 0) / (u * fabsq ((Q) v[i])));
            note (std::string ("ratio_err_u|") + ty + "|" + dim + "|" + brName, q, in);
            if (q > RATIO_BOUND) { char d[160]; snprintf (d, 160, "component=%d err_u=%.3f bound=%.1f out=", i, q, RATIO_BOUND); fail (fn, ty, "ratio", in, d + show<T, N> (r)); break; }
        }
    }
}

// ---------------------------------------------------------------------------------------------------
// input generators
template <class T> static T mant (int k)
{
    const T eps = std::numeric_limits<T>::epsilon ();
    switch (k)
    {
        case 0: return T (1);
        case 1: return T (1.5);
        case 2: return T (1) + eps;
        case 3: return T (2) - eps;
        default: { std::uniform_real_distribution<double> U (1.0, 2.0); T m = (T) U (rng); return m < T (2) ? m : T (1); }
    }
}
template <class T> static T sgn (T x) { return (rng () & 1) ? -x : x; }
template <class T> static T val (int k, int e)
{
    if (e < Lim<T>::eminSub ()) e = Lim<T>::eminSub ();
    T x = std::ldexp (mant<T> (k), e);
    if (x == T (0)) x = std::numeric_limits<T>::denorm_min ();
    return x;
}

template <class T, int N> static void sweepExponent (int e, int reps)
{
    typedef typename VecOf<T, N>::type V;
    const int p = Lim<T>::p;
    for (int k = 0; k < 4 + reps; ++k)
    {
        T x = val<T> (k, e);
        // single non-zero component at each position, signed zeros elsewhere
        for (int pos = 0; pos < N; ++pos)
        {
            V v;
            for (int i = 0; i < N; ++i) v[i] = i == pos ? sgn (x) : sgn (T (0));
            checkVector<T, N> (v);
        }
        // all equal, random signs
        { V v; for (int i = 0; i < N; ++i) v[i] = sgn (x); checkVector<T, N> (v); }
        // mixed magnitudes
        int full = e - Lim<T>::eminSub ();
        const int gaps[9] = {0, 1, 2, p / 2, p - 1, p, p + 1, 2 * p, full > 0 ? (int) (rng () % (unsigned) (full + 1)) : 0};
        for (int g = 0; g < 9; ++g)
        {
            V   v;
            int pos = (int) (rng () % N);
            for (int i = 0; i < N; ++i)
            {
                if (i == pos) { v[i] = sgn (x); continue; }
                int d = (rng () & 1) ? gaps[g] : (gaps[g] > 0 ? (int) (rng () % (unsigned) (gaps[g] + 1)) : 0);
                v[i]  = sgn (val<T> (4, e - d));
                if (std::fabs (v[i]) > std::fabs (x) && e == Lim<T>::emaxIn ()) v[i] = sgn (x); // stay within max/2
            }
            checkVector<T, N> (v);
        }
        // signed zeros mixed with two non-zero components
        if (N > 2)
        {
            V   v;
            int a = (int) (rng () % N), b = (a + 1 + (int) (rng () % (N - 1))) % N;
            for (int i = 0; i < N; ++i) v[i] = sgn (T (0));
            v[a] = sgn (x);
            v[b] = sgn (val<T> (4, e - (int) (rng () % 3)));
            if (std::fabs (v[b]) > std::fabs (x) && e == Lim<T>::emaxIn ()) v[b] = sgn (x);
            checkVector<T, N> (v);
        }
    }
}

// vectors whose dot() lands around the 2*min threshold of length(), around min (norm^2 at the subnormal border),
// and around max (the overflow guard: direct branch just below, scaled branch just above)
template <class T, int N> static void sweepThreshold (int n)
{
    typedef typename VecOf<T, N>::type V;
    const double factors[] = {0.25, 0.5, 0.9, 0.999, 1.0, 1.001, 1.1, 2.0, 4.0, 64.0};
    const Q      targets[3] = {2 * (Q) std::numeric_limits<T>::min (), ldexpq ((Q) std::numeric_limits<T>::min (), Lim<T>::eminNormal ()),
                               (Q) std::numeric_limits<T>::max ()}; // dot ~ 2*min ; norm ~ min ; dot ~ max (overflow guard)
    for (int it = 0; it < n; ++it)
        for (int tg = 0; tg < 3; ++tg)
            for (double f : factors)
            {
                Q   u[N], s = 0;
                int spread = (int) (rng () % 4) * (Lim<T>::p / 3);
                for (int i = 0; i < N; ++i) { u[i] = ldexpq ((Q) mant<T> (4), -(int) (rng () % (unsigned) (spread + 1))); if (rng () % 5 == 0 && i) u[i] = 0; s += u[i] * u[i]; }
                Q scale = sqrtq (targets[tg] * (Q) f / s);
                V v;
                for (int i = 0; i < N; ++i) v[i] = sgn ((T) (u[i] * scale));
                checkVector<T, N> (v);
            }
}

template <class T, int N> static void zeros ()
{
    typename VecOf<T, N>::type v;
    for (int m = 0; m < (1 << N); ++m) { for (int i = 0; i < N; ++i) v[i] = (m >> i & 1) ? -T (0) : T (0); checkVector<T, N> (v); }
}

template <class T, int N> static void sweep (int reps, int stride)
{
    zeros<T, N> ();
    for (int e = Lim<T>::eminSub (); e <= Lim<T>::emaxIn (); e += stride) sweepExponent<T, N> (e, reps);
    sweepExponent<T, N> (Lim<T>::emaxIn (), reps);
    sweepThreshold<T, N> (40 * (reps + 1));
}

// integer lattice [-3,3]^N at four scales: direct branch (exact squares), lengthTiny branch (underflow), subnormal,
// lengthTiny branch because the squares overflow
template <class T, int N> static void lattice ()
{
    typename VecOf<T, N>::type v;
    const int scales[4] = {0, Lim<T>::eminNormal () / 2 - 8, Lim<T>::eminSub () + 4, std::numeric_limits<T>::max_exponent / 2 + 6};
    int       idx[4]    = {0, 0, 0, 0};
    long      total     = 1;
    for (int i = 0; i < N; ++i) total *= 7;
    for (int sc = 0; sc < 4; ++sc)
        for (long c = 0; c < total; ++c)
        {
            long r = c;
            for (int i = 0; i < N; ++i) { idx[i] = (int) (r % 7) - 3; r /= 7; }
            for (int i = 0; i < N; ++i) v[i] = std::ldexp ((T) idx[i], scales[sc]);
            checkVector<T, N> (v);
        }
}

int main (int argc, char** argv)
{
    unsigned long seed = argc > 1 ? strtoul (argv[1], 0, 10) : 1;
    std::string   mode = argc > 2 ? argv[2] : "sweep";
    rng.seed (seed * 0x9E3779B97F4A7C15ull + 12345);
    if (mode == "lattice")
    {
        fnFilter = argc > 3 ? argv[3] : "";
        if (fnFilter == "all") fnFilter = "";
        lattice<float, 2> (); lattice<float, 3> (); lattice<float, 4> ();
        lattice<double, 2> (); lattice<double, 3> (); lattice<double, 4> ();
    }
    else
    {
        int reps = argc > 3 ? atoi (argv[3]) : 2, stride = argc > 4 ? atoi (argv[4]) : 1;
        if (stride < 1) stride = 1;
        sweep<float, 2> (reps, stride); sweep<float, 3> (reps, stride); sweep<float, 4> (reps, stride);
        sweep<double, 2> (reps, stride); sweep<double, 3> (reps, stride); sweep<double, 4> (reps, stride);
    }
    for (auto& kv : stats) printf ("CLASS %s max=%.4f n=%ld worst=%s\n", kv.first.c_str (), kv.second.maxv, kv.second.n, kv.second.worst.c_str ());
    printf ("RESIDUE mode=%s seed=%lu vectors=%ld evals=%ld failures=%ld skipped_norm_above_max=%ld\n", mode.c_str (), seed, vectors, evals, failures, skippedNormAboveMax);
    return failures ? 1 : 0;
}
