// Correspondence + residue harness for C18 (ImathRandom.h / ImathRandom.cpp).
// Runs the REAL code (this TU is linked with /repo/src/Imath/ImathRandom.cpp)
// and prints the same canonical lines as lean/Driver/Rand48.lean.  On the same
// inputs it also calls glibc's nrand48/erand48/lrand48/drand48/srand48 (the
// POSIX reference) and reports disagreements on lines starting with '#'
// (ignored when diffing against the Lean driver, parsed by tools/props/c18.py).
//
//   sweep <seed> <nblocks> | dump <seed> <lo> <hi>
//   sweepc <seed> <nblocks> | dumpc <seed> <lo> <hi>
//   seq                      (stdin: W / R lines, see the driver)
//   residue <seed> <ndraws> <nseeds>   nextf(a,b) interval + sampler measurements
//   rangeExact <seed> <ndraws> <sweep>  nextf(a,b) BIT-EQUAL to a*(1-f)+b*f with f from a COPY of the generator, states equal
//                                      afterwards; endpoint classes grid / adjacent / equal / symmetric / extreme;
//                                      Rand32: all 2^23 values of f for <sweep> special pairs (state planted by memcpy)
//   determinism <seed> <nseeds>        init()/constructors in storage with different prior contents, re-init after use,
//                                      default constructor arguments
//   script                             the real sampler templates with a SCRIPTED generator as `Rand` on lattices of
//                                      candidates (loop decisions, draws consumed, returned value)
//   gaussSweep <kmax>                  gaussRand's value on x = +-2^-k m/8, y = +-2^-j n/8 (k, j <= kmax) + candidates next to length2 = 1:
//                                      bit-equal to the harness's own evaluation, within 2 float ulps of the long-double formula
//   twoObjects <seed> <rounds>         two live Rand48, two live Rand32, two arrays and the static state, calls interleaved:
//                                      each call against glibc on a private copy, each object's stream against a lone replay
//   gaussLattice                       `G kx ky iterations` lines of gaussRand on the lattice (k/8)^2, diffed against the
//                                      hand model Field.gaussRandLoop evaluated in Lean at Rat
#include <ImathRandom.h>
#include <ImathVec.h>
#include <stdlib.h>
#include <cstdio>
#include <cstring>
#include <cstdint>
#include <cmath>
#include <cfloat>
#include <string>
#include <vector>
#include <map>
#include <sstream>
#include <iostream>
#include <limits>
#include <new>

namespace IM = IMATH_INTERNAL_NAMESPACE;

static_assert (sizeof (unsigned short) == 2, "unsigned short must be 16 bits");
static_assert (sizeof (unsigned long) == 8 && sizeof (long) == 8, "the model is for LP64 (64-bit long)");
static_assert (sizeof (IM::Rand48) == 6, "Rand48 is expected to hold exactly unsigned short[3]");

static uint64_t d2u (double d) { uint64_t u; memcpy (&u, &d, 8); return u; }
static uint32_t f2u (float f) { uint32_t u; memcpy (&u, &f, 4); return u; }

static uint64_t mix (uint64_t seed, uint64_t i)
{
    uint64_t z = seed + (i + 1) * 0x9E3779B97F4A7C15ull;
    z = (z ^ (z >> 30)) * 0xBF58476D1CE4E5B9ull;
    z = (z ^ (z >> 27)) * 0x94D049BB133111EBull;
    return z ^ (z >> 31);
}
static inline uint64_t fnv (uint64_t h, uint64_t v) { return (h ^ v) * 1099511628211ull; }
static uint64_t pack (const unsigned short s[3]) { return (uint64_t) s[0] | ((uint64_t) s[1] << 16) | ((uint64_t) s[2] << 32); }
static void unpack (uint64_t x, unsigned short s[3]) { s[0] = x & 0xffff; s[1] = (x >> 16) & 0xffff; s[2] = (x >> 32) & 0xffff; }

// ---------------------------------------------------------------- glibc comparison
struct Glibc
{
    uint64_t calls = 0, int_mismatch = 0, succ_mismatch = 0, dbl_out_of_tol = 0, dbl_negative = 0, shown = 0;
    double   max_diff_ulp52 = 0; // max (imath - glibc) * 2^52
    void show (const char* kind, uint64_t state, const char* call, uint64_t a, uint64_t b)
    {
        if (shown++ < 5)
            printf ("#glibc-mismatch kind=%s state=%012llx call=%s imath=%llx glibc=%llx\n", kind,
                    (unsigned long long) state, call, (unsigned long long) a, (unsigned long long) b);
    }
    void cmpInt (uint64_t st, const char* call, long a, long b)
    {
        ++calls;
        if (a != b) { ++int_mismatch; show ("int", st, call, (uint64_t) a, (uint64_t) b); }
    }
    void cmpDbl (uint64_t st, const char* call, double a, double b)
    {
        ++calls;
        double diff = (a - b) * 4503599627370496.0; // exact: both are multiples of 2^-52 in [0,1)
        if (diff < 0) { ++dbl_negative; show ("dbl-below-posix", st, call, d2u (a), d2u (b)); }
        if (!(std::fabs (a - b) < 3.5527136788005009e-15 /* 2^-48 */) || !(a >= 0 && a < 1) || !(b >= 0 && b < 1))
        {
            ++dbl_out_of_tol;
            show ("dbl", st, call, d2u (a), d2u (b));
        }
        if (std::fabs (diff) > max_diff_ulp52) max_diff_ulp52 = std::fabs (diff);
    }
    void cmpSucc (uint64_t st, const char* call, const unsigned short a[3], const unsigned short b[3])
    {
        if (pack (a) != pack (b)) { ++succ_mismatch; show ("succ", st, call, pack (a), pack (b)); }
    }
    void summary ()
    {
        printf ("#glibc calls=%llu int_mismatch=%llu succ_mismatch=%llu dbl_out_of_tol=%llu dbl_negative=%llu max_diff_2^-52=%.0f\n",
                (unsigned long long) calls, (unsigned long long) int_mismatch, (unsigned long long) succ_mismatch,
                (unsigned long long) dbl_out_of_tol, (unsigned long long) dbl_negative, max_diff_ulp52);
    }
};
static Glibc G;

// ---------------------------------------------------------------- sweeps
struct Eval { long r; uint64_t a; uint64_t e; uint64_t b; };
static Eval evalState (uint64_t x)
{
    unsigned short s[3], g[3];
    Eval           v;
    unpack (x, s); unpack (x, g);
    v.r      = IM::nrand48 (s);
    long gr  = ::nrand48 (g);
    v.a      = pack (s);
    G.cmpInt (x, "nrand48", v.r, gr);
    G.cmpSucc (x, "nrand48", s, g);
    unpack (x, s); unpack (x, g);
    double e  = IM::erand48 (s);
    double ge = ::erand48 (g);
    v.e       = d2u (e);
    v.b       = pack (s);
    G.cmpDbl (x, "erand48", e, ge);
    G.cmpSucc (x, "erand48", s, g);
    return v;
}

static void evalSeed (uint64_t seed, uint64_t out[8])
{
    IM::Rand48 r48 (seed);
    out[0] = (uint64_t) r48.nexti ();
    out[1] = r48.nextb () ? 1 : 0;
    out[2] = d2u (r48.nextf ());
    out[3] = (uint64_t) r48.nexti ();
    IM::Rand32 r32 (seed);
    out[4] = (uint64_t) r32.nexti ();
    out[5] = r32.nextb () ? 1 : 0;
    out[6] = f2u (r32.nextf ());
    out[7] = (uint64_t) r32.nexti ();
}

// ---------------------------------------------------------------- call sequences
static void runLine (const std::string& line)
{
    std::istringstream is (line);
    std::string        t;
    if (!(is >> t)) return;
    if (t == "W")
    {
        std::string    a, b, c;
        is >> a >> b >> c;
        unsigned short s[3] = {(unsigned short) strtoul (a.c_str (), 0, 16), (unsigned short) strtoul (b.c_str (), 0, 16),
                               (unsigned short) strtoul (c.c_str (), 0, 16)};
        unsigned short g[3] = {s[0], s[1], s[2]};
        while (is >> t)
        {
            uint64_t x0 = pack (s);
            if (t == "n")
            {
                long r = IM::nrand48 (s);
                printf ("i %lx\n", r);
                G.cmpInt (x0, "nrand48", r, ::nrand48 (g));
            }
            else if (t == "e")
            {
                double r = IM::erand48 (s);
                printf ("d %llx\n", (unsigned long long) d2u (r));
                G.cmpDbl (x0, "erand48", r, ::erand48 (g));
            }
            else if (t == "l")
            {
                long r = IM::lrand48 ();
                printf ("i %lx\n", r);
                G.cmpInt (0, "lrand48", r, ::lrand48 ());
            }
            else if (t == "d")
            {
                double r = IM::drand48 ();
                printf ("d %llx\n", (unsigned long long) d2u (r));
                G.cmpDbl (0, "drand48", r, ::drand48 ());
            }
            else if (t[0] == 'S')
            {
                uint64_t seed = strtoull (t.c_str () + 1, 0, 16);
                IM::srand48 ((long) seed);
                ::srand48 ((long) seed);
                printf ("v\n");
            }
            else if (t[0] == 'I')
            {
                uint64_t   seed = strtoull (t.c_str () + 1, 0, 16);
                IM::Rand48 r;
                memcpy ((void*) &r, s, 6);
                r.init ((unsigned long) seed);
                memcpy (s, (const void*) &r, 6);
                memcpy (g, s, 6); // no POSIX counterpart for the seeding scramble
                printf ("v\n");
            }
            else if (t == "b" || t == "i" || t == "f")
            {
                IM::Rand48 r;
                memcpy ((void*) &r, s, 6);
                if (t == "b")
                {
                    bool v = r.nextb ();
                    printf ("b %d\n", v ? 1 : 0);
                    G.cmpInt (x0, "Rand48::nextb", v ? 1 : 0, ::nrand48 (g) & 1);
                }
                else if (t == "i")
                {
                    long v = r.nexti ();
                    printf ("i %lx\n", v);
                    G.cmpInt (x0, "Rand48::nexti", v, ::nrand48 (g));
                }
                else
                {
                    double v = r.nextf ();
                    printf ("d %llx\n", (unsigned long long) d2u (v));
                    G.cmpDbl (x0, "Rand48::nextf", v, ::erand48 (g));
                }
                memcpy (s, (const void*) &r, 6);
            }
            G.cmpSucc (x0, t.c_str (), s, g);
        }
        printf ("= %x %x %x\n", s[0], s[1], s[2]);
    }
    else if (t == "R")
    {
        std::string sd;
        is >> sd;
        IM::Rand32 r ((unsigned long) strtoull (sd.c_str (), 0, 16));
        while (is >> t)
        {
            if (t == "b") printf ("b %d\n", r.nextb () ? 1 : 0);
            else if (t == "i") printf ("i %lx\n", r.nexti ());
            else if (t == "f") printf ("f %x\n", f2u (r.nextf ()));
            else if (t[0] == 'I') { r.init ((unsigned long) strtoull (t.c_str () + 1, 0, 16)); printf ("v\n"); }
        }
        printf ("=\n");
    }
}

// ---------------------------------------------------------------- residue measurements
template <class T> static bool sameBitsT (T a, T b)
{
    if (a != a && b != b) return true;
    return memcmp (&a, &b, sizeof (T)) == 0;
}
template <class T> static T ulpOf (T m)
{
    m = std::fabs (m);
    if (!(m < std::numeric_limits<T>::infinity ())) return m;
    T up = std::nextafter (m, std::numeric_limits<T>::infinity ());
    if (up == std::numeric_limits<T>::infinity ()) return m - std::nextafter (m, T (0));
    return up - m;
}

template <class T, class Rand> struct RangeStat
{
    uint64_t    n = 0, nonfinite = 0, outside = 0;
    long double maxExcUlp = 0;
    T           wa = 0, wb = 0, wr = 0, nfa = 0, nfb = 0, nfr = 0;
    void        run (const std::vector<T>& vals, uint64_t seed, int draws)
    {
        Rand rnd (seed);
        for (T a : vals)
            for (T b : vals)
                for (int k = 0; k < draws; ++k)
                {
                    T r = rnd.nextf (a, b);
                    ++n;
                    if (!std::isfinite (r))
                    {
                        if (!nonfinite) { nfa = a; nfb = b; nfr = r; }
                        ++nonfinite;
                        continue;
                    }
                    T lo = std::min (a, b), hi = std::max (a, b);
                    long double exc = 0;
                    if (r < lo) exc = (long double) lo - (long double) r;
                    if (r > hi) exc = (long double) r - (long double) hi;
                    if (exc > 0)
                    {
                        ++outside;
                        long double u = exc / (long double) ulpOf<T> (std::max (std::fabs (a), std::fabs (b)));
                        if (u > maxExcUlp) { maxExcUlp = u; wa = a; wb = b; wr = r; }
                    }
                }
    }
};

template <class T> static std::string bitsOf (T v)
{
    char buf[40];
    if (sizeof (T) == 4) { float f = (float) v; snprintf (buf, sizeof buf, "%08x", f2u (f)); }
    else { double d = (double) v; snprintf (buf, sizeof buf, "%016llx", (unsigned long long) d2u (d)); }
    return buf;
}

template <class T, class Rand> static void rangeResidue (const char* name, uint64_t seed, int draws)
{
    typedef std::numeric_limits<T> L;
    std::vector<T> vals = {T (0), -T (0), T (1), T (-1), L::min (), -L::min (), L::denorm_min (), -L::denorm_min (),
                           L::max (), -L::max (), L::max () / 2, -L::max () / 2, T (3), T (-3), T (1) + L::epsilon (),
                           T (1) - L::epsilon () / 2, T (0.1), T (-0.1), T (16777216.0), T (1e30), T (-1e30), T (1e-30),
                           std::nextafter (L::max (), T (0)), T (7) * L::min ()};
    RangeStat<T, Rand> st;
    st.run (vals, seed, draws);
    printf ("range %s n=%llu nonfinite=%llu outside=%llu max_exc_ulp=%.4Lf worst_a=%s worst_b=%s worst_r=%s nf_a=%s nf_b=%s nf_r=%s\n",
            name, (unsigned long long) st.n, (unsigned long long) st.nonfinite, (unsigned long long) st.outside, st.maxExcUlp,
            bitsOf (st.wa).c_str (), bitsOf (st.wb).c_str (), bitsOf (st.wr).c_str (), bitsOf (st.nfa).c_str (),
            bitsOf (st.nfb).c_str (), bitsOf (st.nfr).c_str ());
}

template <class V> static long double ldLength2 (const V& v)
{
    long double s = 0;
    for (unsigned i = 0; i < V::dimensions (); ++i) s += (long double) v[i] * (long double) v[i];
    return s;
}
template <class V> static bool allFinite (const V& v)
{
    for (unsigned i = 0; i < V::dimensions (); ++i)
        if (!std::isfinite (v[i])) return false;
    return true;
}

// the harness's own evaluation of gaussRand's arithmetic on one candidate, through volatile temporaries (the device of
// rangeExact): length2 = x*x + y*y in float; accept iff !(length2 >= 1 || length2 == 0);
// value = float (x * sqrt (-2 * log (double (length2)) / length2)) evaluated in double
struct GaussRef { bool accept; float L; float value; };
static GaussRef gaussRef (float x, float y)
{
    volatile float xx = x * x;
    volatile float yy = y * y;
    volatile float L  = xx + yy;
    GaussRef       g;
    g.L      = L;
    g.accept = !(L >= 1 || L == 0);
    g.value  = 0;
    if (g.accept)
    {
        volatile double lg  = std::log ((double) L);
        volatile double num = -2 * lg;
        volatile double q   = num / (double) L;
        volatile double sq  = std::sqrt (q);
        volatile double p   = (double) x * sq;
        g.value             = (float) p;
    }
    return g;
}

template <class V, class Rand> static void samplerResidue (const char* name, uint64_t seed, int nseeds, int per)
{
    typedef typename V::BaseType T;
    uint64_t    n = 0, solidNonfinite = 0, solidOutside = 0, hollowNonfinite = 0, hollowOff = 0, gsNonfinite = 0, gNonfinite = 0;
    // gaussRand on the REAL generator against the harness's re-evaluation from a COPY of the generator, and the hypotheses of
    // Props/C18.lean gaussRand_bound_rand32 / _rand48 on every accepted candidate
    uint64_t    gValueMismatch = 0, gStateMismatch = 0, gHypBad = 0, gRetries = 0;
    const bool  is32   = std::is_same<Rand, IM::Rand32>::value;
    const float Lmin   = std::ldexp (1.0f, is32 ? -46 : -102);
    float       gMinL  = 1;
    long double solidMaxL2 = 0, hollowMaxDev = 0, gaussMaxAbs = 0, gsMaxLen = 0;
    const long double eps = std::numeric_limits<T>::epsilon ();
    uint64_t    badSeed = 0;
    int         bad = 0;
    for (int k = 0; k < nseeds; ++k)
    {
        static const uint64_t fixedSeeds[8] = {0ull, 1ull, 0xffffffffull, 0xffffffffffffffffull, 0x80000000ull, 0x7fffffffull, 0x5a5a5a5aull, 0xa5a573a5ull};
        uint64_t sd = (k < 8) ? fixedSeeds[k] : mix (seed, 1000000 + k);
        Rand r (sd);
        for (int j = 0; j < per; ++j)
        {
            ++n;
            V s = IM::solidSphereRand<V> (r);
            if (!allFinite (s)) { ++solidNonfinite; if (!bad) { bad = 1; badSeed = sd; } }
            long double l2 = ldLength2 (s);
            if (l2 > solidMaxL2) solidMaxL2 = l2;
            if (l2 > 1 + 4 * eps) { ++solidOutside; if (!bad) { bad = 1; badSeed = sd; } }
            V h = IM::hollowSphereRand<V> (r);
            if (!allFinite (h)) { ++hollowNonfinite; if (!bad) { bad = 1; badSeed = sd; } }
            long double dev = std::fabs (std::sqrt (ldLength2 (h)) - 1) / eps;
            if (dev > hollowMaxDev) hollowMaxDev = dev;
            if (!(dev <= 4)) { ++hollowOff; if (!bad) { bad = 1; badSeed = sd; } }
            Rand     r2 = r;
            GaussRef gr;
            float    gx = 0, gy = 0;
            for (int it = 0; it < 100000; ++it)
            {
                gx = float (r2.nextf (-1, 1));
                gy = float (r2.nextf (-1, 1));
                gr = gaussRef (gx, gy);
                if (gr.accept) break;
                ++gRetries;
            }
            float g = IM::gaussRand (r);
            if (!sameBitsT<float> (g, gr.value)) { ++gValueMismatch; if (!bad) { bad = 1; badSeed = sd; } }
            if (memcmp ((const void*) &r, (const void*) &r2, sizeof (Rand)) != 0) { ++gStateMismatch; if (!bad) { bad = 1; badSeed = sd; } }
            if (gr.L < gMinL) gMinL = gr.L;
            if (!(gr.L >= Lmin) || !((long double) gx * gx <= (1 + ldexpl (1, -22)) * (long double) gr.L)) { ++gHypBad; if (!bad) { bad = 1; badSeed = sd; } }
            if (!std::isfinite (g)) { ++gNonfinite; if (!bad) { bad = 1; badSeed = sd; } }
            if (std::fabs ((long double) g) > gaussMaxAbs) gaussMaxAbs = std::fabs ((long double) g);
            V gs = IM::gaussSphereRand<V> (r);
            if (!allFinite (gs)) { ++gsNonfinite; if (!bad) { bad = 1; badSeed = sd; } }
            long double gl = std::sqrt (ldLength2 (gs));
            if (gl > gsMaxLen) gsMaxLen = gl;
        }
    }
    printf ("sampler %s n=%llu solid_nonfinite=%llu solid_outside=%llu solid_max_length2=%.20Lf hollow_nonfinite=%llu hollow_off=%llu "
            "hollow_max_dev_eps=%.4Lf gauss_nonfinite=%llu gauss_max_abs=%.6Lf gsphere_nonfinite=%llu gsphere_max_len=%.6Lf bad_seed=%llx "
            "gauss_value_mismatch=%llu gauss_state_mismatch=%llu gauss_hyp_bad=%llu gauss_retries=%llu gauss_min_length2_log2=%d\n",
            name, (unsigned long long) n, (unsigned long long) solidNonfinite, (unsigned long long) solidOutside, solidMaxL2,
            (unsigned long long) hollowNonfinite, (unsigned long long) hollowOff, hollowMaxDev, (unsigned long long) gNonfinite,
            gaussMaxAbs, (unsigned long long) gsNonfinite, gsMaxLen, (unsigned long long) badSeed, (unsigned long long) gValueMismatch,
            (unsigned long long) gStateMismatch, (unsigned long long) gHypBad, (unsigned long long) gRetries, std::ilogb (gMinL));
}

// nextf() itself in [0,1) for many seeds / positions (both classes), directly on the real code
static void unitResidue (uint64_t seed, int nseeds, int per)
{
    uint64_t n = 0, bad = 0;
    float    fmax = 0;
    double   dmax = 0;
    for (int k = 0; k < nseeds; ++k)
    {
        uint64_t   sd = mix (seed, 2000000 + k);
        IM::Rand32 a (sd);
        IM::Rand48 b (sd);
        for (int j = 0; j < per; ++j)
        {
            float  f = a.nextf ();
            double d = b.nextf ();
            n += 2;
            if (!(f >= 0 && f < 1)) ++bad;
            if (!(d >= 0 && d < 1)) ++bad;
            if (f > fmax) fmax = f;
            if (d > dmax) dmax = d;
            unsigned long u = a.nexti ();
            long          l = b.nexti ();
            n += 2;
            if (u > 0xfffffffful) ++bad;
            if (l < 0 || l > 0x7fffffffl) ++bad;
        }
    }
    printf ("unit n=%llu bad=%llu fmax=%08x dmax=%016llx\n", (unsigned long long) n, (unsigned long long) bad, f2u (fmax),
            (unsigned long long) d2u (dmax));
}


// ---------------------------------------------------------------- nextf(a,b) == a*(1-f)+b*f, bit for bit
template <class T> struct Pair { T a, b; const char* cls; };

template <class T> static std::vector<Pair<T>> endpointPairs ()
{
    typedef std::numeric_limits<T> L;
    const T inf = L::infinity ();
    std::vector<T> grid = {T (0), -T (0), T (1), T (-1), L::min (), -L::min (), L::denorm_min (), -L::denorm_min (),
                           L::max (), -L::max (), L::max () / 2, -L::max () / 2, T (3), T (-3), T (1) + L::epsilon (),
                           T (1) - L::epsilon () / 2, T (0.1), T (-0.1), T (16777216.0), T (1e30), T (-1e30), T (1e-30),
                           std::nextafter (L::max (), T (0)), T (7) * L::min ()};
    std::vector<Pair<T>> out;
    for (T a : grid) for (T b : grid) out.push_back ({a, b, "grid"});
    std::vector<T> mags = {L::denorm_min (), T (5) * L::denorm_min (), L::min (), T (1.5) * L::min (), T (1e-30), T (0.1), T (0.5), T (0.75),
                           T (1), T (1) + L::epsilon (), T (2), T (3), T (1000.5), T (16777216.0), T (1e30), L::max () / 4, L::max () / 2,
                           std::nextafter (L::max (), T (0))};
    for (T m : mags)
        for (int sg = 0; sg < 2; ++sg)
        {
            T a = sg ? -m : m;
            T up = std::nextafter (a, inf), dn = std::nextafter (a, -inf);
            out.push_back ({a, up, "adjacent"}); out.push_back ({up, a, "adjacent"});
            out.push_back ({a, dn, "adjacent"}); out.push_back ({dn, a, "adjacent"});
            out.push_back ({a, std::nextafter (up, inf), "adjacent2"}); out.push_back ({std::nextafter (up, inf), a, "adjacent2"});
            out.push_back ({a, a, "equal"});
            out.push_back ({-m, m, "symmetric"}); out.push_back ({m, -m, "symmetric"});
        }
    out.push_back ({L::max (), L::max (), "equal"}); out.push_back ({-L::max (), -L::max (), "equal"});
    out.push_back ({T (0), T (0), "equal"}); out.push_back ({-T (0), -T (0), "equal"});
    out.push_back ({L::lowest (), L::max (), "extreme"}); out.push_back ({L::max (), L::lowest (), "extreme"});
    out.push_back ({-L::min (), L::min (), "extreme"}); out.push_back ({-L::denorm_min (), L::denorm_min (), "extreme"});
    out.push_back ({L::denorm_min (), L::max (), "extreme"}); out.push_back ({L::lowest (), -L::denorm_min (), "extreme"});
    out.push_back ({T (0), L::max (), "extreme"}); out.push_back ({L::lowest (), T (0), "extreme"});
    std::vector<Pair<T>> fin;
    for (auto& p : out) if (std::isfinite (p.a) && std::isfinite (p.b)) fin.push_back (p);
    return fin;
}

struct ExactStat
{
    uint64_t    n = 0, valueMismatch = 0, stateMismatch = 0, nonfinite = 0, outside = 0;
    long double maxExcEndpointUlp = 0, maxExcResultUlp = 0, maxExcWidth = 0;
    std::string firstBad, worst;
};

// one evaluation: r is advanced by the member, r2 (a copy) by nextf () + the formula of the property
template <class T, class Rand> static void exactOne (Rand& r, T a, T b, std::map<std::string, ExactStat>& st, const char* cls)
{
    ExactStat& s = st[cls];
    Rand r2 = r;
    T             f   = (T) r2.nextf ();
    volatile T    om  = 1 - f;
    volatile T    p1  = a * om;
    volatile T    p2  = b * f;
    volatile T    e   = p1 + p2;
    T             got = r.nextf (a, b);
    ++s.n;
    if (!sameBitsT<T> (got, (T) e))
    {
        if (!s.valueMismatch)
            s.firstBad = "a=" + bitsOf (a) + " b=" + bitsOf (b) + " f=" + bitsOf (f) + " member=" + bitsOf (got) + " formula=" + bitsOf ((T) e);
        ++s.valueMismatch;
    }
    if (memcmp ((const void*) &r, (const void*) &r2, sizeof (Rand)) != 0)
    {
        if (!s.stateMismatch && s.firstBad.empty ()) s.firstBad = "a=" + bitsOf (a) + " b=" + bitsOf (b) + " state-after-differs";
        ++s.stateMismatch;
    }
    if (!std::isfinite (got))
    {
        if (!s.nonfinite && s.firstBad.empty ()) s.firstBad = "a=" + bitsOf (a) + " b=" + bitsOf (b) + " f=" + bitsOf (f) + " nonfinite=" + bitsOf (got);
        ++s.nonfinite;
        return;
    }
    T lo = std::min (a, b), hi = std::max (a, b);
    long double exc = 0;
    if (got < lo) exc = (long double) lo - (long double) got;
    if (got > hi) exc = (long double) got - (long double) hi;
    if (exc > 0)
    {
        ++s.outside;
        long double ue = exc / (long double) ulpOf<T> (std::max (std::fabs (a), std::fabs (b)));
        long double ur = exc / (long double) ulpOf<T> (got);
        long double w  = (long double) hi - (long double) lo;
        if (ue > s.maxExcEndpointUlp) { s.maxExcEndpointUlp = ue; s.worst = "a=" + bitsOf (a) + " b=" + bitsOf (b) + " f=" + bitsOf (f) + " r=" + bitsOf (got); }
        if (ur > s.maxExcResultUlp) s.maxExcResultUlp = ur;
        if (w > 0 && exc / w > s.maxExcWidth) s.maxExcWidth = exc / w;
    }
}

static void printExact (const char* name, const std::map<std::string, ExactStat>& st)
{
    for (auto& kv : st)
    {
        const ExactStat& s = kv.second;
        printf ("exact %s class=%s n=%llu value_mismatch=%llu state_mismatch=%llu nonfinite=%llu outside=%llu max_exc_endpoint_ulp=%.4Lf "
                "max_exc_result_ulp=%.4Lf max_exc_over_width=%.4Lf first_bad=[%s] worst=[%s]\n",
                name, kv.first.c_str (), (unsigned long long) s.n, (unsigned long long) s.valueMismatch, (unsigned long long) s.stateMismatch,
                (unsigned long long) s.nonfinite, (unsigned long long) s.outside, s.maxExcEndpointUlp, s.maxExcResultUlp, s.maxExcWidth,
                s.firstBad.c_str (), s.worst.c_str ());
    }
}

// Rand48 object whose NEXT value is x1 (state = preimage of x1 under the LCG step, planted by memcpy)
static IM::Rand48 rand48Before (uint64_t x1)
{
    const uint64_t ainv = 0xdfe05bcb1365ull; // 0x5deece66d^-1 mod 2^48
    uint64_t       x    = ((x1 - 0xb) * ainv) & 0xffffffffffffull;
    unsigned short s[3];
    unpack (x, s);
    IM::Rand48 r;
    memcpy ((void*) &r, s, 6);
    return r;
}
// Rand32 object whose NEXT state has the given low 32 bits
static IM::Rand32 rand32Before (uint32_t next)
{
    const uint32_t ainv = 4276115653u; // 1664525^-1 mod 2^32
    unsigned long  st   = (unsigned long) (uint32_t) ((next - 1013904223u) * ainv);
    IM::Rand32 r;
    memcpy ((void*) &r, &st, sizeof st);
    return r;
}

static void rangeExact (uint64_t seed, int draws, int sweepPairs)
{
    {
        std::map<std::string, ExactStat> st;
        IM::Rand32 r (seed);
        for (auto& p : endpointPairs<float> ())
            for (int k = 0; k < draws; ++k) exactOne<float, IM::Rand32> (r, p.a, p.b, st, p.cls);
        // every one of the 2^23 values of f for special pairs (the low 23 bits of the new state ARE the fraction)
        typedef std::numeric_limits<float> L;
        const float mx = L::max (), one = 1.0f;
        std::vector<Pair<float>> sp = {{mx, mx, "sweep-all-f:max,max"}, {L::lowest (), mx, "sweep-all-f:lowest,max"},
                                       {one, std::nextafter (one, 2.0f), "sweep-all-f:1,1+ulp"}, {one, one, "sweep-all-f:1,1"}, {-one, one, "sweep-all-f:-1,1"},
                                       {L::denorm_min (), 3 * L::denorm_min (), "sweep-all-f:subnormal"},
                                       {std::nextafter (mx, 0.0f), mx, "sweep-all-f:max-ulp,max"}, {0.1f, 0.1f, "sweep-all-f:0.1,0.1"},
                                       {mx, L::lowest (), "sweep-all-f:max,lowest"}, {3.0f, -7.0f, "sweep-all-f:3,-7"},
                                       {L::min (), std::nextafter (L::min (), 0.0f), "sweep-all-f:min,min-ulp"}};
        for (int q = 0; q < sweepPairs && q < (int) sp.size (); ++q)
            for (uint32_t m = 0; m < (1u << 23); ++m)
            {
                IM::Rand32 g = rand32Before (m | ((uint32_t) mix (seed, m) << 23));
                exactOne<float, IM::Rand32> (g, sp[q].a, sp[q].b, st, sp[q].cls);
            }
        printExact ("Rand32", st);
    }
    {
        std::map<std::string, ExactStat> st;
        IM::Rand48 r (seed);
        auto pairs = endpointPairs<double> ();
        for (auto& p : pairs)
            for (int k = 0; k < draws; ++k) exactOne<double, IM::Rand48> (r, p.a, p.b, st, p.cls);
        // boundary values of f: successor values 0, 1, 2^48-1, 2^47, 2^44 +- 1, ... planted through the preimage state
        static const uint64_t succ[] = {0ull, 1ull, 0xffffffffffffull, 0xfffffffffffeull, 1ull << 47, (1ull << 47) - 1, (1ull << 47) + 1, 1ull << 44,
                                        (1ull << 44) - 1, 1ull << 46, 3ull << 46, 0x555555555555ull, 0xaaaaaaaaaaaaull, 1ull << 24, 0xffffff000000ull};
        for (auto& p : pairs)
            for (uint64_t x1 : succ)
            {
                IM::Rand48 g = rand48Before (x1);
                exactOne<double, IM::Rand48> (g, p.a, p.b, st, (std::string ("boundary-f:") + p.cls).c_str ());
            }
        printExact ("Rand48", st);
    }
}

// ---------------------------------------------------------------- determinism: no dependence on prior storage contents
template <class Rand> static void outputsOf (Rand& r, uint64_t out[6]);
template <> void outputsOf<IM::Rand48> (IM::Rand48& r, uint64_t out[6])
{
    out[0] = (uint64_t) r.nexti (); out[1] = r.nextb (); out[2] = d2u (r.nextf ()); out[3] = d2u (r.nextf (-1, 1));
    out[4] = (uint64_t) r.nexti (); out[5] = d2u (r.nextf ());
}
template <> void outputsOf<IM::Rand32> (IM::Rand32& r, uint64_t out[6])
{
    out[0] = (uint64_t) r.nexti (); out[1] = r.nextb (); out[2] = f2u (r.nextf ()); out[3] = f2u (r.nextf (-1, 1));
    out[4] = (uint64_t) r.nexti (); out[5] = f2u (r.nextf ());
}

template <class Rand> static void determinismOf (const char* name, uint64_t seed, int nseeds)
{
    uint64_t n = 0, bad = 0, badBytes = 0;
    std::string first;
    const size_t N = sizeof (Rand);
    static const uint64_t fixedSeeds[10] = {0ull, 1ull, 0xffffffffull, 0xffffffffffffffffull, 0x80000000ull, 0x7fffffffull, 0x5a5a5a5aull, 0xa5a573a5ull,
                                            0x100000000ull, 0xffff0000ull};
    for (int k = 0; k < nseeds; ++k)
    {
        uint64_t sd = k < 10 ? fixedSeeds[k] : mix (seed, 3000000 + k);
        unsigned char refBytes[16] = {0};
        uint64_t      ref[6]       = {0};
        // fills: what the object's storage holds BEFORE init (seed) / the constructor runs
        for (int fill = 0; fill < 6; ++fill)
        {
            unsigned char pre[16];
            for (size_t i = 0; i < N; ++i) pre[i] = fill == 0 ? 0x00 : fill == 1 ? 0xff : fill == 2 ? 0xa5 : (unsigned char) (mix (seed + fill, k * 16 + i) & 0xff);
            for (int how = 0; how < 3; ++how)
            {
                alignas (16) unsigned char buf[16];
                unsigned char              after[16] = {0};
                uint64_t                   out[6];
                if (how == 0)
                {
                    // init () on a live object whose bytes were overwritten
                    Rand r (sd ^ 0x1234567ull);
                    memcpy ((void*) &r, pre, N);
                    r.init ((unsigned long) sd);
                    memcpy (after, (const void*) &r, N);
                    outputsOf<Rand> (r, out);
                }
                else if (how == 1)
                {
                    // constructor in storage with known prior contents (harness built with -fno-lifetime-dse)
                    memcpy (buf, pre, N);
                    Rand* r = new (buf) Rand ((unsigned long) sd);
                    memcpy (after, (const void*) r, N);
                    outputsOf<Rand> (*r, out);
                }
                else
                {
                    // re-init after use: another seed, some draws, then init (sd)
                    Rand     r ((unsigned long) (sd * 2654435761ull + fill));
                    uint64_t junk[6];
                    outputsOf<Rand> (r, junk);
                    r.init ((unsigned long) sd);
                    memcpy (after, (const void*) &r, N);
                    outputsOf<Rand> (r, out);
                }
                if (fill == 0 && how == 0) { memcpy (refBytes, after, N); memcpy (ref, out, sizeof ref); }
                ++n;
                bool b1 = memcmp (after, refBytes, N) != 0, b2 = memcmp (out, ref, sizeof ref) != 0;
                if (b1) ++badBytes;
                if (b1 || b2)
                {
                    if (!bad)
                    {
                        char t[300];
                        snprintf (t, sizeof t, "seed=%llx prior_fill=%d how=%s object_bytes_differ=%d outputs_differ=%d", (unsigned long long) sd, fill,
                                  how == 0 ? "init-on-overwritten-object" : how == 1 ? "constructor-in-filled-storage" : "re-init-after-use", (int) b1, (int) b2);
                        first = t;
                    }
                    ++bad;
                }
            }
        }
    }
    // default constructor argument: Rand () == Rand (0)
    uint64_t dbad = 0;
    {
        Rand     d, z (0ul);
        uint64_t a[6], b[6];
        bool     bytes = memcmp ((const void*) &d, (const void*) &z, N) != 0;
        outputsOf<Rand> (d, a); outputsOf<Rand> (z, b);
        if (bytes || memcmp (a, b, sizeof a) != 0) { ++dbad; if (first.empty ()) first = "default-constructed object differs from seed 0"; }
    }
    printf ("determinism %s n=%llu bad=%llu object_bytes_differ=%llu default_ctor_bad=%llu first=[%s]\n", name, (unsigned long long) n,
            (unsigned long long) bad, (unsigned long long) badBytes, (unsigned long long) dbad, first.c_str ());
}

// ---------------------------------------------------------------- the sampler templates with a scripted generator as `Rand`
struct ScriptExhausted {};
template <class T> struct ScriptGen
{
    std::vector<T> d;
    size_t         k = 0;
    int            badRange = 0;
    T nextf (T lo, T hi)
    {
        if (!(lo == T (-1) && hi == T (1))) ++badRange;
        if (k >= d.size ()) throw ScriptExhausted ();
        return d[k++];
    }
};

struct ScriptStat
{
    uint64_t n = 0, bad = 0, accepted = 0, rejected = 0, zeroCand = 0, unitCand = 0, threeIter = 0;
    std::string first;
    void fail (const std::string& what) { if (!bad) first = what; ++bad; }
};

template <class V> static std::string candStr (const char* fn, const int* k, int den)
{
    std::string s = std::string (fn) + " candidate=(";
    for (unsigned i = 0; i < V::dimensions (); ++i) s += (i ? "," : "") + std::to_string (k[i]) + "/" + std::to_string (den);
    return s + ")";
}

// all candidates (k_i / den), k_i in [-den-1, den+1], followed by the fallback candidate (1/2, 0, ..): exact integer spec of the
// loop decision, result compared bit for bit with candidate / candidate.length () (hollow) or the candidate itself (solid)
template <class V> static void scriptSphere (const char* name, int den)
{
    typedef typename V::BaseType T;
    const int  N = (int) V::dimensions ();
    ScriptStat so, ho;
    int        k[4] = {0, 0, 0, 0};
    const int  lo = -den - 1, hi = den + 1, span = hi - lo + 1;
    long       total = 1;
    for (int i = 0; i < N; ++i) total *= span;
    for (long idx = 0; idx < total; ++idx)
    {
        long q = idx;
        long l2num = 0; // sum k_i^2, length2 = l2num / den^2 exactly (also in T: small dyadics for den a power of two)
        for (int i = 0; i < N; ++i) { k[i] = lo + (int) (q % span); q /= span; l2num += (long) k[i] * k[i]; }
        V cand, fb (T (0));
        for (int i = 0; i < N; ++i) cand[i] = T (k[i]) / T (den);
        fb[0] = T (0.5);
        std::vector<T> script;
        // every 7th lattice point: an extra rejected candidate (2, 0, ..) FIRST, so that a rejected lattice point is the SECOND
        // rejection in a row (3 iterations on the real template)
        const int pre = (idx % 7 == 3) ? N : 0;
        for (int i = 0; i < pre; ++i) script.push_back (i == 0 ? T (2) : T (0));
        for (int i = 0; i < N; ++i) script.push_back (cand[i]);
        for (int i = 0; i < N; ++i) script.push_back (fb[i]);
        const long d2 = (long) den * den;
        {
            // solidSphereRand: accept iff length2 <= 1
            ScriptGen<T> g{script};
            ++so.n;
            bool acc = l2num <= d2;
            try
            {
                V r = IM::solidSphereRand<V> (g);
                V e = acc ? cand : fb;
                bool same = true;
                for (int i = 0; i < N; ++i) same = same && sameBitsT<T> (r[i], e[i]);
                if (pre && !acc) ++so.threeIter;
                if (!same || g.k != (size_t) (pre + (acc ? N : 2 * N)) || g.badRange) so.fail (candStr<V> ("solidSphereRand", k, den) + (acc ? " expected=accept" : " expected=retry") + " draws_consumed=" + std::to_string (g.k) + (g.badRange ? " wrong-range" : ""));
            }
            catch (ScriptExhausted&) { so.fail (candStr<V> ("solidSphereRand", k, den) + " loop did not stop on the fallback candidate"); }
            acc ? ++so.accepted : ++so.rejected;
            if (l2num == 0) ++so.zeroCand;
            if (l2num == d2) ++so.unitCand;
        }
        {
            // hollowSphereRand: accept iff 0 < length <= 1; result candidate / length
            ScriptGen<T> g{script};
            ++ho.n;
            bool acc = l2num <= d2 && l2num != 0;
            try
            {
                V r = IM::hollowSphereRand<V> (g);
                V c = acc ? cand : fb;
                T len = c.length ();
                bool same = true;
                for (int i = 0; i < N; ++i) same = same && sameBitsT<T> (r[i], T (c[i] / len));
                if (pre && !acc) ++ho.threeIter;
                if (!same || g.k != (size_t) (pre + (acc ? N : 2 * N)) || g.badRange) ho.fail (candStr<V> ("hollowSphereRand", k, den) + (acc ? " expected=accept" : " expected=retry") + " draws_consumed=" + std::to_string (g.k) + (g.badRange ? " wrong-range" : ""));
            }
            catch (ScriptExhausted&) { ho.fail (candStr<V> ("hollowSphereRand", k, den) + " loop did not stop on the fallback candidate"); }
            acc ? ++ho.accepted : ++ho.rejected;
            if (l2num == 0) ++ho.zeroCand;
            if (l2num == d2) ++ho.unitCand;
        }
    }
    printf ("script solidSphereRand %s n=%llu bad=%llu accepted=%llu rejected=%llu zero_candidates=%llu unit_length_candidates=%llu three_iterations=%llu first=[%s]\n", name,
            (unsigned long long) so.n, (unsigned long long) so.bad, (unsigned long long) so.accepted, (unsigned long long) so.rejected,
            (unsigned long long) so.zeroCand, (unsigned long long) so.unitCand, (unsigned long long) so.threeIter, so.first.c_str ());
    printf ("script hollowSphereRand %s n=%llu bad=%llu accepted=%llu rejected=%llu zero_candidates=%llu unit_length_candidates=%llu three_iterations=%llu first=[%s]\n", name,
            (unsigned long long) ho.n, (unsigned long long) ho.bad, (unsigned long long) ho.accepted, (unsigned long long) ho.rejected,
            (unsigned long long) ho.zeroCand, (unsigned long long) ho.unitCand, (unsigned long long) ho.threeIter, ho.first.c_str ());
}

// gaussRand on the lattice (kx/den, ky/den), fallback (1/2, 1/4): iterations (exact integer spec: accept iff 0 < x^2+y^2 < 1)
// and the value against x * sqrt (-2 ln l / l) in long double (2 float ulps), |value| <= 15 (Props/C18.lean gaussRand_real_bound)
template <class T> static void scriptGauss (const char* name, int den, bool lines)
{
    ScriptStat st;
    long double maxAbs = 0;
    for (int kx = -den - 1; kx <= den + 1; ++kx)
        for (int ky = -den - 1; ky <= den + 1; ++ky)
        {
            ScriptGen<T> g{{T (kx) / T (den), T (ky) / T (den), T (0.5), T (0.25)}};
            long         l2 = (long) kx * kx + (long) ky * ky, d2 = (long) den * den;
            bool         acc = l2 < d2 && l2 != 0;
            ++st.n;
            acc ? ++st.accepted : ++st.rejected;
            if (l2 == 0) ++st.zeroCand;
            if (l2 == d2) ++st.unitCand;
            try
            {
                float       v = IM::gaussRand (g);
                long double x = acc ? (long double) kx / den : 0.5L, y = acc ? (long double) ky / den : 0.25L, l = x * x + y * y;
                long double e = x * sqrtl (-2 * logl (l) / l);
                float       ef = (float) e;
                long double tol = 2 * (long double) ulpOf<float> (ef == 0 ? std::numeric_limits<float>::min () : ef);
                bool        okv = std::isfinite (v) && fabsl ((long double) v - e) <= tol && std::fabs (v) <= 15.0f;
                if (lines) printf ("G %d %d %zu\n", kx, ky, g.k / 2);
                if (std::fabs ((long double) v) > maxAbs) maxAbs = std::fabs ((long double) v);
                if (!okv || g.k != (size_t) (acc ? 2 : 4) || g.badRange)
                {
                    char t[300];
                    snprintf (t, sizeof t, "gaussRand candidate=(%d/%d,%d/%d) expected=%s draws_consumed=%zu value=%08x expected_value=%08x%s", kx, den, ky, den,
                              acc ? "accept" : "retry", g.k, f2u (v), f2u (ef), g.badRange ? " wrong-range" : "");
                    st.fail (t);
                }
            }
            catch (ScriptExhausted&)
            {
                if (lines) printf ("G %d %d 0\n", kx, ky);
                st.fail ("gaussRand candidate=(" + std::to_string (kx) + "/" + std::to_string (den) + "," + std::to_string (ky) + "/" + std::to_string (den) + ") loop did not stop on the fallback candidate");
            }
        }
    if (!lines)
        printf ("script gaussRand %s n=%llu bad=%llu accepted=%llu rejected=%llu zero_candidates=%llu unit_length_candidates=%llu max_abs=%.6Lf first=[%s]\n", name,
                (unsigned long long) st.n, (unsigned long long) st.bad, (unsigned long long) st.accepted, (unsigned long long) st.rejected,
                (unsigned long long) st.zeroCand, (unsigned long long) st.unitCand, maxAbs, st.first.c_str ());
}

// gaussSphereRand = hollowSphereRand (rand) * gaussRand (rand): the order in which the two operands draw is unspecified in
// C++ (both orders are accepted; which one this compiler chose is reported)
template <class V> static void scriptGaussSphere (const char* name)
{
    typedef typename V::BaseType T;
    const int  N = (int) V::dimensions ();
    ScriptStat st;
    int        hollowFirst = 0, gaussFirst = 0;
    static const double cands[6][4] = {{0.5, 0.25, -0.25, 0.125}, {-0.75, 0.5, 0.125, 0}, {0.25, 0, 0, 0}, {0, -0.5, 0.5, 0.25}, {1, 0, 0, 0}, {0.375, -0.625, 0.25, 0.125}};
    static const double gc[3][2]    = {{0.5, 0.25}, {-0.125, 0.75}, {0.25, -0.0625}};
    for (auto& c : cands)
        for (auto& gq : gc)
        {
            V h;
            for (int i = 0; i < N; ++i) h[i] = T (c[i]);
            if (!(h.length () <= 1) || h.length () == 0) continue;
            ++st.n;
            ScriptGen<T> ga{{}}, gb{{}};
            for (int i = 0; i < N; ++i) ga.d.push_back (h[i]);
            ga.d.push_back (T (gq[0])); ga.d.push_back (T (gq[1]));          // hollow draws first
            gb.d.push_back (T (gq[0])); gb.d.push_back (T (gq[1]));
            for (int i = 0; i < N; ++i) gb.d.push_back (h[i]);               // gauss draws first
            ScriptGen<T> g1{{T (gq[0]), T (gq[1])}};
            float        gv = IM::gaussRand (g1);
            V            e  = (h / h.length ()) * gv;
            bool okA = false, okB = false;
            try { V r = IM::gaussSphereRand<V> (ga); okA = ga.k == ga.d.size (); for (int i = 0; i < N; ++i) okA = okA && sameBitsT<T> (r[i], e[i]); } catch (ScriptExhausted&) {}
            try { V r = IM::gaussSphereRand<V> (gb); okB = gb.k == gb.d.size (); for (int i = 0; i < N; ++i) okB = okB && sameBitsT<T> (r[i], e[i]); } catch (ScriptExhausted&) {}
            if (okA) ++hollowFirst;
            if (okB) ++gaussFirst;
            if (!okA && !okB) st.fail ("gaussSphereRand is not hollowSphereRand (rand) * gaussRand (rand) on a scripted generator (either draw order)");
        }
    printf ("script gaussSphereRand %s n=%llu bad=%llu hollow_draws_first=%d gauss_draws_first=%d first=[%s]\n", name, (unsigned long long) st.n,
            (unsigned long long) st.bad, hollowFirst, gaussFirst, st.first.c_str ());
}

// gaussRand's VALUE on a logarithmic family of candidates x = +-2^-k m/8, y = +-2^-j n/8 (scripted generator, float-typed and
// double-typed draws): loop decision and draws consumed as gaussRef says, value BIT-EQUAL to gaussRef and within 2 float ulps
// of the long-double formula on the float length2.  Reaches length2 down to the subnormal range (where |value| exceeds 15:
// Props/C18.lean, example after gaussRand_bound_rand48) and candidates next to length2 = 1.
template <class T> static void gaussSweep (const char* name, int kmax)
{
    uint64_t n = 0, bad = 0, accepted = 0, rejected = 0, subnormalL = 0, smallL = 0, nearOne = 0, valueMismatch = 0, ulpBad = 0, nonfinite = 0, hypBad = 0, hypChecked = 0;
    long double maxAbs = 0, maxAbsNormal = 0;
    std::string first, maxCand;
    auto one = [&] (T x, T y) {
        ScriptGen<T> g{{x, y, T (0.5), T (0.25)}};
        float        xf = float (x), yf = float (y);
        GaussRef     r  = gaussRef (xf, yf), fb = gaussRef (0.5f, 0.25f);
        ++n;
        float v = 0;
        bool  threw = false;
        try { v = IM::gaussRand (g); } catch (ScriptExhausted&) { threw = true; }
        float e = r.accept ? r.value : fb.value;
        bool  ok = !threw && g.k == (size_t) (r.accept ? 2 : 4) && !g.badRange;
        if (ok && !sameBitsT<float> (v, e)) { ++valueMismatch; ok = false; }
        if (ok && r.accept)
        {
            ++accepted;
            if (r.L < std::numeric_limits<float>::min ()) ++subnormalL;
            if (r.L < 1.0f / 64) ++smallL;
            if (r.L >= 0.5f) ++nearOne;
            long double L = r.L, ex = (long double) xf * sqrtl (-2 * logl (L) / L);
            float       ef = (float) ex;
            long double tol = 2 * (long double) ulpOf<float> (ef == 0 ? std::numeric_limits<float>::min () : ef);
            if (!std::isfinite (v)) { ++nonfinite; ok = false; }
            else if (fabsl ((long double) v - ex) > tol) { ++ulpBad; ok = false; }
            long double av = fabsl ((long double) v);
            if (av > maxAbs) { maxAbs = av; maxCand = "x=" + bitsOf (xf) + " y=" + bitsOf (yf) + " length2=" + bitsOf (r.L); }
            if (r.L >= std::numeric_limits<float>::min () && av > maxAbsNormal) maxAbsNormal = av;
            // the rounding hypothesis of gaussRand_bound_rand32/_rand48 wherever length2 >= 2^-102 (no subnormal product involved)
            if (r.L >= std::ldexp (1.0f, -102))
            {
                ++hypChecked;
                if (!((long double) xf * xf <= (1 + ldexpl (1, -22)) * L)) { ++hypBad; ok = false; }
            }
        }
        else if (ok) ++rejected;
        if (!ok)
        {
            if (!bad)
            {
                char t[300];
                snprintf (t, sizeof t, "gaussRand x=%08x y=%08x length2=%08x expected=%s draws_consumed=%zu value=%08x harness_formula=%08x%s", f2u (xf), f2u (yf),
                          f2u (r.L), r.accept ? "accept" : "retry", g.k, f2u (v), f2u (e), threw ? " loop-did-not-stop" : "");
                first = t;
            }
            ++bad;
        }
    };
    const T twk = std::is_same<T, double>::value ? T (1) + T (std::ldexp (1.0, -30)) : T (1); // doubles that are not floats
    for (int k = 0; k <= kmax; ++k)
        for (int j = 0; j <= kmax; ++j)
            for (int m = 1; m <= 8; ++m)
                for (int q = 1; q <= 8; ++q)
                    for (int sg = 0; sg < 4; ++sg)
                    {
                        T x = T (std::ldexp ((double) m / 8, -k)) * twk, y = T (std::ldexp ((double) q / 8, -j));
                        one ((sg & 1) ? -x : x, (sg & 2) ? -y : y);
                    }
    // next to length2 = 1, and one-sided zero candidates
    const float below1 = std::nextafter (1.0f, 0.0f);
    for (int i = 0; i < 6; ++i)
        for (int j = 8; j <= 16; ++j)
        {
            float x = 1.0f - i * (1.0f - below1);
            one (T (x), T (std::ldexp (1.0, -j))); one (T (std::ldexp (1.0, -j)), T (-x));
        }
    one (T (0.6f), T (0.8f)); one (T (0.8f), T (0.6f)); one (T (0.28f), T (0.96f)); one (T (below1), T (0)); one (T (0), T (below1));
    one (T (0), T (0)); one (T (1), T (0)); one (T (0), T (-1)); one (T (0), T (std::ldexp (1.0, -70))); one (T (std::ldexp (1.0, -74)), T (0));
    printf ("gaussSweep %s n=%llu bad=%llu accepted=%llu rejected=%llu value_mismatch=%llu beyond_2ulp=%llu nonfinite=%llu length2_below_1_64=%llu "
            "length2_subnormal=%llu length2_at_least_half=%llu rounding_hyp_checked=%llu rounding_hyp_bad=%llu max_abs=%.6Lf max_abs_normal_length2=%.6Lf max_abs_at=[%s] first=[%s]\n", name,
            (unsigned long long) n, (unsigned long long) bad, (unsigned long long) accepted, (unsigned long long) rejected, (unsigned long long) valueMismatch,
            (unsigned long long) ulpBad, (unsigned long long) nonfinite, (unsigned long long) smallL, (unsigned long long) subnormalL, (unsigned long long) nearOne,
            (unsigned long long) hypChecked, (unsigned long long) hypBad, maxAbs, maxAbsNormal, maxCand.c_str (), first.c_str ());
}

// granularity of what gaussRand draws from the REAL generators: Rand32::nextf (-1, 1) for ALL 2^23 values of f, Rand48::nextf (-1, 1)
// at boundary f and random states: the value is exactly 2f - 1 (a multiple of 2^-22 / 2^-51, so 0 or at least that in magnitude)
static void granularity (uint64_t seed, int n48)
{
    uint64_t bad = 0, zeros = 0;
    int      minLog = 0;
    for (uint32_t m = 0; m < (1u << 23); ++m)
    {
        IM::Rand32 g = rand32Before (m | ((uint32_t) mix (seed, m) << 23));
        float      x = g.nextf (-1, 1);
        double     e = 2 * ((double) m / 8388608.0) - 1;
        if ((double) x != e) ++bad;
        if (x == 0) ++zeros; else if (std::ilogb (x) < minLog) minLog = std::ilogb (x);
    }
    printf ("granularity Rand32 n=%u bad=%llu zeros=%llu min_nonzero_log2=%d\n", 1u << 23, (unsigned long long) bad, (unsigned long long) zeros, minLog);
    bad = 0; zeros = 0; minLog = 0;
    static const uint64_t succ[] = {0ull, 1ull, 0xffffffffffffull, 1ull << 47, (1ull << 47) - 1, (1ull << 47) + 1, (1ull << 47) + 16, (1ull << 47) - 16, 1ull << 44,
                                    (1ull << 46), 3ull << 46, 0x7ffffffffff0ull, 0x800000000010ull};
    uint64_t n = 0;
    for (int i = 0; i < n48 + (int) (sizeof succ / sizeof succ[0]); ++i)
    {
        uint64_t   x1 = i < (int) (sizeof succ / sizeof succ[0]) ? succ[i] : (mix (seed, 7000000 + i) & 0xffffffffffffull);
        IM::Rand48 g  = rand48Before (x1);
        IM::Rand48 h  = g;
        double     f  = h.nextf ();
        double     x  = g.nextf (-1, 1);
        float      xf = float (x);
        ++n;
        if (x != 2 * f - 1 || std::ldexp (x, 51) != std::floor (std::ldexp (x, 51))) ++bad;
        if (xf == 0) { ++zeros; if (x != 0) ++bad; } else if (std::ilogb (xf) < minLog) minLog = std::ilogb (xf);
    }
    printf ("granularity Rand48 n=%llu bad=%llu zeros=%llu min_nonzero_log2=%d\n", (unsigned long long) n, (unsigned long long) bad, (unsigned long long) zeros, minLog);
}

// ---------------------------------------------------------------- several LIVE objects, calls interleaved
// two Rand48, two Rand32, two caller arrays and the static state; every Rand48 / array / static call is compared with glibc on a
// private copy AT THE TIME of the call, and every object's stream with the same calls replayed on a lone fresh object afterwards
static void twoObjects (uint64_t seed, int rounds)
{
    uint64_t    calls = 0, glibcBad = 0, loneBad = 0;
    std::string first;
    for (int rd = 0; rd < rounds; ++rd)
    {
        uint64_t sd[6];
        for (int i = 0; i < 6; ++i) sd[i] = mix (seed, 5000000 + rd * 8 + i);
        if (rd == 0) sd[1] = sd[0];                       // two objects with the SAME seed
        IM::Rand48     o48[2] = {IM::Rand48 ((unsigned long) sd[0]), IM::Rand48 ((unsigned long) sd[1])};
        IM::Rand32     o32[2] = {IM::Rand32 ((unsigned long) sd[2]), IM::Rand32 ((unsigned long) sd[3])};
        unsigned short arr[2][3], g48[2][3], garr[2][3];
        unpack (sd[4] & 0xffffffffffffull, arr[0]); unpack ((sd[4] >> 7) & 0xffffffffffffull, arr[1]);
        for (int i = 0; i < 2; ++i) { memcpy (g48[i], (const void*) &o48[i], 6); memcpy (garr[i], arr[i], 6); }
        IM::srand48 ((long) sd[5]); ::srand48 ((long) sd[5]);
        const int L = 120;
        std::vector<std::pair<int, int>> ops;
        std::vector<uint64_t>            outs;
        auto gl = [&] (uint64_t a, uint64_t b, int obj, int op) {
            if (a != b)
            {
                if (first.empty ()) { char t[200]; snprintf (t, sizeof t, "round=%d object=%d op=%d imath=%llx glibc=%llx (interleaved call disagrees with glibc on a private copy)", rd, obj, op, (unsigned long long) a, (unsigned long long) b); first = t; }
                ++glibcBad;
            }
        };
        for (int c = 0; c < L; ++c)
        {
            uint64_t z = mix (seed ^ 0x77, (uint64_t) rd * 1000 + c);
            int      obj = (int) (z % 7), op = (int) ((z >> 8) % 4);
            ops.push_back ({obj, op});
            uint64_t v = 0;
            ++calls;
            if (obj < 2)
            {
                IM::Rand48& r = o48[obj];
                if (op == 0) { v = (uint64_t) r.nexti (); gl (v, (uint64_t) ::nrand48 (g48[obj]), obj, op); }
                else if (op == 1) { v = r.nextb (); gl (v, (uint64_t) (::nrand48 (g48[obj]) & 1), obj, op); }
                else if (op == 2) { double d = r.nextf (); v = d2u (d); double e = ::erand48 (g48[obj]); gl ((uint64_t) (std::fabs (d - e) < 3.5527136788005009e-15 && d >= e), 1, obj, op); }
                else { double d = r.nextf (-3.0, 5.0); v = d2u (d); double e = ::erand48 (g48[obj]); gl ((uint64_t) (std::fabs (d - (-3.0 * (1 - e) + 5.0 * e)) < 1e-13), 1, obj, op); }
                unsigned short now[3]; memcpy (now, (const void*) &r, 6);
                gl (pack (now), pack (g48[obj]), obj, 10 + op);
            }
            else if (obj < 4)
            {
                IM::Rand32& r = o32[obj - 2];
                v = op == 0 ? (uint64_t) r.nexti () : op == 1 ? (uint64_t) r.nextb () : op == 2 ? (uint64_t) f2u (r.nextf ()) : (uint64_t) f2u (r.nextf (-3.0f, 5.0f));
            }
            else if (obj < 6)
            {
                int i = obj - 4;
                if (op < 2) { v = (uint64_t) IM::nrand48 (arr[i]); gl (v, (uint64_t) ::nrand48 (garr[i]), obj, op); }
                else { double d = IM::erand48 (arr[i]); v = d2u (d); double e = ::erand48 (garr[i]); gl ((uint64_t) (std::fabs (d - e) < 3.5527136788005009e-15 && d >= e), 1, obj, op); }
                gl (pack (arr[i]), pack (garr[i]), obj, 10 + op);
            }
            else
            {
                if (op < 2) { v = (uint64_t) IM::lrand48 (); gl (v, (uint64_t) ::lrand48 (), obj, op); }
                else { double d = IM::drand48 (); v = d2u (d); double e = ::drand48 (); gl ((uint64_t) (std::fabs (d - e) < 3.5527136788005009e-15 && d >= e), 1, obj, op); }
            }
            outs.push_back (v);
        }
        // lone replay of the four member-object streams
        for (int obj = 0; obj < 4; ++obj)
        {
            IM::Rand48 l48 ((unsigned long) sd[obj < 2 ? obj : 0]);
            IM::Rand32 l32 ((unsigned long) sd[obj >= 2 ? obj : 2]);
            for (int c = 0; c < L; ++c)
            {
                if (ops[c].first != obj) continue;
                int      op = ops[c].second;
                uint64_t v;
                if (obj < 2) v = op == 0 ? (uint64_t) l48.nexti () : op == 1 ? (uint64_t) l48.nextb () : op == 2 ? d2u (l48.nextf ()) : d2u (l48.nextf (-3.0, 5.0));
                else v = op == 0 ? (uint64_t) l32.nexti () : op == 1 ? (uint64_t) l32.nextb () : op == 2 ? (uint64_t) f2u (l32.nextf ()) : (uint64_t) f2u (l32.nextf (-3.0f, 5.0f));
                if (v != outs[c])
                {
                    if (first.empty ()) { char t[200]; snprintf (t, sizeof t, "round=%d object=%d call#%d op=%d interleaved=%llx lone-object=%llx", rd, obj, c, op, (unsigned long long) outs[c], (unsigned long long) v); first = t; }
                    ++loneBad;
                }
            }
        }
    }
    printf ("twoObjects rounds=%d calls=%llu glibc_bad=%llu lone_replay_bad=%llu first=[%s]\n", rounds, (unsigned long long) calls, (unsigned long long) glibcBad,
            (unsigned long long) loneBad, first.c_str ());
}

int main (int argc, char** argv)
{
    std::string cmd = argc > 1 ? argv[1] : "";
    if ((cmd == "sweep" || cmd == "sweepc") && argc == 4)
    {
        uint64_t seed = strtoull (argv[2], 0, 10), nb = strtoull (argv[3], 0, 10);
        for (uint64_t b = 0; b < nb; ++b)
        {
            uint64_t h = 1469598103934665603ull;
            for (uint64_t i = 0; i < 65536; ++i)
            {
                uint64_t x = mix (seed, b * 65536 + i);
                if (cmd == "sweep")
                {
                    Eval v = evalState (x & 0xffffffffffffull);
                    h = fnv (h, (uint64_t) v.r); h = fnv (h, v.a); h = fnv (h, v.e); h = fnv (h, v.b);
                }
                else
                {
                    uint64_t o[8];
                    evalSeed (x, o);
                    for (int k = 0; k < 8; ++k) h = fnv (h, o[k]);
                }
            }
            printf ("%llx\n", (unsigned long long) h);
        }
        if (cmd == "sweep") G.summary ();
        return 0;
    }
    if (cmd == "dump" && argc == 5)
    {
        uint64_t seed = strtoull (argv[2], 0, 10), lo = strtoull (argv[3], 0, 10), hi = strtoull (argv[4], 0, 10);
        for (uint64_t i = lo; i < hi; ++i)
        {
            uint64_t       x = mix (seed, i) & 0xffffffffffffull;
            unsigned short s[3];
            unpack (x, s);
            Eval v = evalState (x);
            printf ("%llu %x %x %x n %lx %llx e %llx %llx\n", (unsigned long long) i, s[0], s[1], s[2], v.r, (unsigned long long) v.a,
                    (unsigned long long) v.e, (unsigned long long) v.b);
        }
        return 0;
    }
    if (cmd == "dumpc" && argc == 5)
    {
        uint64_t seed = strtoull (argv[2], 0, 10), lo = strtoull (argv[3], 0, 10), hi = strtoull (argv[4], 0, 10);
        for (uint64_t i = lo; i < hi; ++i)
        {
            uint64_t sd = mix (seed, i), o[8];
            evalSeed (sd, o);
            printf ("%llu %llx", (unsigned long long) i, (unsigned long long) sd);
            for (int k = 0; k < 8; ++k) printf (" %llx", (unsigned long long) o[k]);
            printf ("\n");
        }
        return 0;
    }
    if (cmd == "seq")
    {
        std::string line;
        while (std::getline (std::cin, line)) runLine (line);
        G.summary ();
        return 0;
    }
    if (cmd == "residue" && argc == 5)
    {
        uint64_t seed = strtoull (argv[2], 0, 10);
        int      draws = atoi (argv[3]), nseeds = atoi (argv[4]);
        rangeResidue<float, IM::Rand32> ("Rand32", seed, draws);
        rangeResidue<double, IM::Rand48> ("Rand48", seed, draws);
        unitResidue (seed, nseeds, 2000);
        int per = 200;
        samplerResidue<IM::V2f, IM::Rand32> ("V2f/Rand32", seed, nseeds, per);
        samplerResidue<IM::V3f, IM::Rand32> ("V3f/Rand32", seed, nseeds, per);
        samplerResidue<IM::V4f, IM::Rand32> ("V4f/Rand32", seed, nseeds, per);
        samplerResidue<IM::V2d, IM::Rand32> ("V2d/Rand32", seed, nseeds, per);
        samplerResidue<IM::V3d, IM::Rand32> ("V3d/Rand32", seed, nseeds, per);
        samplerResidue<IM::V4d, IM::Rand32> ("V4d/Rand32", seed, nseeds, per);
        samplerResidue<IM::V2f, IM::Rand48> ("V2f/Rand48", seed, nseeds, per);
        samplerResidue<IM::V3f, IM::Rand48> ("V3f/Rand48", seed, nseeds, per);
        samplerResidue<IM::V4f, IM::Rand48> ("V4f/Rand48", seed, nseeds, per);
        samplerResidue<IM::V2d, IM::Rand48> ("V2d/Rand48", seed, nseeds, per);
        samplerResidue<IM::V3d, IM::Rand48> ("V3d/Rand48", seed, nseeds, per);
        samplerResidue<IM::V4d, IM::Rand48> ("V4d/Rand48", seed, nseeds, per);
        return 0;
    }
    if (cmd == "rangeExact" && argc == 5)
    {
        rangeExact (strtoull (argv[2], 0, 10), atoi (argv[3]), atoi (argv[4]));
        return 0;
    }
    if (cmd == "determinism" && argc == 4)
    {
        determinismOf<IM::Rand48> ("Rand48", strtoull (argv[2], 0, 10), atoi (argv[3]));
        determinismOf<IM::Rand32> ("Rand32", strtoull (argv[2], 0, 10), atoi (argv[3]));
        return 0;
    }
    if (cmd == "script")
    {
        scriptSphere<IM::V2f> ("V2f", 8); scriptSphere<IM::V3f> ("V3f", 4); scriptSphere<IM::V4f> ("V4f", 4);
        scriptSphere<IM::V2d> ("V2d", 8); scriptSphere<IM::V3d> ("V3d", 4); scriptSphere<IM::V4d> ("V4d", 4);
        scriptGauss<float> ("float-draws", 8, false); scriptGauss<double> ("double-draws", 8, false);
        scriptGaussSphere<IM::V2f> ("V2f"); scriptGaussSphere<IM::V3f> ("V3f"); scriptGaussSphere<IM::V4f> ("V4f");
        scriptGaussSphere<IM::V2d> ("V2d"); scriptGaussSphere<IM::V3d> ("V3d"); scriptGaussSphere<IM::V4d> ("V4d");
        return 0;
    }
    if (cmd == "gaussSweep" && argc == 3)
    {
        gaussSweep<float> ("float-draws", atoi (argv[2]));
        gaussSweep<double> ("double-draws", atoi (argv[2]));
        granularity (1, 200000);
        return 0;
    }
    if (cmd == "twoObjects" && argc == 4)
    {
        twoObjects (strtoull (argv[2], 0, 10), atoi (argv[3]));
        return 0;
    }
    if (cmd == "gaussLattice")
    {
        scriptGauss<double> ("double-draws", 8, true);
        return 0;
    }
    fprintf (stderr, "usage: rand48_corr sweep seed nblocks | dump seed lo hi | sweepc seed nblocks | dumpc seed lo hi | seq | residue seed draws nseeds\n");
    return 2;
}
