// Correspondence + residue harness for C18 (ImathRandom.h / ImathRandom.cpp).
// Runs the REAL code (this TU is linked with /repo/src/Imath/ImathRandom.cpp)
// and prints the same canonical lines as lean/Driver/Rand48.lean.  On the same
// inputs it also calls glibc's nrand48/erand48/lrand48/drand48/srand48 (the
// POSIX reference) and reports disagreements on lines starting with '#'
// (ignored when diffing against the Lean driver, parsed by tools/props/c18.py).
//
//   sweep <seed> <nblocks> | dump <seed> <lo> <hi>
//   sweepc <seed> <nblocks> | dumpc <seed> <lo> <hi>
//   seq                      (stdin: W / R lines, see the driver)
//   residue <seed> <ndraws> <nseeds>   nextf(a,b) interval + sampler measurements
#include <ImathRandom.h>
#include <ImathVec.h>
#include <stdlib.h>
#include <cstdio>
#include <cstring>
#include <cstdint>
#include <cmath>
#include <cfloat>
#include <string>
#include <vector>
#include <sstream>
#include <iostream>
#include <limits>

namespace IM = IMATH_INTERNAL_NAMESPACE;

static_assert (sizeof (unsigned short) == 2, "unsigned short must be 16 bits");
static_assert (sizeof (unsigned long) == 8 && sizeof (long) == 8, "the model is for LP64 (64-bit long)");
static_assert (sizeof (IM::Rand48) == 6, "Rand48 is expected to hold exactly unsigned short[3]");

static uint64_t d2u (double d) { uint64_t u; memcpy (&u, &d, 8); return u; }
static uint32_t f2u (float f) { uint32_t u; memcpy (&u, &f, 4); return u; }

static uint64_t mix (uint64_t seed, uint64_t i)
{
    uint64_t z = seed + (i + 1) * 0x9E3779B97F4A7C15ull;
    z = (z ^ (z >> 30)) * 0xBF58476D1CE4E5B9ull;
    z = (z ^ (z >> 27)) * 0x94D049BB133111EBull;
    return z ^ (z >> 31);
}
static inline uint64_t fnv (uint64_t h, uint64_t v) { return (h ^ v) * 1099511628211ull; }
static uint64_t pack (const unsigned short s[3]) { return (uint64_t) s[0] | ((uint64_t) s[1] << 16) | ((uint64_t) s[2] << 32); }
static void unpack (uint64_t x, unsigned short s[3]) { s[0] = x & 0xffff; s[1] = (x >> 16) & 0xffff; s[2] = (x >> 32) & 0xffff; }

// ---------------------------------------------------------------- glibc comparison
struct Glibc
{
    uint64_t calls = 0, int_mismatch = 0, succ_mismatch = 0, dbl_out_of_tol = 0, dbl_negative = 0, shown = 0;
    double   max_diff_ulp52 = 0; // max (imath - glibc) * 2^52
    void show (const char* kind, uint64_t state, const char* call, uint64_t a, uint64_t b)
    {
        if (shown++ < 5)
            printf ("#glibc-mismatch kind=%s state=%012llx call=%s imath=%llx glibc=%llx\n", kind,
                    (unsigned long long) state, call, (unsigned long long) a, (unsigned long long) b);
    }
    void cmpInt (uint64_t st, const char* call, long a, long b)
    {
        ++calls;
        if (a != b) { ++int_mismatch; show ("int", st, call, (uint64_t) a, (uint64_t) b); }
    }
    void cmpDbl (uint64_t st, const char* call, double a, double b)
    {
        ++calls;
        double diff = (a - b) * 4503599627370496.0; // exact: both are multiples of 2^-52 in [0,1)
        if (diff < 0) { ++dbl_negative; }
        if (!(std::fabs (a - b) < 3.5527136788005009e-15 /* 2^-48 */) || !(a >= 0 && a < 1) || !(b >= 0 && b < 1))
        {
            ++dbl_out_of_tol;
            show ("dbl", st, call, d2u (a), d2u (b));
        }
        if (std::fabs (diff) > max_diff_ulp52) max_diff_ulp52 = std::fabs (diff);
    }
    void cmpSucc (uint64_t st, const char* call, const unsigned short a[3], const unsigned short b[3])
    {
        if (pack (a) != pack (b)) { ++succ_mismatch; show ("succ", st, call, pack (a), pack (b)); }
    }
    void summary ()
    {
        printf ("#glibc calls=%llu int_mismatch=%llu succ_mismatch=%llu dbl_out_of_tol=%llu dbl_negative=%llu max_diff_2^-52=%.0f\n",
                (unsigned long long) calls, (unsigned long long) int_mismatch, (unsigned long long) succ_mismatch,
                (unsigned long long) dbl_out_of_tol, (unsigned long long) dbl_negative, max_diff_ulp52);
    }
};
static Glibc G;

// ---------------------------------------------------------------- sweeps
struct Eval { long r; uint64_t a; uint64_t e; uint64_t b; };
static Eval evalState (uint64_t x)
{
    unsigned short s[3], g[3];
    Eval           v;
    unpack (x, s); unpack (x, g);
    v.r      = IM::nrand48 (s);
    long gr  = ::nrand48 (g);
    v.a      = pack (s);
    G.cmpInt (x, "nrand48", v.r, gr);
    G.cmpSucc (x, "nrand48", s, g);
    unpack (x, s); unpack (x, g);
    double e  = IM::erand48 (s);
    double ge = ::erand48 (g);
    v.e       = d2u (e);
    v.b       = pack (s);
    G.cmpDbl (x, "erand48", e, ge);
    G.cmpSucc (x, "erand48", s, g);
    return v;
}

static void evalSeed (uint64_t seed, uint64_t out[8])
{
    IM::Rand48 r48 (seed);
    out[0] = (uint64_t) r48.nexti ();
    out[1] = r48.nextb () ? 1 : 0;
    out[2] = d2u (r48.nextf ());
    out[3] = (uint64_t) r48.nexti ();
    IM::Rand32 r32 (seed);
    out[4] = (uint64_t) r32.nexti ();
    out[5] = r32.nextb () ? 1 : 0;
    out[6] = f2u (r32.nextf ());
    out[7] = (uint64_t) r32.nexti ();
}

// ---------------------------------------------------------------- call sequences
static void runLine (const std::string& line)
{
    std::istringstream is (line);
    std::string        t;
    if (!(is >> t)) return;
    if (t == "W")
    {
        std::string    a, b, c;
        is >> a >> b >> c;
        unsigned short s[3] = {(unsigned short) strtoul (a.c_str (), 0, 16), (unsigned short) strtoul (b.c_str (), 0, 16),
                               (unsigned short) strtoul (c.c_str (), 0, 16)};
        unsigned short g[3] = {s[0], s[1], s[2]};
        while (is >> t)
        {
            uint64_t x0 = pack (s);
            if (t == "n")
            {
                long r = IM::nrand48 (s);
                printf ("i %lx\n", r);
                G.cmpInt (x0, "nrand48", r, ::nrand48 (g));
            }
            else if (t == "e")
            {
                double r = IM::erand48 (s);
                printf ("d %llx\n", (unsigned long long) d2u (r));
                G.cmpDbl (x0, "erand48", r, ::erand48 (g));
            }
            else if (t == "l")
            {
                long r = IM::lrand48 ();
                printf ("i %lx\n", r);
                G.cmpInt (0, "lrand48", r, ::lrand48 ());
            }
            else if (t == "d")
            {
                double r = IM::drand48 ();
                printf ("d %llx\n", (unsigned long long) d2u (r));
                G.cmpDbl (0, "drand48", r, ::drand48 ());
            }
            else if (t[0] == 'S')
            {
                uint64_t seed = strtoull (t.c_str () + 1, 0, 16);
                IM::srand48 ((long) seed);
                ::srand48 ((long) seed);
                printf ("v\n");
            }
            else if (t[0] == 'I')
            {
                uint64_t   seed = strtoull (t.c_str () + 1, 0, 16);
                IM::Rand48 r;
                memcpy ((void*) &r, s, 6);
                r.init ((unsigned long) seed);
                memcpy (s, (const void*) &r, 6);
                memcpy (g, s, 6); // no POSIX counterpart for the seeding scramble
                printf ("v\n");
            }
            else if (t == "b" || t == "i" || t == "f")
            {
                IM::Rand48 r;
                memcpy ((void*) &r, s, 6);
                if (t == "b")
                {
                    bool v = r.nextb ();
                    printf ("b %d\n", v ? 1 : 0);
                    G.cmpInt (x0, "Rand48::nextb", v ? 1 : 0, ::nrand48 (g) & 1);
                }
                else if (t == "i")
                {
                    long v = r.nexti ();
                    printf ("i %lx\n", v);
                    G.cmpInt (x0, "Rand48::nexti", v, ::nrand48 (g));
                }
                else
                {
                    double v = r.nextf ();
                    printf ("d %llx\n", (unsigned long long) d2u (v));
                    G.cmpDbl (x0, "Rand48::nextf", v, ::erand48 (g));
                }
                memcpy (s, (const void*) &r, 6);
            }
            G.cmpSucc (x0, t.c_str (), s, g);
        }
        printf ("= %x %x %x\n", s[0], s[1], s[2]);
    }
    else if (t == "R")
    {
        std::string sd;
        is >> sd;
        IM::Rand32 r ((unsigned long) strtoull (sd.c_str (), 0, 16));
        while (is >> t)
        {
            if (t == "b") printf ("b %d\n", r.nextb () ? 1 : 0);
            else if (t == "i") printf ("i %lx\n", r.nexti ());
            else if (t == "f") printf ("f %x\n", f2u (r.nextf ()));
            else if (t[0] == 'I') { r.init ((unsigned long) strtoull (t.c_str () + 1, 0, 16)); printf ("v\n"); }
        }
        printf ("=\n");
    }
}

// ---------------------------------------------------------------- residue measurements
template <class T> static T ulpOf (T m)
{
    m = std::fabs (m);
    if (!(m < std::numeric_limits<T>::infinity ())) return m;
    T up = std::nextafter (m, std::numeric_limits<T>::infinity ());
    if (up == std::numeric_limits<T>::infinity ()) return m - std::nextafter (m, T (0));
    return up - m;
}

template <class T, class Rand> struct RangeStat
{
    uint64_t    n = 0, nonfinite = 0, outside = 0;
    long double maxExcUlp = 0;
    T           wa = 0, wb = 0, wr = 0, nfa = 0, nfb = 0, nfr = 0;
    void        run (const std::vector<T>& vals, uint64_t seed, int draws)
    {
        Rand rnd (seed);
        for (T a : vals)
            for (T b : vals)
                for (int k = 0; k < draws; ++k)
                {
                    T r = rnd.nextf (a, b);
                    ++n;
                    if (!std::isfinite (r))
                    {
                        if (!nonfinite) { nfa = a; nfb = b; nfr = r; }
                        ++nonfinite;
                        continue;
                    }
                    T lo = std::min (a, b), hi = std::max (a, b);
                    long double exc = 0;
                    if (r < lo) exc = (long double) lo - (long double) r;
                    if (r > hi) exc = (long double) r - (long double) hi;
                    if (exc > 0)
                    {
                        ++outside;
                        long double u = exc / (long double) ulpOf<T> (std::max (std::fabs (a), std::fabs (b)));
                        if (u > maxExcUlp) { maxExcUlp = u; wa = a; wb = b; wr = r; }
                    }
                }
    }
};

template <class T> static std::string bitsOf (T v)
{
    char buf[40];
    if (sizeof (T) == 4) { float f = (float) v; snprintf (buf, sizeof buf, "%08x", f2u (f)); }
    else { double d = (double) v; snprintf (buf, sizeof buf, "%016llx", (unsigned long long) d2u (d)); }
    return buf;
}

template <class T, class Rand> static void rangeResidue (const char* name, uint64_t seed, int draws)
{
    typedef std::numeric_limits<T> L;
    std::vector<T> vals = {T (0), -T (0), T (1), T (-1), L::min (), -L::min (), L::denorm_min (), -L::denorm_min (),
                           L::max (), -L::max (), L::max () / 2, -L::max () / 2, T (3), T (-3), T (1) + L::epsilon (),
                           T (1) - L::epsilon () / 2, T (0.1), T (-0.1), T (16777216.0), T (1e30), T (-1e30), T (1e-30),
                           std::nextafter (L::max (), T (0)), T (7) * L::min ()};
    RangeStat<T, Rand> st;
    st.run (vals, seed, draws);
    printf ("range %s n=%llu nonfinite=%llu outside=%llu max_exc_ulp=%.4Lf worst_a=%s worst_b=%s worst_r=%s nf_a=%s nf_b=%s nf_r=%s\n",
            name, (unsigned long long) st.n, (unsigned long long) st.nonfinite, (unsigned long long) st.outside, st.maxExcUlp,
            bitsOf (st.wa).c_str (), bitsOf (st.wb).c_str (), bitsOf (st.wr).c_str (), bitsOf (st.nfa).c_str (),
            bitsOf (st.nfb).c_str (), bitsOf (st.nfr).c_str ());
}

template <class V> static long double ldLength2 (const V& v)
{
    long double s = 0;
    for (unsigned i = 0; i < V::dimensions (); ++i) s += (long double) v[i] * (long double) v[i];
    return s;
}
template <class V> static bool allFinite (const V& v)
{
    for (unsigned i = 0; i < V::dimensions (); ++i)
        if (!std::isfinite (v[i])) return false;
    return true;
}

template <class V, class Rand> static void samplerResidue (const char* name, uint64_t seed, int nseeds, int per)
{
    typedef typename V::BaseType T;
    uint64_t    n = 0, solidNonfinite = 0, solidOutside = 0, hollowNonfinite = 0, hollowOff = 0, gsNonfinite = 0, gNonfinite = 0;
    long double solidMaxL2 = 0, hollowMaxDev = 0, gaussMaxAbs = 0, gsMaxLen = 0;
    const long double eps = std::numeric_limits<T>::epsilon ();
    uint64_t    badSeed = 0;
    int         bad = 0;
    for (int k = 0; k < nseeds; ++k)
    {
        static const uint64_t fixedSeeds[8] = {0ull, 1ull, 0xffffffffull, 0xffffffffffffffffull, 0x80000000ull, 0x7fffffffull, 0x5a5a5a5aull, 0xa5a573a5ull};
        uint64_t sd = (k < 8) ? fixedSeeds[k] : mix (seed, 1000000 + k);
        Rand r (sd);
        for (int j = 0; j < per; ++j)
        {
            ++n;
            V s = IM::solidSphereRand<V> (r);
            if (!allFinite (s)) { ++solidNonfinite; if (!bad) { bad = 1; badSeed = sd; } }
            long double l2 = ldLength2 (s);
            if (l2 > solidMaxL2) solidMaxL2 = l2;
            if (s.length2 () > 1 || l2 > 1 + 4 * eps) { ++solidOutside; if (!bad) { bad = 1; badSeed = sd; } }
            V h = IM::hollowSphereRand<V> (r);
            if (!allFinite (h)) { ++hollowNonfinite; if (!bad) { bad = 1; badSeed = sd; } }
            long double dev = std::fabs (std::sqrt (ldLength2 (h)) - 1) / eps;
            if (dev > hollowMaxDev) hollowMaxDev = dev;
            if (!(dev <= 4)) { ++hollowOff; if (!bad) { bad = 1; badSeed = sd; } }
            float g = IM::gaussRand (r);
            if (!std::isfinite (g)) { ++gNonfinite; if (!bad) { bad = 1; badSeed = sd; } }
            if (std::fabs ((long double) g) > gaussMaxAbs) gaussMaxAbs = std::fabs ((long double) g);
            V gs = IM::gaussSphereRand<V> (r);
            if (!allFinite (gs)) { ++gsNonfinite; if (!bad) { bad = 1; badSeed = sd; } }
            long double gl = std::sqrt (ldLength2 (gs));
            if (gl > gsMaxLen) gsMaxLen = gl;
        }
    }
    printf ("sampler %s n=%llu solid_nonfinite=%llu solid_outside=%llu solid_max_length2=%.20Lf hollow_nonfinite=%llu hollow_off=%llu "
            "hollow_max_dev_eps=%.4Lf gauss_nonfinite=%llu gauss_max_abs=%.6Lf gsphere_nonfinite=%llu gsphere_max_len=%.6Lf bad_seed=%llx\n",
            name, (unsigned long long) n, (unsigned long long) solidNonfinite, (unsigned long long) solidOutside, solidMaxL2,
            (unsigned long long) hollowNonfinite, (unsigned long long) hollowOff, hollowMaxDev, (unsigned long long) gNonfinite,
            gaussMaxAbs, (unsigned long long) gsNonfinite, gsMaxLen, (unsigned long long) badSeed);
}

// nextf() itself in [0,1) for many seeds / positions (both classes), directly on the real code
static void unitResidue (uint64_t seed, int nseeds, int per)
{
    uint64_t n = 0, bad = 0;
    float    fmax = 0;
    double   dmax = 0;
    for (int k = 0; k < nseeds; ++k)
    {
        uint64_t   sd = mix (seed, 2000000 + k);
        IM::Rand32 a (sd);
        IM::Rand48 b (sd);
        for (int j = 0; j < per; ++j)
        {
            float  f = a.nextf ();
            double d = b.nextf ();
            n += 2;
            if (!(f >= 0 && f < 1)) ++bad;
            if (!(d >= 0 && d < 1)) ++bad;
            if (f > fmax) fmax = f;
            if (d > dmax) dmax = d;
            unsigned long u = a.nexti ();
            long          l = b.nexti ();
            n += 2;
            if (u > 0xfffffffful) ++bad;
            if (l < 0 || l > 0x7fffffffl) ++bad;
        }
    }
    printf ("unit n=%llu bad=%llu fmax=%08x dmax=%016llx\n", (unsigned long long) n, (unsigned long long) bad, f2u (fmax),
            (unsigned long long) d2u (dmax));
}

int main (int argc, char** argv)
{
    std::string cmd = argc > 1 ? argv[1] : "";
    if ((cmd == "sweep" || cmd == "sweepc") && argc == 4)
    {
        uint64_t seed = strtoull (argv[2], 0, 10), nb = strtoull (argv[3], 0, 10);
        for (uint64_t b = 0; b < nb; ++b)
        {
            uint64_t h = 1469598103934665603ull;
            for (uint64_t i = 0; i < 65536; ++i)
            {
                uint64_t x = mix (seed, b * 65536 + i);
                if (cmd == "sweep")
                {
                    Eval v = evalState (x & 0xffffffffffffull);
                    h = fnv (h, (uint64_t) v.r); h = fnv (h, v.a); h = fnv (h, v.e); h = fnv (h, v.b);
                }
                else
                {
                    uint64_t o[8];
                    evalSeed (x, o);
                    for (int k = 0; k < 8; ++k) h = fnv (h, o[k]);
                }
            }
            printf ("%llx\n", (unsigned long long) h);
        }
        if (cmd == "sweep") G.summary ();
        return 0;
    }
    if (cmd == "dump" && argc == 5)
    {
        uint64_t seed = strtoull (argv[2], 0, 10), lo = strtoull (argv[3], 0, 10), hi = strtoull (argv[4], 0, 10);
        for (uint64_t i = lo; i < hi; ++i)
        {
            uint64_t       x = mix (seed, i) & 0xffffffffffffull;
            unsigned short s[3];
            unpack (x, s);
            Eval v = evalState (x);
            printf ("%llu %x %x %x n %lx %llx e %llx %llx\n", (unsigned long long) i, s[0], s[1], s[2], v.r, (unsigned long long) v.a,
                    (unsigned long long) v.e, (unsigned long long) v.b);
        }
        return 0;
    }
    if (cmd == "dumpc" && argc == 5)
    {
        uint64_t seed = strtoull (argv[2], 0, 10), lo = strtoull (argv[3], 0, 10), hi = strtoull (argv[4], 0, 10);
        for (uint64_t i = lo; i < hi; ++i)
        {
            uint64_t sd = mix (seed, i), o[8];
            evalSeed (sd, o);
            printf ("%llu %llx", (unsigned long long) i, (unsigned long long) sd);
            for (int k = 0; k < 8; ++k) printf (" %llx", (unsigned long long) o[k]);
            printf ("\n");
        }
        return 0;
    }
    if (cmd == "seq")
    {
        std::string line;
        while (std::getline (std::cin, line)) runLine (line);
        G.summary ();
        return 0;
    }
    if (cmd == "residue" && argc == 5)
    {
        uint64_t seed = strtoull (argv[2], 0, 10);
        int      draws = atoi (argv[3]), nseeds = atoi (argv[4]);
        rangeResidue<float, IM::Rand32> ("Rand32", seed, draws);
        rangeResidue<double, IM::Rand48> ("Rand48", seed, draws);
        unitResidue (seed, nseeds, 2000);
        int per = 200;
        samplerResidue<IM::V2f, IM::Rand32> ("V2f/Rand32", seed, nseeds, per);
        samplerResidue<IM::V3f, IM::Rand32> ("V3f/Rand32", seed, nseeds, per);
        samplerResidue<IM::V4f, IM::Rand32> ("V4f/Rand32", seed, nseeds, per);
        samplerResidue<IM::V2d, IM::Rand32> ("V2d/Rand32", seed, nseeds, per);
        samplerResidue<IM::V3d, IM::Rand32> ("V3d/Rand32", seed, nseeds, per);
        samplerResidue<IM::V4d, IM::Rand32> ("V4d/Rand32", seed, nseeds, per);
        samplerResidue<IM::V2f, IM::Rand48> ("V2f/Rand48", seed, nseeds, per);
        samplerResidue<IM::V3f, IM::Rand48> ("V3f/Rand48", seed, nseeds, per);
        samplerResidue<IM::V4f, IM::Rand48> ("V4f/Rand48", seed, nseeds, per);
        samplerResidue<IM::V2d, IM::Rand48> ("V2d/Rand48", seed, nseeds, per);
        samplerResidue<IM::V3d, IM::Rand48> ("V3d/Rand48", seed, nseeds, per);
        samplerResidue<IM::V4d, IM::Rand48> ("V4d/Rand48", seed, nseeds, per);
        return 0;
    }
    fprintf (stderr, "usage: rand48_corr sweep seed nblocks | dump seed lo hi | sweepc seed nblocks | dumpc seed lo hi | seq | residue seed draws nseeds\n");
    return 2;
}
