// Static layout obligations of C04: every aggregate is one contiguous block of
// exactly N elements in declaration order (matrices row-major), standard layout.
// Interop selection: the foreign-type constructors / assignments are enabled exactly for
// aggregates of the right element type AND the right number of elements (negative cases:
// a trait that loses its sizeof guard or its is_same<..., Base> test would let Vec2<T> (FXYZ<T>)
// compile and silently drop z); raw C arrays of the right length are accepted.
#include <half.h>
#include <ImathVec.h>
#include <ImathColor.h>
#include <ImathShear.h>
#include <ImathQuat.h>
#include <ImathMatrix.h>
#include <cstddef>
#include <cstdint>
#include <cstdio>
#include <type_traits>
using namespace IMATH_NAMESPACE;
static int count = 0, yes = 0, no = 0; // incremented by the assertion macros themselves: one per static_assert that was compiled
template <class T> struct FXY { T x, y; };
template <class T> struct FXYZ { T x, y, z; };
template <class T> struct FXYZW { T x, y, z, w; };
template <class T, int N> struct FSub { T d[N]; const T& operator[] (int i) const { return d[i]; } T& operator[] (int i) { return d[i]; } };
template <class T, int N, int M> struct FSub2 { T d[N][M]; const T* operator[] (int i) const { return d[i]; } T* operator[] (int i) { return d[i]; } };
template <class T> struct Wider { typedef double type; };
template <> struct Wider<double> { typedef float type; };
template <> struct Wider<int64_t> { typedef int type; };
#define YES(To, From) ++yes; static_assert (std::is_constructible<To, From>::value && std::is_assignable<To&, From>::value, #To " must be constructible / assignable from " #From)
#define NO(To, From) ++no; static_assert (!std::is_constructible<To, From>::value && !std::is_assignable<To&, From>::value, #To " must NOT be constructible / assignable from " #From)
#define COMMA ,
#define LAY(cond, msg) ++count; static_assert (cond, msg)
#define OFF(Ty, m, k) ++count; static_assert (offsetof (Ty, m) == (k) * sizeof (T), #Ty "::" #m " is not element " #k)
template <class T> struct Check
{
    static void run ()
    {
        LAY (sizeof (Vec2<T>) == 2 * sizeof (T) && std::is_standard_layout<Vec2<T>>::value, "Vec2 layout");
        LAY (sizeof (Vec3<T>) == 3 * sizeof (T) && std::is_standard_layout<Vec3<T>>::value, "Vec3 layout");
        LAY (sizeof (Vec4<T>) == 4 * sizeof (T) && std::is_standard_layout<Vec4<T>>::value, "Vec4 layout");
        LAY (sizeof (Color3<T>) == 3 * sizeof (T), "Color3 layout");
        LAY (sizeof (Color4<T>) == 4 * sizeof (T) && std::is_standard_layout<Color4<T>>::value, "Color4 layout");
        LAY (sizeof (Shear6<T>) == 6 * sizeof (T) && std::is_standard_layout<Shear6<T>>::value, "Shear6 layout");
        LAY (sizeof (Quat<T>) == 4 * sizeof (T) && std::is_standard_layout<Quat<T>>::value, "Quat layout");
        LAY (sizeof (Matrix22<T>) == 4 * sizeof (T) && std::is_standard_layout<Matrix22<T>>::value, "Matrix22 layout");
        LAY (sizeof (Matrix33<T>) == 9 * sizeof (T) && std::is_standard_layout<Matrix33<T>>::value, "Matrix33 layout");
        LAY (sizeof (Matrix44<T>) == 16 * sizeof (T) && std::is_standard_layout<Matrix44<T>>::value, "Matrix44 layout");
        OFF (Vec2<T>, x, 0); OFF (Vec2<T>, y, 1);
        OFF (Vec3<T>, x, 0); OFF (Vec3<T>, y, 1); OFF (Vec3<T>, z, 2);
        OFF (Vec4<T>, x, 0); OFF (Vec4<T>, y, 1); OFF (Vec4<T>, z, 2); OFF (Vec4<T>, w, 3);
        OFF (Color4<T>, r, 0); OFF (Color4<T>, g, 1); OFF (Color4<T>, b, 2); OFF (Color4<T>, a, 3);
        OFF (Shear6<T>, xy, 0); OFF (Shear6<T>, xz, 1); OFF (Shear6<T>, yz, 2); OFF (Shear6<T>, yx, 3); OFF (Shear6<T>, zx, 4); OFF (Shear6<T>, zy, 5);
        OFF (Quat<T>, r, 0); OFF (Quat<T>, v, 1);
        OFF (Matrix22<T>, x, 0); OFF (Matrix33<T>, x, 0); OFF (Matrix44<T>, x, 0);
        LAY (sizeof (((Matrix44<T>*) 0)->x[0]) == 4 * sizeof (T), "Matrix44 rows are contiguous (row-major)");
        LAY (sizeof (((Matrix33<T>*) 0)->x[0]) == 3 * sizeof (T), "Matrix33 rows are contiguous (row-major)");
        LAY (sizeof (((Matrix22<T>*) 0)->x[0]) == 2 * sizeof (T), "Matrix22 rows are contiguous (row-major)");
        LAY (std::is_standard_layout<Color3<T>>::value, "Color3 layout");
        LAY (offsetof (Color3<T>, x) == 0 && offsetof (Color3<T>, y) == sizeof (T) && offsetof (Color3<T>, z) == 2 * sizeof (T), "Color3 members are elements 0,1,2");
        typedef typename Wider<T>::type U; // another element type of a different size
        // positive selection (struct with named members, subscriptable struct, raw C array of the right length)
        YES (Vec2<T>, FXY<T>); YES (Vec3<T>, FXYZ<T>); YES (Vec4<T>, FXYZW<T>);
        YES (Vec2<T>, FSub<T COMMA 2>); YES (Vec3<T>, FSub<T COMMA 3>); YES (Vec4<T>, FSub<T COMMA 4>);
        YES (Vec2<T>, T (&)[2]); YES (Vec3<T>, T (&)[3]); YES (Vec4<T>, T (&)[4]);
        YES (Matrix22<T>, FSub2<T COMMA 2 COMMA 2>); YES (Matrix33<T>, FSub2<T COMMA 3 COMMA 3>); YES (Matrix44<T>, FSub2<T COMMA 4 COMMA 4>);
        YES (Matrix22<T>, T (&)[2][2]); YES (Matrix33<T>, T (&)[3][3]); YES (Matrix44<T>, T (&)[4][4]);
        // wrong number of elements
        NO (Vec2<T>, FXYZ<T>); NO (Vec2<T>, FXYZW<T>); NO (Vec3<T>, FXY<T>); NO (Vec3<T>, FXYZW<T>); NO (Vec4<T>, FXY<T>); NO (Vec4<T>, FXYZ<T>);
        NO (Vec2<T>, FSub<T COMMA 3>); NO (Vec3<T>, FSub<T COMMA 2>); NO (Vec3<T>, FSub<T COMMA 4>); NO (Vec4<T>, FSub<T COMMA 3>);
        NO (Vec2<T>, T (&)[3]); NO (Vec3<T>, T (&)[2]); NO (Vec3<T>, T (&)[4]); NO (Vec4<T>, T (&)[3]);
        NO (Matrix22<T>, FSub2<T COMMA 3 COMMA 3>); NO (Matrix33<T>, FSub2<T COMMA 2 COMMA 2>); NO (Matrix33<T>, FSub2<T COMMA 4 COMMA 4>); NO (Matrix44<T>, FSub2<T COMMA 3 COMMA 3>);
        NO (Matrix33<T>, T (&)[4][4]); NO (Matrix44<T>, T (&)[3][3]); NO (Matrix22<T>, T (&)[3][3]);
        // non-square shapes with a matching row or column count (a has_double_subscript that checks one dimension only)
        NO (Matrix22<T>, FSub2<T COMMA 2 COMMA 3>); NO (Matrix33<T>, FSub2<T COMMA 3 COMMA 4>); NO (Matrix33<T>, T (&)[3][4]); NO (Matrix44<T>, T (&)[4][3]);
        // wrong element type (of a different size, and with the same total size)
        NO (Vec2<T>, FXY<U>); NO (Vec3<T>, FXYZ<U>); NO (Vec4<T>, FXYZW<U>); NO (Vec3<T>, FSub<U COMMA 3>); NO (Vec3<T>, U (&)[3]);
        NO (Matrix22<T>, FSub2<U COMMA 2 COMMA 2>); NO (Matrix33<T>, FSub2<U COMMA 3 COMMA 3>); NO (Matrix44<T>, FSub2<U COMMA 4 COMMA 4>);
        NO (Vec2<T>, FSub<signed char COMMA 2 * sizeof (T)>); NO (Vec4<T>, FSub<signed char COMMA 4 * sizeof (T)>);
    }
};
int main ()
{
    Check<short>::run (); Check<int>::run (); Check<int64_t>::run (); Check<half>::run ();
    Check<float>::run (); Check<double>::run (); Check<unsigned char>::run ();
    printf ("%d layout assertions, %d positive and %d negative interop-selection assertions hold for 7 element types\n", count, yes, no);
    return 0;
}
