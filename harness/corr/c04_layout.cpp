// Static layout obligations of C04: every aggregate is one contiguous block of
// exactly N elements in declaration order (matrices row-major), standard layout.
#include <half.h>
#include <ImathVec.h>
#include <ImathColor.h>
#include <ImathShear.h>
#include <ImathQuat.h>
#include <ImathMatrix.h>
#include <cstddef>
#include <cstdint>
#include <cstdio>
#include <type_traits>
using namespace IMATH_NAMESPACE;
static int count = 0;
#define OFF(Ty, m, k) static_assert (offsetof (Ty, m) == (k) * sizeof (T), #Ty "::" #m " is not element " #k)
template <class T> struct Check
{
    static void run ()
    {
        static_assert (sizeof (Vec2<T>) == 2 * sizeof (T) && std::is_standard_layout<Vec2<T>>::value, "Vec2 layout");
        static_assert (sizeof (Vec3<T>) == 3 * sizeof (T) && std::is_standard_layout<Vec3<T>>::value, "Vec3 layout");
        static_assert (sizeof (Vec4<T>) == 4 * sizeof (T) && std::is_standard_layout<Vec4<T>>::value, "Vec4 layout");
        static_assert (sizeof (Color3<T>) == 3 * sizeof (T), "Color3 layout");
        static_assert (sizeof (Color4<T>) == 4 * sizeof (T) && std::is_standard_layout<Color4<T>>::value, "Color4 layout");
        static_assert (sizeof (Shear6<T>) == 6 * sizeof (T) && std::is_standard_layout<Shear6<T>>::value, "Shear6 layout");
        static_assert (sizeof (Quat<T>) == 4 * sizeof (T) && std::is_standard_layout<Quat<T>>::value, "Quat layout");
        static_assert (sizeof (Matrix22<T>) == 4 * sizeof (T) && std::is_standard_layout<Matrix22<T>>::value, "Matrix22 layout");
        static_assert (sizeof (Matrix33<T>) == 9 * sizeof (T) && std::is_standard_layout<Matrix33<T>>::value, "Matrix33 layout");
        static_assert (sizeof (Matrix44<T>) == 16 * sizeof (T) && std::is_standard_layout<Matrix44<T>>::value, "Matrix44 layout");
        OFF (Vec2<T>, x, 0); OFF (Vec2<T>, y, 1);
        OFF (Vec3<T>, x, 0); OFF (Vec3<T>, y, 1); OFF (Vec3<T>, z, 2);
        OFF (Vec4<T>, x, 0); OFF (Vec4<T>, y, 1); OFF (Vec4<T>, z, 2); OFF (Vec4<T>, w, 3);
        OFF (Color4<T>, r, 0); OFF (Color4<T>, g, 1); OFF (Color4<T>, b, 2); OFF (Color4<T>, a, 3);
        OFF (Shear6<T>, xy, 0); OFF (Shear6<T>, xz, 1); OFF (Shear6<T>, yz, 2); OFF (Shear6<T>, yx, 3); OFF (Shear6<T>, zx, 4); OFF (Shear6<T>, zy, 5);
        OFF (Quat<T>, r, 0); OFF (Quat<T>, v, 1);
        OFF (Matrix22<T>, x, 0); OFF (Matrix33<T>, x, 0); OFF (Matrix44<T>, x, 0);
        static_assert (sizeof (((Matrix44<T>*) 0)->x[0]) == 4 * sizeof (T), "Matrix44 rows are contiguous (row-major)");
        static_assert (sizeof (((Matrix33<T>*) 0)->x[0]) == 3 * sizeof (T), "Matrix33 rows are contiguous (row-major)");
        static_assert (sizeof (((Matrix22<T>*) 0)->x[0]) == 2 * sizeof (T), "Matrix22 rows are contiguous (row-major)");
        count += 38;
    }
};
int main ()
{
    Check<short>::run (); Check<int>::run (); Check<int64_t>::run (); Check<half>::run ();
    Check<float>::run (); Check<double>::run (); Check<unsigned char>::run ();
    printf ("%d layout assertions hold for 7 element types\n", count);
    return 0;
}
