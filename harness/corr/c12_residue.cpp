// C12 residue harness (MEASURED, not proved): convergence / accuracy of the iterative solvers and procrustes optimality.
// Calls the real jacobiSVD (3x3, 4x4; float, double; forcePositiveDeterminant on/off), jacobiEigenSolver,
// minEigenVector / maxEigenVector and procrustesRotationAndTranslation (weighted or not, with or without scale) on
// structured inputs and checks, with all reference arithmetic in long double:
//   SVD    U,V orthonormal to c*eps; S descending and non-negative (with force: only the LAST possibly negative, det U, det V > 0);
//          |U diag(S) V^T - A| <= c*eps*|A|
//   eigen  V orthonormal; |V diag(S) V^T - A| <= c*eps*|A|; min/maxEigenVector: A v = lambda v with |lambda| extremal
//   procrustes  exact rigid / similarity transform of a base set recovered to c*eps*scale; noisy sets: the weighted
//          residual is not improved by any of a finite set of small perturbations of the rotation (and of the scale)
// Bounds calibrated on the clean tree at seeds 1-3 (see tools/props/c12.py).   c12_residue <seed> <n>
#include <ImathMatrixAlgo.cpp>
#include <ImathEuler.h>
#include "c12_structured.h"
#include <cstring>
#include <algorithm>
#include <cstdio>
#include <random>
#include <string>
#include <map>
#include <vector>

using namespace IMATH_INTERNAL_NAMESPACE;
typedef long double LD;

static std::mt19937_64 g;
static double U (double a, double b) { return std::uniform_real_distribution<double> (a, b) (g); }
static int I (int a, int b) { return std::uniform_int_distribution<int> (a, b) (g); }

static long fails = 0, evals = 0;
static std::map<std::string, double> worst; // worst observed value / bound, per check
static std::map<std::string, long> hits;
static void check (const std::string& what, double value, double bound, const std::string& ctx)
{
    ++evals;
    double r = bound > 0 ? value / bound : (value > 0 ? 1e300 : 0);
    if (!(r <= worst[what])) worst[what] = r; // also records NaN
    if (!(value <= bound))
    {
        ++fails;
        static std::map<std::string, int> shown; // cap per check, so that one failing check cannot hide the others
        if (++shown[what] <= 4) printf ("RESIDUE-FAIL %s value=%.6g bound=%.6g %s\n", what.c_str (), value, bound, ctx.c_str ());
    }
}

template <class M> static std::string show (const M& m, int n)
{
    std::string s = "[";
    char b[40];
    for (int i = 0; i < n; ++i) for (int j = 0; j < n; ++j) { snprintf (b, sizeof b, "%s%.17g", (i + j) ? "," : "", (double) m[i][j]); s += b; }
    return s + "]";
}

template <int n> struct MT;
template <> struct MT<3> { template <class T> using M = Matrix33<T>; template <class T> using V = Vec3<T>; };
template <> struct MT<4> { template <class T> using M = Matrix44<T>; template <class T> using V = Vec4<T>; };

// random orthogonal n x n matrix (long double Gram-Schmidt), det sign random
template <int n> static void randOrth (LD Q[n][n])
{
    for (;;)
    {
        for (int i = 0; i < n; ++i) for (int j = 0; j < n; ++j) Q[i][j] = U (-1, 1);
        bool ok = true;
        for (int i = 0; i < n && ok; ++i)
        {
            for (int k = 0; k < i; ++k)
            {
                LD d = 0; for (int j = 0; j < n; ++j) d += Q[i][j] * Q[k][j];
                for (int j = 0; j < n; ++j) Q[i][j] -= d * Q[k][j];
            }
            LD l = 0; for (int j = 0; j < n; ++j) l += Q[i][j] * Q[i][j];
            l = sqrtl (l);
            if (l < 1e-3) ok = false;
            for (int j = 0; j < n; ++j) Q[i][j] /= l;
        }
        if (ok) return;
    }
}

template <int n, class T> static typename MT<n>::template M<T> genMatrix (int cls, std::string& name)
{
    typename MT<n>::template M<T> A;
    LD P[n][n], Q[n][n], d[n];
    randOrth<n> (P); randOrth<n> (Q);
    int kmax = sizeof (T) == 4 ? 5 : 12;
    switch (cls)
    {
        case 0: { name = "graded"; int k = I (0, kmax); for (int i = 0; i < n; ++i) d[i] = powl (10.0L, -(LD) k * i / (n - 1)) * U (0.5, 1); break; }
        case 1: { name = "repeated"; LD v = U (0.5, 2); for (int i = 0; i < n; ++i) d[i] = v; if (g () & 1) d[n - 1] = U (0.1, 0.4); break; }
        case 2: { name = "rank-deficient"; for (int i = 0; i < n; ++i) d[i] = U (0.5, 2); d[n - 1] = 0; if (g () & 1) d[n - 2] = 0; break; }
        case 3: { name = "diagonal"; for (int i = 0; i < n; ++i) { d[i] = U (-2, 2); for (int j = 0; j < n; ++j) P[i][j] = Q[i][j] = i == j; } break; }
        case 4: { name = "reflection"; for (int i = 0; i < n; ++i) d[i] = 1; for (int j = 0; j < n; ++j) P[0][j] = -P[0][j]; break; }
        case 5: { name = "symmetric"; for (int i = 0; i < n; ++i) { d[i] = U (-2, 2); for (int j = 0; j < n; ++j) Q[i][j] = P[i][j]; } break; }
        case 6: { name = "zero"; for (int i = 0; i < n; ++i) d[i] = 0; break; }
        default: { name = "scaled"; LD f = powl (10.0L, I (-(sizeof (T) == 4 ? 12 : 100), sizeof (T) == 4 ? 12 : 100)); for (int i = 0; i < n; ++i) d[i] = f * U (0.5, 2); }
    }
    for (int i = 0; i < n; ++i) for (int j = 0; j < n; ++j)
    {
        LD s = 0; for (int k = 0; k < n; ++k) s += P[k][i] * d[k] * Q[k][j];
        A[i][j] = (T) s;
    }
    if (cls == 5) for (int i = 0; i < n; ++i) for (int j = 0; j < i; ++j) A[i][j] = A[j][i];
    return A;
}

template <int n, class M> static LD maxAbs (const M& A) { LD m = 0; for (int i = 0; i < n; ++i) for (int j = 0; j < n; ++j) m = std::max (m, fabsl ((LD) A[i][j])); return m; }
template <int n, class M> static LD orthErr (const M& Q)
{
    LD e = 0;
    for (int i = 0; i < n; ++i) for (int j = 0; j < n; ++j)
    {
        LD s = 0; for (int k = 0; k < n; ++k) s += (LD) Q[k][i] * (LD) Q[k][j];
        e = std::max (e, fabsl (s - (i == j)));
    }
    return e;
}
template <int n, class M> static LD detLD (const M& A)
{
    LD a[n][n]; for (int i = 0; i < n; ++i) for (int j = 0; j < n; ++j) a[i][j] = A[i][j];
    LD det = 1;
    for (int c = 0; c < n; ++c)
    {
        int p = c; for (int r = c + 1; r < n; ++r) if (fabsl (a[r][c]) > fabsl (a[p][c])) p = r;
        if (a[p][c] == 0) return 0;
        if (p != c) { for (int j = 0; j < n; ++j) std::swap (a[p][j], a[c][j]); det = -det; }
        det *= a[c][c];
        for (int r = c + 1; r < n; ++r) { LD f = a[r][c] / a[c][c]; for (int j = c; j < n; ++j) a[r][j] -= f * a[c][j]; }
    }
    return det;
}

// calibrated on the clean tree (seeds 1-5 quick, seeds 1-2 thorough): each constant is about 4x the largest value observed
static const double CSVD = 64, CSVD_V = 40, CEIG = 24, CFAR = 32, CPROC = 12, CPROC_DEG = 256, CPROC_FAR = 12, CFORM = 256;

template <int n, class T> static void svdRun (const typename MT<n>::template M<T>& A, const std::string& name);
template <int n, class T> static void svdCase (int cls)
{
    std::string name; typename MT<n>::template M<T> A = genMatrix<n, T> (cls, name);
    svdRun<n, T> (A, name);
}
template <int n, class T> static void svdRun (const typename MT<n>::template M<T>& A, const std::string& name)
{
    typedef typename MT<n>::template M<T> M; typedef typename MT<n>::template V<T> V;
    const LD eps = std::numeric_limits<T>::epsilon ();
    for (int force = 0; force < 2; ++force)
    {
        M Um, Vm; V S;
        jacobiSVD (A, Um, S, Vm, std::numeric_limits<T>::epsilon (), force != 0);
        std::string tag = std::string (sizeof (T) == 4 ? "f" : "d") + std::to_string (n);
        std::string ctx = "class=" + name + " type=" + tag + " force=" + std::to_string (force) + " A=" + show (A, n);
        hits["svd:" + name]++;
        check ("svd:U-orthonormal", (double) orthErr<n> (Um), (double) (CSVD * eps), ctx);
        check ("svd:V-orthonormal", (double) orthErr<n> (Vm), (double) (CSVD_V * eps), ctx);
        LD a = maxAbs<n> (A), e = 0;
        for (int i = 0; i < n; ++i) for (int j = 0; j < n; ++j)
        {
            LD s = 0; for (int k = 0; k < n; ++k) s += (LD) Um[i][k] * (LD) S[k] * (LD) Vm[j][k];
            e = std::max (e, fabsl (s - (LD) A[i][j]));
        }
        check ("svd:reconstruct", (double) e, (double) (CSVD * eps * a) + (a == 0 ? 0 : 1e-300), ctx);
        // order and signs
        double bad = 0;
        for (int i = 0; i + 1 < n; ++i) if (!(std::abs (S[i]) >= std::abs (S[i + 1]))) bad = 1;
        for (int i = 0; i < n; ++i) if (!(S[i] >= 0) && !(force && i == n - 1)) bad = 1;
        check ("svd:descending-nonnegative", bad, 0, ctx);
        if (force)
        {
            check ("svd:detU-positive", detLD<n> (Um) > 0 ? 0 : 1, 0, ctx);
            check ("svd:detV-positive", detLD<n> (Vm) > 0 ? 0 : 1, 0, ctx);
            if (S[n - 1] < 0) hits["svd:last-negative"]++;
        }
    }
}

template <int n, class T> static void eigRun (typename MT<n>::template M<T> A, const std::string& name);
template <int n, class T> static void eigCase (int cls)
{
    std::string name; typename MT<n>::template M<T> A = genMatrix<n, T> (cls == 4 ? 5 : cls, name);
    for (int i = 0; i < n; ++i) for (int j = 0; j < i; ++j) A[i][j] = A[j][i];
    eigRun<n, T> (A, name);
}
template <int n, class T> static void eigRun (typename MT<n>::template M<T> A, const std::string& name)
{
    typedef typename MT<n>::template M<T> M; typedef typename MT<n>::template V<T> V;
    const LD eps = std::numeric_limits<T>::epsilon ();
    M A0 = A, Vm; V S;
    jacobiEigenSolver (A, S, Vm, std::numeric_limits<T>::epsilon ());
    std::string tag = std::string (sizeof (T) == 4 ? "f" : "d") + std::to_string (n);
    std::string ctx = "class=" + name + " type=" + tag + " A=" + show (A0, n);
    hits["eig:" + name]++;
    check ("eig:V-orthonormal", (double) orthErr<n> (Vm), (double) (CEIG * eps), ctx);
    LD a = maxAbs<n> (A0), e = 0;
    for (int i = 0; i < n; ++i) for (int j = 0; j < n; ++j)
    {
        LD s = 0; for (int k = 0; k < n; ++k) s += (LD) Vm[i][k] * (LD) S[k] * (LD) Vm[j][k];
        e = std::max (e, fabsl (s - (LD) A0[i][j]));
    }
    check ("eig:reconstruct", (double) e, (double) (CEIG * eps * a), ctx);
    // min / max eigenvector: unit, A v = lambda v, |lambda| extremal among the eigenvalues
    for (int which = 0; which < 2; ++which)
    {
        M B = A0; V v;
        if (which) maxEigenVector (B, v); else minEigenVector (B, v);
        LD l2 = 0; for (int i = 0; i < n; ++i) l2 += (LD) v[i] * (LD) v[i];
        check ("eigvec:unit", (double) fabsl (l2 - 1), (double) (CEIG * eps), ctx);
        LD Av[n], lam = 0;
        for (int i = 0; i < n; ++i) { Av[i] = 0; for (int j = 0; j < n; ++j) Av[i] += (LD) A0[i][j] * (LD) v[j]; lam += Av[i] * (LD) v[i]; }
        LD r = 0; for (int i = 0; i < n; ++i) r = std::max (r, fabsl (Av[i] - lam * (LD) v[i]));
        check ("eigvec:Av=lambda*v", (double) r, (double) (CEIG * eps * a), ctx);
        LD ext = fabsl (lam), viol = 0;
        for (int i = 0; i < n; ++i) viol = std::max (viol, which ? fabsl ((LD) S[i]) - ext : ext - fabsl ((LD) S[i]));
        check (which ? "eigvec:max-is-largest-abs" : "eigvec:min-is-smallest-abs", (double) viol, (double) (CEIG * eps * a), ctx);
    }
}

// ---------------------------------------------------------------- procrustes
struct Xf { LD R[3][3]; LD t[3]; LD s; };
static void apply (const Xf& x, const LD p[3], LD q[3])
{
    for (int j = 0; j < 3; ++j) { q[j] = x.t[j]; for (int i = 0; i < 3; ++i) q[j] += x.s * p[i] * x.R[i][j]; }
}
template <class T> static LD residual (const M44d& M, const std::vector<Vec3<T>>& A, const std::vector<Vec3<T>>& B, const std::vector<T>& w, const LD dR[3][3], LD ds)
{
    // sum_i w_i | (a_i * (ds * L * dR) + t') - b_i |^2 with L the linear part of M; the translation is re-optimised (weighted centroids)
    size_t N = A.size ();
    LD L[3][3];
    for (int i = 0; i < 3; ++i) for (int j = 0; j < 3; ++j) { L[i][j] = 0; for (int k = 0; k < 3; ++k) L[i][j] += ds * (LD) M[i][k] * dR[k][j]; }
    LD ws = 0, ca[3] = {0, 0, 0}, cb[3] = {0, 0, 0};
    std::vector<LD> P (3 * N);
    for (size_t p = 0; p < N; ++p)
    {
        LD wi = w.empty () ? 1 : (LD) w[p];
        for (int j = 0; j < 3; ++j) { LD s = 0; for (int i = 0; i < 3; ++i) s += (LD) A[p][i] * L[i][j]; P[3 * p + j] = s; ca[j] += wi * s; cb[j] += wi * (LD) B[p][j]; }
        ws += wi;
    }
    LD r = 0;
    for (size_t p = 0; p < N; ++p)
    {
        LD wi = w.empty () ? 1 : (LD) w[p];
        for (int j = 0; j < 3; ++j) { LD d = (P[3 * p + j] - ca[j] / ws) - ((LD) B[p][j] - cb[j] / ws); r += wi * d * d; }
    }
    return r;
}
static void smallRot (int axis, LD ang, LD R[3][3])
{
    for (int i = 0; i < 3; ++i) for (int j = 0; j < 3; ++j) R[i][j] = i == j;
    int a = (axis + 1) % 3, b = (axis + 2) % 3;
    R[a][a] = cosl (ang); R[a][b] = sinl (ang); R[b][a] = -sinl (ang); R[b][b] = cosl (ang);
}

// shape 7 = "far-lattice": the same with every number exactly representable at T (points = integer centre + multiples of 2^-6, the
// rotation a signed permutation matrix, scale 1 or 2, integer translation), so that an exact transform exists for the FLOAT inputs
// too: procrustes computes in double whatever T is, hence the bounds of this class use eps(double) for both element types.
// shape 6 = "far-cloud": a cloud of extent `ext` whose centre is `ratio * ext` away from the origin (ratio 1e3 .. 2^24 at double,
// 1e2 .. 1e4 at float).  The transform is determined by the CENTRED coordinates, so an implementation that accumulates the
// covariance from uncentred points (algebraically the same because the other factor is centred) loses ratio^2 * eps instead of
// ratio * eps: the recovered rotation is compared with the true one with a bound proportional to ratio * eps (the rounding of
// the inputs themselves), and the mapped points with the usual bound.
template <class T> static void procrustesCase (int shape, bool weighted, bool doScale, bool noisy, double ratio = 0)
{
    const LD eps = std::numeric_limits<T>::epsilon ();
    static const char* SH[] = {"general", "collinear", "coplanar", "single", "pair", "duplicate", "far-cloud", "far-lattice"};
    size_t N = shape == 3 ? 1 : shape == 4 ? 2 : shape >= 6 ? (size_t) I (4, 12) : (size_t) I (3, 12);
    LD ext = 1, ctr[3] = {0, 0, 0};
    if (shape == 6)
    {
        ext = U (0.5, 2) * powl (10.0L, I (-2, 2));
        LD d[3] = {U (-1, 1), U (-1, 1), U (-1, 1)}, l = sqrtl (d[0] * d[0] + d[1] * d[1] + d[2] * d[2]) + 1e-30L;
        for (int j = 0; j < 3; ++j) ctr[j] = d[j] / l * ratio * ext;
    }
    if (shape == 7)
    {
        LD d[3] = {U (-1, 1), U (-1, 1), U (-1, 1)}, l = std::max (fabsl (d[0]), std::max (fabsl (d[1]), fabsl (d[2]))) + 1e-30L;
        for (int j = 0; j < 3; ++j) ctr[j] = floorl (d[j] / l * ratio);
    }
    std::vector<Vec3<T>> A (N), B (N);
    std::vector<T> w;
    LD dir[3] = {U (-1, 1), U (-1, 1), U (-1, 1)}, dir2[3] = {U (-1, 1), U (-1, 1), U (-1, 1)}, org[3] = {U (-5, 5), U (-5, 5), U (-5, 5)};
    for (size_t p = 0; p < N; ++p)
    {
        LD a = U (-3, 3), b = U (-3, 3);
        for (int j = 0; j < 3; ++j)
        {
            LD v = shape == 1 ? org[j] + a * dir[j] : shape == 2 ? org[j] + a * dir[j] + b * dir2[j] : shape == 6 ? ctr[j] + ext * U (-0.5, 0.5) : shape == 7 ? ctr[j] + (LD) I (-32, 32) / 64 : U (-5, 5);
            A[p][j] = (T) v;
        }
        if (shape == 5 && p > 0 && (p & 1)) A[p] = A[p - 1];
    }
    if (weighted) { w.resize (N); for (auto& x : w) x = (T) U (0.1, 3); if (N > 2 && (g () & 1)) w[0] = 0; }
    Xf x; LD Q[3][3]; randOrth<3> (Q);
    if (detLD<3> (Q) < 0) for (int j = 0; j < 3; ++j) Q[0][j] = -Q[0][j];
    for (int i = 0; i < 3; ++i) for (int j = 0; j < 3; ++j) x.R[i][j] = Q[i][j];
    for (int j = 0; j < 3; ++j) x.t[j] = U (-10, 10);
    x.s = doScale ? U (0.25, 4) : 1;
    if (shape == 7)
    {
        // signed permutation with determinant +1
        int pm[3] = {0, 1, 2}; std::shuffle (pm, pm + 3, g);
        LD sg[3] = {(g () & 1) ? 1.0L : -1.0L, (g () & 1) ? 1.0L : -1.0L, 1};
        for (int i = 0; i < 3; ++i) for (int j = 0; j < 3; ++j) x.R[i][j] = pm[i] == j ? sg[i] : 0;
        LD RR[3][3]; for (int i = 0; i < 3; ++i) for (int j = 0; j < 3; ++j) RR[i][j] = x.R[i][j];
        Matrix33<double> R3 (RR[0][0], RR[0][1], RR[0][2], RR[1][0], RR[1][1], RR[1][2], RR[2][0], RR[2][1], RR[2][2]);
        if (detLD<3> (R3) < 0) for (int j = 0; j < 3; ++j) x.R[2][j] = -x.R[2][j];
        for (int j = 0; j < 3; ++j) x.t[j] = I (-10, 10);
        x.s = doScale ? 2 : 1;
    }
    LD scaleB = 0;
    for (size_t p = 0; p < N; ++p)
    {
        LD a[3] = {(LD) A[p][0], (LD) A[p][1], (LD) A[p][2]}, q[3];
        apply (x, a, q);
        for (int j = 0; j < 3; ++j) { B[p][j] = (T) (q[j] + (noisy ? U (-0.05, 0.05) : 0)); scaleB = std::max (scaleB, fabsl (q[j])); }
        if (shape == 7) for (int j = 0; j < 3; ++j) if ((LD) B[p][j] != q[j] || (LD) A[p][j] != a[j]) { hits["procrustes:far-lattice:inexact-skipped"]++; return; }
    }
    M44d M = weighted ? procrustesRotationAndTranslation (A.data (), B.data (), w.data (), N, doScale)
                      : procrustesRotationAndTranslation (A.data (), B.data (), N, doScale);
    char cb[200];
    snprintf (cb, sizeof cb, "shape=%s N=%zu type=%s weighted=%d scale=%d noisy=%d offset/extent=%.3g extent=%.3g", SH[shape], N, sizeof (T) == 4 ? "f" : "d", weighted, doScale, noisy, ratio, (double) ext);
    std::string ctx = cb;
    ctx += " A0=(" + std::to_string ((double) A[0][0]) + "," + std::to_string ((double) A[0][1]) + "," + std::to_string ((double) A[0][2]) + ")";
    hits[std::string ("procrustes:") + SH[shape] + (noisy ? ":noisy" : ":exact")]++;
    // the linear part is a rotation times a positive scale
    {
        LD s2 = 0; for (int j = 0; j < 3; ++j) s2 += (LD) M[0][j] * (LD) M[0][j];
        LD s = sqrtl (s2), e = 0;
        if (s > 0)
        {
            for (int i = 0; i < 3; ++i) for (int j = 0; j < 3; ++j)
            {
                LD d = 0; for (int k = 0; k < 3; ++k) d += (LD) M[i][k] * (LD) M[j][k];
                e = std::max (e, fabsl (d / s2 - (i == j)));
            }
            check ("procrustes:rotation-orthonormal", (double) e, 64 * 2.220446049250313e-16, ctx);
            check ("procrustes:det-positive", detLD<3> (M) > 0 ? 0 : 1, 0, ctx);
            if (!doScale) check ("procrustes:unit-scale", (double) fabsl (s - 1), 32 * 2.220446049250313e-16, ctx);
        }
        check ("procrustes:affine", (M[0][3] == 0 && M[1][3] == 0 && M[2][3] == 0 && M[3][3] == 1) ? 0 : 1, 0, ctx);
    }
    if (shape == 0)
    {
        // the documented formula, for N = 3..12 (the theorems of Props/C12Procrustes.lean prove it for N = 3 from the extracted text):
        //   M = translate (-cA) * s * V U^T * translate (cB),  U, V = the real jacobiSVD (forcePositiveDeterminant) of the weighted
        //   covariance C = sum w (b - cB) (a - cA)^T,  s = tr (Q^T C) / sum w |a - cA|^2 with doScale, else 1
        // evaluated here in long double around the REAL jacobiSVD call; general-position clouds only (C well conditioned, so that
        // the rounding of C does not move the polar factor).
        LD ws = 0, cA[3] = {0, 0, 0}, cB[3] = {0, 0, 0}, C[3][3] = {{0, 0, 0}, {0, 0, 0}, {0, 0, 0}}, tA = 0;
        for (size_t p = 0; p < N; ++p) { LD wi = weighted ? (LD) w[p] : 1; ws += wi; for (int j = 0; j < 3; ++j) { cA[j] += wi * (LD) A[p][j]; cB[j] += wi * (LD) B[p][j]; } }
        for (int j = 0; j < 3; ++j) { cA[j] /= ws; cB[j] /= ws; }
        for (size_t p = 0; p < N; ++p)
        {
            LD wi = weighted ? (LD) w[p] : 1;
            for (int i = 0; i < 3; ++i) { for (int j = 0; j < 3; ++j) C[i][j] += wi * ((LD) B[p][i] - cB[i]) * ((LD) A[p][j] - cA[j]); tA += wi * ((LD) A[p][i] - cA[i]) * ((LD) A[p][i] - cA[i]); }
        }
        M33d Cd, Ud, Vd; V3d Sd;
        for (int i = 0; i < 3; ++i) for (int j = 0; j < 3; ++j) Cd[i][j] = (double) C[i][j];
        jacobiSVD (Cd, Ud, Sd, Vd, std::numeric_limits<double>::epsilon (), true);
        LD Qt[3][3], sc = 1, tr = 0;
        for (int i = 0; i < 3; ++i) for (int j = 0; j < 3; ++j) { Qt[i][j] = 0; for (int k = 0; k < 3; ++k) Qt[i][j] += (LD) Vd[i][k] * (LD) Ud[j][k]; }
        for (int i = 0; i < 3; ++i) for (int j = 0; j < 3; ++j) tr += Qt[j][i] * C[i][j];
        if (doScale && N > 1) sc = tr / tA;
        LD e = 0;
        for (int i = 0; i < 3; ++i) for (int j = 0; j < 3; ++j) e = std::max (e, fabsl ((LD) M[i][j] - sc * Qt[i][j]));
        for (int j = 0; j < 3; ++j)
        {
            LD t = cB[j]; for (int i = 0; i < 3; ++i) t -= sc * cA[i] * Qt[i][j];
            e = std::max (e, fabsl ((LD) M[3][j] - t) / (scaleB + 1));
        }
        // the polar factor is determined (given det = +1) only when C has rank >= 2: skip clouds that are effectively 2 points
        // (e.g. N = 3 with a zero weight)
        if (std::abs (Sd[1]) > 1e-3 * std::abs (Sd[0]))
        {
            check ("procrustes:result=formula-around-the-real-jacobiSVD", (double) e, (double) (CFORM * std::numeric_limits<double>::epsilon ()), ctx);
            hits["procrustes:formula-compared"]++;
        }
    }
    if (!noisy && shape == 7)
    {
        const LD epsd = std::numeric_limits<double>::epsilon ();
        LD e = 0, ep = 0;
        for (int i = 0; i < 3; ++i) for (int j = 0; j < 3; ++j) e = std::max (e, fabsl ((LD) M[i][j] - x.s * x.R[i][j]));
        check ("procrustes:far-lattice-linear-part-recovered", (double) e, (double) (epsd * (ratio + 1)), ctx);
        for (size_t p = 0; p < N; ++p)
        {
            if (weighted && w[p] == 0) continue;
            for (int j = 0; j < 3; ++j)
            {
                LD q = (LD) M[3][j]; for (int i = 0; i < 3; ++i) q += (LD) A[p][i] * (LD) M[i][j];
                ep = std::max (ep, fabsl (q - (LD) B[p][j]));
            }
        }
        check ("procrustes:far-lattice-points-mapped", (double) ep, (double) (8 * epsd * (scaleB + 1)), ctx);
    }
    if (!noisy && shape == 6)
    {
        // the cloud is in general position: the transform is unique, so the linear part itself must be the true s*R, up to the
        // rounding of the inputs (eps * offset) seen from the cloud's own scale (extent): eps * offset / extent
        LD e = 0;
        for (int i = 0; i < 3; ++i) for (int j = 0; j < 3; ++j) e = std::max (e, fabsl ((LD) M[i][j] - x.s * x.R[i][j]));
        check ("procrustes:far-cloud-linear-part-recovered", (double) e, (double) (CFAR * eps * (ratio + 1) * (doScale ? 4 : 1)), ctx);
    }
    if (!noisy)
    {
        // a rigid / similarity transform exists: the points must be mapped onto their images (whatever rotation was
        // chosen in the degenerate collinear / single-point cases) to c * eps(T) * magnitude
        LD e = 0;
        for (size_t p = 0; p < N; ++p)
        {
            if (weighted && w[p] == 0) continue;
            for (int j = 0; j < 3; ++j)
            {
                LD q = (LD) M[3][j]; for (int i = 0; i < 3; ++i) q += (LD) A[p][i] * (LD) M[i][j];
                e = std::max (e, fabsl (q - (LD) B[p][j]));
            }
        }
        if (shape == 6) check ("procrustes:far-cloud-points-mapped", (double) e, (double) (CPROC_FAR * eps * (scaleB + 1) * (doScale ? 8 : 1)), ctx);
        else if (shape == 0) check ("procrustes:exact-transform-recovered", (double) e, (double) (CPROC * eps * (scaleB + 1) * (doScale ? 8 : 1)), ctx);
        // collinear / coplanar (incl. nearly collinear triangles) / single / pair / duplicates: heavy-tailed conditioning
        else if (shape != 7) check ("procrustes:exact-transform-recovered-degenerate-shapes", (double) e, (double) (CPROC_DEG * eps * (scaleB + 1) * (doScale ? 8 : 1)), ctx);
    }
    else if (N >= 3)
    {
        // local optimality probes: rotate the linear part by +-delta about each axis (and scale by 1+-delta when doScale)
        LD Id[3][3]; smallRot (0, 0, Id);
        LD r0 = residual (M, A, B, w, Id, 1);
        LD worstGain = 0;
        for (LD delta : {1e-2L, 1e-4L})
            for (int ax = 0; ax < 3; ++ax) for (int sg = -1; sg <= 1; sg += 2)
            {
                LD dR[3][3]; smallRot (ax, sg * delta, dR);
                LD r = residual (M, A, B, w, dR, 1);
                worstGain = std::max (worstGain, (r0 - r) / (r0 + 1e-300L));
                if (doScale) { LD r2 = residual (M, A, B, w, Id, 1 + sg * delta); worstGain = std::max (worstGain, (r0 - r2) / (r0 + 1e-300L)); }
            }
        check ("procrustes:no-perturbation-improves", (double) worstGain, sizeof (T) == 4 ? 1e-5 : 1e-9, ctx);
    }
}

// ---------------------------------------------------------------- SHRT family: accuracy of the factors on floats
// M = S*H*R*T built in long double from known factors (graded conditioning of the scales 10^0..10^12 at double, 10^0..10^5 at
// float; negative scales; zero / random shear; random rotation) and rounded to T.  The real extractSHRT / sansScaling /
// sansScalingAndShear / removeScaling (3-D and 2-D) and the two other extractSHRT overloads are called at T; the factors are
// recomposed in long double and compared with M ROW BY ROW (Gram-Schmidt normalises every row by its own length, so the error
// is relative to the row, whatever the ratio of the scales): max_j |recomposed_ij - M_ij| <= C * eps(T) * (1+|h|)^2 * max_j |M_ij|.
static const double CSHRT = 16, CSHRT_ORTH = 8;
static const char* SHRT_CLS[] = {"graded", "reflected", "no-shear", "unit"};
template <class T> static void rotXYZ (const Vec3<T>& r, LD R[3][3])
{
    LD cx = cosl ((LD) r.x), sx = sinl ((LD) r.x), cy = cosl ((LD) r.y), sy = sinl ((LD) r.y), cz = cosl ((LD) r.z), sz = sinl ((LD) r.z);
    R[0][0] = cz * cy; R[0][1] = sz * cy; R[0][2] = -sy;
    R[1][0] = -sz * cx + cz * sy * sx; R[1][1] = cz * cx + sz * sy * sx; R[1][2] = cy * sx;
    R[2][0] = sz * sx + cz * sy * cx; R[2][1] = -cz * sx + sz * sy * cx; R[2][2] = cy * cx;
}
// worst row-relative deviation of S*H*R (3x3, long double) and the translation row from M
template <class T, class RR> static LD shrtErr3 (const Matrix44<T>& M, const Vec3<T>& s, const Vec3<T>& h, const RR& R, const Vec3<T>& t)
{
    LD L[3][3], e = 0;
    for (int j = 0; j < 3; ++j)
    {
        L[0][j] = (LD) s.x * (LD) R[0][j];
        L[1][j] = (LD) s.y * ((LD) h.x * (LD) R[0][j] + (LD) R[1][j]);
        L[2][j] = (LD) s.z * ((LD) h.y * (LD) R[0][j] + (LD) h.z * (LD) R[1][j] + (LD) R[2][j]);
    }
    for (int i = 0; i < 3; ++i)
    {
        LD n = 0, d = 0;
        for (int j = 0; j < 3; ++j) { n = std::max (n, fabsl ((LD) M[i][j])); d = std::max (d, fabsl (L[i][j] - (LD) M[i][j])); }
        e = std::max (e, n > 0 ? d / n : d);
    }
    for (int j = 0; j < 3; ++j) if ((LD) t[j] != (LD) M[3][j]) e = std::max (e, (LD) 1);
    return e;
}
static bool shrtFixed = false; // the deterministic witness: unit scale, no shear, XYZ angles (0.3, 0.5, -0.7), translation (1, 2, 3)
template <class T> static void shrtCase3 (int cls)
{
    const LD eps = std::numeric_limits<T>::epsilon ();
    const int kmax = sizeof (T) == 4 ? 5 : 12;
    int k = cls == 3 ? 0 : I (0, kmax);
    LD s[3], h[3] = {U (-2, 2), U (-2, 2), U (-2, 2)}, R[3][3], t[3] = {U (-10, 10), U (-10, 10), U (-10, 10)};
    for (int i = 0; i < 3; ++i) s[i] = cls == 3 ? 1 : U (0.5, 2) * powl (10.0L, I (-k, k));
    if (cls == 1) for (int i = 0; i < 3; ++i) if (g () & 1) s[i] = -s[i];
    if (cls == 2 || cls == 3) h[0] = h[1] = h[2] = 0;
    { Vec3<double> a (U (-3.1, 3.1), U (-1.5, 1.5), U (-3.1, 3.1)); if (shrtFixed) { a = Vec3<double> (0.3, 0.5, -0.7); t[0] = 1; t[1] = 2; t[2] = 3; } rotXYZ (a, R); }
    Matrix44<T> M;
    for (int j = 0; j < 3; ++j)
    {
        M[0][j] = (T) (s[0] * R[0][j]);
        M[1][j] = (T) (s[1] * (h[0] * R[0][j] + R[1][j]));
        M[2][j] = (T) (s[2] * (h[1] * R[0][j] + h[2] * R[1][j] + R[2][j]));
        M[3][j] = (T) t[j];
    }
    LD hh = 1 + std::max (fabsl (h[0]), std::max (fabsl (h[1]), fabsl (h[2])));
    const double bound = (double) (CSHRT * eps * hh * hh);
    std::string tag = sizeof (T) == 4 ? "f" : "d";
    std::string ctx = std::string ("class=") + SHRT_CLS[cls] + " type=" + tag + "44 decades=" + std::to_string (k) + " M=" + show (M, 4);
    hits[std::string ("shrt3:") + SHRT_CLS[cls]]++;
    Vec3<T> es, eh, er, et;
    if (!extractSHRT (M, es, eh, er, et, false)) { check ("shrt:well-conditioned-input-accepted", 1, 0, ctx); return; }
    check ("shrt:well-conditioned-input-accepted", 0, 0, ctx);
    { LD Rr[3][3]; rotXYZ (er, Rr); check ("shrt:extractSHRT-recompose", (double) shrtErr3 (M, es, eh, Rr, et), bound, ctx); }
    // sansScalingAndShear = R*T: orthonormal, det +1, translation row kept; S*H*that = M
    {
        Matrix44<T> Q = sansScalingAndShear (M, false);
        LD e = 0;
        for (int i = 0; i < 3; ++i) for (int j = 0; j < 3; ++j)
        {
            LD d = 0; for (int c = 0; c < 3; ++c) d += (LD) Q[i][c] * (LD) Q[j][c];
            e = std::max (e, fabsl (d - (i == j)));
        }
        check ("shrt:R-orthonormal", (double) e, (double) (CSHRT_ORTH * eps * hh * hh), ctx);
        Matrix33<T> Q3 (Q[0][0], Q[0][1], Q[0][2], Q[1][0], Q[1][1], Q[1][2], Q[2][0], Q[2][1], Q[2][2]);
        check ("shrt:detR=+1", (double) fabsl (detLD<3> (Q3) - 1), (double) (CSHRT_ORTH * eps * hh * hh), ctx);
        check ("shrt:sansScalingAndShear-recompose", (double) shrtErr3 (M, es, eh, Q, Vec3<T> (Q[3][0], Q[3][1], Q[3][2])), bound, ctx);
    }
    // sansScaling = H*R*T (rebuilt with M.rotate (extractEulerXYZ R)): S * that = M;  removeScaling leaves the same matrix
    {
        Matrix44<T> Q = sansScaling (M, false), P = M;
        bool ok = removeScaling (P, false);
        LD e = 0;
        for (int i = 0; i < 3; ++i)
        {
            LD n = 0, d = 0;
            for (int j = 0; j < 3; ++j) { n = std::max (n, fabsl ((LD) M[i][j])); d = std::max (d, fabsl ((LD) es[i] * (LD) Q[i][j] - (LD) M[i][j])); }
            e = std::max (e, n > 0 ? d / n : d);
        }
        for (int j = 0; j < 3; ++j) if (Q[3][j] != M[3][j]) e = 1;
        check ("shrt:sansScaling-recompose", (double) e, bound, ctx);
        check ("shrt:removeScaling=sansScaling", (ok && memcmp (&P, &Q, sizeof P) == 0) ? 0 : 1, 0, ctx);
    }
    // the two other overloads: Euler<T>& r (recompose through r.toMatrix44 ()), and rOrder (through Euler<T> (r, rOrder, XYZLayout))
    static const typename Euler<T>::Order ORD[] = {Euler<T>::XYZ, Euler<T>::XZY, Euler<T>::YZX, Euler<T>::YXZ, Euler<T>::ZXY, Euler<T>::ZYX,
                                                   Euler<T>::ZXZ, Euler<T>::XYX, Euler<T>::XYZr, Euler<T>::ZYXr, Euler<T>::YXYr};
    static const char* ORDN[] = {"XYZ", "XZY", "YZX", "YXZ", "ZXY", "ZYX", "ZXZ", "XYX", "XYZr", "ZYXr", "YXYr"};
    for (int oi = 0; oi < 11; ++oi)
    {
        std::string octx = std::string ("class=") + (oi == 0 ? "order-XYZ" : "order-other-than-XYZ") + " order=" + ORDN[oi] + " gen=" + SHRT_CLS[cls] + " type=" + tag + "44 M=" + show (M, 4);
        Vec3<T> s2, h2, t2, r3;
        Euler<T> re (ORD[oi]);
        bool ok1 = extractSHRT (M, s2, h2, re, t2, false);
        check ("shrt:euler-overload-keeps-order", (ok1 && re.order () == ORD[oi]) ? 0 : 1, 0, octx);
        check ("shrt:euler-overload-recompose", (double) shrtErr3 (M, s2, h2, re.toMatrix44 (), t2), bound, octx);
        bool ok2 = extractSHRT (M, s2, h2, r3, t2, false, ORD[oi]);
        Euler<T> rb (r3, ORD[oi], Euler<T>::XYZLayout);
        check ("shrt:rOrder-overload-recompose", ok2 ? (double) shrtErr3 (M, s2, h2, rb.toMatrix44 (), t2) : 1.0, bound, octx);
        hits[std::string ("shrt3:order-") + ORDN[oi]]++;
    }
}
template <class T> static void shrtCase2 (int cls)
{
    const LD eps = std::numeric_limits<T>::epsilon ();
    const int kmax = sizeof (T) == 4 ? 5 : 12;
    int k = cls == 3 ? 0 : I (0, kmax);
    LD s[2], h = U (-2, 2), a = U (-3.1, 3.1), t[2] = {U (-10, 10), U (-10, 10)};
    for (int i = 0; i < 2; ++i) s[i] = cls == 3 ? 1 : U (0.5, 2) * powl (10.0L, I (-k, k));
    if (cls == 1) for (int i = 0; i < 2; ++i) if (g () & 1) s[i] = -s[i];
    if (cls == 2 || cls == 3) h = 0;
    LD R[2][2] = {{cosl (a), sinl (a)}, {-sinl (a), cosl (a)}};
    Matrix33<T> M;
    for (int j = 0; j < 2; ++j) { M[0][j] = (T) (s[0] * R[0][j]); M[1][j] = (T) (s[1] * (h * R[0][j] + R[1][j])); M[2][j] = (T) t[j]; }
    LD hh = 1 + fabsl (h);
    const double bound = (double) (CSHRT * eps * hh * hh);
    std::string ctx = std::string ("class=") + SHRT_CLS[cls] + " type=" + (sizeof (T) == 4 ? "f" : "d") + "33 decades=" + std::to_string (k) + " M=" + show (M, 3);
    hits[std::string ("shrt2:") + SHRT_CLS[cls]]++;
    Vec2<T> es, et; T eh = 0, er = 0;
    if (!extractSHRT (M, es, eh, er, et, false)) { check ("shrt:well-conditioned-input-accepted", 1, 0, ctx); return; }
    check ("shrt:well-conditioned-input-accepted", 0, 0, ctx);
    auto err2 = [&] (LD r00, LD r01, LD r10, LD r11, LD sy_h) {
        LD L[2][2] = {{(LD) es.x * r00, (LD) es.x * r01}, {(LD) es.y * (sy_h * r00 + r10), (LD) es.y * (sy_h * r01 + r11)}}, e = 0;
        for (int i = 0; i < 2; ++i)
        {
            LD n = 0, d = 0;
            for (int j = 0; j < 2; ++j) { n = std::max (n, fabsl ((LD) M[i][j])); d = std::max (d, fabsl (L[i][j] - (LD) M[i][j])); }
            e = std::max (e, n > 0 ? d / n : d);
        }
        return e;
    };
    LD e = err2 (cosl ((LD) er), sinl ((LD) er), -sinl ((LD) er), cosl ((LD) er), (LD) eh);
    if (et.x != M[2][0] || et.y != M[2][1]) e = 1;
    check ("shrt:extractSHRT-recompose", (double) e, bound, ctx);
    Matrix33<T> Q = sansScalingAndShear (M, false);
    check ("shrt:sansScalingAndShear-recompose", (double) err2 (Q[0][0], Q[0][1], Q[1][0], Q[1][1], (LD) eh), bound, ctx);
    LD o = std::max (std::max (fabsl ((LD) Q[0][0] * Q[0][0] + (LD) Q[0][1] * Q[0][1] - 1), fabsl ((LD) Q[1][0] * Q[1][0] + (LD) Q[1][1] * Q[1][1] - 1)),
                     fabsl ((LD) Q[0][0] * Q[1][0] + (LD) Q[0][1] * Q[1][1]));
    check ("shrt:R-orthonormal", (double) o, (double) (CSHRT_ORTH * eps * hh * hh), ctx);
    check ("shrt:detR=+1", (double) fabsl ((LD) Q[0][0] * Q[1][1] - (LD) Q[0][1] * Q[1][0] - 1), (double) (CSHRT_ORTH * eps * hh * hh), ctx);
    // sansScaling = H*R*T: S * that = M (translation row included: the repaired 2-D defect)
    Matrix33<T> Hq = sansScaling (M, false), P = M;
    bool ok = removeScaling (P, false);
    LD e2 = 0;
    for (int i = 0; i < 2; ++i)
    {
        LD n = 0, d = 0;
        for (int j = 0; j < 2; ++j) { n = std::max (n, fabsl ((LD) M[i][j])); d = std::max (d, fabsl ((LD) es[i] * (LD) Hq[i][j] - (LD) M[i][j])); }
        e2 = std::max (e2, n > 0 ? d / n : d);
    }
    if (Hq[2][0] != M[2][0] || Hq[2][1] != M[2][1]) e2 = 1;
    check ("shrt:sansScaling-recompose", (double) e2, bound, ctx);
    check ("shrt:removeScaling=sansScaling", (ok && memcmp (&P, &Hq, sizeof P) == 0) ? 0 : 1, 0, ctx);
}

// deterministic structured sparse matrices (c12_structured.h): every tier, float and double, force on/off (inside svdRun)
template <int n, class T> static void structuredCases ()
{
    typedef typename MT<n>::template M<T> M;
    for (auto& nm : c12Structured<M, T, n> (false)) svdRun<n, T> (nm.second, "structured:" + nm.first.substr (0, nm.first.find (':')));
    for (auto& nm : c12Structured<M, T, n> (true))
    {
        std::string cls = "structured-sym:" + nm.first.substr (0, nm.first.find (':'));
        eigRun<n, T> (nm.second, cls);
        svdRun<n, T> (nm.second, cls);
    }
}

int main (int argc, char** argv)
{
    unsigned long seed = argc > 1 ? strtoul (argv[1], 0, 10) : 1;
    int n = argc > 2 ? atoi (argv[2]) : 200;
    g.seed (seed * 6364136223846793005ul + 1442695040888963407ul);
    structuredCases<3, double> (); structuredCases<4, double> (); structuredCases<3, float> (); structuredCases<4, float> ();
    shrtFixed = true; shrtCase3<double> (3); shrtCase3<float> (3); shrtFixed = false;
    for (int i = 0; i < n; ++i)
    {
        int cls = i % 8;
        svdCase<3, double> (cls); svdCase<4, double> (cls); svdCase<3, float> (cls); svdCase<4, float> (cls);
        eigCase<3, double> (cls); eigCase<4, double> (cls); eigCase<3, float> (cls); eigCase<4, float> (cls);
        int shape = i % 6; bool weighted = (i / 6) & 1, doScale = (i / 12) & 1, noisy = (i / 24) & 1;
        procrustesCase<double> (shape, weighted, doScale, noisy);
        procrustesCase<float> (shape, weighted, doScale, noisy);
        {
            static const double RD[] = {1e3, 1e4, 1e5, 1e6, 16777216.0}, RF[] = {1e2, 1e3, 1e4};
            procrustesCase<double> (6, (i / 5) & 1, (i / 10) & 1, false, RD[i % 5]);
            procrustesCase<float> (6, (i / 3) & 1, (i / 6) & 1, false, RF[i % 3]);
            static const double LDb[] = {65536.0, 1048576.0, 16777216.0}, LF[] = {256.0, 4096.0, 65536.0};
            procrustesCase<double> (7, (i / 3) & 1, (i / 6) & 1, false, LDb[i % 3]);
            procrustesCase<float> (7, (i / 3) & 1, (i / 6) & 1, false, LF[i % 3]);
        }
        shrtCase3<double> (i % 4); shrtCase3<float> (i % 4); shrtCase2<double> (i % 4); shrtCase2<float> (i % 4);
    }
    printf ("RESIDUE evals=%ld failures=%ld", evals, fails);
    for (auto& kv : worst) printf (" %s=%.4g", kv.first.c_str (), kv.second);
    printf ("\nHITS");
    for (auto& kv : hits) printf (" %s=%ld", kv.first.c_str (), kv.second);
    printf ("\n");
    return fails ? 1 : 0;
}
