// C04, build-configuration dimension: since C++23 (`__cpp_if_consteval`) the const operator[] of Vec2/3/4
// has a SEPARATE body for constant evaluation (`if consteval { return i==0 ? x : … }`) next to the
// run-time body (pointer arithmetic on `this`).  Compiled with -std=c++23, this harness evaluates v[i]
// for every index both ways and compares each with the named member in declaration order.
// One line per mismatch: CONSTEVAL-FAIL <type> index <i> constant-evaluated <got> named-member <want>
#include <ImathVec.h>
#include <cstdint>
#include <cstdio>
using namespace IMATH_NAMESPACE;
static int fails = 0, checks = 0;
template <class T> static void report (const char* ty, const char* el, int i, const char* how, T got, T want)
{
    ++checks;
    if (got != want)
    {
        ++fails;
        printf ("CONSTEVAL-FAIL %s<%s> index %d %s %g named-member %g\n", ty, el, i, how, double (got), double (want));
    }
}
#ifdef __cpp_if_consteval
#define CE(i) { constexpr T c = v[i]; report<T> (ty, el, i, "constant-evaluated", c, want[i]); \
                const volatile int k = i; report<T> (ty, el, i, "run-time", rv[k], want[i]); }
template <class T> struct Run
{
    static void go (const char* el)
    {
        {
            const char* ty = "Vec2"; constexpr Vec2<T> v (T (11), T (22)); const Vec2<T> rv = v;
            const T want[2] = {v.x, v.y};
            CE (0) CE (1)
        }
        {
            const char* ty = "Vec3"; constexpr Vec3<T> v (T (11), T (22), T (33)); const Vec3<T> rv = v;
            const T want[3] = {v.x, v.y, v.z};
            CE (0) CE (1) CE (2)
        }
        {
            const char* ty = "Vec4"; constexpr Vec4<T> v (T (11), T (22), T (33), T (44)); const Vec4<T> rv = v;
            const T want[4] = {v.x, v.y, v.z, v.w};
            CE (0) CE (1) CE (2) CE (3)
        }
    }
};
#endif
int main ()
{
#ifdef __cpp_if_consteval
    Run<short>::go ("short"); Run<int>::go ("int"); Run<int64_t>::go ("int64_t"); Run<float>::go ("float");
    Run<double>::go ("double"); Run<unsigned char>::go ("unsigned char");
    printf ("consteval: %d subscript evaluations, %d mismatches (C++23 `if consteval` bodies present)\n", checks, fails);
#else
    printf ("consteval: compiler has no __cpp_if_consteval; 0 subscript evaluations\n");
#endif
    return fails ? 1 : 0;
}
