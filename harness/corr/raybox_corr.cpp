// Correspondence harness for C14 (ray/line vs. box): calls the REAL
// findEntryAndExitPoints / intersects(box,ray,ip) / intersects(box,ray) from
// /repo/src/Imath/ImathBoxAlgo.h at double and float and prints the same
// canonical data as lean/Driver/RayBox.lean.
//
//   lattice <pairs> <ox> <oy> <oz> <sh> [<lo> <hi>]
//        one line per box: <box> <fullD> <specD> <fullF> <specF> <nFeHit> <nIsHit> <tieD> <tieF>
//        (full = every output incl. out-parameters when false, started from sentinels;
//         spec = the two booleans and the points when true; tie = spec + the 2-argument wrapper's boolean)
//   lines <pairs> <ox> <oy> <oz> <sh> <box> <d|f>     per-case text of one box
//   case <d|f> <12 numbers: box min, box max, pos, dir>   numbers: strtod syntax or x<16 hex digits>
//   nd <boxes> <R> <ox> <oy> <oz>                      non-dyadic direction lattice: <blk> <tieD> <tieF> <boolD> <boolF> <nFe> <nIs>
//   ndlines <boxes> <R> <ox> <oy> <oz> <blk> <d|f>     per-case text of one block (points as double bit patterns)
//   sweep <d|f> <seed> <quick|thorough>                float guard sweep blocks (input of `drv_raybox sweep`): per block the
//        inputs as bit patterns, `impl` (results), `pts` (where the reported points lie: in box / on a face / never
//        written / NaN), `tie` (per (px,py) chunk: hash of results + bit patterns of the points when true)
//   sweeplines <d|f> <seed> <quick|thorough> <block> <chunk>   per-case text of one chunk (inputs and outputs as bit patterns)
//   small <T> <boxes> <posvals> <dirvals>              guard lattice at the scalar type Small (numeric_limits<Small>::max() = T)
//   smalllines <T> <boxes> <posvals> <dirvals> <blk>   per-case text of one block
//   smallcase <T> <12 numbers>                         one case at the scalar type Small
//
// On the lattice directions are integers in [-2,2] and box/origin coordinates are
// (integer + offset) * 2^sh, so every quotient, product and sum the code forms is
// an exactly representable dyadic rational at float and at double: outputs are
// converted to exact fractions num/den and compared EXACTLY with the model over Rat.
#include <limits>
// ---------------------------------------------------------------------------
// Small: a scalar type (a double underneath) whose std::numeric_limits<Small>::max() is a SMALL number
// (g_smallT, 4 in the check).  The real templates findEntryAndExitPoints / intersects are instantiated at
// Vec3<Small>, Box<Vec3<Small>>, Line3<Small>: on a dyadic lattice every `TMAX` guard of the code can then
// fail with exactly representable operands, so all guard-fail arms are compared EXACTLY with the model.
static double g_smallT = 4;
struct Small
{
    double v;
    constexpr Small () : v (0) {}
    constexpr Small (double d) : v (d) {}
    constexpr Small (int i) : v (i) {}
    constexpr explicit operator double () const { return v; }
};
constexpr Small operator+ (Small a, Small b) { return Small (a.v + b.v); }
constexpr Small operator- (Small a, Small b) { return Small (a.v - b.v); }
constexpr Small operator* (Small a, Small b) { return Small (a.v * b.v); }
constexpr Small operator/ (Small a, Small b) { return Small (a.v / b.v); }
constexpr Small operator- (Small a) { return Small (-a.v); }
constexpr bool  operator< (Small a, Small b) { return a.v < b.v; }
constexpr bool  operator> (Small a, Small b) { return a.v > b.v; }
constexpr bool  operator<= (Small a, Small b) { return a.v <= b.v; }
constexpr bool  operator>= (Small a, Small b) { return a.v >= b.v; }
constexpr bool  operator== (Small a, Small b) { return a.v == b.v; }
constexpr bool  operator!= (Small a, Small b) { return a.v != b.v; }
inline Small&   operator+= (Small& a, Small b) { a.v += b.v; return a; }
inline Small&   operator-= (Small& a, Small b) { a.v -= b.v; return a; }
inline Small&   operator*= (Small& a, Small b) { a.v *= b.v; return a; }
inline Small&   operator/= (Small& a, Small b) { a.v /= b.v; return a; }
namespace std
{
template <> struct numeric_limits<Small>
{
    static constexpr bool is_specialized = true;
    static constexpr bool is_signed      = true;
    static constexpr bool is_integer     = false;
    static constexpr bool is_exact       = false;
    static constexpr bool has_infinity   = false;
    static Small          max () noexcept { return Small (g_smallT); }
    static Small          lowest () noexcept { return Small (-g_smallT); }
    static Small          min () noexcept { return Small (std::numeric_limits<double>::min ()); }
    static Small          epsilon () noexcept { return Small (std::numeric_limits<double>::epsilon ()); }
};
} // namespace std

#include <ImathBoxAlgo.h>
#include <ImathBox.h>
#include <ImathLine.h>
#include <ImathVec.h>
#include <cstdio>
#include <cstring>
#include <cstdlib>
#include <cstdint>
#include <cmath>
#include <limits>
#include <string>
#include <thread>
#include <vector>
using namespace IMATH_NAMESPACE;

template <class T> struct Out
{
    bool    fe;
    Vec3<T> entry, exit;
    bool    is;
    Vec3<T> ip;
    bool    isb;
};

template <class T>
static Out<T> run (const Box<Vec3<T>>& b, const Vec3<T>& pos, const Vec3<T>& dir)
{
    Line3<T> r;
    r.pos = pos; // written into the public members, NOT normalised
    r.dir = dir;
    Out<T> o;
    o.entry = Vec3<T> (1001, 1002, 1003);
    o.exit  = Vec3<T> (2001, 2002, 2003);
    o.ip    = Vec3<T> (3001, 3002, 3003);
    o.fe    = findEntryAndExitPoints (r, b, o.entry, o.exit);
    o.is    = intersects (b, r, o.ip);
    o.isb   = intersects (b, r);
    return o;
}

// exact fraction of a dyadic double with small denominator
static void frac (double v, int64_t& num, int64_t& den)
{
    if (!std::isfinite (v)) { num = INT64_MIN; den = 0; return; }
    den = 1;
    int k = 0;
    while (v != std::floor (v) && k < 60) { v *= 2; den *= 2; ++k; }
    if (v != std::floor (v) || std::fabs (v) > 9e18) { num = INT64_MIN; den = 0; return; }
    num = (int64_t) v;
}

static inline uint64_t mix (uint64_t h, uint64_t v) { return (h ^ v) * 1099511628211ull; }
static inline uint64_t mixQ (uint64_t h, double v)
{
    int64_t n, d;
    frac (v, n, d);
    return mix (mix (h, (uint64_t) n), (uint64_t) d);
}
template <class T> static inline uint64_t mixV (uint64_t h, const Vec3<T>& v)
{
    return mixQ (mixQ (mixQ (h, (double) v.x), (double) v.y), (double) v.z);
}
static inline uint64_t mixB (uint64_t h, bool b) { return mix (h, b ? 1 : 0); }

template <class T> static uint64_t fullHash (uint64_t h, const Out<T>& o)
{
    return mixB (mixV (mixB (mixV (mixV (mixB (h, o.fe), o.entry), o.exit), o.is), o.ip), o.isb);
}
template <class T> static uint64_t specHash (uint64_t h, const Out<T>& o)
{
    h = mixB (h, o.fe);
    if (o.fe) { h = mixV (h, o.entry); h = mixV (h, o.exit); }
    h = mixB (h, o.is);
    if (o.is) h = mixV (h, o.ip);
    return h;
}

struct Lat
{
    std::vector<std::pair<int, int>> pairs;
    int ox, oy, oz, sh;
    double sc (int v, int o) const { return std::ldexp ((double) (v + o), sh); }
    template <class T> Box<Vec3<T>> box (int bi) const
    {
        int  n  = (int) pairs.size ();
        auto px = pairs[bi / (n * n)], py = pairs[(bi / n) % n], pz = pairs[bi % n];
        Box<Vec3<T>> b;
        b.min = Vec3<T> ((T) sc (px.first, ox), (T) sc (py.first, oy), (T) sc (pz.first, oz));
        b.max = Vec3<T> ((T) sc (px.second, ox), (T) sc (py.second, oy), (T) sc (pz.second, oz));
        return b;
    }
    template <class T> void ray (int ci, Vec3<T>& pos, Vec3<T>& dir) const
    {
        int pi = ci / 125, di = ci % 125;
        pos = Vec3<T> ((T) sc (pi / 25 - 2, ox), (T) sc ((pi / 5) % 5 - 2, oy), (T) sc (pi % 5 - 2, oz));
        dir = Vec3<T> ((T) (di / 25 - 2), (T) ((di / 5) % 5 - 2), (T) (di % 5 - 2));
    }
};

static Lat parseLat (char** a)
{
    Lat L;
    std::string s = a[0];
    size_t p = 0;
    while (p < s.size ())
    {
        size_t c = s.find (',', p);
        if (c == std::string::npos) c = s.size ();
        std::string t = s.substr (p, c - p);
        size_t k = t.find (':');
        L.pairs.push_back ({atoi (t.substr (0, k).c_str ()), atoi (t.substr (k + 1).c_str ())});
        p = c + 1;
    }
    L.ox = atoi (a[1]); L.oy = atoi (a[2]); L.oz = atoi (a[3]); L.sh = atoi (a[4]);
    return L;
}

struct BoxSum { uint64_t fullD, specD, fullF, specF, tieD, tieF; long nFe, nIs; };

// tie = what the property specifies: the three booleans always, the points only when the result is true
template <class T> static void boxHashes (const Lat& L, int bi, uint64_t& full, uint64_t& spec, uint64_t& tie, long& nFe, long& nIs)
{
    Box<Vec3<T>> b = L.box<T> (bi);
    full = spec = tie = 1469598103934665603ull;
    nFe = nIs = 0;
    for (int ci = 0; ci < 15625; ++ci)
    {
        if (ci % 125 == 62) continue;
        Vec3<T> pos, dir;
        L.ray<T> (ci, pos, dir);
        Out<T> o = run<T> (b, pos, dir);
        full = fullHash (full, o);
        spec = specHash (spec, o);
        tie  = mixB (specHash (tie, o), o.isb);
        nFe += o.fe; nIs += o.is;
    }
}

static std::string qs (double v)
{
    int64_t n, d; frac (v, n, d);
    char buf[64];
    if (d == 0) snprintf (buf, sizeof buf, "%a", v); else snprintf (buf, sizeof buf, "%lld/%lld", (long long) n, (long long) d);
    return buf;
}
template <class T> static std::string vs (const Vec3<T>& v) { return qs ((double) v.x) + "," + qs ((double) v.y) + "," + qs ((double) v.z); }

template <class T> static void printLines (const Lat& L, int bi)
{
    Box<Vec3<T>> b = L.box<T> (bi);
    for (int ci = 0; ci < 15625; ++ci)
    {
        if (ci % 125 == 62) continue;
        Vec3<T> pos, dir;
        L.ray<T> (ci, pos, dir);
        Out<T> o = run<T> (b, pos, dir);
        printf ("%d box=%s;%s pos=%s dir=%s | I fe=%d entry=%s exit=%s is=%d ip=%s isb=%d\n", ci,
                vs (b.min).c_str (), vs (b.max).c_str (), vs (pos).c_str (), vs (dir).c_str (), (int) o.fe,
                vs (o.entry).c_str (), vs (o.exit).c_str (), (int) o.is, vs (o.ip).c_str (), (int) o.isb);
    }
}

static double parseNum (const char* s)
{
    if (s[0] == 'x')
    {
        uint64_t u = strtoull (s + 1, 0, 16);
        double   d; memcpy (&d, &u, 8);
        return d;
    }
    const char* sl = strchr (s, '/');
    if (sl) return strtod (s, 0) / strtod (sl + 1, 0);
    return strtod (s, 0);
}
static std::string bits (double d)
{
    uint64_t u; memcpy (&u, &d, 8);
    char buf[32]; snprintf (buf, sizeof buf, "x%016llx", (unsigned long long) u);
    return buf;
}

template <class T> static void oneCase (char** a)
{
    double v[12];
    for (int i = 0; i < 12; ++i) v[i] = parseNum (a[i]);
    Box<Vec3<T>> b;
    b.min = Vec3<T> ((T) v[0], (T) v[1], (T) v[2]);
    b.max = Vec3<T> ((T) v[3], (T) v[4], (T) v[5]);
    Vec3<T> pos ((T) v[6], (T) v[7], (T) v[8]), dir ((T) v[9], (T) v[10], (T) v[11]);
    Out<T>  o = run<T> (b, pos, dir);
    printf ("I fe=%d entry=%s exit=%s is=%d ip=%s isb=%d\n", (int) o.fe, vs (o.entry).c_str (), vs (o.exit).c_str (),
            (int) o.is, vs (o.ip).c_str (), (int) o.isb);
    printf ("G fe=%d entry=(%.17g %.17g %.17g) exit=(%.17g %.17g %.17g) is=%d ip=(%.17g %.17g %.17g)\n", (int) o.fe,
            (double) o.entry.x, (double) o.entry.y, (double) o.entry.z, (double) o.exit.x, (double) o.exit.y,
            (double) o.exit.z, (int) o.is, (double) o.ip.x, (double) o.ip.y, (double) o.ip.z);
    printf ("exactinput box=%s %s %s %s %s %s pos=%s %s %s dir=%s %s %s\n", bits (b.min.x).c_str (), bits (b.min.y).c_str (),
            bits (b.min.z).c_str (), bits (b.max.x).c_str (), bits (b.max.y).c_str (), bits (b.max.z).c_str (),
            bits (pos.x).c_str (), bits (pos.y).c_str (), bits (pos.z).c_str (), bits (dir.x).c_str (),
            bits (dir.y).c_str (), bits (dir.z).c_str ());
}


// ---------------------------------------------------------------------------
// bit-pattern tie (guard sweep): results always + bit patterns of the points when the result is true,
// every NaN mapped to one canonical pattern (payload and sign of a NaN are not specified)
static inline uint64_t dbitsC (double d)
{
    if (std::isnan (d)) return 0x7ff8000000000000ull;
    uint64_t u; memcpy (&u, &d, 8); return u;
}
template <class T> static inline uint64_t mixVc (uint64_t h, const Vec3<T>& v)
{
    return mix (mix (mix (h, dbitsC ((double) v.x)), dbitsC ((double) v.y)), dbitsC ((double) v.z));
}
template <class T> static uint64_t tieBitsC (uint64_t h, const Out<T>& o)
{
    h = mixB (h, o.fe);
    if (o.fe) { h = mixVc (h, o.entry); h = mixVc (h, o.exit); }
    h = mixB (h, o.is);
    if (o.is) h = mixVc (h, o.ip);
    return mixB (h, o.isb);
}
static std::string hxs (uint64_t u) { char b[32]; snprintf (b, sizeof b, "%llx", (unsigned long long) u); return b; }
template <class T> static std::string pvc (const Vec3<T>& v)
{
    return hxs (dbitsC ((double) v.x)) + "," + hxs (dbitsC ((double) v.y)) + "," + hxs (dbitsC ((double) v.z));
}

// where a reported point lies: 0 in the closed box and on one of its faces, 1 never written (still the
// sentinel), 2 a NaN coordinate, 3 outside the box or on no face.  Exact: every assignment in the code is
// (face value, clamp, clamp), so a written point satisfies 0 exactly, also in floating point.
template <class T> static int ptCode (const Vec3<T>& p, const Box<Vec3<T>>& b, const Vec3<T>& sentinel)
{
    if (p.x == sentinel.x && p.y == sentinel.y && p.z == sentinel.z) return 1;
    if (std::isnan ((double) p.x) || std::isnan ((double) p.y) || std::isnan ((double) p.z)) return 2;
    bool in = p.x >= b.min.x && p.x <= b.max.x && p.y >= b.min.y && p.y <= b.max.y && p.z >= b.min.z && p.z <= b.max.z;
    bool face = p.x == b.min.x || p.x == b.max.x || p.y == b.min.y || p.y == b.max.y || p.z == b.min.z || p.z == b.max.z;
    return (in && face) ? 0 : 3;
}
template <class T> static int ptCodes (const Out<T>& o, const Box<Vec3<T>>& b, const Vec3<T>& pos)
{
    int c = 0;
    if (o.fe)
    {
        c += ptCode (o.entry, b, Vec3<T> (1001, 1002, 1003));
        c += 4 * ptCode (o.exit, b, Vec3<T> (2001, 2002, 2003));
    }
    if (o.is)
    {
        bool inside = pos.x >= b.min.x && pos.x <= b.max.x && pos.y >= b.min.y && pos.y <= b.max.y && pos.z >= b.min.z &&
                      pos.z <= b.max.z;
        if (inside) c += 16 * ((o.ip.x == pos.x && o.ip.y == pos.y && o.ip.z == pos.z) ? 0 : 3);
        else c += 16 * ptCode (o.ip, b, Vec3<T> (3001, 3002, 3003));
    }
    return c;
}

// ---------------------------------------------------------------------------
// float guard sweep

struct Rng
{
    uint64_t s;
    uint32_t next () { s = s * 6364136223846793005ull + 1442695040888963407ull; return (uint32_t) (s >> 33); }
    int      range (int lo, int hi) { return lo + (int) (next () % (uint32_t) (hi - lo + 1)); }
};

template <class T> static std::vector<T> posList (T lo, T hi)
{
    const T          M = std::numeric_limits<T>::max ();
    std::vector<T> c;
    bool             loInf = (lo <= -M), hiInf = (hi >= M);
    T                s     = (!loInf && !hiInf && hi > lo) ? (hi - lo) : T (1);
    T                mid   = (!loInf && !hiInf) ? (lo + hi) / 2 : (loInf && hiInf ? T (0) : (loInf ? hi - 1 : lo + 1));
    if (!loInf) c.push_back (lo - s);
    c.push_back (lo);
    c.push_back (mid);
    c.push_back (hi);
    if (!hiInf) c.push_back (hi + s);
    std::vector<T> r;
    for (T v : c)
    {
        bool dup = false;
        for (T w : r) dup = dup || (w == v);
        if (!dup) r.push_back (v);
    }
    return r;
}

template <class T> struct SweepBox
{
    std::string    name;
    Box<Vec3<T>>   b;
    std::vector<T> P[3]; // explicit origin coordinate lists (empty: derived from the box by posList)
    std::vector<T> D;    // explicit direction component list (empty: the extreme-value list of the sweep)
};

// Blocks: first the DETERMINISTIC ones (independent of the seed: the canonical witness of
// every flip class is the first flip of that class in block order, hence reproducible),
// then the seeded ones.
// lineBlock >= 0: print the per-case text of chunk lineChunk of that block instead of the block summaries
template <class T> static void sweep (uint64_t seed, bool thorough, int lineBlock = -1, int lineChunk = 0)
{
    const T M  = std::numeric_limits<T>::max ();
    const T dn = std::numeric_limits<T>::denorm_min ();
    Rng     g{seed * 0x9E3779B97F4A7C15ull + 12345};
    for (int i = 0; i < 4; ++i) g.next ();
    // -0.0 LAST (keeps the relative order, hence the canonical witnesses, of all other cases): `-0.0 >= 0` is true and
    // `-0.0 > 0`, `-0.0 < 0` are false, so it must behave exactly like +0.0 (the tie with the model executed in floating
    // point checks that; a rewrite through signbit / copysign / 1/dir would not)
    std::vector<T> Dx = {T (0), T (1), T (-1), dn, -dn, T (1e-30), T (-1e-30), T (1e30), T (-1e30), M / 2, -M / 2, -T (0)};
    std::vector<SweepBox<T>> boxes;
    auto add = [&] (const char* name, const Box<Vec3<T>>& b) { SweepBox<T> sb; sb.name = name; sb.b = b; boxes.push_back (sb); };
    // --- deterministic
    add ("fixed-ordinary", Box<Vec3<T>> (Vec3<T> (T (-1.5), 0, -4), Vec3<T> (T (-0.5), 2, 0)));
    add ("fixed-halfinfinite", Box<Vec3<T>> (Vec3<T> (2, -1, -1), Vec3<T> (M, 1, 1)));
    {
        // face - pos overflows: box far out on +x, origins far out on -x
        SweepBox<T> sb;
        sb.name = "fixed-overflow";
        sb.b    = Box<Vec3<T>> (Vec3<T> (M / 2, -1, -1), Vec3<T> (M, 1, 1));
        sb.P[0] = {-M, -M / 2};
        sb.P[1] = {T (-3), T (0)};
        sb.P[2] = {T (0)};
        boxes.push_back (sb);
    }
    add ("fixed-offcentre", Box<Vec3<T>> (Vec3<T> (1, 5, -1), Vec3<T> (2, 6, 1)));
    {
        Box<Vec3<T>> b; b.makeInfinite ();
        add ("fixed-infinite", b);
    }
    for (int sgn = 0; sgn < 2; ++sgn)
        for (int ax = 0; ax < 3; ++ax)
        {
            // the overflow block with the axes permuted and mirrored, so that `face - pos` overflows on every axis and
            // on both sides (every per-axis, per-sign copy of the guard code meets an infinite difference)
            if (sgn == 0 && ax == 0) continue; // = fixed-overflow above
            static const char* nm[2][3] = {{"", "fixed-overflow-y", "fixed-overflow-z"},
                                           {"fixed-overflow-neg-x", "fixed-overflow-neg-y", "fixed-overflow-neg-z"}};
            SweepBox<T> sb;
            sb.name = nm[sgn][ax];
            int a1 = (ax + 1) % 3, a2 = (ax + 2) % 3;
            Vec3<T> mn (-1, -1, -1), mx (1, 1, 1);
            mn[ax] = sgn ? -M : M / 2;
            mx[ax] = sgn ? -M / 2 : M;
            sb.b     = Box<Vec3<T>> (mn, mx);
            sb.P[ax] = sgn ? std::vector<T>{M, M / 2} : std::vector<T>{-M, -M / 2};
            sb.P[a1] = {T (-3), T (0)};
            sb.P[a2] = {T (0)};
            boxes.push_back (sb);
        }
    {
        // MID-RANGE magnitudes (between the 2^5 lattices and the 1e30 extremes): coordinates 1e5 .. 1e15, extents 2e5 / 2e7 / 2e9
        // (with direction ratios up to 3000:1 every pair of axes competes for the entry / exit parameter), unit-order
        // directions: no guard fails, every operation rounds heavily.  Tied bit for bit to the model executed in
        // floating point; hit/miss vs the exact oracle where robust.
        SweepBox<T> sb;
        sb.name = "fixed-mid";
        sb.b    = Box<Vec3<T>> (Vec3<T> (T (1e5), T (-3e7), T (1e15)), Vec3<T> (T (3e5), T (-1e7), T (1e15) + T (2e9)));
        sb.D    = {T (0), T (1), T (-1), T (0.3), T (-0.3), T (0.7), T (-0.7), T (3), T (-3), T (1e-3), T (-1e-3)};
        boxes.push_back (sb);
    }
    for (int side = 0; side < 2; ++side)
    {
        // origins a hair OUTSIDE a face that sits at coordinate 0 (gap denorm_min or 1e-30) with the extreme direction list: the ray
        // parameter of the first contact, gap / dir, UNDERFLOWS TO ZERO for the huge directions.  `intersects (box, ray, ip)` must still
        // write ip (its running maximum starts at -1, so t == 0 updates it); entry/exit likewise.  Tied bit for bit to the model.
        SweepBox<T> sb;
        sb.name = side ? "fixed-underflow-t-max" : "fixed-underflow-t-min";
        sb.b    = side ? Box<Vec3<T>> (Vec3<T> (-1, -1, -1), Vec3<T> (0, 0, 0)) : Box<Vec3<T>> (Vec3<T> (0, 0, 0), Vec3<T> (1, 1, 1));
        T sg    = side ? T (1) : T (-1);
        for (int a = 0; a < 3; ++a) sb.P[a] = {sg * T (1e-30), sg * dn, -sg * T (0.5)};
        boxes.push_back (sb);
    }
    // --- seeded
    {
        T hw[3] = {T (0.5), T (1), T (2)};
        Box<Vec3<T>> b;
        for (int a = 0; a < 3; ++a)
        {
            T c = (T) g.range (-2, 2), w = hw[g.range (0, 2)];
            b.min[a] = c - w; b.max[a] = c + w;
        }
        add ("seeded-ordinary", b);
    }
    {
        T a = (T) g.range (-1, 2);
        add ("seeded-halfinfinite", Box<Vec3<T>> (Vec3<T> (a, -1, -1), Vec3<T> (M, 1, 1)));
    }
    if (thorough)
    {
        T k = (T) std::ldexp (1.0, g.range (-2, 2));
        add ("seeded-offcentre", Box<Vec3<T>> (Vec3<T> (1 * k, 5 * k, -1 * k), Vec3<T> (2 * k, 6 * k, 1 * k)));
        T a = (T) g.range (-2, 2);
        add ("seeded-flat", Box<Vec3<T>> (Vec3<T> (a, -1, -2), Vec3<T> (a, 1, 3)));
        add ("fixed-huge", Box<Vec3<T>> (Vec3<T> (T (-1e30), T (-1e30), -1), Vec3<T> (T (1e30), T (2e30), 1)));
    }
    const bool isF = sizeof (T) == 4;
    for (size_t bi = 0; bi < boxes.size (); ++bi)
    {
        const Box<Vec3<T>>& b = boxes[bi].b;
        std::vector<T>      P[3];
        for (int a = 0; a < 3; ++a) P[a] = boxes[bi].P[a].empty () ? posList<T> (b.min[a], b.max[a]) : boxes[bi].P[a];
        const std::vector<T>& D = boxes[bi].D.empty () ? Dx : boxes[bi].D;
        if (lineBlock >= 0)
        {
            if ((int) bi != lineBlock) continue;
            size_t ix = (size_t) lineChunk / P[1].size (), iy = (size_t) lineChunk % P[1].size ();
            if (ix >= P[0].size ()) return;
            T   x = P[0][ix], y = P[1][iy];
            int k = 0;
            for (T z : P[2]) for (T dx : D) for (T dy : D) for (T dz : D)
            {
                Out<T> o = run<T> (b, Vec3<T> (x, y, z), Vec3<T> (dx, dy, dz));
                printf ("%d in=%s %s %s %s %s %s %s %s %s %s %s %s | I fe=%d entry=%s exit=%s is=%d ip=%s isb=%d | pts=%d\n", k++,
                        bits (b.min.x).c_str (), bits (b.min.y).c_str (), bits (b.min.z).c_str (), bits (b.max.x).c_str (),
                        bits (b.max.y).c_str (), bits (b.max.z).c_str (), bits (x).c_str (), bits (y).c_str (), bits (z).c_str (),
                        bits (dx).c_str (), bits (dy).c_str (), bits (dz).c_str (), (int) o.fe,
                        o.fe ? pvc (o.entry).c_str () : "-", o.fe ? pvc (o.exit).c_str () : "-", (int) o.is,
                        o.is ? pvc (o.ip).c_str () : "-", (int) o.isb, ptCodes (o, b, Vec3<T> (x, y, z)));
            }
            return;
        }
        printf ("T %s\n", bits ((double) M).c_str ());
        printf ("prec %d\n", isF ? 24 : 53);
        printf ("eta %s\n", isF ? "1/10000" : "1/1000000000");
        printf ("tag %s:%s\n", isF ? "float" : "double", boxes[bi].name.c_str ());
        printf ("box %s %s %s %s %s %s\n", bits (b.min.x).c_str (), bits (b.min.y).c_str (), bits (b.min.z).c_str (),
                bits (b.max.x).c_str (), bits (b.max.y).c_str (), bits (b.max.z).c_str ());
        const char* pn[3] = {"px", "py", "pz"};
        const char* dnm[3] = {"dx", "dy", "dz"};
        for (int a = 0; a < 3; ++a)
        {
            printf ("%s", pn[a]);
            for (T v : P[a]) printf (" %s", bits ((double) v).c_str ());
            printf ("\n");
        }
        for (int a = 0; a < 3; ++a)
        {
            printf ("%s", dnm[a]);
            for (T v : D) printf (" %s", bits ((double) v).c_str ());
            printf ("\n");
        }
        // the zero direction is INCLUDED (the line degenerates to the point pos)
        std::string impl, pts, tie;
        for (T x : P[0]) for (T y : P[1])
        {
            uint64_t th = 1469598103934665603ull;
            for (T z : P[2])
                for (T dx : D) for (T dy : D) for (T dz : D)
                {
                    Out<T> o = run<T> (b, Vec3<T> (x, y, z), Vec3<T> (dx, dy, dz));
                    int    c = (o.fe ? 1 : 0) + (o.is ? 2 : 0) + ((o.isb != o.is) ? 4 : 0);
                    impl.push_back ((char) ('0' + c));
                    pts.push_back ((char) ('0' + ptCodes (o, b, Vec3<T> (x, y, z))));
                    th = tieBitsC (th, o);
                }
            tie += " " + std::to_string ((unsigned long long) th);
        }
        printf ("impl %s\npts %s\ntie%s\nend\n", impl.c_str (), pts.c_str (), tie.c_str ());
    }
}

// ---------------------------------------------------------------------------
// non-dyadic direction lattice: directions in {0,+-1,+-3,+-5,+-7}^3, integer boxes and origins.
// tie = results always + BIT PATTERNS of the points when the result is true (compared with the
// model executed at Float/Float32 in the Lean driver); bools = the two results (compared with the exact oracle).

struct ND
{
    std::vector<std::vector<int>> boxes;
    int R, ox, oy, oz;
    int side () const { return 2 * R + 1; }
    int nBlocks () const { return (int) boxes.size () * side (); }
    int perBlock () const { return side () * side () * 729; }
    bool get (int blk, int ci, int v[12]) const
    {
        static const int V[9] = {0, 1, -1, 3, -3, 5, -5, 7, -7};
        int bi = blk / side (), ix = blk % side (), di = ci % 729;
        if (di == 0) return false;
        int pi = ci / 729, iy = pi / side (), iz = pi % side ();
        const std::vector<int>& b = boxes[bi];
        int o[3] = {ox, oy, oz};
        for (int k = 0; k < 6; ++k) v[k] = b[k] + o[k % 3];
        v[6] = ix - R + ox; v[7] = iy - R + oy; v[8] = iz - R + oz;
        v[9] = V[di / 81]; v[10] = V[(di / 9) % 9]; v[11] = V[di % 9];
        return true;
    }
};

static ND parseND (char** a)
{
    ND n;
    std::string s = a[0];
    size_t p = 0;
    while (p < s.size ())
    {
        size_t c = s.find (';', p);
        if (c == std::string::npos) c = s.size ();
        std::string t = s.substr (p, c - p);
        std::vector<int> b;
        size_t q = 0;
        while (q < t.size ())
        {
            size_t d = t.find (',', q);
            if (d == std::string::npos) d = t.size ();
            b.push_back (atoi (t.substr (q, d - q).c_str ()));
            q = d + 1;
        }
        n.boxes.push_back (b);
        p = c + 1;
    }
    n.R = atoi (a[1]); n.ox = atoi (a[2]); n.oy = atoi (a[3]); n.oz = atoi (a[4]);
    return n;
}

static inline uint64_t dbits (double d) { uint64_t u; memcpy (&u, &d, 8); return u; }
template <class T> static inline uint64_t mixVb (uint64_t h, const Vec3<T>& v)
{
    return mix (mix (mix (h, dbits ((double) v.x)), dbits ((double) v.y)), dbits ((double) v.z));
}
template <class T> static uint64_t tieBits (uint64_t h, const Out<T>& o)
{
    h = mixB (h, o.fe);
    if (o.fe) { h = mixVb (h, o.entry); h = mixVb (h, o.exit); }
    h = mixB (h, o.is);
    if (o.is) h = mixVb (h, o.ip);
    return mixB (h, o.isb);
}
template <class T> static Out<T> runND (const int v[12])
{
    Box<Vec3<T>> b (Vec3<T> ((T) v[0], (T) v[1], (T) v[2]), Vec3<T> ((T) v[3], (T) v[4], (T) v[5]));
    return run<T> (b, Vec3<T> ((T) v[6], (T) v[7], (T) v[8]), Vec3<T> ((T) v[9], (T) v[10], (T) v[11]));
}
struct NDSum { uint64_t tieD, tieF, boolD, boolF; long nFe, nIs; };
static void ndBlock (const ND& n, int blk, NDSum& s)
{
    s.tieD = s.tieF = s.boolD = s.boolF = 1469598103934665603ull;
    s.nFe = s.nIs = 0;
    int v[12];
    for (int ci = 0; ci < n.perBlock (); ++ci)
    {
        if (!n.get (blk, ci, v)) continue;
        Out<double> d = runND<double> (v);
        Out<float>  f = runND<float> (v);
        s.tieD  = tieBits (s.tieD, d);
        s.tieF  = tieBits (s.tieF, f);
        s.boolD = mixB (mixB (s.boolD, d.fe), d.is);
        s.boolF = mixB (mixB (s.boolF, f.fe), f.is);
        s.nFe += d.fe; s.nIs += d.is;
    }
}
static std::string hx (uint64_t u) { char b[32]; snprintf (b, sizeof b, "%llx", (unsigned long long) u); return b; }
template <class T> static std::string pvb (const Vec3<T>& v)
{
    return hx (dbits ((double) v.x)) + "," + hx (dbits ((double) v.y)) + "," + hx (dbits ((double) v.z));
}
template <class T> static void ndLines (const ND& n, int blk)
{
    int v[12];
    for (int ci = 0; ci < n.perBlock (); ++ci)
    {
        if (!n.get (blk, ci, v)) continue;
        Out<T> o = runND<T> (v);
        printf ("%d in=", ci);
        for (int k = 0; k < 12; ++k) printf ("%s%d", k ? " " : "", v[k]);
        printf (" | I fe=%d entry=%s exit=%s is=%d ip=%s isb=%d\n", (int) o.fe, o.fe ? pvb (o.entry).c_str () : "-",
                o.fe ? pvb (o.exit).c_str () : "-", (int) o.is, o.is ? pvb (o.ip).c_str () : "-", (int) o.isb);
    }
}


// ---------------------------------------------------------------------------
// guard lattice at the scalar type Small (see the top of this file and Driver/RayBox.lean `small`)
struct SmallLat
{
    std::vector<std::vector<double>> boxes;
    std::vector<double>              pv, dv;
    int  nBlocks () const { return (int) (boxes.size () * pv.size ()); }
    long perBlock () const { return (long) (pv.size () * pv.size () * dv.size () * dv.size () * dv.size ()); }
    void get (int blk, long ci, Box<Vec3<Small>>& b, Vec3<Small>& pos, Vec3<Small>& dir) const
    {
        long np = (long) pv.size (), nd = (long) dv.size ();
        const std::vector<double>& B = boxes[blk / np];
        long ix = blk % np, jz = ci % nd, jy = (ci / nd) % nd, jx = (ci / (nd * nd)) % nd, iz = (ci / (nd * nd * nd)) % np,
             iy = ci / (nd * nd * nd * np);
        b.min = Vec3<Small> (Small (B[0]), Small (B[1]), Small (B[2]));
        b.max = Vec3<Small> (Small (B[3]), Small (B[4]), Small (B[5]));
        pos   = Vec3<Small> (Small (pv[ix]), Small (pv[iy]), Small (pv[iz]));
        dir   = Vec3<Small> (Small (dv[jx]), Small (dv[jy]), Small (dv[jz]));
    }
};
static std::vector<double> parseList (const std::string& t, char sep)
{
    std::vector<double> r;
    size_t              q = 0;
    while (q < t.size ())
    {
        size_t d = t.find (sep, q);
        if (d == std::string::npos) d = t.size ();
        r.push_back (parseNum (t.substr (q, d - q).c_str ()));
        q = d + 1;
    }
    return r;
}
static SmallLat parseSmall (char** a)
{
    SmallLat n;
    g_smallT = parseNum (a[0]);
    std::string s = a[1];
    size_t      p = 0;
    while (p < s.size ())
    {
        size_t c = s.find (';', p);
        if (c == std::string::npos) c = s.size ();
        n.boxes.push_back (parseList (s.substr (p, c - p), ','));
        p = c + 1;
    }
    n.pv = parseList (a[2], ',');
    n.dv = parseList (a[3], ',');
    return n;
}

int main (int argc, char** argv)
{
    if (argc < 2) return 2;
    if (!strcmp (argv[1], "lattice") && argc >= 7)
    {
        Lat L  = parseLat (argv + 2);
        int n  = (int) L.pairs.size ();
        int lo = 0, hi = n * n * n;
        if (argc >= 9) { lo = atoi (argv[7]); hi = atoi (argv[8]); }
        std::vector<BoxSum>      res (hi - lo);
        unsigned                 nt = std::thread::hardware_concurrency ();
        if (nt == 0) nt = 4;
        std::vector<std::thread> th;
        for (unsigned t = 0; t < nt; ++t)
            th.emplace_back ([&, t] {
                for (int bi = lo + (int) t; bi < hi; bi += (int) nt)
                {
                    BoxSum& s = res[bi - lo];
                    long    a, b2;
                    boxHashes<double> (L, bi, s.fullD, s.specD, s.tieD, s.nFe, s.nIs);
                    boxHashes<float> (L, bi, s.fullF, s.specF, s.tieF, a, b2);
                }
            });
        for (auto& t : th) t.join ();
        for (int bi = lo; bi < hi; ++bi)
        {
            const BoxSum& s = res[bi - lo];
            printf ("%d %llu %llu %llu %llu %ld %ld %llu %llu\n", bi, (unsigned long long) s.fullD, (unsigned long long) s.specD,
                    (unsigned long long) s.fullF, (unsigned long long) s.specF, s.nFe, s.nIs,
                    (unsigned long long) s.tieD, (unsigned long long) s.tieF);
        }
        return 0;
    }
    if (!strcmp (argv[1], "lines") && argc >= 9)
    {
        Lat L = parseLat (argv + 2);
        if (argv[8][0] == 'f') printLines<float> (L, atoi (argv[7])); else printLines<double> (L, atoi (argv[7]));
        return 0;
    }
    if (!strcmp (argv[1], "case") && argc >= 15)
    {
        if (argv[2][0] == 'f') oneCase<float> (argv + 3); else oneCase<double> (argv + 3);
        return 0;
    }
    if (!strcmp (argv[1], "nd") && argc >= 7)
    {
        ND                       n = parseND (argv + 2);
        std::vector<NDSum>       res (n.nBlocks ());
        unsigned                 nt = std::thread::hardware_concurrency ();
        if (nt == 0) nt = 4;
        std::vector<std::thread> th;
        for (unsigned t = 0; t < nt; ++t)
            th.emplace_back ([&, t] { for (int b = (int) t; b < n.nBlocks (); b += (int) nt) ndBlock (n, b, res[b]); });
        for (auto& t : th) t.join ();
        for (int b = 0; b < n.nBlocks (); ++b)
            printf ("%d %llu %llu %llu %llu %ld %ld\n", b, (unsigned long long) res[b].tieD, (unsigned long long) res[b].tieF,
                    (unsigned long long) res[b].boolD, (unsigned long long) res[b].boolF, res[b].nFe, res[b].nIs);
        return 0;
    }
    if (!strcmp (argv[1], "ndlines") && argc >= 9)
    {
        ND n = parseND (argv + 2);
        if (argv[8][0] == 'f') ndLines<float> (n, atoi (argv[7])); else ndLines<double> (n, atoi (argv[7]));
        return 0;
    }
    if (!strcmp (argv[1], "sweep") && argc >= 5)
    {
        bool th = !strcmp (argv[4], "thorough");
        if (argv[2][0] == 'f') sweep<float> (strtoull (argv[3], 0, 10), th);
        else sweep<double> (strtoull (argv[3], 0, 10), th);
        return 0;
    }
    if (!strcmp (argv[1], "small") && argc >= 6)
    {
        SmallLat n = parseSmall (argv + 2);
        for (int blk = 0; blk < n.nBlocks (); ++blk)
        {
            uint64_t tie = 1469598103934665603ull;
            long     nFe = 0, nIs = 0, nU = 0;
            for (long ci = 0; ci < n.perBlock (); ++ci)
            {
                Box<Vec3<Small>> b;
                Vec3<Small>      pos, dir;
                n.get (blk, ci, b, pos, dir);
                Out<Small> o = run<Small> (b, pos, dir);
                tie          = mixB (specHash (tie, o), o.isb);
                nFe += o.fe; nIs += o.is;
                if (o.fe && o.entry == Vec3<Small> (1001, 1002, 1003) && o.exit == Vec3<Small> (2001, 2002, 2003)) ++nU;
            }
            printf ("%d %llu %ld %ld %ld\n", blk, (unsigned long long) tie, nFe, nIs, nU);
        }
        return 0;
    }
    if (!strcmp (argv[1], "smallcase") && argc >= 15)
    {
        g_smallT = parseNum (argv[2]);
        double v[12];
        for (int i = 0; i < 12; ++i) v[i] = parseNum (argv[3 + i]);
        Box<Vec3<Small>> b;
        b.min = Vec3<Small> (Small (v[0]), Small (v[1]), Small (v[2]));
        b.max = Vec3<Small> (Small (v[3]), Small (v[4]), Small (v[5]));
        Out<Small> o = run<Small> (b, Vec3<Small> (Small (v[6]), Small (v[7]), Small (v[8])),
                                   Vec3<Small> (Small (v[9]), Small (v[10]), Small (v[11])));
        printf ("I fe=%d entry=%s exit=%s is=%d ip=%s isb=%d\n", (int) o.fe, vs (o.entry).c_str (), vs (o.exit).c_str (),
                (int) o.is, vs (o.ip).c_str (), (int) o.isb);
        return 0;
    }
    if (!strcmp (argv[1], "smalllines") && argc >= 7)
    {
        SmallLat n   = parseSmall (argv + 2);
        int      blk = atoi (argv[6]);
        for (long ci = 0; ci < n.perBlock (); ++ci)
        {
            Box<Vec3<Small>> b;
            Vec3<Small>      pos, dir;
            n.get (blk, ci, b, pos, dir);
            Out<Small> o = run<Small> (b, pos, dir);
            printf ("%ld box=%s;%s pos=%s dir=%s | I fe=%d entry=%s exit=%s is=%d ip=%s isb=%d\n", ci, vs (b.min).c_str (),
                    vs (b.max).c_str (), vs (pos).c_str (), vs (dir).c_str (), (int) o.fe, vs (o.entry).c_str (),
                    vs (o.exit).c_str (), (int) o.is, vs (o.ip).c_str (), (int) o.isb);
        }
        return 0;
    }
    if (!strcmp (argv[1], "sweeplines") && argc >= 7)
    {
        bool th = !strcmp (argv[4], "thorough");
        if (argv[2][0] == 'f') sweep<float> (strtoull (argv[3], 0, 10), th, atoi (argv[5]), atoi (argv[6]));
        else sweep<double> (strtoull (argv[3], 0, 10), th, atoi (argv[5]), atoi (argv[6]));
        return 0;
    }
    fprintf (stderr, "usage: raybox_corr lattice|lines|case|sweep ...\n");
    return 2;
}
