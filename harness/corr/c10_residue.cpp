// C10 residue measurement (DESIGN.md §2.4): the REAL float/double quaternion / matrix / axis-angle code against
// the exact formulas evaluated in long double (64-bit significand, glibc sinl/cosl/acosl/atan2l), on structured
// inputs: unit quaternions incl. w near 0 and near +-1 with both signs, direction pairs with the angle swept
// through [0, pi] incl. pi - 10^-k and exactly opposite, slerp parameters in [0,1] and slightly outside.
// Every check has a name, a bound  c * eps * scale  (c calibrated on the clean tree at seeds 1-3, see BOUNDS),
// and the worst observed  err / (eps * scale)  is printed.  This is measurement, not proof.
//   usage: c10_residue <seed> <n>
#include <ImathVec.h>
#include <ImathMatrix.h>
#include <ImathMatrixAlgo.h>
#include <ImathQuat.h>
#include <cstdio>
#include <cstdlib>
#include <cmath>
#include <algorithm>
#include <map>
#include <random>
#include <string>
#include <vector>
using namespace IMATH_NAMESPACE;
typedef long double L;
static std::mt19937_64 rng;
static const L PI = 3.14159265358979323846264338327950288L;

struct Stat { double worst = 0; long n = 0; double bound = 0; std::string worstIn; };
static std::map<std::string, Stat> stats;
static std::map<std::string, long>  hits;
static long evals = 0;
static int  failures = 0;

// bounds c (in units of eps * scale); clean-tree maxima at seeds 1-3 are recorded next to each
static double boundOf (const std::string& what)
{
    static const std::map<std::string, double> B = {
        {"rotate-forms-agree", 16},       // rotateVector, v*q, v*M33, v*M44, multDirMatrix vs exact R(q)v, scale |v|
        {"matrix-of-product", 16},        // toMatrix33(q1*q2) vs toMatrix33(q2)*toMatrix33(q1)
        {"mul-inverse-identity", 8},      // q * q.inverse() vs 1
        {"alias-product", 8},             // q *= q, q = q * q, q *= ~q vs the exact products of the ORIGINAL value, scale |q|^2
        {"alias-quotient", 8},            // q /= q, q = q / q, q *= q.inverse () vs 1
        {"alias-vector-part", 16},        // q.v = q.rotateVector (q.v) (the axis is invariant), q.setAxisAngle (q.v, a) for unit q
        {"orthonormal", 16},              // M M^T - I, det - 1
        {"extractQuat", 16},              // extractQuat(toMatrix44 q) = +-q
        {"axis-angle-roundtrip", 16},     // setAxisAngle(axis(), angle()) = q
        {"setAxisAngle-quat-vs-matrix", 16},
        {"setAxisAngle-exact", 16},       // Quat / Matrix44::setAxisAngle vs Rodrigues with the axis normalised in long double (incl. tiny axes whose length2 underflows)
        {"exp-log", 16},                  // exp(log q) = q for every real part > -1 + 64 eps; scale 1/sin(theta) + (| |q|^2 - 1 | / eps) theta / (2 sin^2(theta)) for r < 0
        {"exp-log-closed-form", 16},      // the code vs an independent closed form of exp o log at the float input (long double); scale 1/sin(theta) for r < 0
        {"setRotation-unit", 8},          // | |q| - 1 |
        {"setRotation-carries", 16},      // rotateVector(q, from^) vs to^
        {"rotationMatrix-carries", 16},   // from^ * rotationMatrix vs to^
        {"setRotation-opposite-lattice", 16}, // to = -m * from on the integer lattice (exactly opposite): unit and carried
        {"setRotation-axis", 8},          // axis stays orthogonal to from and to (angle not within 1e-3 of 0 or pi)
        {"setRotation-path-decision", 0}, // the path taken is the one the documented guard |f0+t0|^2 > (8 eps)^2 prescribes (err 0 or inf)
        {"setRotation-guard-sweep", 16},  // |f0+t0| in {4,7.x,8.x,16} eps: unit and carried
        {"slerp-unit", 8},
        {"slerp-near-antipodal", 8},      // theta = pi - 1e-7..1e-15 and q2 = -q1 bitwise: result finite and unit (nothing else is required there)
        {"slerp-angle-linear", 16},       // |angle(q1, slerp(t)) - |t| theta| (scale 1/(pi - theta) beyond 90 degrees)
        {"slerp-in-plane", 8},            // component of slerp(t) orthogonal to span(q1,q2)
        {"slerp-endpoints", 8},
        {"slerpShortestArc-angle", 8},    // angle(q1, r(t)) = t * theta', theta' <= pi/2
        {"squad-keys", 8},
        {"spline-keys", 8},
        {"spline-tangent", 1},            // Richardson-extrapolated one-sided differences at the joint (two step sizes); scale = tol * speed, tol = 5e-9 (double) / 3e-2 (float)
    };
    auto it = B.find (what);
    return it == B.end () ? 0 : it->second;
}

// a failing line carries a stable key (class of input, not the input itself): "<check>:<type>" unless given
template <class T> static void check (const std::string& what0, L err, L scale, const std::string& in, const std::string& key = "")
{
    std::string what = what0 + (sizeof (T) == 4 ? ":float" : ":double");
    ++evals;
    L eps = (L) std::numeric_limits<T>::epsilon ();
    double c = boundOf (what0);
    double ratio = (double) (err / (eps * scale));
    Stat& s = stats[what];
    s.bound = c;
    ++s.n;
    if (!(ratio <= s.worst)) { s.worst = ratio; s.worstIn = in; } // NaN-propagating
    if (!(ratio <= c))
    {
        ++failures;
        static std::map<std::string, int> printed;
        if (++printed[what + (key.empty () ? what0 : key)] <= 6) printf ("RESIDUE-FAIL %s key=%s err/(eps*scale)=%.4g > %g in=%s\n", what.c_str (), (key.empty () ? what0 : key).c_str (), ratio, c, in.c_str ());
    }
}

struct LQ { L r, x, y, z; };
static L   ndot (const LQ& a, const LQ& b) { return a.r * b.r + a.x * b.x + a.y * b.y + a.z * b.z; }
static LQ  lnorm (LQ a) { L l = sqrtl (ndot (a, a)); return LQ{a.r / l, a.x / l, a.y / l, a.z / l}; }
static LQ  lmul (const LQ& a, const LQ& b)
{
    return LQ{a.r * b.r - (a.x * b.x + a.y * b.y + a.z * b.z), a.r * b.x + b.r * a.x + (a.y * b.z - a.z * b.y),
              a.r * b.y + b.r * a.y + (a.z * b.x - a.x * b.z), a.r * b.z + b.r * a.z + (a.x * b.y - a.y * b.x)};
}
template <class T> static LQ toL (const Quat<T>& q) { return LQ{(L) q.r, (L) q.v.x, (L) q.v.y, (L) q.v.z}; }
static L lang (const LQ& a, const LQ& b) // 4-D angle, well conditioned everywhere
{
    LQ d{a.r - b.r, a.x - b.x, a.y - b.y, a.z - b.z}, s{a.r + b.r, a.x + b.x, a.y + b.y, a.z + b.z};
    return 2 * atan2l (sqrtl (ndot (d, d)), sqrtl (ndot (s, s)));
}
struct LV { L x, y, z; };
static LV lrot (const LQ& q, const LV& v) // exact rotation by the unit quaternion q: q v ~q
{
    LQ p = lmul (lmul (q, LQ{0, v.x, v.y, v.z}), LQ{q.r, -q.x, -q.y, -q.z});
    return LV{p.x, p.y, p.z};
}
static L vlen (const LV& a) { return sqrtl (a.x * a.x + a.y * a.y + a.z * a.z); }
static LV vnorm (const LV& a) { L l = vlen (a); return LV{a.x / l, a.y / l, a.z / l}; }
static L vdist (const LV& a, const LV& b) { return vlen (LV{a.x - b.x, a.y - b.y, a.z - b.z}); }
template <class T> static LV toLV (const Vec3<T>& v) { return LV{(L) v.x, (L) v.y, (L) v.z}; }

static L gauss () { static std::normal_distribution<double> N (0, 1); return (L) N (rng); }
static L uni (L a, L b) { std::uniform_real_distribution<double> U (0, 1); return a + (b - a) * (L) U (rng); }
static LV randDir () { for (;;) { LV v{gauss (), gauss (), gauss ()}; if (vlen (v) > 1e-3L) return vnorm (v); } }

// unit quaternion classes (rounded to T and re-normalised in long double before rounding, so |q|^2 = 1 + O(eps))
template <class T> static Quat<T> unitQuat (int cls, std::string& name)
{
    LQ q;
    int k = (int) (rng () % 12) + 1;
    L tiny = powl (10.0L, -(L) k);
    L sg = (rng () & 1) ? 1 : -1;
    LV d = randDir ();
    switch (cls % 7)
    {
        case 0: name = "uniform"; q = LQ{gauss (), gauss (), gauss (), gauss ()}; break;
        case 1: name = "w-near-0"; q = LQ{sg * tiny, d.x, d.y, d.z}; break;
        case 2: name = "w-exactly-0"; q = LQ{0, d.x, d.y, d.z}; break;
        case 3: name = "w-near-+1"; q = LQ{1, d.x * tiny, d.y * tiny, d.z * tiny}; break;
        case 4: name = "w-near--1"; q = LQ{-1, d.x * tiny, d.y * tiny, d.z * tiny}; break;
        case 5: name = "axis-aligned"; { L a = uni (-PI, PI); int ax = (int) (rng () % 3); q = LQ{cosl (a), ax == 0 ? sinl (a) : 0, ax == 1 ? sinl (a) : 0, ax == 2 ? sinl (a) : 0}; } break;
        default: name = "identity-or-minus-identity"; q = LQ{sg, 0, 0, 0}; break;
    }
    q = lnorm (q);
    return Quat<T> ((T) q.r, (T) q.x, (T) q.y, (T) q.z);
}
template <class T> static std::string showQ (const Quat<T>& q)
{
    char b[200]; snprintf (b, 200, "(%.17g %.17g %.17g %.17g)", (double) q.r, (double) q.v.x, (double) q.v.y, (double) q.v.z); return b;
}
template <class T> static std::string showV (const Vec3<T>& v)
{
    char b[200]; snprintf (b, 200, "(%.17g %.17g %.17g)", (double) v.x, (double) v.y, (double) v.z); return b;
}
static L qdistpm (const LQ& a, const LQ& b) // min(|a-b|, |a+b|)
{
    LQ d{a.r - b.r, a.x - b.x, a.y - b.y, a.z - b.z}, s{a.r + b.r, a.x + b.x, a.y + b.y, a.z + b.z};
    return std::min (sqrtl (ndot (d, d)), sqrtl (ndot (s, s)));
}
static L qdist (const LQ& a, const LQ& b) { LQ d{a.r - b.r, a.x - b.x, a.y - b.y, a.z - b.z}; return sqrtl (ndot (d, d)); }

//--------------------------------------------------------------------------------------------------
template <class T> static void unitQuatChecks (int i)
{
    std::string cls;
    Quat<T> q = unitQuat<T> (i, cls);
    hits["quat-class:" + cls]++;
    LQ ql = lnorm (toL (q));
    std::string in = cls + " q=" + showQ (q);
    // --- rotating a vector, five ways
    {
        L sc = powl (10.0L, (L) ((long) (rng () % 7) - 3));
        Vec3<T> v ((T) (gauss () * sc), (T) (gauss () * sc), (T) (gauss () * sc));
        LV ex = lrot (ql, toLV (v));
        L  vl = vlen (toLV (v)) + (L) std::numeric_limits<T>::min ();
        Vec3<T> a = q.rotateVector (v), b = v * q, c = v * q.toMatrix33 (), d = v * q.toMatrix44 (), e;
        q.toMatrix44 ().multDirMatrix (v, e);
        std::string in2 = in + " v=" + showV (v);
        L err = std::max ({vdist (toLV (a), ex), vdist (toLV (b), ex), vdist (toLV (c), ex), vdist (toLV (d), ex), vdist (toLV (e), ex)});
        check<T> ("rotate-forms-agree", err, vl, in2);
    }
    // --- matrix of a product
    {
        std::string c2;
        Quat<T> p = unitQuat<T> ((int) (rng () % 7), c2);
        Matrix33<T> A = (q * p).toMatrix33 (), B = p.toMatrix33 () * q.toMatrix33 ();
        L err = 0;
        for (int r = 0; r < 3; ++r) for (int c = 0; c < 3; ++c) err = std::max (err, fabsl ((L) A[r][c] - (L) B[r][c]));
        check<T> ("matrix-of-product", err, 1, in + " p=" + showQ (p));
    }
    // --- orthonormal, det +1
    {
        Matrix33<T> M = q.toMatrix33 ();
        L err = 0;
        for (int r = 0; r < 3; ++r) for (int c = 0; c < 3; ++c)
        {
            L s = 0; for (int k = 0; k < 3; ++k) s += (L) M[r][k] * (L) M[c][k];
            err = std::max (err, fabsl (s - (r == c ? 1 : 0)));
        }
        L det = (L) M[0][0] * ((L) M[1][1] * M[2][2] - (L) M[1][2] * M[2][1]) - (L) M[0][1] * ((L) M[1][0] * M[2][2] - (L) M[1][2] * M[2][0]) +
                (L) M[0][2] * ((L) M[1][0] * M[2][1] - (L) M[1][1] * M[2][0]);
        err = std::max (err, fabsl (det - 1));
        check<T> ("orthonormal", err, 1, in);
    }
    // --- extractQuat (toMatrix44 q) = +-q ; branch hit counts
    {
        Matrix44<T> M = q.toMatrix44 ();
        T tr = M[0][0] + M[1][1] + M[2][2];
        int br = 0;
        if (!(tr > 0)) { br = 1; if (M[1][1] > M[0][0]) br = 2; if (M[2][2] > M[br - 1][br - 1]) br = 3; }
        static const char* names[] = {"trace>0", "largest[0][0]", "largest[1][1]", "largest[2][2]"};
        hits[std::string ("extractQuat-branch:") + names[br]]++;
        Quat<T> e = extractQuat (M);
        check<T> ("extractQuat", qdistpm (toL (e), toL (q)), 1, in);
    }
    // --- setAxisAngle (axis (), angle ()) reproduces q
    {
        Quat<T> r;
        r.setAxisAngle (q.axis (), q.angle ());
        check<T> ("axis-angle-roundtrip", qdistpm (toL (r), toL (q)), 1, in);
    }
    // --- aliasing through the vector part: q.v = q.rotateVector (q.v) leaves the axis where it is; q.setAxisAngle (q.v, a) reads q.v
    //     through a reference while q is being written
    {
        Quat<T> g = q; g.v = g.rotateVector (g.v);
        L e1 = vdist (toLV (g.v), LV{ql.x, ql.y, ql.z});
        L ang = uni (-PI, PI);
        T a = (T) ang;
        Quat<T> h = q; h.setAxisAngle (h.v, a);
        L vl = sqrtl (ql.x * ql.x + ql.y * ql.y + ql.z * ql.z), e2 = 0;
        if ((L) q.v.length2 () > 1e-6L)
        {
            LQ ex{cosl ((L) a / 2), ql.x / vl * sinl ((L) a / 2), ql.y / vl * sinl ((L) a / 2), ql.z / vl * sinl ((L) a / 2)};
            e2 = qdist (toL (h), ex);
            hits["alias-class:q.setAxisAngle(q.v,a),q.v=q.rotateVector(q.v)"]++;
        }
        L e = std::max (e1, e2);
        check<T> ("alias-vector-part", e == e ? e : (L) INFINITY, 1, in, "alias:Quat-vector-part");
    }
    // --- exp (log q) = q unless the real part is close to -1  ("close" = within 64 eps of -1; there only NaN-freeness)
    {
        Quat<T> lg = q.log ();
        Quat<T> e = lg.exp ();
        bool nan = !(e.r == e.r && e.v.x == e.v.x && e.v.y == e.v.y && e.v.z == e.v.z);
        L eps = (L) std::numeric_limits<T>::epsilon ();
        // branch hits of log / exp (mirrors of the code's own tests)
        {
            T theta = std::acos (std::min (q.r, (T) 1.0));
            if (theta == 0) hits["log-branch:theta==0"]++;
            else
            {
                T st = std::sin (theta);
                if (std::abs (st) < 1 && std::abs (theta) >= std::numeric_limits<T>::max () * std::abs (st)) hits["log-branch:guard(k=1)"]++;
                else hits["log-branch:theta/sin(theta)"]++;
            }
            T th2 = lg.v.length (), s2 = std::sin (th2);
            if (std::abs (th2) < 1 && std::abs (s2) >= std::numeric_limits<T>::max () * std::abs (th2)) hits["exp-branch:guard(k=1,theta==0)"]++;
            else hits["exp-branch:sin(theta)/theta"]++;
        }
        if ((L) q.r > -1 + 64 * eps)
        {
            // (a) the identity itself, exp (log q) = q.  Conditioning for r < 0 (first order, theta = acos r, |q|^2 = 1 + delta):
            //     acos contributes eps / sin(theta) to theta; the float input is unit only up to delta = O(eps), and |v| = sin(theta) sqrt (1 +
            //     delta / sin^2) enters log's factor theta / sin(acos r) as delta theta / (2 sin^2(theta)) on the angle.  So the scale is
            //     1 / sin(theta) + (|delta| / eps) * theta / (2 sin^2(theta)), with delta measured on the input (long double): the second
            //     term is a property of the INPUT (it vanishes for an exactly unit q), not slack for the code.
            // (b) an INDEPENDENT closed form of exp o log at the same input, not a transcription of the code's steps: the result of the two
            //     functions composed is (cos phi, v/|v| sin phi) with phi = |v| acos (r) / sqrt ((1 - r)(1 + r))  (sqrt (1 - r^2) computed
            //     without cancellation instead of sin (acos r); 1 + r is exact in long double for float and double r); scale 1 / sin(theta).
            L rr = (L) q.r, vx = (L) q.v.x, vy = (L) q.v.y, vz = (L) q.v.z;
            L vl = sqrtl (vx * vx + vy * vy + vz * vz);
            L thc = acosl (std::min (rr, (L) 1));
            L sn = rr >= 1 ? 0 : sqrtl ((1 - rr) * (1 + rr)); // = sin (acos r), no cancellation
            LQ ref;
            if (thc == 0 || vl == 0) ref = LQ{cosl (vl), vl == 0 ? 0 : vx / vl * sinl (vl), vl == 0 ? 0 : vy / vl * sinl (vl), vl == 0 ? 0 : vz / vl * sinl (vl)};
            else { L phi = vl * thc / sn; ref = LQ{cosl (phi), vx / vl * sinl (phi), vy / vl * sinl (phi), vz / vl * sinl (phi)}; }
            L delta = fabsl (rr * rr + vl * vl - 1);
            bool neg = rr < 0 && sn > 0;
            L sc1 = neg ? 1 / sn : 1;
            L sc2 = neg ? 1 / sn + (delta / eps) * thc / (2 * sn * sn) : 1 + delta / eps;
            if (rr < -0.9L) hits["exp-log:real-part-in(-1+64eps,-0.9)"]++;
            if (rr < -0.999L) hits["exp-log:real-part-in(-1+64eps,-0.999)"]++;
            check<T> ("exp-log-closed-form", nan ? (L) INFINITY : qdist (toL (e), ref), sc1, in);
            check<T> ("exp-log", nan ? (L) INFINITY : qdist (toL (e), toL (q)), sc2, in);
        }
        else { hits["exp-log:real-part-within-64eps-of--1 (only NaN-freeness required)"]++; if (nan) check<T> ("exp-log", (L) INFINITY, 1, in + " NaN"); }
    }
}

template <class T> static void generalQuatChecks ()
{
    // q * inverse(q) = 1 for non-unit q of any magnitude; ~q conjugates exactly
    L sc = powl (10.0L, (L) ((long) (rng () % 9) - 4));
    Quat<T> q ((T) (gauss () * sc), (T) (gauss () * sc), (T) (gauss () * sc), (T) (gauss () * sc));
    if ((q ^ q) == 0) return;
    Quat<T> a = q * q.inverse (), b = q.inverse () * q, c = q; c.invert ();
    L err = std::max (qdist (toL (a), LQ{1, 0, 0, 0}), qdist (toL (b), LQ{1, 0, 0, 0}));
    if (!(c == q.inverse ())) err = INFINITY;
    Quat<T> cj = ~q;
    if (!(cj.r == q.r && cj.v.x == -q.v.x && cj.v.y == -q.v.y && cj.v.z == -q.v.z)) err = INFINITY;
    check<T> ("mul-inverse-identity", err, 1, "q=" + showQ (q));
    // --- aliasing: the same object on both sides of the compound operators (a member that reads an operand after overwriting it
    //     is identical for distinct operands and wrong here)
    {
        LQ ql = toL (q);
        L n2 = ndot (ql, ql);
        LQ ex = lmul (ql, ql);
        Quat<T> a1 = q; a1 *= a1;
        Quat<T> a2 = q; a2 = a2 * a2;
        Quat<T> a3 = q; a3 *= ~a3;
        L e = std::max ({qdist (toL (a1), ex), qdist (toL (a2), ex), qdist (toL (a3), LQ{n2, 0, 0, 0})});
        check<T> ("alias-product", e == e ? e : (L) INFINITY, n2, "q=" + showQ (q), "alias:Quat::operator*=(self)");
        Quat<T> d1 = q; d1 /= d1;
        Quat<T> d2 = q; d2 = d2 / d2;
        Quat<T> d3 = q; d3 *= d3.inverse ();
        L e2 = std::max ({qdist (toL (d1), LQ{1, 0, 0, 0}), qdist (toL (d2), LQ{1, 0, 0, 0}), qdist (toL (d3), LQ{1, 0, 0, 0})});
        check<T> ("alias-quotient", e2 == e2 ? e2 : (L) INFINITY, 1, "q=" + showQ (q), "alias:Quat::operator/=(self)");
        hits["alias-class:q*=q,q=q*q,q*=~q,q/=q,q=q/q,q*=q.inverse()"]++;
    }
}

template <class T> static void axisAngleChecks (int i)
{
    // axis magnitude classes: ordinary (1e-3 .. 1e3) and TINY (length2 () underflows: Vec3::length () must take its lengthTiny path;
    // `axis / sqrt (axis.length2 ())` would divide by zero there)
    bool isF = sizeof (T) == 4;
    bool tinyAxis = (i % 4 == 3);
    // float 1e-20 .. 1e-36, double 1e-155 .. 1e-304: the squares underflow (to 0 or to a subnormal), the length itself is a NORMAL number.
    // (Subnormal axes are not generated: there Vec3::normalized () divides by a subnormal length of a few bits and is inaccurate by
    // construction -- that is C08's subject, not the axis-angle consistency.)
    L sc = tinyAxis ? powl (10.0L, isF ? -(L) (20 + (long) (rng () % 17)) : -(L) (155 + (long) (rng () % 150))) 
                    : powl (10.0L, (L) ((long) (rng () % 7) - 3));
    LV d = randDir ();
    Vec3<T> axis ((T) (d.x * sc), (T) (d.y * sc), (T) (d.z * sc));
    if (axis.x == 0 && axis.y == 0 && axis.z == 0) return;
    bool under = axis.length2 () < 2 * std::numeric_limits<T>::min ();
    hits[under ? "axis-class:tiny(length2-underflows)" : (tinyAxis ? "axis-class:small" : "axis-class:ordinary")]++;
    int k = (int) (rng () % 4);
    L ang = k == 0 ? uni (-2 * PI, 2 * PI) : k == 1 ? powl (10.0L, -(L) (rng () % 10)) : k == 2 ? PI - powl (10.0L, -(L) (rng () % 10)) : uni (-PI, PI);
    T a = (T) ang;
    Quat<T> q; q.setAxisAngle (axis, a);
    Matrix44<T> A = q.toMatrix44 (), B; B.setAxisAngle (axis, a);
    L err = 0;
    for (int r = 0; r < 4; ++r) for (int c = 0; c < 4; ++c) { L e = fabsl ((L) A[r][c] - (L) B[r][c]); err = (e == e) ? std::max (err, e) : (L) INFINITY; }
    char b[64]; snprintf (b, 64, " angle=%.17g", (double) a);
    std::string in = std::string (under ? "tiny-axis " : "") + "axis=" + showV (axis) + b;
    std::string key = under ? "setAxisAngle:tiny-axis" : "";
    check<T> ("setAxisAngle-quat-vs-matrix", err, 1, in, key);
    // each against the exact rotation about the axis normalised in long double (scaled first: the squares of a tiny axis underflow in L too)
    {
        L m = std::max ({fabsl ((L) axis.x), fabsl ((L) axis.y), fabsl ((L) axis.z)});
        LV n = vnorm (LV{(L) axis.x / m, (L) axis.y / m, (L) axis.z / m});
        L al = (L) a, s = sinl (al), c = cosl (al);
        L R[3][3] = {{n.x * n.x * (1 - c) + c, n.x * n.y * (1 - c) + n.z * s, n.x * n.z * (1 - c) - n.y * s},
                     {n.x * n.y * (1 - c) - n.z * s, n.y * n.y * (1 - c) + c, n.y * n.z * (1 - c) + n.x * s},
                     {n.x * n.z * (1 - c) + n.y * s, n.y * n.z * (1 - c) - n.x * s, n.z * n.z * (1 - c) + c}};
        L e1 = 0;
        for (int r = 0; r < 3; ++r) for (int cc = 0; cc < 3; ++cc) { L e = fabsl ((L) B[r][cc] - R[r][cc]); e1 = (e == e) ? std::max (e1, e) : (L) INFINITY; }
        LQ qe{cosl (al / 2), n.x * sinl (al / 2), n.y * sinl (al / 2), n.z * sinl (al / 2)};
        L e2 = qdist (toL (q), qe);
        if (!(e2 == e2)) e2 = INFINITY;
        check<T> ("setAxisAngle-exact", std::max (e1, e2), 1, in, key);
    }
}

// ---- the path setRotation takes, from the code's own arithmetic and its documented guard
//   0: f0.t0 >= 0 (one step)   1: split at the halfway vector (|f0+t0|^2 > (8 eps)^2)
//   2: fallback because f0 + t0 == 0 exactly   3: fallback by the threshold with f0 + t0 != 0   4: split guard passed but normalized () == 0
template <class T> static int classifyPath (const Vec3<T>& from, const Vec3<T>& to, T* h2out = nullptr)
{
    Vec3<T> f0 = from.normalized (), t0 = to.normalized ();
    if ((f0 ^ t0) >= 0) return 0;
    Vec3<T> h0 = f0 + t0;
    const T tiny = T (8) * std::numeric_limits<T>::epsilon ();
    T h2 = h0 ^ h0;
    if (h2out) *h2out = h2;
    if (h2 > tiny * tiny) { Vec3<T> hn = h0.normalized (); return (hn ^ hn) != 0 ? 1 : 4; }
    return h2 == 0 ? 2 : 3;
}
static const char* pathName (int p)
{
    static const char* n[] = {"<=90", "split-at-halfway", "fallback:h0-exactly-zero", "fallback:threshold(h0!=0)", "fallback:normalized-h0-is-zero"};
    return n[p];
}
// the fallback result is r = 0, v = (f0 % e_k).normalized (): recomputed here bit for bit.  If the guard says "fallback" the
// code's result must be exactly that; if it says "split" the result must NOT have the fallback's form (r == 0 exactly and an
// exactly-zero component of v: the split product has r ~ |f0+t0| / 2 and a generic axis).
template <class T> static void checkDecision (const Vec3<T>& from, const Vec3<T>& to, const Quat<T>& q, int path, const std::string& in)
{
    if (path == 0) return;
    Vec3<T> f0 = from.normalized ();
    Vec3<T> f02 = f0 * f0, v;
    if (f02.x <= f02.y && f02.x <= f02.z) v = (f0 % Vec3<T> (1, 0, 0)).normalized ();
    else if (f02.y <= f02.z) v = (f0 % Vec3<T> (0, 1, 0)).normalized ();
    else v = (f0 % Vec3<T> (0, 0, 1)).normalized ();
    bool isFallbackResult = q.r == 0 && q.v.x == v.x && q.v.y == v.y && q.v.z == v.z;
    bool wantFallback = path >= 2;
    std::string key = std::string ("setRotation:path-decision:") + (wantFallback ? "guard-says-fallback" : "guard-says-split");
    check<T> ("setRotation-path-decision", isFallbackResult == wantFallback ? (L) 0 : (L) INFINITY, 1,
              in + " guard-path=" + pathName (path) + (isFallbackResult ? " result=fallback-form" : " result=not-fallback-form"), key);
}

// guard sweep: pairs whose |f0 + t0| (in the code's own arithmetic) lies just below / just above the threshold 8 eps, and at 4 / 16 eps
template <class T> static void guardSweep (int n)
{
    L eps = (L) std::numeric_limits<T>::epsilon ();
    static const L targets[] = {4, 7.5L, 8.5L, 16};
    for (int it = 0; it < n; ++it)
    {
        LV f = randDir (), g = randDir ();
        LV p{f.y * g.z - f.z * g.y, f.z * g.x - f.x * g.z, f.x * g.y - f.y * g.x};
        if (vlen (p) < 1e-3L) continue;
        p = vnorm (p);
        L m = targets[it % 4] + uni (-0.4L, 0.4L), dl = m * eps;       // |f0 + t0| = 2 sin (dl / 2) ~ dl
        L s2 = powl (2.0L, (L) ((long) (rng () % 5) - 2));
        Vec3<T> from ((T) f.x, (T) f.y, (T) f.z);
        Vec3<T> to ((T) ((-f.x * cosl (dl) + p.x * sinl (dl)) * s2), (T) ((-f.y * cosl (dl) + p.y * sinl (dl)) * s2), (T) ((-f.z * cosl (dl) + p.z * sinl (dl)) * s2));
        T h2 = 0;
        int path = classifyPath<T> (from, to, &h2);
        if (path == 0) continue;
        L hm = sqrtl ((L) h2) / eps; // |f0 + t0| / eps as the code sees it
        const char* bucket = hm == 0 ? "0" : hm <= 6 ? "(0,6]eps" : hm <= 8 ? "(6,8]eps:just-below" : hm <= 10 ? "(8,10]eps:just-above" : hm <= 24 ? "(10,24]eps" : ">24eps";
        hits[std::string ("guard-sweep:") + bucket + ":" + pathName (path)]++;
        Quat<T> q; q.setRotation (from, to);
        char b[96]; snprintf (b, 96, "guard-sweep |f0+t0|=%.4g eps ", (double) hm);
        std::string in = std::string (b) + "from=" + showV (from) + " to=" + showV (to);
        checkDecision<T> (from, to, q, path, in);
        LQ ql = toL (q);
        L n2 = ndot (ql, ql);
        LV fh = vnorm (toLV (from)), thh = vnorm (toLV (to));
        L err = !(n2 == n2) || n2 == 0 ? (L) INFINITY : std::max (fabsl (sqrtl (n2) - 1), vdist (lrot (lnorm (ql), fh), thh));
        check<T> ("setRotation-guard-sweep", err, 1, in, "setRotation:guard-sweep");
    }
}

//--------------------------------------------------------------------------------------------------
template <class T> static void setRotationChecks (int i)
{
    // from = scale * f ; to = scale' * (f cos th + p sin th), p _|_ f ; angle classes
    LV f = randDir (), g = randDir ();
    LV p{f.y * g.z - f.z * g.y, f.z * g.x - f.x * g.z, f.x * g.y - f.y * g.x};
    if (vlen (p) < 1e-3L) return;
    p = vnorm (p);
    int cls = i % 9;
    int k = (int) (rng () % 14) + 1;
    L tiny = powl (10.0L, -(L) k), th;
    const char* cn;
    switch (cls)
    {
        case 0: th = 0; cn = "angle=0"; break;
        case 1: th = tiny; cn = "angle=1e-k"; break;
        case 2: th = uni (0, PI / 2); cn = "angle<90"; break;
        case 3: th = PI / 2 - tiny; cn = "angle=90-1e-k"; break;
        case 4: th = PI / 2 + tiny; cn = "angle=90+1e-k"; break;
        case 5: th = uni (PI / 2, PI); cn = "angle>90"; break;
        case 6: th = PI - tiny; cn = "angle=180-1e-k"; break;
        case 7: th = PI; cn = "angle=180(rounded)"; break;
        default: th = -1; cn = "exactly-opposite"; break;
    }
    L s1 = powl (10.0L, (L) ((long) (rng () % 7) - 3)), s2 = powl (10.0L, (L) ((long) (rng () % 7) - 3));
    Vec3<T> from ((T) (f.x * s1), (T) (f.y * s1), (T) (f.z * s1)), to;
    if (th < 0)
    {
        T m = (T) - (1 + (double) (rng () % 4)); // exact multiples: to = -m * from, m in {1,2,3,4} (exact in binary)
        to = from * m;
    }
    else
        to = Vec3<T> ((T) ((f.x * cosl (th) + p.x * sinl (th)) * s2), (T) ((f.y * cosl (th) + p.y * sinl (th)) * s2), (T) ((f.z * cosl (th) + p.z * sinl (th)) * s2));
    if (from.length2 () == 0 || to.length2 () == 0) return;
    hits[std::string ("direction-pair:") + cn]++;
    LV fh = vnorm (toLV (from)), thh = vnorm (toLV (to));
    // which path does the code take: recomputed here with the same operations and the documented guard of setRotation
    // (ImathQuat.h: h0 = f0 + t0; tiny = 8 eps; (h0 ^ h0) > tiny * tiny ? split : fallback)
    int path = classifyPath<T> (from, to);
    hits[std::string ("setRotation-path:") + pathName (path)]++;
    Quat<T> q; q.setRotation (from, to);
    std::string in = std::string (cn) + " from=" + showV (from) + " to=" + showV (to);
    checkDecision<T> (from, to, q, path, in);
    LQ ql = toL (q);
    bool nan = !(ndot (ql, ql) == ndot (ql, ql));
    // the actual angle between the (rounded) inputs; "antipodal within rounding": pi - angle < 64 eps
    L actual = 2 * atan2l (vdist (fh, thh), vlen (LV{fh.x + thh.x, fh.y + thh.y, fh.z + thh.z}));
    bool antip = PI - actual < 64 * (L) std::numeric_limits<T>::epsilon ();
    if (antip) hits["direction-pair:antipodal-within-64-eps"]++;
    std::string key = antip ? "setRotation:opposite-within-rounding" : "";
    check<T> ("setRotation-unit", nan ? (L) INFINITY : fabsl (sqrtl (ndot (ql, ql)) - 1), 1, in, key);
    if (nan || ndot (ql, ql) == 0) return;
    LQ qn = lnorm (ql);
    check<T> ("setRotation-carries", vdist (lrot (qn, fh), thh), 1, in, key);
    Matrix44<T> M = rotationMatrix (from, to);
    Vec3<T> fT ((T) fh.x, (T) fh.y, (T) fh.z), r;
    M.multDirMatrix (fT, r);
    check<T> ("rotationMatrix-carries", vdist (toLV (r), thh), 1, in, key);
    // axis orthogonal to both directions (where the axis is well defined)
    if (actual > 1e-3L && actual < PI - 1e-3L)
    {
        LV ax = vnorm (LV{qn.x, qn.y, qn.z});
        L e = std::max (fabsl (ax.x * fh.x + ax.y * fh.y + ax.z * fh.z), fabsl (ax.x * thh.x + ax.y * thh.y + ax.z * thh.z));
        check<T> ("setRotation-axis", e, 1 / sinl (actual), in);
    }
}

// deterministic: exactly opposite vectors on the integer lattice, to = -m * from (exact in T), m = 1..13
template <class T> static void oppositeLattice ()
{
    for (int a = 0; a <= 6; ++a) for (int b = 0; b <= 6; ++b) for (int c = 0; c <= 6; ++c)
    {
        if (!a && !b && !c) continue;
        for (int m = 1; m <= 13; ++m)
        {
            Vec3<T> from ((T) a, (T) b, (T) c), to = from * (T) -m;
            Quat<T> q; q.setRotation (from, to);
            {
                int path = classifyPath<T> (from, to);
                hits[std::string ("opposite-lattice-path:") + pathName (path)]++;
                checkDecision<T> (from, to, q, path, "lattice from=" + showV (from) + " to=" + showV (to));
            }
            LV fh = vnorm (toLV (from)), thh = vnorm (toLV (to));
            LQ ql = toL (q);
            L n2 = ndot (ql, ql);
            L err = !(n2 == n2) || n2 == 0 ? (L) INFINITY : std::max (fabsl (sqrtl (n2) - 1), vdist (lrot (lnorm (ql), fh), thh));
            if (!(n2 == n2)) hits["opposite-lattice:NaN"]++;
            else if (n2 == 0) hits["opposite-lattice:ZERO-quaternion-returned"]++;
            else if (vdist (lrot (lnorm (ql), fh), thh) > 1) hits["opposite-lattice:not-carried(error>1)"]++;
            else hits["opposite-lattice:ok"]++;
            char bb[64]; snprintf (bb, 64, " m=%d |q|^2=%.3g", -m, (double) n2);
            check<T> ("setRotation-opposite-lattice", err, 1, "from=" + showV (from) + " to=" + showV (to) + bb, "setRotation:opposite-within-rounding");
        }
    }
}

//--------------------------------------------------------------------------------------------------
template <class T> static Quat<T> roundQ (const LQ& q) { return Quat<T> ((T) q.r, (T) q.x, (T) q.y, (T) q.z); }
// q2 = q1 * (rotation by 4-D angle th about a random axis)
static LQ stepFrom (const LQ& q1, L th)
{
    LV d = randDir ();
    return lnorm (lmul (q1, LQ{cosl (th), d.x * sinl (th), d.y * sinl (th), d.z * sinl (th)}));
}

template <class T> static void slerpChecks (int i)
{
    std::string cls;
    Quat<T> q1 = unitQuat<T> ((int) (rng () % 7), cls);
    LQ q1l = lnorm (toL (q1));
    int k = (int) (rng () % 12) + 1;
    L tiny = powl (10.0L, -(L) k), th;
    const char* cn;
    bool nearAntipodal = false, bitwise = false;
    switch (i % 9)
    {
        case 7: th = PI - powl (10.0L, -(L) (7 + (long) (rng () % 9))); cn = "theta=180-1e-k(k=7..15)"; nearAntipodal = true; break;
        case 8: th = PI; cn = "bitwise-antipodal(q2=-q1)"; nearAntipodal = bitwise = true; break;
        case 0: th = 0; cn = "theta=0"; break;
        case 1: th = tiny; cn = "theta=1e-k"; break;
        case 2: th = uni (0, PI / 2); cn = "theta<90"; break;
        case 3: th = PI / 2 + (rng () & 1 ? tiny : -tiny); cn = "theta=90+-1e-k"; break;
        case 4: th = uni (PI / 2, PI * 0.99L); cn = "theta>90"; break;
        case 5: th = PI - std::max (tiny, (L) 1e-6L); cn = "theta=180-1e-k(k<=6)"; break;
        default: th = uni (0, 3.0L); cn = "theta-uniform"; break;
    }
    hits[std::string ("slerp-pair:") + cn]++;
    Quat<T> q2 = bitwise ? -q1 : roundQ<T> (stepFrom (q1l, th));
    LQ q2l = lnorm (toL (q2));
    L theta = lang (q1l, q2l);
    // tiny-angle branch of sinx_over_x (mirror of ImathMath.h: x * x < epsilon), for the three arguments slerp passes
    {
        T a = angle4D (q1, q2);
        auto tinyB = [] (T x) { return x * x < std::numeric_limits<T>::epsilon (); };
        hits[tinyB (a) ? "sinx_over_x(a):tiny-branch" : "sinx_over_x(a):sin(x)/x"]++;
        (void) tinyB;
    }
    static const L ts[] = {0, 1, 0.5L, 0.25L, 1e-3L, 1 - 1e-3L, -0.1L, -1e-3L, 1 + 1e-3L, 1.1L};
    L eps = (L) std::numeric_limits<T>::epsilon ();
    for (L tl : ts)
    {
        L tt = tl;
        if (tl == 0.25L) tt = uni (0, 1);
        T t = (T) tt;
        // the three arguments slerp passes to sinx_over_x, for THIS t (mirror of the code: a, (1 - t) * a, t * a)
        {
            T a = angle4D (q1, q2), s = 1 - t;
            auto tinyB = [] (T x) { return x * x < std::numeric_limits<T>::epsilon (); };
            bool A = tinyB (a), S = tinyB (s * a), Tt = tinyB (t * a);
            hits[Tt ? "sinx_over_x(t*a):tiny-branch" : "sinx_over_x(t*a):sin(x)/x"]++;
            if (!A && (S || Tt)) hits["sinx_over_x:mixed(a-not-tiny,s*a-or-t*a-tiny)"]++;
        }
        Quat<T> r = slerp (q1, q2, t);
        LQ rl = toL (r);
        char b[64]; snprintf (b, 64, " t=%.17g", (double) t);
        std::string in = std::string (cn) + " q1=" + showQ (q1) + " q2=" + showQ (q2) + b;
        bool nan = !(ndot (rl, rl) == ndot (rl, rl)) || std::isinf ((double) ndot (rl, rl));
        if (nearAntipodal)
        {
            // the header excludes q1 = -q2; the property still says "returns unit quaternions": finite and unit is all that is required here
            check<T> ("slerp-near-antipodal", nan ? (L) INFINITY : fabsl (sqrtl (ndot (rl, rl)) - 1), 1, in, std::string ("slerp:") + (bitwise ? "bitwise-antipodal" : "near-antipodal"));
            if (!nan && rl.r == 1 && rl.x == 0 && rl.y == 0 && rl.z == 0) hits["slerp-near-antipodal:identity-returned(zero-length-combination)"]++;
            continue;
        }
        check<T> ("slerp-unit", nan ? (L) INFINITY : fabsl (sqrtl (ndot (rl, rl)) - 1), 1, in);
        if (nan) continue;
        LQ rn = lnorm (rl);
        // conditioning: weights are ~ 1/sin(theta) beyond 90 degrees; relative input uncertainty eps
        L cond = theta > PI / 2 ? 1 / (PI - theta + eps) : 1;
        if (t == 0) check<T> ("slerp-endpoints", qdist (rl, toL (q1)), cond, in);
        if (t == 1) check<T> ("slerp-endpoints", qdist (rl, toL (q2)), cond, in);
        L a1 = lang (q1l, rn), a2 = lang (rn, q2l);
        // expected 4-D angles (angles live in [0, pi]: beyond pi the arc comes back)
        auto wrap = [] (L a) { return a > PI ? 2 * PI - a : a; };
        L want1 = wrap (fabsl ((L) t) * theta), want2 = wrap (fabsl (1 - (L) t) * theta);
        check<T> ("slerp-angle-linear", std::max (fabsl (a1 - want1), fabsl (a2 - want2)), cond, in);
        // in the plane of q1, q2 (when the plane is well defined)
        if (theta > 1e-3L && theta < PI - 1e-3L)
        {
            // orthonormal basis e1 = q1, e2 = (q2 - (q1.q2) q1)^
            L c = ndot (q1l, q2l);
            LQ e2 = lnorm (LQ{q2l.r - c * q1l.r, q2l.x - c * q1l.x, q2l.y - c * q1l.y, q2l.z - c * q1l.z});
            L a = ndot (rn, q1l), bb = ndot (rn, e2);
            LQ o{rn.r - a * q1l.r - bb * e2.r, rn.x - a * q1l.x - bb * e2.x, rn.y - a * q1l.y - bb * e2.y, rn.z - a * q1l.z - bb * e2.z};
            check<T> ("slerp-in-plane", sqrtl (ndot (o, o)), cond / sinl (theta), in);
        }
    }
    // shortest arc: theta' = angle to the nearer of q2 / -q2, never more than 90 degrees
    {
        LQ q2s = ndot (q1l, q2l) >= 0 ? q2l : LQ{-q2l.r, -q2l.x, -q2l.y, -q2l.z};
        if (((q1 ^ q2) >= 0) != (ndot (q1l, q2l) >= 0)) q2s = LQ{-q2s.r, -q2s.x, -q2s.y, -q2s.z}; // sign decided by the rounded dot: follow it when |dot| ~ eps
        L thp = lang (q1l, q2s);
        hits[(q1 ^ q2) >= 0 ? "slerpShortestArc:dot>=0" : "slerpShortestArc:dot<0(negates)"]++;
        for (L tl : {0.0L, 0.3L, 0.5L, 1.0L})
        {
            T t = (T) tl;
            Quat<T> r = slerpShortestArc (q1, q2, t);
            LQ rn = lnorm (toL (r));
            char b[64]; snprintf (b, 64, " t=%.17g", (double) t);
            std::string in = std::string (cn) + " q1=" + showQ (q1) + " q2=" + showQ (q2) + b;
            L a1 = lang (q1l, rn);
            L err = fabsl (a1 - (L) t * thp);
            if (a1 > PI / 2 + 64 * eps) err = INFINITY; // the long way round
            check<T> ("slerpShortestArc-angle", err, 1, in);
        }
    }
}

template <class T> static void splineChecks (int variant)
{
    // five keys.  class 0: consecutive 4-D angles in (0.05, 0.6), all in one hemisphere, logs well conditioned;
    // class 1 (hemisphere change): steps in (0.3, 0.9) and K[3] negated, so K[2] ^ K[3] < 0 and K[3] ^ K[4] < 0 (4-D angles pi - step:
    // slerp is used as is, without the shortest-arc flip, and log (K[2]^-1 K[3]) has an angle beyond 90 degrees);
    // class 2: a repeated key K[1] = K[0] (zero-length first segment: theta = 0 branches of log / sinx_over_x)
    bool isF = sizeof (T) == 4;
    int  cls = variant % 3;
    const char* cn = cls == 0 ? "one-hemisphere" : cls == 1 ? "hemisphere-change" : "repeated-key";
    LQ kq[5];
    std::string c0;
    kq[0] = lnorm (toL (unitQuat<T> (0, c0)));
    for (int j = 1; j < 5; ++j) kq[j] = stepFrom (kq[j - 1], cls == 1 ? uni (0.3L, 0.9L) : uni (0.05L, 0.6L));
    if (cls == 1) kq[3] = LQ{-kq[3].r, -kq[3].x, -kq[3].y, -kq[3].z};
    if (cls == 2) kq[1] = kq[0];
    Quat<T> K[5];
    for (int j = 0; j < 5; ++j) K[j] = roundQ<T> (kq[j]);
    std::string in = std::string (cn) + " keys=" + showQ (K[0]) + showQ (K[1]) + showQ (K[2]) + showQ (K[3]) + showQ (K[4]);
    hits[std::string ("spline-keys-class:") + cn]++;
    Quat<T> qa = intermediate (K[0], K[1], K[2]), qb = intermediate (K[1], K[2], K[3]);
    // conditioning of the end-point evaluation: slerp weights ~ 1 / sin (theta) when the segment's 4-D angle is beyond 90 degrees
    L cond = 1;
    if (cls == 1) cond = 1 / sinl (lang (lnorm (toL (K[2])), lnorm (toL (K[3]))));
    check<T> ("squad-keys", std::max (qdist (toL (squad (K[1], qa, qb, K[2], (T) 0)), toL (K[1])), qdist (toL (squad (K[1], qa, qb, K[2], (T) 1)), toL (K[2]))), 1, in);
    check<T> ("spline-keys", std::max (qdist (toL (spline (K[0], K[1], K[2], K[3], (T) 0)), toL (K[1])), qdist (toL (spline (K[0], K[1], K[2], K[3], (T) 1)), toL (K[2]))), 1, in);
    check<T> ("spline-keys", std::max (qdist (toL (spline (K[1], K[2], K[3], K[4], (T) 0)), toL (K[2])), qdist (toL (spline (K[1], K[2], K[3], K[4], (T) 1)), toL (K[3]))), cond, in);
    {
        // tangent at the joint K[2]: left segment (K0..K3) at t = 1, right segment (K1..K4) at t = 0.
        // one-sided 3-point differences D(h) (error c2 h^2 + c3 h^3) at h and h/2, Richardson (4 D(h/2) - D(h)) / 3 (error O(h^3));
        // done for two base steps.  double: h = 2^-12, 2^-13 (truncation h^3 f''''/24 ~ 1e-9 for f'''' ~ 1e3, rounding 8 eps/h ~ 1e-11);
        // float: h = 2^-6, 2^-7 (truncation ~1e-4, rounding ~1e-4)
        auto S1 = [&] (T t) { return toL (spline (K[0], K[1], K[2], K[3], t)); };
        auto S2 = [&] (T t) { return toL (spline (K[1], K[2], K[3], K[4], t)); };
        auto comb = [] (L a, const LQ& x, L b, const LQ& y, L c, const LQ& z) { return LQ{a * x.r + b * y.r + c * z.r, a * x.x + b * y.x + c * z.x, a * x.y + b * y.y + c * z.y, a * x.z + b * y.z + c * z.z}; };
        L eps = (L) std::numeric_limits<T>::epsilon ();
        L tol = isF ? 3e-2L : 5e-9L; // clean-tree maxima (seeds 1-3 quick, seed 1 thorough): 8e-3 (float, rounding-dominated), 6.3e-10 (double)
        for (int w = 0; w < 2; ++w)
        {
            T h = (T) ldexp (1.0, isF ? -(6 + w) : -(12 + w));
            L hh = (L) h;
            LQ a0 = S1 (1), a1 = S1 (1 - h / 2), a2 = S1 (1 - h), a4 = S1 (1 - 2 * h);
            LQ b0 = S2 (0), b1 = S2 (h / 2), b2 = S2 (h), b4 = S2 (2 * h);
            LQ dlh = comb (3 / (2 * hh), a0, -4 / (2 * hh), a2, 1 / (2 * hh), a4), dlh2 = comb (3 / hh, a0, -4 / hh, a1, 1 / hh, a2);
            LQ drh = comb (-3 / (2 * hh), b0, 4 / (2 * hh), b2, -1 / (2 * hh), b4), drh2 = comb (-3 / hh, b0, 4 / hh, b1, -1 / hh, b2);
            LQ dl = comb (4.0L / 3, dlh2, -1.0L / 3, dlh, 0, dlh), dr = comb (4.0L / 3, drh2, -1.0L / 3, drh, 0, drh);
            L speed = std::max (sqrtl (ndot (dl, dl)), sqrtl (ndot (dr, dr)));
            // err / (eps * scale) with scale = tol * max (speed, 1e-3) / eps  ->  ratio = |dl - dr| / (tol * speed)
            char b[48]; snprintf (b, 48, " h=2^%d", isF ? -(6 + w) : -(12 + w));
            check<T> ("spline-tangent", qdist (dl, dr), tol * std::max (speed, (L) 1e-3L) * cond / eps, in + b, std::string ("spline-tangent:") + cn);
        }
        hits[std::string ("spline-tangent:joints-checked:") + cn]++;
    }
}

template <class T> static void runAll (int n)
{
    oppositeLattice<T> ();
    guardSweep<T> (std::max (400, n / 2));
    for (int i = 0; i < n; ++i)
    {
        unitQuatChecks<T> (i);
        generalQuatChecks<T> ();
        axisAngleChecks<T> (i);
        setRotationChecks<T> (i);
        slerpChecks<T> (i);
        if (i % 4 == 0) splineChecks<T> (i / 4);
    }
}

int main (int argc, char** argv)
{
    unsigned long seed = argc > 1 ? strtoul (argv[1], 0, 10) : 1;
    int           n    = argc > 2 ? atoi (argv[2]) : 2000;
    rng.seed (seed * 0x9E3779B97F4A7C15ull + 10);
    runAll<float> (n);
    runAll<double> (n);
    for (auto& s : stats) printf ("RESIDUE-STAT %s n=%ld worst=%.4g bound=%g worst-at: %s\n", s.first.c_str (), s.second.n, s.second.worst, s.second.bound, s.second.worstIn.c_str ());
    for (auto& h : hits) printf ("RESIDUE-HIT %s %ld\n", h.first.c_str (), h.second);
    printf ("RESIDUE evals=%ld failures=%d checks=%zu\n", evals, failures, stats.size ());
    return failures ? 1 : 0;
}
