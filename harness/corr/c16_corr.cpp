// C16 correspondence (H-route) and residue harness: calls the REAL Frustum / FrustumTest at float and double.
//
//  H  hand-model correspondence (exact, every case must agree):
//       DepthToZ (d, zmin, zmax)  ==  long (0.5 * (Zp + 1) * zdiff) + zmin   with Zp = c16_depthToZp (hand transcript, extracted to Lean)
//       ZToDepth (z, zmin, zmax)  ==  normalizedZToDepth ((T (z') - T (zmin)) / T (zdiff)) with z', zdiff from the Lean model (mode zmodel)
//       planes (p, M) at double   ==  c16_planesM (hand transcript) bit for bit;   at float: to rounding (scale computed in double)
//  R  residue (measured, NOT proof; bounds calibrated on the clean tree, seeds 1-3):
//       corners -> cube corners, matrix depth vs normalizedZToDepth, ZToDepth/DepthToZ round trip within +-1 of the long
//       truncation (plus a rounding allowance), planes (p, M) vs planes (p) mapped by a rigid / uniformly scaled M,
//       culling decisions of FrustumTest vs an extended-precision oracle for points / spheres / boxes placed on, across and
//       beside each of the six planes (ambiguous = within the rounding margin of a boundary; counted, not judged).
//
// usage: c16_corr <seed> <n>     one summary line `C16CORR …`, failures as `C16CORR-FAIL <key> …`
//        c16_corr spec <seed>    executable specification on lattice frusta: `C16SPEC …`, failures as `SPECFAIL <group> …`
#include <ImathFrustum.h>
#include <ImathFrustumTest.h>
#include "sym/c16_hand.h"
#include <cstdio>
#include <cstdlib>
#include <cstring>
#include <cmath>
#include <algorithm>
#include <map>
#include <random>
#include <string>
#include <vector>
using namespace IMATH_NAMESPACE;
typedef long double L;

static std::mt19937_64 rng;
static double U (double a, double b) { return std::uniform_real_distribution<double> (a, b) (rng); }
static int    I (int a, int b) { return std::uniform_int_distribution<int> (a, b) (rng); }
static long   failures = 0;
static std::map<std::string, long>   hits;
static std::map<std::string, double> worst;
static void fail (const std::string& key, const std::string& detail)
{
    ++failures;
    if (failures <= 40) printf ("C16CORR-FAIL %s %s\n", key.c_str (), detail.c_str ());
}
static void record (const std::string& what, double ratio) { double& w = worst[what]; if (ratio > w) w = ratio; }
template <class T> static const char* tn () { return sizeof (T) == 4 ? "float" : "double"; }
template <class T> static bool sameBits (T a, T b) { return (a != a && b != b) || memcmp (&a, &b, sizeof (T)) == 0; }

struct Fr { double n, f, l, r, t, b; bool ortho; };
// asymmetric windows, near/far ratios over many decades (1e-3 … 1e6), near over several decades
static Fr genFrustum (int k)
{
    static const double ratios[] = {1.001, 1.03125, 1.5, 2, 10, 1000, 65536, 1e6, 1.0 + 1e-3, 31.4};
    Fr F;
    double scale = std::pow (10.0, U (-3, 3));
    if (k % 4 == 0) scale = std::ldexp (1.0, I (-8, 8));
    F.n          = scale;
    F.f          = F.n * ratios[k % 10];
    double w     = F.n * std::pow (10.0, U (-1.5, 1.0));
    double cx    = (k % 3 == 0) ? 0.0 : w * U (-3, 3); // off-axis windows (l > 0 or r < 0 included)
    double cy    = (k % 5 == 0) ? 0.0 : w * U (-3, 3);
    F.l          = cx - w * U (0.2, 1);
    F.r          = cx + w * U (0.2, 1);
    F.b          = cy - w * U (0.2, 1);
    F.t          = cy + w * U (0.2, 1);
    F.ortho      = (k / 2) % 2 == 1;
    // (no domain exclusion: since /repo 16a5ca8 Vec3::length takes the scaled path when the squares overflow, so the far-corner
    //  cross products of planes (p, M) are normalised correctly at float even for far/near = 1e6 with wide windows; the fixed
    //  probe `C16PROBE far-plane` keeps the formerly failing input as a full-strength obligation)
    return F;
}
template <class T> static Frustum<T> mk (const Fr& F) { return Frustum<T> ((T) F.n, (T) F.f, (T) F.l, (T) F.r, (T) F.t, (T) F.b, F.ortho); }
template <class T> static std::string show (const Frustum<T>& fr)
{
    char b[256];
    snprintf (b, 256, "%s n=%.9g f=%.9g l=%.9g r=%.9g t=%.9g b=%.9g %s", tn<T> (), (double) fr.nearPlane (), (double) fr.farPlane (), (double) fr.left (),
              (double) fr.right (), (double) fr.top (), (double) fr.bottom (), fr.orthographic () ? "ortho" : "persp");
    return b;
}

// ------------------------------------------------------------------ analytic camera-space planes in extended precision
struct PL { L nx, ny, nz, d; };
template <class T> static void exactPlanes (const Frustum<T>& fr, PL p[6])
{
    L n = fr.nearPlane (), f = fr.farPlane (), l = fr.left (), r = fr.right (), t = fr.top (), b = fr.bottom ();
    if (!fr.orthographic ())
    {
        L a;
        a = std::sqrt (n * n + t * t); p[0] = {0, n / a, t / a, 0};
        a = std::sqrt (n * n + r * r); p[1] = {n / a, 0, r / a, 0};
        a = std::sqrt (n * n + b * b); p[2] = {0, -n / a, -b / a, 0};
        a = std::sqrt (n * n + l * l); p[3] = {-n / a, 0, -l / a, 0};
    }
    else { p[0] = {0, 1, 0, t}; p[1] = {1, 0, 0, r}; p[2] = {0, -1, 0, -b}; p[3] = {-1, 0, 0, -l}; }
    p[4] = {0, 0, 1, -n};
    p[5] = {0, 0, -1, f};
}
static L dist (const PL& p, L x, L y, L z) { return p.nx * x + p.ny * y + p.nz * z - p.d; }

// ------------------------------------------------------------------ A. corners -> cube, depth
template <class T> static void corners (const Fr& F)
{
    Frustum<T>  fr = mk<T> (F);
    Matrix44<T> M  = fr.projectionMatrix ();
    L eps = std::numeric_limits<T>::epsilon ();
    L n = fr.nearPlane (), f = fr.farPlane (), l = fr.left (), r = fr.right (), t = fr.top (), b = fr.bottom ();
    L kx = 1 + (std::fabs (r) + std::fabs (l)) / std::fabs (r - l), ky = 1 + (std::fabs (t) + std::fabs (b)) / std::fabs (t - b),
      kz = (std::fabs (f) + std::fabs (n) + 2 * std::max (std::fabs (f), std::fabs (n))) / std::fabs (f - n);
    for (int c = 0; c < 8; ++c)
    {
        bool cx = c & 1, cy = c & 2, cz = c & 4;
        L    s  = (cz && !F.ortho) ? f / n : 1;
        Vec3<T> p ((T) ((cx ? r : l) * s), (T) ((cy ? t : b) * s), (T) - (cz ? f : n));
        Vec3<T> q = p * M;
        L ex = std::fabs ((L) q.x - (cx ? 1 : -1)) / (eps * kx), ey = std::fabs ((L) q.y - (cy ? 1 : -1)) / (eps * ky),
          ez = std::fabs ((L) q.z - (cz ? 1 : -1)) / (eps * kz);
        ++hits[std::string ("corners:") + tn<T> () + (F.ortho ? ":ortho" : ":persp")];
        record (std::string ("corner_xy_err/(eps*(1+(|r|+|l|)/(r-l))):") + tn<T> (), (double) std::max (ex, ey));
        record (std::string ("corner_z_err/(eps*(3f+n)/(f-n)):") + tn<T> (), (double) ez);
        if (!(ex <= 8 && ey <= 8 && ez <= 8))
        {
            char d[200];
            snprintf (d, 200, "corner %d -> (%.9g %.9g %.9g) normalised err %.3g %.3g %.3g", c, (double) q.x, (double) q.y, (double) q.z, (double) ex, (double) ey, (double) ez);
            fail (std::string ("corners:") + (F.ortho ? "ortho" : "persp") + ":" + tn<T> (), show (fr) + " " + d);
        }
        // projectPointToScreen = (p*M).xy
        Vec2<T> sp = fr.projectPointToScreen (p);
        L es = std::max (std::fabs ((L) sp.x - (L) q.x) / (eps * kx), std::fabs ((L) sp.y - (L) q.y) / (eps * ky));
        record (std::string ("projectPointToScreen_vs_matrix/(eps*k):") + tn<T> (), (double) es);
        if (!(es <= 16)) fail (std::string ("projectPointToScreen:") + (F.ortho ? "ortho" : "persp") + ":" + tn<T> (), show (fr));
    }
    // depth: the point at depth normalizedZToDepth (zn) has matrix depth 2 zn - 1
    for (int k = 0; k < 6; ++k)
    {
        T zn = (T) (k == 0 ? 0.0 : k == 1 ? 1.0 : U (0, 1));
        T d  = fr.normalizedZToDepth (zn);
        Vec3<T> q = Vec3<T> ((T) 0, (T) 0, d) * M;
        L e = std::fabs ((L) q.z - (2 * (L) zn - 1)) / (eps * kz);
        record (std::string ("matrix_depth_vs_normalizedZToDepth/(eps*kz):") + tn<T> (), (double) e);
        ++hits[std::string ("depth_vs_matrix:") + tn<T> ()];
        if (!(e <= 16)) fail (std::string ("depth_vs_matrix:") + (F.ortho ? "ortho" : "persp") + ":" + tn<T> (), show (fr));
    }
}

// ------------------------------------------------------------------ B. ZToDepth / DepthToZ (H: exact; R: round trip)
template <class T> static void depth (const Fr& F)
{
    Frustum<T> fr = mk<T> (F);
    static const long zmaxs[] = {255, 65535, 16777215, 2147483647L, 1000, 4294967295L};
    L eps = std::numeric_limits<T>::epsilon ();
    L n = fr.nearPlane (), f = fr.farPlane ();
    L kappa = (std::fabs (f) + std::fabs (n)) / std::fabs (f - n);
    for (int k = 0; k < 6; ++k)
    {
        long zmax = zmaxs[k], zmin = (k == 4) ? -1000 : 0;
        long zdiffL = zmax - zmin;
        for (int j = 0; j < 6; ++j)
        {
            long z = j == 0 ? zmin : j == 1 ? zmax : zmin + (long) (U (0, 1) * (double) zdiffL);
            // (ZToDepth itself is tied by the `zmodel` mode: Lean machine-integer model + independent expectation, also for z > zmax + 1
            //  and for ranges that do not fit an int)
            T dReal = fr.ZToDepth (z, zmin, zmax);
            // H: DepthToZ
            if (dReal == dReal && dReal != T (0))
            {
                T    Zp     = c16_depthToZp (fr, dReal);
                long zModel = long (0.5 * (Zp + 1) * zdiffL) + zmin;
                long zReal  = fr.DepthToZ (dReal, zmin, zmax);
                ++hits["H:DepthToZ"];
                if (zReal != zModel) fail (std::string ("H:DepthToZ:") + tn<T> (), show (fr) + " depth=" + std::to_string ((double) dReal));
                // R: round trip within +-1 of the truncation plus the rounding allowance
                L dz    = std::fabs ((L) (zReal - z));
                L allow = 1 + 8 * eps * (L) zdiffL * kappa;
                record (std::string ("roundtrip_(|dz|-1)/(eps*zdiff*(f+n)/(f-n)):") + tn<T> (), (double) ((dz - 1) / (eps * (L) zdiffL * kappa)));
                ++hits[std::string ("R:depth_roundtrip:") + tn<T> ()];
                if (dz <= 1) ++hits[std::string ("R:depth_roundtrip_within_1:") + tn<T> ()];
                if (allow < 2) ++hits[std::string ("R:depth_roundtrip_judged_strictly(allowance<1,|dz|<=1_required):") + tn<T> ()];
                if (!(dz <= allow))
                    fail (std::string ("depth_roundtrip:") + (F.ortho ? "ortho" : "persp") + ":" + tn<T> (),
                          show (fr) + " z=" + std::to_string (z) + " back=" + std::to_string (zReal) + " zmax=" + std::to_string (zmax));
            }
        }
    }
}

// ------------------------------------------------------------------ camera matrices
// rotation from a random unit quaternion (double), uniform scale s, translation tr:  x' = x * (s R) + tr
template <class T> static Matrix44<T> rigid (double s, double trScale, bool axisAligned, bool mirror = false)
{
    double R[3][3];
    if (axisAligned)
    {
        // one of the 24 proper signed permutation matrices
        int perm[3] = {0, 1, 2};
        std::shuffle (perm, perm + 3, rng);
        int sg[3] = {I (0, 1) ? 1 : -1, I (0, 1) ? 1 : -1, 1};
        for (int i = 0; i < 3; ++i) for (int j = 0; j < 3; ++j) R[i][j] = perm[i] == j ? sg[i] : 0;
        double det = R[0][0] * (R[1][1] * R[2][2] - R[1][2] * R[2][1]) - R[0][1] * (R[1][0] * R[2][2] - R[1][2] * R[2][0]) + R[0][2] * (R[1][0] * R[2][1] - R[1][1] * R[2][0]);
        if (det < 0) for (int j = 0; j < 3; ++j) R[2][j] = -R[2][j];
    }
    else
    {
        double q[4], nn = 0;
        for (double& c : q) { c = U (-1, 1); nn += c * c; }
        nn = std::sqrt (nn);
        double w = q[0] / nn, x = q[1] / nn, y = q[2] / nn, z = q[3] / nn;
        double RR[3][3] = {{1 - 2 * (y * y + z * z), 2 * (x * y + z * w), 2 * (x * z - y * w)},
                           {2 * (x * y - z * w), 1 - 2 * (x * x + z * z), 2 * (y * z + x * w)},
                           {2 * (x * z + y * w), 2 * (y * z - x * w), 1 - 2 * (x * x + y * y)}};
        memcpy (R, RR, sizeof (R));
    }
    if (mirror) for (int j = 0; j < 3; ++j) R[0][j] = -R[0][j];
    Matrix44<T> M;
    for (int i = 0; i < 3; ++i) for (int j = 0; j < 3; ++j) M[i][j] = (T) (s * R[i][j]);
    for (int j = 0; j < 3; ++j) M[3][j] = axisAligned ? (T) (trScale * I (-8, 8) / 4.0) : (T) (trScale * U (-1, 1));
    M[0][3] = M[1][3] = M[2][3] = 0;
    M[3][3] = 1;
    return M;
}

// ------------------------------------------------------------------ C. planes (p, M): H (transcript) and R (= planes (p) mapped by M)
template <class T> static void planesM (const Fr& F, int k)
{
    Frustum<T> fr = mk<T> (F);
    if (F.ortho && !(F.n < F.f)) return;
    double s       = (k % 3 == 0) ? 1.0 : std::pow (2.0, U (-6, 6));
    L      size    = std::min ({(L) std::fabs (F.n), (L) std::fabs (F.r - F.l), (L) std::fabs (F.t - F.b)});
    double trScale = s * (double) size * std::pow (10.0, U (-1, 1));
    Matrix44<T> M  = rigid<T> (s, trScale, false);
    Plane3<T> real[6], model[6], local[6], mixed[6];
    fr.planes (real, M);
    c16_planesM (fr, model, M, -1);
    c16_planesM<T, double> (fr, mixed, M, -1); // the same transcript with the far-corner scale in double, as the source writes it
    for (int i = 0; i < 6; ++i)
    {
        ++hits[std::string ("H:planesM:cast-faithful:") + tn<T> ()];
        if (!(sameBits (real[i].normal.x, mixed[i].normal.x) && sameBits (real[i].normal.y, mixed[i].normal.y) &&
              sameBits (real[i].normal.z, mixed[i].normal.z) && sameBits (real[i].distance, mixed[i].distance)))
            fail (std::string ("H:planesM:cast-faithful:") + tn<T> () + ":plane" + std::to_string (i), show (fr));
        if (sizeof (T) == 4 && !(sameBits (model[i].normal.x, mixed[i].normal.x) && sameBits (model[i].normal.y, mixed[i].normal.y) &&
                                 sameBits (model[i].normal.z, mixed[i].normal.z) && sameBits (model[i].distance, mixed[i].distance)))
            ++hits["info:planesM:float:double-scale_changes_the_bits"];
    }
    fr.planes (local);
    L eps = std::numeric_limits<T>::epsilon ();
    for (int i = 0; i < 6; ++i)
    {
        ++hits[std::string ("H:planesM:") + tn<T> ()];
        if (sizeof (T) == 8)
        {
            if (!(sameBits (real[i].normal.x, model[i].normal.x) && sameBits (real[i].normal.y, model[i].normal.y) &&
                  sameBits (real[i].normal.z, model[i].normal.z) && sameBits (real[i].distance, model[i].distance)))
                fail ("H:planesM:double:plane" + std::to_string (i), show (fr));
        }
        else
        {
            L e = std::max ({std::fabs ((L) real[i].normal.x - model[i].normal.x), std::fabs ((L) real[i].normal.y - model[i].normal.y),
                             std::fabs ((L) real[i].normal.z - model[i].normal.z)});
            L kap = 1 + (L) trScale / ((L) s * size) + (F.ortho ? 0 : (L) std::fabs (F.f / F.n) * 0);
            record ("H:planesM_float_vs_transcript_normal/(eps*kT)", (double) (e / (eps * kap)));
            if (!(e <= 32 * eps * kap)) fail ("H:planesM:float:plane" + std::to_string (i), show (fr));
            // … and the distance (relative to the size of the quantities it is computed from)
            L extD = std::max ({(L) std::fabs (F.l), (L) std::fabs (F.r), (L) std::fabs (F.t), (L) std::fabs (F.b), (L) std::fabs (F.n)});
            L dsc  = std::fabs ((L) model[i].distance) + (L) trScale + (L) s * ((L) std::fabs (F.f) + extD * (F.ortho ? 1 : std::max ((L) 1, (L) std::fabs (F.f / F.n))));
            L ed   = std::fabs ((L) real[i].distance - (L) model[i].distance) / dsc;
            record ("H:planesM_float_vs_transcript_distance/(eps*kT*scale)", (double) (ed / (eps * kap)));
            if (!(ed <= 32 * eps * kap)) fail ("H:planesM:float:distance:plane" + std::to_string (i), show (fr));
        }
    }
    // R: expected = analytic planes (p), mapped by the actual M (extended precision): n' = normalize (n A^-T), d' = n' . (p0 * M)
    PL ex[6];
    exactPlanes (fr, ex);
    L A[3][3], T3[3];
    for (int i = 0; i < 3; ++i) { for (int j = 0; j < 3; ++j) A[i][j] = M[i][j]; T3[i] = M[3][i]; }
    L det = A[0][0] * (A[1][1] * A[2][2] - A[1][2] * A[2][1]) - A[0][1] * (A[1][0] * A[2][2] - A[1][2] * A[2][0]) + A[0][2] * (A[1][0] * A[2][1] - A[1][1] * A[2][0]);
    L inv[3][3]; // inverse of A
    inv[0][0] = (A[1][1] * A[2][2] - A[1][2] * A[2][1]) / det; inv[0][1] = (A[0][2] * A[2][1] - A[0][1] * A[2][2]) / det; inv[0][2] = (A[0][1] * A[1][2] - A[0][2] * A[1][1]) / det;
    inv[1][0] = (A[1][2] * A[2][0] - A[1][0] * A[2][2]) / det; inv[1][1] = (A[0][0] * A[2][2] - A[0][2] * A[2][0]) / det; inv[1][2] = (A[0][2] * A[1][0] - A[0][0] * A[1][2]) / det;
    inv[2][0] = (A[1][0] * A[2][1] - A[1][1] * A[2][0]) / det; inv[2][1] = (A[0][1] * A[2][0] - A[0][0] * A[2][1]) / det; inv[2][2] = (A[0][0] * A[1][1] - A[0][1] * A[1][0]) / det;
    L kapT = 1 + (L) trScale / ((L) s * size);
    L ext  = std::max ({(L) std::fabs (F.l), (L) std::fabs (F.r), (L) std::fabs (F.t), (L) std::fabs (F.b), (L) std::fabs (F.n)});
    L kapW = 1 + ext / size; // wide / off-axis windows: the side-plane cross products cancel
    // orthographic planes (p, M) builds the side planes from one near and two FAR corners: long thin frusta lose |f| / window
    // … and frusta with far ~ near cancel in (far corner - near corner)
    if (F.ortho) kapW *= (1 + (L) std::fabs (F.f) / size) * (((L) std::fabs (F.f) + (L) std::fabs (F.n)) / (L) std::fabs (F.f - F.n));
    for (int i = 0; i < 6; ++i)
    {
        // row-vector convention: a point x maps to x A + T, so a normal (as a row covector acting by n . x) maps to n (A^-1)^T
        L nn[3] = {ex[i].nx, ex[i].ny, ex[i].nz}, m[3];
        for (int j = 0; j < 3; ++j) m[j] = inv[j][0] * nn[0] + inv[j][1] * nn[1] + inv[j][2] * nn[2];
        L len = std::sqrt (m[0] * m[0] + m[1] * m[1] + m[2] * m[2]);
        for (int j = 0; j < 3; ++j) m[j] /= len;
        // a point of the plane: p0 = d n (camera), mapped
        L p0[3] = {ex[i].d * nn[0], ex[i].d * nn[1], ex[i].d * nn[2]}, w0[3];
        for (int j = 0; j < 3; ++j) w0[j] = p0[0] * A[0][j] + p0[1] * A[1][j] + p0[2] * A[2][j] + T3[j];
        L dd = m[0] * w0[0] + m[1] * w0[1] + m[2] * w0[2];
        L en = std::max ({std::fabs ((L) real[i].normal.x - m[0]), std::fabs ((L) real[i].normal.y - m[1]), std::fabs ((L) real[i].normal.z - m[2])});
        L dscale = std::fabs (dd) + std::fabs (T3[0]) + std::fabs (T3[1]) + std::fabs (T3[2]) + (L) s * ((L) std::fabs (F.f) + ext * (F.ortho ? 1 : std::max ((L) 1, (L) std::fabs (F.f / F.n))));
        L ed = std::fabs ((L) real[i].distance - dd) / dscale;
        std::string w = std::string (tn<T> ()) + (i < 4 ? ":side" : ":nearfar");
        record ("planesM_vs_mapped_planes_normal/(eps*kT*kW):" + w, (double) (en / (eps * kapT * kapW)));
        record ("planesM_vs_mapped_planes_distance/(eps*kT*kW*scale):" + w, (double) (ed / (eps * kapT * kapW)));
        ++hits[std::string ("R:planesM_vs_mapped:") + tn<T> ()];
        if (!(en <= 16 * eps * kapT * kapW && ed <= 16 * eps * kapT * kapW))
        {
            char d[160];
            snprintf (d, 160, " plane %d normal err %.3g dist err %.3g (in units of eps*k)", i, (double) (en / (eps * kapT * kapW)), (double) (ed / (eps * kapT * kapW)));
            fail (std::string ("planesM_vs_mapped:") + (F.ortho ? "ortho" : "persp") + ":" + tn<T> () + ":plane" + std::to_string (i), show (fr) + d);
        }
        // identity camera: planes (p, I) = planes (p) to rounding
    }
    {
        Matrix44<T> Id;
        Plane3<T>   pid[6];
        fr.planes (pid, Id);
        for (int i = 0; i < 6; ++i)
        {
            L e = std::max ({std::fabs ((L) pid[i].normal.x - local[i].normal.x), std::fabs ((L) pid[i].normal.y - local[i].normal.y),
                             std::fabs ((L) pid[i].normal.z - local[i].normal.z)});
            L scale = std::fabs ((L) local[i].distance) + 1e-300L;
            L e2 = std::fabs ((L) pid[i].distance - local[i].distance) / scale;
            if (local[i].distance == 0) e2 = std::fabs ((L) pid[i].distance) / ((L) std::fabs (F.f) + ext);
            record (std::string ("planes(p,I)_vs_planes(p)/(eps*kW):") + tn<T> (), (double) (std::max (e, e2) / (eps * kapW)));
            if (!(std::max (e, e2) <= 64 * eps * kapW)) fail (std::string ("planes_identity:") + tn<T> () + ":plane" + std::to_string (i), show (fr));
        }
    }
    // mirrored camera matrix (det < 0).  PROVED (Props/C16Cull.lean planesM_*_mirrored, isVisiblePoint_*_mirrored): every plane equation of
    // planes (p, M) changes sign -- all six normals point INTO the frustum -- and FrustumTest::isVisible (point) is false for every point.
    // Judged here as model-vs-real agreement (the property's camera matrices are read as orientation preserving: explicit exclusion).
    if (F.n < F.f)
    {
        Matrix44<T> Mm = rigid<T> (k % 2 ? 1.0 : std::ldexp (1.0, I (-2, 2)), k % 2 ? 0.0 : (double) size, k % 4 < 2, true);
        Plane3<T>   pm[6];
        fr.planes (pm, Mm);
        // the centre of the frustum, mapped: strictly inside the frustum, hence (model) strictly on the POSITIVE side of all six planes
        L zc = -(L) (F.n + F.f) / 2, xs = F.ortho ? 1 : -zc / (L) F.n;
        Vec3<T> c ((T) ((F.l + F.r) / 2 * xs), (T) ((F.b + F.t) / 2 * xs), (T) zc);
        Vec3<T> w = c * Mm;
        int inward = 0;
        for (int i = 0; i < 6; ++i) if (pm[i].distanceTo (w) > 0) ++inward;
        FrustumTest<T> ftm (fr, Mm);
        bool vis = ftm.isVisible (w);
        ++hits[std::string ("mirrored_M:") + tn<T> ()];
        // the centre is at relative distance >= (f-n)/(2(f+n)) … from near/far: skip frusta whose centre is within rounding of a plane
        L extM = std::max ({(L) std::fabs (F.l), (L) std::fabs (F.r), (L) std::fabs (F.t), (L) std::fabs (F.b), (L) std::fabs (F.n)});
        L condM = (1 + extM / size) * (F.ortho ? (1 + (L) std::fabs (F.f) / size) * (((L) F.f + (L) F.n) / ((L) F.f - (L) F.n)) : 1);
        if ((F.f - F.n) / (F.f + F.n) > 1e-2 && 1024 * eps * condM < 1)
        {
            ++hits[std::string ("mirrored_M:judged:") + tn<T> ()];
            if (inward != 6 || vis)
            {
                char d[120];
                snprintf (d, 120, " mirrored M: %d of 6 normals inward (model: 6), isVisible(centre)=%d (model: 0)", inward, (int) vis);
                fail (std::string ("mirroredM:model-mismatch:") + tn<T> (), show (fr) + d);
            }
        }
    }
}

// ------------------------------------------------------------------ D. culling vs the extended-precision oracle
template <class T> struct Cull
{
    Frustum<T>     fr;
    Matrix44<T>    M;
    FrustumTest<T> ft;
    PL             pl[6];
    L              s, tr[3], Rm[3][3], margin;
    bool           ortho, rot = false;
    // camera-space preimage of a world point (M = s P + tr with P a signed permutation: exact inverse)
    void pre (L wx, L wy, L wz, L q[3]) const
    {
        L v[3] = {(wx - tr[0]) / s, (wy - tr[1]) / s, (wz - tr[2]) / s};
        for (int i = 0; i < 3; ++i) q[i] = Rm[i][0] * v[0] + Rm[i][1] * v[1] + Rm[i][2] * v[2]; // P^-1 = P^T
    }
    L maxDist (const L q[3]) const { L m = -1e4000L; for (int i = 0; i < 6; ++i) m = std::max (m, dist (pl[i], q[0], q[1], q[2])); return m; }
};

template <class T> static void cullCase (Cull<T>& C, int plane, int kase, const std::string& frs)
{
    // base point on face `plane`, well inside the face
    L n = C.fr.nearPlane (), f = C.fr.farPlane (), l = C.fr.left (), r = C.fr.right (), t = C.fr.top (), b = C.fr.bottom ();
    L w = U (0.25, 0.75), u = U (0.3, 0.7), v = U (0.3, 0.7);
    L depth = plane == 4 ? n : plane == 5 ? f : n + w * (f - n);
    L xs = C.ortho ? 1 : depth / n;
    L x = (l + u * (r - l)) * xs, y = (b + v * (t - b)) * xs, z = -depth;
    if (plane == 0) y = t * xs;
    if (plane == 1) x = r * xs;
    if (plane == 2) y = b * xs;
    if (plane == 3) x = l * xs;
    // room to the other five planes
    L room = 1e4000L;
    for (int j = 0; j < 6; ++j) if (j != plane) room = std::min (room, -dist (C.pl[j], x, y, z));
    if (!(room > 0)) return;
    L rho = room * 0.2L; // object size
    const PL& P = C.pl[plane];
    static const L offs[] = {-3.0L, -1.5L, -0.5L, 0.0L, 0.5L, 1.5L, 3.0L}; // centre offset along the outward normal, in units of rho
    L off = offs[kase % 7] * rho;
    L cx = x + off * P.nx, cy = y + off * P.ny, cz = z + off * P.nz;
    // to world, in T
    Vec3<T> cw = Vec3<T> ((T) cx, (T) cy, (T) cz) * C.M;
    L margin = C.margin * (std::fabs (cx) + std::fabs (cy) + std::fabs (cz) + std::fabs (f) * 0 + rho + std::fabs (n));
    std::string pk = "plane" + std::to_string (plane) + ":off" + std::to_string (kase % 7);
    char inb[300];
    // ---- point
    {
        L q[3];
        C.pre (cw.x, cw.y, cw.z, q);
        L md = C.maxDist (q);
        bool vis = C.ft.isVisible (cw);
        ++hits[std::string ("cull:point:") + tn<T> ()];
        if (std::fabs (md) <= margin) ++hits[std::string ("cull:point:ambiguous:") + tn<T> ()];
        else if ((md < 0) != vis)
        {
            snprintf (inb, 300, " world=(%.9g %.9g %.9g) exact max plane value %.3Lg visible=%d", (double) cw.x, (double) cw.y, (double) cw.z, md, (int) vis);
            fail (std::string ("cull:point:") + (C.ortho ? "ortho:" : "persp:") + tn<T> () + ":" + pk, frs + inb);
        }
    }
    // ---- sphere (world radius s*rho, a power-of-two multiple)
    {
        T rw = (T) (C.s * rho);
        L rc = (L) rw / C.s;
        Sphere3<T> sp (cw, rw);
        L q[3];
        C.pre (cw.x, cw.y, cw.z, q);
        bool vis = C.ft.isVisible (sp), con = C.ft.completelyContains (sp);
        L dmax = C.maxDist (q), dpl = dist (P, q[0], q[1], q[2]);
        ++hits[std::string ("cull:sphere:") + tn<T> ()];
        int judged = 0;
        // must be invisible: beyond one plane by more than the radius
        if (dmax > rc + margin) { ++judged; if (vis) { snprintf (inb, 300, " centre=(%.9g %.9g %.9g) r=%.9g dmax=%.3Lg: isVisible true for a sphere entirely beyond a plane", (double) cw.x, (double) cw.y, (double) cw.z, (double) rw, dmax); fail (std::string ("cull:sphere:false-positive:") + (C.ortho ? "ortho:" : "persp:") + tn<T> () + ":" + pk, frs + inb); } }
        // must be visible: the sphere reaches the interior (the point moved back inside plane `plane` is interior and in the ball)
        {
            L back = std::max (dpl, (L) 0) + 4 * margin;
            L p2[3] = {q[0] - back * P.nx, q[1] - back * P.ny, q[2] - back * P.nz};
            if (back <= rc - margin && C.maxDist (p2) < -margin)
            {
                ++judged;
                ++hits[std::string ("cull:sphere:touching:") + tn<T> ()];
                if (!vis) { snprintf (inb, 300, " centre=(%.9g %.9g %.9g) r=%.9g: isVisible FALSE for a sphere that reaches the interior", (double) cw.x, (double) cw.y, (double) cw.z, (double) rw); fail (std::string ("cull:sphere:false-negative:") + (C.ortho ? "ortho:" : "persp:") + tn<T> () + ":" + pk, frs + inb); }
            }
        }
        // completelyContains: must be false if the ball pokes out; must be true if inside every plane by more than r
        if (dmax > -rc + margin) { ++judged; ++hits[std::string ("cull:sphere:poking-out:") + tn<T> ()]; if (con) { snprintf (inb, 300, " centre=(%.9g %.9g %.9g) r=%.9g dmax=%.3Lg: completelyContains TRUE for a sphere with a point outside", (double) cw.x, (double) cw.y, (double) cw.z, (double) rw, dmax); fail (std::string ("cull:sphere:contains-false-positive:") + (C.ortho ? "ortho:" : "persp:") + tn<T> () + ":" + pk, frs + inb); } }
        if (dmax < -rc - margin) { ++judged; if (!con) { snprintf (inb, 300, " centre=(%.9g %.9g %.9g) r=%.9g dmax=%.3Lg: completelyContains false for a sphere well inside", (double) cw.x, (double) cw.y, (double) cw.z, (double) rw, dmax); fail (std::string ("cull:sphere:contains-false-negative:") + (C.ortho ? "ortho:" : "persp:") + tn<T> () + ":" + pk, frs + inb); } }
        if (!judged) ++hits[std::string ("cull:sphere:ambiguous:") + tn<T> ()];
        else if (C.rot) ++hits[std::string ("cull:camera:rotated:judged-spheres:") + tn<T> ()];
    }
    // ---- box: world axis-aligned cube of half extent s*rho/2 around the centre (camera-space image is axis aligned too)
    {
        T hw = (T) (C.s * rho / 2);
        Box<Vec3<T>> bx (Vec3<T> (cw.x - hw, cw.y - hw, cw.z - hw), Vec3<T> (cw.x + hw, cw.y + hw, cw.z + hw));
        bool vis = C.ft.isVisible (bx), con = C.ft.completelyContains (bx);
        L    cornerMax[6], cornerMin[6];
        for (int i = 0; i < 6; ++i) { cornerMax[i] = -1e4000L; cornerMin[i] = 1e4000L; }
        bool someInterior = false;
        for (int k = 0; k < 9; ++k)
        {
            L wx = k == 8 ? ((L) bx.min.x + bx.max.x) / 2 : (k & 1 ? (L) bx.max.x : (L) bx.min.x), wy = k == 8 ? ((L) bx.min.y + bx.max.y) / 2 : (k & 2 ? (L) bx.max.y : (L) bx.min.y),
              wz = k == 8 ? ((L) bx.min.z + bx.max.z) / 2 : (k & 4 ? (L) bx.max.z : (L) bx.min.z);
            L q[3];
            C.pre (wx, wy, wz, q);
            if (C.maxDist (q) < -margin) someInterior = true;
            if (k < 8) for (int i = 0; i < 6; ++i) { L d = dist (C.pl[i], q[0], q[1], q[2]); cornerMax[i] = std::max (cornerMax[i], d); cornerMin[i] = std::min (cornerMin[i], d); }
        }
        // a point of the box on the inner side of plane `plane`: the corner with the smallest value moved nowhere; also try the base-side point
        bool beyond = false, allIn = true, pokes = false;
        for (int i = 0; i < 6; ++i) { if (cornerMin[i] > margin) beyond = true; if (!(cornerMax[i] < -margin)) allIn = false; if (cornerMax[i] > margin) pokes = true; }
        ++hits[std::string ("cull:box:") + tn<T> ()];
        int judged = 0;
        snprintf (inb, 300, " box=(%.9g %.9g %.9g)-(%.9g %.9g %.9g) visible=%d contains=%d", (double) bx.min.x, (double) bx.min.y, (double) bx.min.z, (double) bx.max.x, (double) bx.max.y, (double) bx.max.z, (int) vis, (int) con);
        if (beyond) { ++judged; if (vis) fail (std::string ("cull:box:false-positive:") + (C.ortho ? "ortho:" : "persp:") + tn<T> () + ":" + pk, frs + inb); }
        if (someInterior) { ++judged; ++hits[std::string ("cull:box:touching:") + tn<T> ()]; if (!vis) fail (std::string ("cull:box:false-negative:") + (C.ortho ? "ortho:" : "persp:") + tn<T> () + ":" + pk, frs + inb + " (a corner or the centre is interior)"); }
        if (pokes) { ++judged; ++hits[std::string ("cull:box:poking-out:") + tn<T> ()]; if (con) fail (std::string ("cull:box:contains-false-positive:") + (C.ortho ? "ortho:" : "persp:") + tn<T> () + ":" + pk, frs + inb + " (a corner is outside)"); }
        if (allIn) { ++judged; if (!con) fail (std::string ("cull:box:contains-false-negative:") + (C.ortho ? "ortho:" : "persp:") + tn<T> () + ":" + pk, frs + inb + " (all corners well inside)"); }
        if (!judged) ++hits[std::string ("cull:box:ambiguous:") + tn<T> ()];
        else if (C.rot) ++hits[std::string ("cull:camera:rotated:judged-boxes:") + tn<T> ()];
    }
}

template <class T> static void culling (const Fr& F0, int k)
{
    Fr F = F0;
    // culling needs a proper frustum; keep the ratio moderate so that objects of the size of the free room are not absurdly small
    if (!(F.n < F.f)) return;
    Cull<T> C;
    C.fr    = mk<T> (F);
    C.ortho = F.ortho;
    double s  = std::ldexp (1.0, I (-3, 3));
    // 2 of 3 cameras: signed permutation x power-of-two scale (exact inverse); 1 of 3: a general rotation (the world box is then NOT a
    // camera-space box: all three components of the orthographic normals are non-zero in world space)
    bool aa   = (k % 3 != 2);
    C.rot     = !aa;
    if (!aa && F.f > 8 * F.n) { F.f = 8 * F.n; C.fr = mk<T> (F); }
    C.M       = rigid<T> (s, s * std::ldexp (1.0, (int) std::floor (std::log2 (F.n))), aa);
    ++hits[std::string (aa ? "cull:camera:axis-aligned:" : "cull:camera:rotated:") + tn<T> ()];
    C.s       = s;
    for (int i = 0; i < 3; ++i) { C.tr[i] = C.M[3][i]; for (int j = 0; j < 3; ++j) C.Rm[i][j] = (L) C.M[i][j] / s; }
    C.ft = FrustumTest<T> (C.fr, C.M);
    exactPlanes (C.fr, C.pl);
    C.margin = (getenv ("C16_MARGIN_SCALE") ? (L) atof (getenv ("C16_MARGIN_SCALE")) : 1) * (sizeof (T) == 4 ? 4e-6L : 1e-13L) * (1 + (std::fabs ((L) C.tr[0]) + std::fabs ((L) C.tr[1]) + std::fabs ((L) C.tr[2])) / (s * std::fabs ((L) F.n)));
    if (!aa)
    {
        // a rotated camera: planes (p, M) is computed from rotated corner points, its rounding error grows with the window offset and
        // (orthographic: side planes from one near and two far corners) with far / window
        L size = std::min ({(L) std::fabs (F.n), (L) std::fabs (F.r - F.l), (L) std::fabs (F.t - F.b)});
        L ext  = std::max ({(L) std::fabs (F.l), (L) std::fabs (F.r), (L) std::fabs (F.t), (L) std::fabs (F.b), (L) std::fabs (F.n)});
        C.margin *= 4 * (1 + ext / size) * (F.ortho ? (1 + (L) std::fabs (F.f) / size) : 1);
    }
    std::string frs = show (C.fr) + " M=[";
    char b[64];
    for (int i = 0; i < 4; ++i) for (int j = 0; j < 3; ++j) { snprintf (b, 64, "%.9g ", (double) C.M[i][j]); frs += b; }
    frs += "]";
    for (int plane = 0; plane < 6; ++plane)
        for (int kase = 0; kase < 7; ++kase) cullCase (C, plane, kase, frs);
}


// ------------------------------------------------------------------ executable specification on lattice frusta (double)
// Used (a) on every run as a second tie between the real code and the statements proved in Props/C16.lean and (b) by the
// check's failing-input search: when a theorem stops elaborating, the group of relations it belongs to is evaluated on the
// real code and the first violated relation is the replay.  Relations are evaluated at double on small dyadic frusta with a
// relative tolerance of 1e-9; ties (`>=` against `>`) use orthographic frusta with the identity camera, where every
// quantity is an exactly representable number.
static long specFails = 0, specEvals = 0;
static void sfail (const char* group, const std::string& what)
{
    ++specFails;
    if (specFails <= 30) printf ("SPECFAIL %s %s\n", group, what.c_str ());
}
static bool close (double a, double b, double scale = 1) { return std::fabs (a - b) <= 1e-9 * (std::fabs (a) + std::fabs (b) + scale); }
struct FrX : Frustum<double>
{
    FrX (const Frustum<double>& f) : Frustum<double> (f) {}
    using Frustum<double>::screenToLocal;
    using Frustum<double>::localToScreen;
};
static void specOne (const Fr& F, int k, bool projOnly = false)
{
    Frustum<double> fr = mk<double> (F);
    FrX             fx (fr);
    std::string     fs = show (fr);
    double n = F.n, f = F.f, l = F.l, r = F.r, t = F.t, b = F.b;
    char   buf[300];
    Matrix44<double> M = fr.projectionMatrix ();
    // projectionMatrix: corners -> cube corners
    for (int c = 0; c < 8; ++c)
    {
        bool cx = c & 1, cy = c & 2, cz = c & 4;
        double s = (cz && !F.ortho) ? f / n : 1;
        Vec3<double> p ((cx ? r : l) * s, (cy ? t : b) * s, -(cz ? f : n)), q = p * M;
        ++specEvals;
        if (!(close (q.x, cx ? 1 : -1) && close (q.y, cy ? 1 : -1) && close (q.z, cz ? 1 : -1)))
        {
            snprintf (buf, 300, " corner (%g %g %g) -> (%.12g %.12g %.12g), expected (%d %d %d)", p.x, p.y, p.z, q.x, q.y, q.z, cx ? 1 : -1, cy ? 1 : -1, cz ? 1 : -1);
            sfail ("projectionMatrix", fs + buf);
        }
    }
    // projectPointToScreen = (p*M).xy ; ray through every point projecting to s ; screenToLocal/localToScreen
    for (int j = 0; j < 4; ++j)
    {
        Vec3<double> p (I (-8, 8) / 4.0, I (-8, 8) / 4.0, -(n + (f - n) * I (1, 7) / 8.0));
        Vec3<double> q = p * M;
        Vec2<double> sp = fr.projectPointToScreen (p);
        ++specEvals;
        if (!(close (sp.x, q.x) && close (sp.y, q.y)))
        {
            snprintf (buf, 300, " p=(%g %g %g): projectPointToScreen=(%.12g %.12g) but (p*M).xy=(%.12g %.12g)", p.x, p.y, p.z, sp.x, sp.y, q.x, q.y);
            sfail ("projectPointToScreen", fs + buf);
        }
        Vec2<double> s2 (I (-4, 4) / 4.0, I (-4, 4) / 4.0);
        Line3<double> ray = fr.projectScreenToRay (s2);
        for (double u : {0.5, 1.0, 3.0})
        {
            Vec3<double> pt = ray (u * (F.ortho ? 1 : n));
            if (!F.ortho && pt.z == 0) continue;
            Vec2<double> back = fr.projectPointToScreen (pt);
            ++specEvals;
            if (!(close (back.x, s2.x) && close (back.y, s2.y)))
            {
                snprintf (buf, 300, " s=(%g %g): ray point (%.12g %.12g %.12g) projects to (%.12g %.12g)", s2.x, s2.y, pt.x, pt.y, pt.z, back.x, back.y);
                sfail ("projectScreenToRay", fs + buf);
            }
        }
        Vec2<double> loc = fx.screenToLocal (s2), scr = fx.localToScreen (loc);
        Vec2<double> c0 = fx.screenToLocal (Vec2<double> (-1, -1)), c1 = fx.screenToLocal (Vec2<double> (1, 1));
        ++specEvals;
        if (!(close (scr.x, s2.x) && close (scr.y, s2.y) && close (c0.x, l) && close (c0.y, b) && close (c1.x, r) && close (c1.y, t)))
        {
            snprintf (buf, 300, " s=(%g %g): screenToLocal=(%.12g %.12g) localToScreen of it=(%.12g %.12g); corners (%.12g %.12g) (%.12g %.12g)", s2.x, s2.y, loc.x, loc.y, scr.x, scr.y, c0.x, c0.y, c1.x, c1.y);
            sfail ("screenLocal", fs + buf);
        }
        // depth
        double zn = I (0, 8) / 8.0, d = fr.normalizedZToDepth (zn);
        Vec3<double> qd = Vec3<double> (0.25, -0.5, d) * M;
        double Zp = c16_depthToZp (fr, d);
        long   zr = fr.DepthToZ (d, 0, 1000);
        ++specEvals;
        if (!(close (qd.z, 2 * zn - 1) && close ((Zp + 1) / 2, zn) && std::labs (zr - (long) (zn * 1000)) <= 1 &&
              close (fr.normalizedZToDepth (0.0), -n) && close (fr.normalizedZToDepth (1.0), -f)))
        {
            snprintf (buf, 300, " zn=%g: normalizedZToDepth=%.12g matrix depth=%.12g Zp=%.12g DepthToZ(.,0,1000)=%ld", zn, d, qd.z, Zp, zr);
            sfail ("depth", fs + buf);
        }
        // radii
        double rad = I (1, 8) / 4.0, sr = fr.screenRadius (p, rad), wr = fr.worldRadius (p, sr);
        ++specEvals;
        if (!(close (wr, rad) && close (sr, (p.x + rad) * n / -p.z - p.x * n / -p.z)))
        {
            snprintf (buf, 300, " p.z=%g radius=%g: screenRadius=%.12g worldRadius(screenRadius)=%.12g", p.z, rad, sr, wr);
            sfail ("radius", fs + buf);
        }
        // window: the new near-plane window, seen from the old frustum, is the requested rectangle; full screen = same frustum
        double wl = I (-4, 0) / 4.0, wrr = I (1, 4) / 4.0, wt = I (1, 4) / 4.0, wb = I (-4, 0) / 4.0;
        Frustum<double> w = fr.window (wl, wrr, wt, wb), wf = fr.window (-1, 1, 1, -1);
        Vec2<double> a0 = fx.localToScreen (Vec2<double> (w.left (), w.bottom ())), a1 = fx.localToScreen (Vec2<double> (w.right (), w.top ()));
        ++specEvals;
        if (!(close (a0.x, wl) && close (a0.y, wb) && close (a1.x, wrr) && close (a1.y, wt) && w.nearPlane () == n && w.farPlane () == f &&
              w.orthographic () == F.ortho && close (wf.left (), l) && close (wf.right (), r) && close (wf.top (), t) && close (wf.bottom (), b)))
        {
            snprintf (buf, 300, " window(%g %g %g %g) -> l=%.12g r=%.12g t=%.12g b=%.12g", wl, wrr, wt, wb, w.left (), w.right (), w.top (), w.bottom ());
            sfail ("window", fs + buf);
        }
    }
    // ctor / set / degenerate
    {
        Frustum<double> g (9, 8, 7, 6, 5, 4, !F.ortho);
        g.set (n, f, l, r, t, b, F.ortho);
        ++specEvals;
        if (!(g == fr && fr.nearPlane () == n && fr.farPlane () == f && fr.left () == l && fr.right () == r && fr.top () == t && fr.bottom () == b &&
              fr.orthographic () == F.ortho && !fr.degenerate () && Frustum<double> (n, n, l, r, t, b).degenerate () &&
              Frustum<double> (n, f, l, l, t, b).degenerate () && Frustum<double> (n, f, l, r, t, t).degenerate ()))
            sfail ("ctor", fs + " constructor / set / accessors / degenerate");
        // operator=, copy constructor, ==, != (each field separately), hither / yon, default constructor
        Frustum<double> h (9, 8, 7, 6, 5, 4, !F.ortho), c2 (fr), dflt;
        h = fr;
        bool okc = h.nearPlane () == n && h.farPlane () == f && h.left () == l && h.right () == r && h.top () == t && h.bottom () == b &&
                   h.orthographic () == F.ortho && c2.nearPlane () == n && c2.farPlane () == f && c2.left () == l && c2.right () == r &&
                   c2.top () == t && c2.bottom () == b && c2.orthographic () == F.ortho && fr.hither () == n && fr.yon () == f && h == fr && !(h != fr) &&
                   dflt.nearPlane () == 0.1 && dflt.farPlane () == 1000 && dflt.left () == -1 && dflt.right () == 1 && dflt.top () == 1 &&
                   dflt.bottom () == -1 && !dflt.orthographic ();
        for (int q = 0; q < 7; ++q)
        {
            Frustum<double> d (n + (q == 0), f + (q == 1), l + (q == 2), r + (q == 3), t + (q == 4), b + (q == 5), q == 6 ? !F.ortho : F.ortho);
            if (d == fr || !(d != fr)) okc = false;
        }
        ++specEvals;
        if (!okc) sfail ("ctor", fs + " operator= / copy constructor / == / != / hither / yon / default constructor");
    }
    // inverted windows (l > r, b > t) and negative near / far: only the projection half of the property is stated for them
    // (corner theorems need `≠` only); the planes / culling half needs l < r, b < t, 0 < n (< f)
    if (projOnly) return;
    // fov / aspect / set (fov, aspect)
    {
        double fov = I (1, 6) / 4.0, asp = I (2, 8) / 4.0, nn = n;
        Frustum<double> a (nn, f, fov, 0.0, asp), c (nn, f, 0.0, fov, asp), e = fr;
        e.set (nn, f, fov, 0.0, asp);
        ++specEvals;
        if (!(close (a.fovx (), fov) && close (a.aspect (), asp) && close (c.fovy (), fov) && close (c.aspect (), asp) && a.left () == -a.right () &&
              a.bottom () == -a.top () && close (a.right (), nn * std::tan (fov / 2)) && close (c.top (), nn * std::tan (fov / 2)) && !a.orthographic () &&
              e == a && close (fr.aspect (), (r - l) / (t - b)) && close (fr.fovx (), std::atan2 (r, n) - std::atan2 (l, n)) &&
              close (fr.fovy (), std::atan2 (t, n) - std::atan2 (b, n))))
        {
            snprintf (buf, 300, " set(n=%g, f=%g, fov=%g, aspect=%g): fovx=%.12g aspect=%.12g | fovy form: fovy=%.12g aspect=%.12g", nn, f, fov, asp, a.fovx (), a.aspect (), c.fovy (), c.aspect ());
            sfail ("fov", fs + buf);
        }
    }
    // modifyNearAndFar keeps the view angles (perspective) / the window (orthographic)
    {
        double n2 = n * I (1, 6) / 2.0, f2 = n2 * 4;
        Frustum<double> g = fr;
        g.modifyNearAndFar (n2, f2);
        double sc = F.ortho ? 1 : n2 / n;
        ++specEvals;
        if (!(g.nearPlane () == n2 && g.farPlane () == f2 && close (g.left (), l * sc) && close (g.right (), r * sc) && close (g.top (), t * sc) &&
              close (g.bottom (), b * sc) && g.orthographic () == F.ortho))
        {
            snprintf (buf, 300, " modifyNearAndFar(%g, %g) -> n=%.12g f=%.12g l=%.12g r=%.12g t=%.12g b=%.12g", n2, f2, g.nearPlane (), g.farPlane (), g.left (), g.right (), g.top (), g.bottom ());
            sfail ("modify", fs + buf);
        }
    }
    // planes (p): order top,right,bottom,left,near,far; unit outward normals; each face's four corners on its plane, the
    // frustum centre strictly inside all six
    {
        Plane3<double> P[6];
        fr.planes (P);
        double sF = F.ortho ? 1 : f / n;
        Vec3<double> C[8]; // index: bit0 = right, bit1 = top, bit2 = far
        for (int c = 0; c < 8; ++c) { double s = (c & 4) ? sF : 1; C[c] = Vec3<double> (((c & 1) ? r : l) * s, ((c & 2) ? t : b) * s, -((c & 4) ? f : n)); }
        static const int face[6][4] = {{2, 3, 6, 7}, {1, 3, 5, 7}, {0, 1, 4, 5}, {0, 2, 4, 6}, {0, 1, 2, 3}, {4, 5, 6, 7}};
        Vec3<double> ctr (0, 0, 0);
        for (auto& c : C) ctr += c / 8.0;
        double size = std::fabs (f) + std::fabs (r) + std::fabs (l) + std::fabs (t) + std::fabs (b);
        for (int i = 0; i < 6; ++i)
        {
            bool ok = close (P[i].normal.length (), 1) && P[i].distanceTo (ctr) < 0;
            for (int c = 0; c < 8; ++c)
            {
                bool onFace = c == face[i][0] || c == face[i][1] || c == face[i][2] || c == face[i][3];
                double d = P[i].distanceTo (C[c]);
                if (onFace ? !(std::fabs (d) <= 1e-9 * size) : !(d < 0)) ok = false;
            }
            ++specEvals;
            if (!ok)
            {
                static const char* nm[6] = {"top", "right", "bottom", "left", "near", "far"};
                snprintf (buf, 300, " plane[%d] (expected the %s plane, outward unit normal) = normal (%.12g %.12g %.12g) distance %.12g", i, nm[i], P[i].normal.x, P[i].normal.y, P[i].normal.z, P[i].distance);
                sfail ("planes", fs + buf);
            }
        }
        // planes (p, M): the same planes mapped by a rigid, uniformly scaled M
        Matrix44<double> Mc = rigid<double> (std::ldexp (1.0, I (-2, 2)), n, true);
        Plane3<double>   PM[6];
        fr.planes (PM, Mc);
        for (int i = 0; i < 6 && (!F.ortho || n < f); ++i)
        {
            bool ok = close (PM[i].normal.length (), 1) && PM[i].distanceTo (ctr * Mc) < 0;
            for (int c = 0; c < 8; ++c)
            {
                bool onFace = c == face[i][0] || c == face[i][1] || c == face[i][2] || c == face[i][3];
                double d = PM[i].distanceTo (C[c] * Mc);
                if (onFace ? !(std::fabs (d) <= 1e-9 * size * 8) : !(d < 0)) ok = false;
            }
            ++specEvals;
            if (!ok)
            {
                snprintf (buf, 300, " planes(p,M)[%d] = normal (%.12g %.12g %.12g) distance %.12g does not contain the mapped face / is not outward", i, PM[i].normal.x, PM[i].normal.y, PM[i].normal.z, PM[i].distance);
                sfail ("planesM", fs + buf);
            }
        }
    }
    // FrustumTest, exact ties: orthographic frustum, identity camera, dyadic numbers: every quantity is exact
    if (F.ortho && n < f)
    {
        Matrix44<double>    Id;
        FrustumTest<double> ft (fr, Id);
        ++specEvals;
        if (!(ft.currentFrustum () == fr && ft.cameraMat () == Id)) sfail ("frustumtest", fs + " setFrustum does not store the frustum / camera matrix");
        double cx = (l + r) / 2, cy = (b + t) / 2, cz = -(n + f) / 2, rho = std::min ({r - l, t - b, f - n}) / 8;
        struct Face { double x, y, z, nx, ny, nz; } faces[6] = {{cx, t, cz, 0, 1, 0}, {r, cy, cz, 1, 0, 0}, {cx, b, cz, 0, -1, 0}, {l, cy, cz, -1, 0, 0}, {cx, cy, -n, 0, 0, 1}, {cx, cy, -f, 0, 0, -1}};
        for (int i = 0; i < 6; ++i)
        {
            const Face& A = faces[i];
            auto at = [&] (double off) { return Vec3<double> (A.x + off * A.nx, A.y + off * A.ny, A.z + off * A.nz); };
            bool okP = ft.isVisible (at (-rho)) && !ft.isVisible (at (0)) && !ft.isVisible (at (rho));
            // sphere: centre at signed distance off from the plane
            bool okS = ft.isVisible (Sphere3<double> (at (rho / 2), rho)) && ft.isVisible (Sphere3<double> (at (-rho / 2), rho)) &&
                       !ft.isVisible (Sphere3<double> (at (rho), rho)) && !ft.isVisible (Sphere3<double> (at (2 * rho), rho)) &&
                       ft.completelyContains (Sphere3<double> (at (-2 * rho), rho)) && !ft.completelyContains (Sphere3<double> (at (-rho), rho)) &&
                       !ft.completelyContains (Sphere3<double> (at (-rho / 2), rho));
            auto box = [&] (double off) { Vec3<double> c = at (off); return Box<Vec3<double>> (c - Vec3<double> (rho), c + Vec3<double> (rho)); };
            bool okB = ft.isVisible (box (rho / 2)) && ft.isVisible (box (-rho / 2)) && !ft.isVisible (box (rho)) && !ft.isVisible (box (2 * rho)) &&
                       ft.completelyContains (box (-2 * rho)) && !ft.completelyContains (box (-rho)) && !ft.completelyContains (box (-rho / 2)) &&
                       !ft.isVisible (Box<Vec3<double>> ()) && !ft.completelyContains (Box<Vec3<double>> ());
            ++specEvals;
            if (!(okP && okS && okB))
            {
                snprintf (buf, 300, " plane %d, objects of size %g at offsets {-2,-1,-1/2,0,1/2,1,2}*size from the face point (%g %g %g): point ok=%d sphere ok=%d box ok=%d "
                          "(strictly inside <=> visible; touching from outside is NOT visible; touching from inside is NOT completely contained)", i, rho, A.x, A.y, A.z, (int) okP, (int) okS, (int) okB);
                sfail ("frustumtest", fs + buf);
            }
        }
    }
}
static int specMain (unsigned long seed)
{
    rng.seed (seed * 7919 + 5);
    for (int k = 0; k < 240; ++k)
    {
        Fr F;
        F.n = std::ldexp (1.0, I (-2, 3));
        F.f = F.n * (double[]){2, 4, 8, 16}[k % 4];
        F.l = I (-12, 4) / 4.0 * F.n; F.r = F.l + I (1, 12) / 4.0 * F.n;
        F.b = I (-12, 4) / 4.0 * F.n; F.t = F.b + I (1, 12) / 4.0 * F.n;
        F.ortho = (k / 4) % 2 == 1;
        specOne (F, k);
    }
    for (int k = 0; k < 24; ++k)
    {
        // inverted / mirrored frusta: l > r, b > t, negative near and far (k % 3 == 2)
        Fr F;
        F.n = std::ldexp (1.0, I (-2, 3));
        F.f = F.n * (double[]){2, 4, 8, 16}[k % 4];
        F.l = I (-12, 4) / 4.0 * F.n; F.r = F.l + I (1, 12) / 4.0 * F.n;
        F.b = I (-12, 4) / 4.0 * F.n; F.t = F.b + I (1, 12) / 4.0 * F.n;
        if (k % 3 != 1) std::swap (F.l, F.r);
        if (k % 3 != 0) std::swap (F.b, F.t);
        if (k % 3 == 2) { F.n = -F.n; F.f = -F.f; }
        F.ortho = (k / 4) % 2 == 1;
        specOne (F, k, true);
    }
    printf ("C16SPEC evals=%ld failures=%ld\n", specEvals, specFails);
    return specFails ? 1 : 0;
}

// ------------------------------------------------------------------ Z. integer depth mapping vs the Lean machine-integer model
// usage: c16_corr zmodel <seed> <argsfile>
// <argsfile> is WRITTEN BY THE LEAN MODEL (Model/FrustumZ.lean, evaluated by tools/props/c16.py): one line per case
//     z zmin zmax zvalWrapped zdiff(ZToDepth) zdiff(DepthToZ)
// H (exact): ZToDepth (z, zmin, zmax) == normalizedZToDepth ((T (zvalWrapped) - T (zmin)) / T (zdiff)), bit for bit, where the two
//     integers come from Lean, not from a copy of the C++ prologue;  DepthToZ's operand x = 0.5 * (Zp + 1) * zdiffLong is printed
//     (`ZT` lines, hex) together with the real result so that the check can run the Lean tail `long (x) + zmin` on it.
// S (independent expectation, written from the meaning of a z-buffer value, long double, `long` width throughout):
//     ZToDepth (z) = depth of normalised value (z' - zmin) / (zmax - zmin),  z' = z for z <= zmax + 1, else z - (zmax - zmin);
//     perspective depth of normalised value u: -2 f n / ((f + n) - (2 u - 1) (f - n));  orthographic: -(n + u (f - n)).
//     Failure keys: ZToDepth:zrange-lt-2^31 / ZToDepth:zrange-ge-2^31 (width of zmax - zmin), ZToDepth:wrap for z > zmax + 1.
static int zNumFrusta = 16, zNumDepths = 4;
static long zFails = 0, zEvals = 0, zJudged = 0, zWideJudged = 0, zWrapJudged = 0, zTail = 0;
static std::map<std::string, int> zKeys;
static void zfail (const std::string& key, const std::string& detail)
{
    ++zFails;
    if (++zKeys[key] <= 3) printf ("C16Z-FAIL %s %s\n", key.c_str (), detail.c_str ());
}
struct ZCase { long z, zmin, zmax, zw, zdInt, zdLong; };
template <class T> static void zmodelOne (const Fr& F, const std::vector<ZCase>& cases)
{
    Frustum<T> fr = mk<T> (F);
    L eps = std::numeric_limits<T>::epsilon ();
    L n = fr.nearPlane (), f = fr.farPlane ();
    for (const ZCase& c : cases)
    {
        T dReal = fr.ZToDepth (c.z, c.zmin, c.zmax);
        T fz    = (T (c.zw) - T (c.zmin)) / T (c.zdInt);
        T dLean = fr.normalizedZToDepth (fz);
        ++zEvals;
        char buf[400];
        if (!sameBits (dReal, dLean))
        {
            snprintf (buf, 400, " ZToDepth(%ld, %ld, %ld) = %.17g but the Lean model's integers (zval' = %ld, zdiff = %ld) give %.17g", c.z, c.zmin, c.zmax,
                      (double) dReal, c.zw, c.zdInt, (double) dLean);
            zfail (std::string ("H:zmodel:ZToDepth:") + tn<T> (), show (fr) + buf);
        }
        // independent expectation
        {
            __int128 width = (__int128) c.zmax - (__int128) c.zmin;
            bool     wide  = width >= ((__int128) 1 << 31), wrap = (__int128) c.z > (__int128) c.zmax + 1;
            __int128 zeff  = wrap ? (__int128) c.z - width : (__int128) c.z;
            L u = (L) (zeff - (__int128) c.zmin) / (L) width, Zp = 2 * u - 1, expect, kappa;
            if (F.ortho) { expect = -(n + u * (f - n)); kappa = (std::fabs (Zp * (f - n)) + std::fabs (f + n)) / std::fabs (2 * expect); }
            else { L den = (f + n) - Zp * (f - n); expect = -2 * f * n / den; kappa = (std::fabs (Zp * (f - n)) + std::fabs (f) + std::fabs (n)) / std::fabs (den); }
            L tol = 64 * eps * (1 + kappa);
            if (width > 0 && std::isfinite ((double) expect) && expect != 0 && tol < 0.25L)
            {
                ++zJudged; if (wide) ++zWideJudged; if (wrap) ++zWrapJudged;
                L err = std::fabs ((L) dReal - expect) / std::fabs (expect);
                if (!wide && !wrap) record (std::string ("ZToDepth_vs_expected/(eps*(1+kappa)):") + tn<T> (), (double) (err / (eps * (1 + kappa))));
                if (!(err <= tol))
                {
                    snprintf (buf, 400, " ZToDepth(%ld, %ld, %ld) = %.17g, expected %.17Lg (normalised value %.17Lg of the range; zmax - zmin = %s 2^31)", c.z, c.zmin, c.zmax,
                              (double) dReal, expect, u, wide ? ">=" : "<");
                    zfail (std::string ("ZToDepth:") + (wide ? "zrange-ge-2^31" : wrap ? "wrap" : "zrange-lt-2^31"), show (fr) + buf);
                }
            }
        }
        // DepthToZ: operand of the cast (transcript Zp, proved = the real body's by depthToZp_*_real_body), for the Lean tail
        T depths[4] = {dReal, T (-0.5 * F.n), T (-2.0 * F.f), T (-(F.n + F.f) / 2)};
        for (int j = 0; j < zNumDepths; ++j)
        {
            T d = depths[j];
            if (!(d == d) || d == T (0)) continue;
            T      Zp = c16_depthToZp (fr, d);
            double x  = 0.5 * (Zp + 1) * c.zdLong;
            if (!(std::fabs (x) < 4e18)) continue;
            long zReal = fr.DepthToZ (d, c.zmin, c.zmax);
            ++zTail;
            printf ("ZT %s %a %ld %ld\n", tn<T> (), x, c.zmin, zReal);
        }
    }
}
static int zmodelMain (unsigned long seed, const char* path)
{
    std::vector<ZCase> cases;
    FILE* fp = fopen (path, "r");
    if (!fp) { printf ("C16Z cannot open %s\n", path); return 2; }
    ZCase c;
    while (fscanf (fp, "%ld %ld %ld %ld %ld %ld", &c.z, &c.zmin, &c.zmax, &c.zw, &c.zdInt, &c.zdLong) == 6) cases.push_back (c);
    fclose (fp);
    rng.seed (seed * 40503ul + 77);
    for (int k = 0; k < zNumFrusta; ++k)
    {
        Fr F = genFrustum (k);
        if (k < 4) { F.n = 1; F.f = (double[]){2, 3, 1000, 17}[k]; F.l = -1; F.r = 1; F.b = -1; F.t = 1; F.ortho = k % 2; }
        zmodelOne<float> (F, cases);
        zmodelOne<double> (F, cases);
    }
    printf ("C16Z cases=%zu evals=%ld judged=%ld wide_judged=%ld wrap_judged=%ld tails=%ld failures=%ld\n", cases.size (), zEvals, zJudged, zWideJudged, zWrapJudged, zTail, zFails);
    for (auto& kv : zKeys) printf ("C16ZKEY %s %d\n", kv.first.c_str (), kv.second);
    for (auto& kv : worst) printf ("C16MAX %s %.4g\n", kv.first.c_str (), kv.second);
    return zFails ? 1 : 0;
}

// ------------------------------------------------------------------ L. FrustumTest on an exact lattice, for the Lean-text-vs-real-code comparison
// usage: c16_corr ftlattice <seed>
// Orthographic unit-cube frustum (n 1, f 2, window [0,1]^2), cameras = signed permutation + dyadic translation (every cross product of
// planes (p, M) has length exactly 1, every number is dyadic): the REAL FrustumTest<double> is exact here, so the generated Lean
// definitions (Gen/C16Test.lean calling Gen/C16PlanesM.lean), EVALUATED at Rat with sqrt := id by tools/props/c16.py, must give the same
// answers.  This validates the emitted Lean TEXT of the entries that translator validation at Rat skips (they call opaque functions).
static void hexv (double v) { printf (" %a", v); }
static int ftLatticeMain (unsigned long seed)
{
    rng.seed (seed * 9176ul + 3);
    Frustum<double> fr (1, 2, 0, 1, 1, 0, true);
    for (int c = 0; c < 6; ++c)
    {
        Matrix44<double> M = c == 0 ? Matrix44<double> () : rigid<double> (1.0, 1.0, true);
        FrustumTest<double> ft (fr, M);
        printf ("FTL-CAM");
        for (int i = 0; i < 4; ++i) for (int j = 0; j < 4; ++j) hexv (M[i][j]);
        printf ("\n");
        for (int k = 0; k < 24; ++k)
        {
            // camera-space lattice point around and inside the cube, mapped to world space (exact)
            bool inside = k % 2 == 0; // half of the objects centred inside the cube and small, half around it and large
            Vec3<double> q = inside ? Vec3<double> (I (1, 7) / 8.0, I (1, 7) / 8.0, -(1 + I (1, 7) / 8.0))
                                    : Vec3<double> (I (-2, 6) / 4.0, I (-2, 6) / 4.0, -(I (2, 10) / 4.0));
            Vec3<double> w = q * M;
            double rad = inside ? (double[]){0.0625, 0.125, 0.25, 0.0}[(k / 2) % 4] : (double[]){0.25, 0.5, 1.0, 0.0}[(k / 2) % 4];
            double hs  = inside ? 16.0 : 4.0;
            Vec3<double> h (I (0, 4) / hs, I (0, 4) / hs, I (0, 4) / hs);
            Sphere3<double> sp (w, rad);
            Box<Vec3<double>> bx (w - h, w + h);
            if (k == 23) bx = Box<Vec3<double>> (w + Vec3<double> (1, 0, 0), w); // empty box
            printf ("FTL-OBJ");
            hexv (w.x); hexv (w.y); hexv (w.z); hexv (rad);
            hexv (bx.min.x); hexv (bx.min.y); hexv (bx.min.z); hexv (bx.max.x); hexv (bx.max.y); hexv (bx.max.z);
            printf (" %d %d %d %d %d\n", (int) ft.isVisible (w), (int) ft.isVisible (sp), (int) ft.isVisible (bx), (int) ft.completelyContains (sp),
                    (int) ft.completelyContains (bx));
        }
    }
    return 0;
}

// formerly failing input (finding planesM:float:far-plane-normal-overflow, fixed by /repo 16a5ca8): far/near = 1e6 with a window of
// several near distances; judged by the check (obligation probe:far-plane)
static void overflowProbe ()
{
    Frustum<float> fr (390.092346f, 390092352.f, 1154.62439f, 6716.17383f, 944.499451f, -4814.44336f, false);
    Matrix44<float> Id;
    Plane3<float>   p[6];
    fr.planes (p, Id);
    bool degenerate = p[5].normal.x == 0 && p[5].normal.y == 0 && p[5].normal.z == 0;
    FrustumTest<float> ft (fr, Id);
    bool vis = ft.isVisible (Vec3<float> (3000.f, -2000.f, -1000.f)); // well inside: 390 < 1000 < 3.9e8, x*n/1000 = 1170 in [1154, 6716], y*n/1000 = -780 in [-4814, 944]
    hits["info:float_far_plane_overflow:normal_is_zero"]                 = degenerate ? 1 : 0;
    hits["info:float_far_plane_overflow:interior_point_reported_invisible"] = vis ? 0 : 1;
    // one machine-readable line for the check (obligation `planesM:float:far-plane-normal-overflow`)
    printf ("C16PROBE far-plane frustum=Frustumf(390.092346,390092352,1154.62439,6716.17383,944.499451,-4814.44336,persp) camera=identity "
            "planes(p,M)[5].normal=(%.9g,%.9g,%.9g) distance=%.9g point=(3000,-2000,-1000) isVisible=%d expected_normal=(0,0,-1) expected_distance=390092352 expected_isVisible=1\n",
            (double) p[5].normal.x, (double) p[5].normal.y, (double) p[5].normal.z, (double) p[5].distance, (int) vis);
}

int main (int argc, char** argv)
{
    if (argc > 1 && !strcmp (argv[1], "spec")) return specMain (argc > 2 ? strtoul (argv[2], 0, 10) : 1);
    if (argc > 1 && !strcmp (argv[1], "ftlattice")) return ftLatticeMain (argc > 2 ? strtoul (argv[2], 0, 10) : 1);
    if (argc > 3 && !strcmp (argv[1], "zmodel"))
    {
        if (argc > 4) zNumFrusta = atoi (argv[4]);
        if (argc > 5) zNumDepths = atoi (argv[5]);
        return zmodelMain (strtoul (argv[2], 0, 10), argv[3]);
    }
    unsigned long seed = argc > 1 ? strtoul (argv[1], 0, 10) : 1;
    int           n    = argc > 2 ? atoi (argv[2]) : 200;
    rng.seed (seed * 2654435761ul + 16);
    for (int k = 0; k < n; ++k)
    {
        Fr F = genFrustum (k);
        corners<float> (F);  corners<double> (F);
        depth<float> (F);    depth<double> (F);
        planesM<float> (F, k); planesM<double> (F, k);
        Fr G = F;
        if (G.f / G.n > 1e4) G.f = G.n * 100; // culling: objects sized by the free room; extreme ratios leave no room on the near faces
        culling<float> (G, k); culling<double> (G, k);
    }
    overflowProbe ();
    long evals = 0;
    for (auto& kv : hits) if (kv.first.find ("ambiguous") == std::string::npos && kv.first.find ("info:") != 0 && kv.first.find ("touching") == std::string::npos && kv.first.find ("poking") == std::string::npos && kv.first.find ("within_1") == std::string::npos && kv.first.find ("judged_strictly") == std::string::npos && kv.first.find ("cull:camera") != 0 &&
                              !(kv.first.find ("mirrored_M:") == 0 && kv.first.find ("judged") == std::string::npos)) evals += kv.second;
    printf ("C16MARGINSCALE %s\n", getenv ("C16_MARGIN_SCALE") ? getenv ("C16_MARGIN_SCALE") : "1");
    printf ("C16CORR evals=%ld failures=%ld\n", evals, failures);
    for (auto& kv : hits) printf ("C16HIT %s %ld\n", kv.first.c_str (), kv.second);
    for (auto& kv : worst) printf ("C16MAX %s %.4g\n", kv.first.c_str (), kv.second);
    return failures ? 1 : 0;
}
