// C07 correspondence harness: every checked / unchecked pair of the REAL code, at float and double, on
// structured inputs concentrated on both sides of each guard.
//   * checked form returns   =>  result bit-identical to the unchecked form's;
//   * checked form throws    =>  the documented exception kind, and the unchecked form reports failure
//                                (zero vector / untouched vector / identity / false / the input matrix);
//   * throws <=> failure predicate, where the failure is observable or is a guard that the Lean theorems
//     (Props/C07.lean) characterise (the predicate is re-evaluated here in the same element type).
// This is how the pairs that cannot be extracted symbolically are decided (4x4 Gauss-Jordan, the 3-D
// decomposition functions, removeScaling / sansScaling, ZToDepth / DepthToZ), and how the float decisions
// one ulp either side of every guard are probed for the extracted ones.
// usage: c07_pairs <seed> <n> [lattice]   prints PAIR lines, PAIRFAIL lines and one C07PAIRS summary line;
//        `lattice` adds the exhaustive small-integer lattices for the Gauss-Jordan pairs (gjLattice)
#include <ImathVec.h>
#include <ImathMatrix.h>
#include <ImathMatrixAlgo.h>
#include <ImathFrustum.h>
#include <ImathEuler.h>
#include <cmath>
#include <cstdio>
#include <cstdlib>
#include <cstring>
#include <functional>
#include <limits>
#include <map>
#include <random>
#include <stdexcept>
#include <string>
#include <vector>
using namespace IMATH_NAMESPACE;

static std::mt19937_64 rng;
struct Stat { long evals = 0, returned = 0, threw = 0, fails = 0; std::map<std::string, long> cls; };
static std::map<std::string, Stat> stats;
static long failures = 0, printed = 0;

template <class T> struct TN;
template <> struct TN<float> { static const char* n () { return "float"; } };
template <> struct TN<double> { static const char* n () { return "double"; } };

template <class T> struct Res
{
    std::vector<T>    v;
    std::vector<long> i;
    int               kind = 0; // 0 returned, 1 std::domain_error, 2 std::invalid_argument, 3 anything else
};
template <class T, class F> static Res<T> run (F f)
{
    Res<T> r;
    try { f (r); }
    catch (const std::domain_error&) { r.kind = 1; }
    catch (const std::invalid_argument&) { r.kind = 2; }
    catch (...) { r.kind = 3; }
    if (r.kind) { r.v.clear (); r.i.clear (); }
    return r;
}
template <class T> static bool sameBits (const Res<T>& a, const Res<T>& b)
{
    if (a.v.size () != b.v.size () || a.i != b.i) return false;
    for (size_t k = 0; k < a.v.size (); ++k) if (memcmp (&a.v[k], &b.v[k], sizeof (T)) != 0) return false;
    return true;
}
template <class T> static std::string hexOf (const std::vector<T>& in)
{
    std::string s;
    char        b[64];
    for (auto& x : in)
    {
        if (sizeof (T) == 4) { uint32_t u; memcpy (&u, &x, 4); snprintf (b, 64, "%08x(%.9g) ", u, (double) x); }
        else { uint64_t u; memcpy (&u, &x, 8); snprintf (b, 64, "%016llx(%.17g) ", (unsigned long long) u, (double) x); }
        s += b;
    }
    return s;
}
// one line per (pair, code, input class, element type): the key of a finding must not depend on the seed
static std::map<std::string, long> failKeys;
static void failLine (const std::string& name, const char* ty, const std::string& what, const std::string& in, const char* code = "mismatch", const char* cls = nullptr)
{
    ++failures;
    ++stats[name].fails;
    std::string key = name + ":" + code + ":" + (cls ? cls : "-");
    if (failKeys[key + ":" + ty]++ == 0 && printed++ < 80)
        printf ("PAIRFAIL %s | %s | %s | %s :: %s :: in=%s\n", name.c_str (), code, cls ? cls : "-", ty, what.c_str (), in.c_str ());
}
// failMode: 0 = no failure report to compare, 1 = throws => uFails, 2 = throws <=> uFails
template <class T>
static void check (const std::string& name, int docKind, const Res<T>& c, const Res<T>& u, int failMode, bool uFails,
                   const std::vector<T>& in, const char* cls = nullptr)
{
    Stat& s = stats[name];
    ++s.evals;
    if (cls) ++s.cls[std::string (cls) + (c.kind ? ":threw" : ":returned")];
    if (u.kind != 0) { failLine (name, TN<T>::n (), "the unchecked form threw", hexOf (in), "unchecked-threw", cls); return; }
    if (c.kind == 0)
    {
        ++s.returned;
        if (!sameBits (c, u))
        {
            std::string d = "checked form returned a result that is not bit-identical to the unchecked form's";
            for (size_t k = 0; k < c.v.size () && k < u.v.size (); ++k)
                if (memcmp (&c.v[k], &u.v[k], sizeof (T)) != 0)
                {
                    char b[160];
                    snprintf (b, 160, " (component %zu: checked %.17g, unchecked %.17g)", k, (double) c.v[k], (double) u.v[k]);
                    d += b;
                    break;
                }
            if (c.i != u.i) d += " (integer / flag results differ)";
            failLine (name, TN<T>::n (), d, hexOf (in), "not-bit-identical", cls);
        }
        if (failMode == 2 && uFails) failLine (name, TN<T>::n (), "unchecked form reports failure but the checked form did not throw", hexOf (in), "failure-without-throw", cls);
    }
    else
    {
        ++s.threw;
        if (c.kind != docKind)
            failLine (name, TN<T>::n (), std::string ("wrong exception kind: got ") + (c.kind == 1 ? "domain_error" : c.kind == 2 ? "invalid_argument" : "other"), hexOf (in), "wrong-exception-kind", cls);
        if (failMode >= 1 && !uFails) failLine (name, TN<T>::n (), "checked form threw but the unchecked form does not report failure", hexOf (in), "throw-without-failure", cls);
    }
}

//---------------------------------------------------------------------------
// input generators
template <class T> static T up (T x) { return std::nextafter (x, std::numeric_limits<T>::infinity ()); }
template <class T> static T dn (T x) { return std::nextafter (x, -std::numeric_limits<T>::infinity ()); }
static double u01 () { return (double) (rng () >> 11) / 9007199254740992.0; }
static int    ri (int lo, int hi) { return lo + (int) (rng () % (unsigned long) (hi - lo + 1)); }

template <class T> static T special ()
{
    typedef std::numeric_limits<T> L;
    const T e = L::epsilon ();
    const T tab[] = {T (0), T (-0.0), L::denorm_min (), T (3) * L::denorm_min (), L::min (), dn (L::min ()), up (L::min ()), T (2) * L::min (),
                     std::sqrt (L::min ()), e, T (0.5), dn (T (1)), T (1), up (T (1)), T (2), T (3), T (7), T (1) / e,
                     std::sqrt (L::max ()), std::sqrt (L::max ()) * T (2), L::max () / 4, L::max () / 2, dn (L::max ()), L::max ()};
    T x = tab[rng () % (sizeof (tab) / sizeof (T))];
    return (rng () & 1) ? x : -x;
}
// log-uniform over the whole finite range, or a small integer, or a special value
template <class T> static T any ()
{
    typedef std::numeric_limits<T> L;
    switch (rng () % 8)
    {
        case 0: return special<T> ();
        case 1: return (T) ri (-3, 3);
        case 2: return (T) (u01 () * 2 - 1);
        case 3: return (T) ri (-8, 8) * T (0.25);
        case 4: { double ex = L::min_exponent - L::digits + u01 () * (L::max_exponent - L::min_exponent + L::digits);
                  T x = (T) std::ldexp (1.0 + u01 (), (int) ex); return (rng () & 1) ? x : -x; }
        case 5: return (T) ((u01 () * 2 - 1) * std::pow (10.0, (double) ri (-6, 6)));
        case 6: return (rng () % 16 == 0) ? ((rng () & 1) ? L::infinity () : L::quiet_NaN ()) : (T) ri (-2, 2);
        default: return (T) (u01 () * 8 - 4);
    }
}
// moderate values only (no overflow / underflow anywhere)
template <class T> static T mod () { return (rng () % 3 == 0) ? (T) ri (-4, 4) : (T) ((u01 () * 2 - 1) * 4); }
// a divisor below 1 in magnitude that is a power of two (so that max * |d| is exact), and a numerator one ulp either side of max * |d|
template <class T> static void straddle (T& n, T& d, const char*& cls)
{
    typedef std::numeric_limits<T> L;
    int k = ri (1, L::max_exponent - 2);
    d     = (T) std::ldexp (1.0, -k);
    T m   = L::max () * d;
    switch (rng () % 3)
    {
        case 0: n = dn (m); cls = "one-ulp-below-guard"; break;
        case 1: n = m; cls = "exactly-at-guard"; break;
        default: n = up (m); cls = "one-ulp-above-guard";
    }
    if (rng () & 1) n = -n;
    if (rng () & 1) d = -d;
}
template <class T> static bool gGt (T n, T d) { return std::abs (d) < T (1) && std::abs (n) > std::numeric_limits<T>::max () * std::abs (d); }
template <class T> static bool gGe (T n, T d) { return std::abs (d) < T (1) && std::abs (n) >= std::numeric_limits<T>::max () * std::abs (d); }

template <class T, class V> static void putV (Res<T>& r, const V& v) { for (unsigned k = 0; k < V::dimensions (); ++k) r.v.push_back (v[k]); }
template <class T> static void putM (Res<T>& r, const Matrix22<T>& m) { for (int a = 0; a < 2; ++a) for (int b = 0; b < 2; ++b) r.v.push_back (m[a][b]); }
template <class T> static void putM (Res<T>& r, const Matrix33<T>& m) { for (int a = 0; a < 3; ++a) for (int b = 0; b < 3; ++b) r.v.push_back (m[a][b]); }
template <class T> static void putM (Res<T>& r, const Matrix44<T>& m) { for (int a = 0; a < 4; ++a) for (int b = 0; b < 4; ++b) r.v.push_back (m[a][b]); }

//---------------------------------------------------------------------------
// Vec2/3/4 normalize family
template <class T, class V> static void vecPairs (const char* vn)
{
    const int N = V::dimensions ();
    V         a;
    const char* cls = "generic";
    switch (rng () % 8)
    {
        case 0: for (int k = 0; k < N; ++k) a[k] = (rng () & 1) ? T (0) : T (-0.0); cls = "zero-vector"; break;
        case 1: for (int k = 0; k < N; ++k) a[k] = (rng () % 2) ? T (0) : (T) ri (-3, 3) * std::numeric_limits<T>::denorm_min (); cls = "denormal"; break;
        case 2: for (int k = 0; k < N; ++k) a[k] = (T) (u01 () * 2 - 1) * std::sqrt (std::numeric_limits<T>::min ()) * T (ri (0, 2)); cls = "tiny(length2-underflows)"; break;
        case 3: for (int k = 0; k < N; ++k) a[k] = (T) (u01 () * 2 - 1) * std::numeric_limits<T>::max () * T (0.5); cls = "huge(length2-overflows)"; break;
        case 4: for (int k = 0; k < N; ++k) a[k] = mod<T> (); cls = "moderate"; break;
        default: for (int k = 0; k < N; ++k) a[k] = any<T> ();
    }
    {
        // canonical witnesses first (deterministic, seed independent): one huge component whose square overflows, one tiny one
        static int first = 0;
        if (first < 3)
        {
            for (int k = 0; k < N; ++k) a[k] = T (0);
            if (first == 0) a[0] = (T) std::ldexp (1.0, std::numeric_limits<T>::max_exponent / 2 + 1);       // square overflows, length representable
            else if (first == 1) a[0] = (T) std::ldexp (1.0, std::numeric_limits<T>::min_exponent / 2 - 2);  // square underflows
            else { a[0] = std::numeric_limits<T>::max (); a[1] = std::numeric_limits<T>::max (); }           // the length itself overflows
            ++first;
        }
    }
    std::vector<T> in;
    for (int k = 0; k < N; ++k) in.push_back (a[k]);
    {
        // class of the input by what it IS (not by how it was generated): the key of a finding must not depend on the seed
        long double l2 = 0; bool fin = true, allz = true;
        for (int k = 0; k < N; ++k) { l2 += (long double) a[k] * (long double) a[k]; fin = fin && std::isfinite ((double) a[k]); allz = allz && a[k] == T (0); }
        cls = !fin ? "non-finite" : allz ? "zero-vector"
              : l2 > (long double) std::numeric_limits<T>::max ()
                  ? (std::sqrt (l2) <= (long double) std::numeric_limits<T>::max () ? "finite,length2-overflows,length-representable" : "finite,length-itself-overflows")
              : l2 < 2 * (long double) std::numeric_limits<T>::min () ? "length2-underflows" : "length2-normal";
    }
    bool zeroLen = a.length () == T (0);
    std::string p = std::string (vn) + ".";
    {
        auto c = run<T> ([&] (Res<T>& r) { putV (r, a.normalizedExc ()); });
        auto u = run<T> ([&] (Res<T>& r) { putV (r, a.normalized ()); });
        bool uz = true;
        for (auto& x : u.v) if (!(x == T (0))) uz = false;
        check<T> (p + "normalizedExc/normalized", 1, c, u, 2, uz, in, cls);
        auto w = run<T> ([&] (Res<T>& r) { putV (r, a.normalizedNonNull ()); });
        check<T> (p + "normalizedExc/normalizedNonNull", 1, c, w, 0, false, in);
        if ((c.kind != 0) != zeroLen) failLine (p + "normalizedExc/normalized", TN<T>::n (), "throws is not equivalent to length () == 0", hexOf (in), "throw-vs-length0", cls);
    }
    {
        auto c = run<T> ([&] (Res<T>& r) { V b = a; const V& ref = b.normalizeExc (); putV (r, b); putV (r, ref); });
        auto u = run<T> ([&] (Res<T>& r) { V b = a; const V& ref = b.normalize (); putV (r, b); putV (r, ref); });
        Res<T> same; putV (same, a); putV (same, a);
        check<T> (p + "normalizeExc/normalize", 1, c, u, 2, zeroLen, in, cls);
        if (zeroLen && !sameBits (u, same)) failLine (p + "normalizeExc/normalize", TN<T>::n (), "normalize () of a zero-length vector changed it", hexOf (in), "failure-changed-vector", cls);
        auto w = run<T> ([&] (Res<T>& r) { V b = a; const V& ref = b.normalizeNonNull (); putV (r, b); putV (r, ref); });
        check<T> (p + "normalizeExc/normalizeNonNull", 1, c, w, 0, false, in);
    }
}

template <class T> static void ofV4Pairs ()
{
    typedef std::numeric_limits<T> L;
    Vec4<T>     v;
    const char* cls = "generic";
    switch (rng () % 6)
    {
        case 0: { T n, d; straddle (n, d, cls); v = Vec4<T> (mod<T> (), mod<T> (), mod<T> (), d); v[ri (0, 2)] = n; break; }
        case 1: v = Vec4<T> (any<T> (), any<T> (), any<T> (), (rng () & 1) ? T (0) : T (-0.0)); cls = "w=0"; break;
        case 2: v = Vec4<T> (any<T> (), any<T> (), any<T> (), (T) ri (-3, 3) * L::denorm_min ()); cls = "w-denormal"; break;
        case 3: v = Vec4<T> (any<T> (), any<T> (), any<T> (), (T) (u01 () * 2 - 1)); cls = "|w|<1"; break;
        case 4: v = Vec4<T> (any<T> (), any<T> (), any<T> (), (T) (1 + u01 () * 100) * ((rng () & 1) ? 1 : -1)); cls = "|w|>=1"; break;
        default: v = Vec4<T> (any<T> (), any<T> (), any<T> (), any<T> ());
    }
    std::vector<T> in{v.x, v.y, v.z, v.w};
    auto c = run<T> ([&] (Res<T>& r) { putV (r, Vec3<T> (v, INF_EXCEPTION)); });
    auto u = run<T> ([&] (Res<T>& r) { putV (r, Vec3<T> (v)); });
    check<T> ("V3.ofV4Exc/ofV4", 1, c, u, 2, gGe (v.x, v.w) || gGe (v.y, v.w) || gGe (v.z, v.w), in, cls);
}

//---------------------------------------------------------------------------
// matrices
template <class T, class M> static M identityOf () { return M (); }
template <class T, class M> static bool isIdentity (const M& m) { return m == M (); }

template <class T, class M, int N> static bool isAffineM (const M& m)
{
    if (N <= 2) return false;
    for (int a = 0; a < N - 1; ++a) if (!(m[a][N - 1] == T (0))) return false;
    return m[N - 1][N - 1] == T (1);
}
// exact determinant of a matrix whose entries are integers of magnitude <= 8 (false otherwise)
template <class T, class M, int N> static bool intDet (const M& m, long long& det)
{
    long long a[4][4];
    for (int i = 0; i < N; ++i) for (int j = 0; j < N; ++j)
    {
        T x = m[i][j];
        if (!(x == std::floor (x)) || !(std::abs (x) <= T (8))) return false;
        a[i][j] = (long long) x;
    }
    auto d2 = [&] (int r0, int r1, int c0, int c1) { return a[r0][c0] * a[r1][c1] - a[r0][c1] * a[r1][c0]; };
    auto d3 = [&] (int r0, int r1, int r2, int c0, int c1, int c2) {
        return a[r0][c0] * d2 (r1, r2, c1, c2) - a[r0][c1] * d2 (r1, r2, c0, c2) + a[r0][c2] * d2 (r1, r2, c0, c1); };
    if (N == 2) det = d2 (0, 1, 0, 1);
    else if (N == 3) det = d3 (0, 1, 2, 0, 1, 2);
    else det = a[0][0] * d3 (1, 2, 3, 1, 2, 3) - a[0][1] * d3 (1, 2, 3, 0, 2, 3) + a[0][2] * d3 (1, 2, 3, 0, 1, 3) - a[0][3] * d3 (1, 2, 3, 0, 1, 2);
    return true;
}
// harness self-check against the exact integer determinant: the cofactor paths (2x2, 3x3, affine 4x4) compute the determinant of a
// small-integer matrix exactly, so they throw iff it is 0; Gauss-Jordan with partial pivoting cannot lose a pivot >= 1/3072 to rounding
// (must return when det != 0; a singular matrix may go numerically undetected: counted, not required)
template <class T> static void intDetCheck (const std::string& pair, bool cofactorPath, bool known, long long det, int kind, const std::vector<T>& in, const char* cls)
{
    if (!known) return;
    bool bad = cofactorPath ? ((kind != 0) != (det == 0)) : (det != 0 && kind != 0);
    if (bad)
        failLine (pair, TN<T>::n (), det == 0 ? "the exact integer determinant is 0 but the checked member returned" : "the exact integer determinant is not 0 but the checked member threw",
                  hexOf (in), "throw-vs-exact-integer-determinant", cls);
}

template <class T, class M, int N> static M matInput (const char*& cls)
{
    typedef std::numeric_limits<T> L;
    M m;
    cls = "generic";
    switch (rng () % 11)
    {
        case 10: // |det| = 2^-k * min * 2^j (normal), one cofactor 2^(j+2..j+5): clearly >= |det| / min, every entry a normal number
        {
            int j = ri (1, 6);
            m[0][0] = (T) std::ldexp (1.0, -ri (0, 3));
            m[1][1] = L::min () * (T) std::ldexp (1.0, j);
            m[0][1] = (T) std::ldexp (1.0, j + ri (2, 5));
            cls = "|det|-well-below-min*|cofactor|";
            break;
        }
        case 0: // |det| around 1: diagonal (1, 1 +- ulp, ...) possibly permuted with a unimodular shear
            m[0][0] = (rng () % 3 == 0) ? dn (T (1)) : (rng () & 1) ? T (1) : up (T (1));
            if (rng () & 1) m[0][1] = mod<T> ();
            cls = "|det|-around-1";
            break;
        case 1: // |det| around min * |cofactor|: diag (a, min * (1 +- ulp)): the guard compares |det| / min with |a|
        {
            T b = (rng () % 3 == 0) ? dn (L::min ()) : (rng () & 1) ? L::min () : up (L::min ());
            if (rng () & 1) b *= T (2);
            m[0][0] = (T) std::ldexp (1.0, -ri (0, 3));
            m[1][1] = b;
            cls = "|det|-around-min*|cofactor|";
            break;
        }
        case 2: // singular, integers: a duplicated or zero row
            for (int a = 0; a < N; ++a) for (int b = 0; b < N; ++b) m[a][b] = (T) ri (-3, 3);
            { int r0 = ri (0, N - 1), r1 = ri (0, N - 1); T fac = T (ri (1, 2)); for (int b = 0; b < N; ++b) m[r0][b] = (r0 == r1) ? T (0) : m[r1][b] * fac; }
            cls = "dup-or-zero-row";
            break;
        case 3: // near singular: singular + one ulp-sized perturbation
            for (int a = 0; a < N; ++a) for (int b = 0; b < N; ++b) m[a][b] = (T) ri (-3, 3);
            { int r0 = ri (0, N - 1), r1 = (r0 + 1) % N; for (int b = 0; b < N; ++b) m[r0][b] = m[r1][b]; m[r0][ri (0, N - 1)] += (T) ri (-2, 2) * L::epsilon (); }
            cls = "near-singular";
            break;
        case 4: // unimodular integer matrix: product of integer shears and row swaps (exact in floating point)
        case 5:
        {
            for (int s = 0; s < 6; ++s)
            {
                int a = ri (0, N - 1), b = ri (0, N - 1);
                if (a == b) continue;
                T f = (T) ri (-2, 2);
                if (rng () % 4 == 0) for (int c = 0; c < N; ++c) std::swap (m[a][c], m[b][c]);
                else for (int c = 0; c < N; ++c) m[a][c] += f * m[b][c];
            }
            cls = "unimodular";
            if (rng () & 1) { for (int a = 0; a < N; ++a) { T sc = (T) std::ldexp (1.0, ri (-20, 20)); for (int b = 0; b < N; ++b) m[a][b] *= sc; } cls = "dyadic"; }
            break;
        }
        case 6: // zero pivot at a chosen position (leading block singular, whole matrix maybe not)
            for (int a = 0; a < N; ++a) for (int b = 0; b < N; ++b) m[a][b] = (T) ri (-3, 3);
            { int p = ri (0, N - 1); for (int a = 0; a < N; ++a) if (rng () % 3) m[a][p] = T (0); m[p][p] = T (0); }
            cls = "zero-pivot";
            break;
        case 7: // tiny / huge scales
            for (int a = 0; a < N; ++a) for (int b = 0; b < N; ++b) m[a][b] = mod<T> () * (T) std::ldexp (1.0, ri (L::min_exponent / 2, L::max_exponent / 2 - 4));
            cls = "scaled";
            break;
        default:
            for (int a = 0; a < N; ++a) for (int b = 0; b < N; ++b) m[a][b] = (rng () % 4 == 0) ? any<T> () : mod<T> ();
    }
    // half of the time force the affine fast path (last column 0,...,0,1), else make sure it is not taken by accident only sometimes
    if (N > 2 && rng () % 2 == 0) { for (int a = 0; a < N - 1; ++a) m[a][N - 1] = T (0); m[N - 1][N - 1] = T (1); }
    // The class names what the matrix IS, after every modification: generator family, whether the affine fast path is taken,
    // and for small-integer matrices (|entry| <= 8) whether the EXACT determinant is zero.
    static std::string label;
    label = cls;
    if (isAffineM<T, M, N> (m)) label += ",affine";
    long long d;
    if (intDet<T, M, N> (m, d)) label += d == 0 ? ",int:det=0" : ",int:det!=0";
    cls = label.c_str ();
    return m;
}

// Independent failure predicate for inverse (bool) of Matrix22 / Matrix33 (not "the identity came back", which moves with the
// constant the code divides by): determinant and cofactors in long double, the REAL numeric_limits<T>::min (), and error bands
// from the rounding of the element-type computation.  +1 = must throw, -1 = must return, 0 = inside the band (undecided).
template <class T> static int inverseOracle (const long double* a, int n)
{
    typedef long double Q;
    const Q eps = std::numeric_limits<T>::epsilon (), mn = std::numeric_limits<T>::min (), big = (Q) std::numeric_limits<T>::max () / 16;
    std::vector<Q> cof, cofErr;
    Q det = 0, detErr = 0;
    // small integers: every product and sum of the element-type computation is exact; otherwise relative rounding errors
    // plus an absolute term for products that fall into the subnormal range
    bool exact = true;
    for (int k = 0; k < n * n; ++k) if (!(a[k] == std::floor (a[k]) && std::fabs (a[k]) <= 1024)) exact = false;
    const Q tiny = exact ? 0 : 4 * (Q) std::numeric_limits<T>::denorm_min (), rel = exact ? 0 : 4 * eps;
    auto d2 = [&] (Q p, Q q, Q r, Q s, Q& err) { err = rel * (std::fabs (p * q) + std::fabs (r * s)) + tiny; return p * q - r * s; };
    for (int k = 0; k < n * n; ++k) if (!(std::fabs (a[k]) < big) || (a[k] != 0 && std::fabs (a[k]) < mn)) return 0;
    bool affine = n == 3 && a[2] == 0 && a[5] == 0 && a[8] == 1;
    if (n == 2 || affine)
    {
        const int w = n;
        Q e;
        det = d2 (a[0], a[w + 1], a[w], a[1], e); detErr = e;
        for (Q c : {a[w + 1], a[1], a[w], a[0]}) { cof.push_back (c); cofErr.push_back (0); }
    }
    else
    {
        const int idx[9][4] = {{4, 8, 7, 5}, {7, 2, 1, 8}, {1, 5, 4, 2}, {6, 5, 3, 8}, {0, 8, 6, 2}, {3, 2, 0, 5}, {3, 7, 6, 4}, {6, 1, 0, 7}, {0, 4, 3, 1}};
        for (auto& q : idx) { Q e; cof.push_back (d2 (a[q[0]], a[q[1]], a[q[2]], a[q[3]], e)); cofErr.push_back (e); }
        det = a[0] * cof[0] + a[1] * cof[3] + a[2] * cof[6];
        detErr = 2 * rel * (std::fabs (a[0]) * (std::fabs (cof[0]) + cofErr[0]) + std::fabs (a[1]) * (std::fabs (cof[3]) + cofErr[3]) + std::fabs (a[2]) * (std::fabs (cof[6]) + cofErr[6]))
                 + std::fabs (a[0]) * cofErr[0] + std::fabs (a[1]) * cofErr[3] + std::fabs (a[2]) * cofErr[6] + tiny;
    }
    for (Q c : cof) if (!(std::fabs (c) < big)) return 0;
    Q ad = std::fabs (det);
    if (!(ad < big)) return 0;
    if (ad - detErr >= 1) return -1;
    Q lo = (ad > detErr ? ad - detErr : 0) / mn * (1 - 2 * rel), hi = (ad + detErr) / mn * (1 + 2 * rel);
    bool allBelow = true, someAbove = false;
    for (size_t k = 0; k < cof.size (); ++k)
    {
        if (!(std::fabs (cof[k]) + cofErr[k] < lo)) allBelow = false;
        if (std::fabs (cof[k]) - cofErr[k] >= hi) someAbove = true;
    }
    if (allBelow) return -1;
    // the loop of the code stops at the FIRST failing cofactor, any failing one makes it throw
    if (ad + detErr < 1 && someAbove) return 1;
    return 0;
}

template <class T, class M, int N> static void inversePairs (const char* mn)
{
    const char* cls;
    M           m = matInput<T, M, N> (cls);
    std::vector<T> in;
    for (int a = 0; a < N; ++a) for (int b = 0; b < N; ++b) in.push_back (m[a][b]);
    std::string p = std::string (mn) + ".";
    auto u  = run<T> ([&] (Res<T>& r) { putM (r, m.inverse ()); });
    auto cT = run<T> ([&] (Res<T>& r) { putM (r, m.inverse (true)); });
    auto cF = run<T> ([&] (Res<T>& r) { putM (r, m.inverse (false)); });
    if (N <= 3)
    {
        long double q[9];
        for (int k = 0; k < N * N; ++k) q[k] = (long double) in[k];
        int o = inverseOracle<T> (q, N);
        Stat& so = stats[p + "inverse(true)/oracle(long-double-det-and-cofactors,real-min())"];
        ++so.evals;
        ++so.cls[o > 0 ? "oracle:must-throw" : o < 0 ? "oracle:must-return" : "oracle:undecided(inside-rounding-band)"];
        if (o > 0) ++so.threw; else if (o < 0) ++so.returned;
        if ((o > 0 && cT.kind == 0) || (o < 0 && cT.kind != 0))
            failLine (p + "inverse(true)/oracle(long-double-det-and-cofactors,real-min())", TN<T>::n (),
                      o > 0 ? "|det| < 1 and a cofactor >= |det| / min () (long double), but inverse (true) returned"
                            : "|det| >= 1 or every cofactor < |det| / min () (long double), but inverse (true) threw", hexOf (in), "throw-vs-oracle", cls);
    }
    {
        long long d = 0;
        bool known = intDet<T, M, N> (m, d);
        intDetCheck<T> (p + "inverse(true)/inverse()", N <= 3 || isAffineM<T, M, N> (m), known, d, cT.kind, in, cls);
    }
    Res<T> id; putM (id, M ());
    // "reports failure" = the identity is returned for a matrix that is not the identity (exact for 2x2 / 3x3 by theorem M22/M33_inverse_failure)
    const bool notId = !(m == M ());
    check<T> (p + "inverse(true)/inverse()", 2, cT, u, 2, sameBits (u, id) && notId, in, cls);
    check<T> (p + "inverse(false)/inverse()", 2, cF, u, 0, false, in);
    auto iu = run<T> ([&] (Res<T>& r) { M b = m; const M& ref = b.invert (); putM (r, b); putM (r, ref); });
    auto iT = run<T> ([&] (Res<T>& r) { M b = m; const M& ref = b.invert (true); putM (r, b); putM (r, ref); });
    auto iF = run<T> ([&] (Res<T>& r) { M b = m; const M& ref = b.invert (false); putM (r, b); putM (r, ref); });
    Res<T> id2; putM (id2, M ()); putM (id2, M ());
    check<T> (p + "invert(true)/invert()", 2, iT, iu, 2, sameBits (iu, id2) && notId, in, cls);
    check<T> (p + "invert(false)/invert()", 2, iF, iu, 0, false, in);
    Res<T> uu = u; for (auto& x : u.v) uu.v.push_back (x);
    if (!sameBits (iu, uu)) failLine (p + "invert()/inverse()", TN<T>::n (), "in-place form differs from the value form", hexOf (in), "inplace-vs-value", cls);
}
template <class T, class M, int N> static void gjPairsOn (const char* mn, const M& m0, const char* cls);
// Magnitude-discriminating family for the pivot search (audit r2 S1): for every stage c the leading c x c block is the identity (the
// earlier stages are trivial), the trailing block is one of three generic integer matrices with entries from {1,...,7} (divisions by
// 3, 5, 7 are inexact, so a different pivot ORDER changes the rounded result), and column c of the trailing block runs through ALL
// patterns over {0, +-1, +-2, +-3} (not all zero): every comparison outcome less / equal / greater with every sign combination at the stage.
template <class T, class M, int N> static void gjMagnitudeLattice (const char* mn)
{
    static const int base[3][4][4] = {{{3, 1, 2, 5}, {1, 7, 3, 2}, {2, 3, 5, 1}, {5, 2, 1, 7}},
                                      {{2, 5, 1, 3}, {7, 1, 2, 5}, {1, 2, 7, 3}, {3, 7, 5, 1}},
                                      {{5, 3, 7, 1}, {2, 1, 5, 7}, {3, 5, 1, 2}, {1, 2, 3, 5}}};
    static const int vals[7] = {0, 1, -1, 2, -2, 3, -3};
    char cls[96];
    for (int b = 0; b < 3; ++b)
        for (int c = 0; c < N - 1; ++c)
        {
            snprintf (cls, sizeof cls, "lattice:pivot-magnitudes{0,+-1,+-2,+-3}(all-patterns-in-the-stage-%d-column)", c);
            int  rows = N - c;
            long total = 1;
            for (int q = 0; q < rows; ++q) total *= 7;
            for (long code = 1; code < total; ++code)
            {
                M m;
                for (int i = c; i < N; ++i) for (int j = c; j < N; ++j) m[i][j] = (T) base[b][i - c][j - c];
                long cc = code;
                bool allz = true;
                for (int i = c; i < N; ++i) { int v = vals[cc % 7]; cc /= 7; m[i][c] = (T) v; allz = allz && v == 0; }
                if (allz) continue;
                gjPairsOn<T, M, N> (mn, m, cls);
            }
        }
}
template <class T, class M, int N> static void gjPairs (const char* mn)
{
    const char* cls;
    M           m = matInput<T, M, N> (cls);
    gjPairsOn<T, M, N> (mn, m, cls);
}
// EXHAUSTIVE small lattices for the Gauss-Jordan pairs (every zero-pivot / row-swap pattern occurs):
//   3x3: all 262,144 matrices over {-1,0,1,2};   4x4: all 65,536 matrices over {0,1} and all 686,401 over {-1,0,1} with <= 6 non-zeros
template <class T> static void gjLattice ()
{
    {
        const T vals[4] = {T (-1), T (0), T (1), T (2)};
        Matrix33<T> m;
        for (long code = 0; code < 262144; ++code)
        {
            long c = code;
            for (int a = 0; a < 3; ++a) for (int b = 0; b < 3; ++b) { m[a][b] = vals[c & 3]; c >>= 2; }
            gjPairsOn<T, Matrix33<T>, 3> ("M33", m, "lattice{-1,0,1,2}^9(exhaustive)");
        }
    }
    {
        Matrix44<T> m;
        for (long code = 0; code < 65536; ++code)
        {
            for (int k = 0; k < 16; ++k) m[k / 4][k % 4] = T ((code >> k) & 1);
            gjPairsOn<T, Matrix44<T>, 4> ("M44", m, "lattice{0,1}^16(exhaustive)");
        }
        // support sets of size <= 6, every sign pattern
        int pos[6];
        std::function<void (int, int, int)> rec = [&] (int start, int k, int want) {
            if (k == want)
            {
                for (long sg = 0; sg < (1L << want); ++sg)
                {
                    for (int q = 0; q < 16; ++q) m[q / 4][q % 4] = T (0);
                    for (int q = 0; q < want; ++q) m[pos[q] / 4][pos[q] % 4] = ((sg >> q) & 1) ? T (-1) : T (1);
                    gjPairsOn<T, Matrix44<T>, 4> ("M44", m, "lattice{-1,0,1}^16,<=6-non-zeros(exhaustive)");
                }
                return;
            }
            for (int q = start; q < 16; ++q) { pos[k] = q; rec (q + 1, k + 1, want); }
        };
        for (int want = 0; want <= 6; ++want) rec (0, 0, want);
    }
}
// Replay of the Gauss-Jordan statements in the element type (same operand order as ImathMatrix.h), used ONLY to say which
// (stage, candidate row, comparison outcome, signs) the lattice inputs reached in the pivot search and which exit was taken: the
// realistic slips in ONE of the four copies (`>` / `>=`, a missing abs, a wrong row range) change the result only on such inputs.
// The replay is cross-checked against the real gjInverse () bit for bit (key self:gj-replay), so the labels cannot drift.
template <class T, class M, int N> static bool gjReplay (const M& m0, M& s, std::map<std::string, long>& reach)
{
    M t (m0);
    s = M ();
    char key[96];
    auto hit = [&] (const char* fmt, int a, int b) { snprintf (key, sizeof key, fmt, a, b); ++reach[key]; };
    for (int i = 0; i < N - 1; i++)
    {
        int pivot = i;
        T   pivotsize = t[i][i];
        bool curNeg = pivotsize < 0;
        if (curNeg) { pivotsize = -pivotsize; hit ("stage%d:diagonal-negative", i, 0); }
        for (int j = i + 1; j < N; j++)
        {
            T tmp = t[j][i];
            bool neg = tmp < 0;
            if (neg) tmp = -tmp;
            if (tmp > pivotsize)
            {
                hit ("stage%d:row%d:greater", i, j);
                if (neg) hit ("stage%d:row%d:greater,candidate-negative", i, j);
                if (curNeg) hit ("stage%d:row%d:greater,current-negative", i, j);
                pivot = j; pivotsize = tmp; curNeg = neg;
            }
            else if (tmp == pivotsize) { hit ("stage%d:row%d:equal", i, j); if (tmp != 0) hit ("stage%d:row%d:equal,non-zero", i, j);
                                         if (tmp != 0 && neg != curNeg) hit ("stage%d:row%d:equal,opposite-signs", i, j); }
            else { hit ("stage%d:row%d:less", i, j); if (neg) hit ("stage%d:row%d:less,candidate-negative", i, j); }
        }
        if (pivotsize == 0) { hit ("stage%d:zero-pivot-exit", i, 0); return false; }
        if (pivot != i)
        {
            hit ("stage%d:swap-with-row%d", i, pivot);
            for (int j = 0; j < N; j++) { T tmp = t[i][j]; t[i][j] = t[pivot][j]; t[pivot][j] = tmp; tmp = s[i][j]; s[i][j] = s[pivot][j]; s[pivot][j] = tmp; }
        }
        for (int j = i + 1; j < N; j++)
        {
            T f = t[j][i] / t[i][i];
            for (int k = 0; k < N; k++) { t[j][k] -= f * t[i][k]; s[j][k] -= f * s[i][k]; }
        }
    }
    for (int i = N - 1; i >= 0; --i)
    {
        T f;
        if ((f = t[i][i]) == 0) { hit ("backward%d:zero-diagonal-exit", i, 0); return false; }
        for (int j = 0; j < N; j++) { t[i][j] /= f; s[i][j] /= f; }
        for (int j = 0; j < i; j++)
        {
            f = t[j][i];
            for (int k = 0; k < N; k++) { t[j][k] -= f * t[i][k]; s[j][k] -= f * s[i][k]; }
        }
    }
    ++reach["returned"];
    return true;
}

template <class T, class M, int N> static void gjPairsOn (const char* mn, const M& m0, const char* cls)
{
    M           m = m0;
    std::vector<T> in;
    for (int a = 0; a < N; ++a) for (int b = 0; b < N; ++b) in.push_back (m[a][b]);
    std::string p = std::string (mn) + ".";
    auto u  = run<T> ([&] (Res<T>& r) { putM (r, m.gjInverse ()); });
    auto cT = run<T> ([&] (Res<T>& r) { putM (r, m.gjInverse (true)); });
    auto cF = run<T> ([&] (Res<T>& r) { putM (r, m.gjInverse (false)); });
    if (cls && strncmp (cls, "lattice", 7) == 0)
    {
        // which pivot-search decisions the lattices reach (per dimension; float and double together)
        Stat& sr = stats[p + "gjInverse()/replay(pivot-search-reach-of-the-lattices)"];
        ++sr.evals;
        M    rs;
        bool ok = gjReplay<T, M, N> (m, rs, sr.cls);
        if (ok) ++sr.returned; else { ++sr.threw; rs = M (); }
        Res<T> rr; putM (rr, rs);
        if (u.kind != 0 || !sameBits (rr, u))
            failLine (p + "gjInverse()/replay(pivot-search-reach-of-the-lattices)", TN<T>::n (), "the harness's replay of the Gauss-Jordan statements no longer reproduces gjInverse () bit for bit: the reach labels are void",
                      hexOf (in), "self:gj-replay", cls);
    }
    {
        long long d = 0;
        bool known = intDet<T, M, N> (m, d);
        intDetCheck<T> (p + "gjInverse(true)/gjInverse()", false, known, d, cT.kind, in, cls);
        if (known && d == 0 && cT.kind == 0) ++stats[p + "gjInverse(true)/gjInverse()"].cls["exact-integer-determinant-0-but-numerically-undetected(returned; allowed)"];
    }
    Res<T> id; putM (id, M ());
    const bool notId = !(m == M ());
    check<T> (p + "gjInverse(true)/gjInverse()", 2, cT, u, 2, sameBits (u, id) && notId, in, cls);
    check<T> (p + "gjInverse(false)/gjInverse()", 2, cF, u, 0, false, in);
    auto iu = run<T> ([&] (Res<T>& r) { M b = m; const M& ref = b.gjInvert (); putM (r, b); putM (r, ref); });
    auto iT = run<T> ([&] (Res<T>& r) { M b = m; const M& ref = b.gjInvert (true); putM (r, b); putM (r, ref); });
    auto iF = run<T> ([&] (Res<T>& r) { M b = m; const M& ref = b.gjInvert (false); putM (r, b); putM (r, ref); });
    Res<T> id2; putM (id2, M ()); putM (id2, M ());
    check<T> (p + "gjInvert(true)/gjInvert()", 2, iT, iu, 2, sameBits (iu, id2) && notId, in, cls);
    check<T> (p + "gjInvert(false)/gjInvert()", 2, iF, iu, 0, false, in);
    Res<T> uu = u; for (auto& x : u.v) uu.v.push_back (x);
    if (!sameBits (iu, uu)) failLine (p + "gjInvert()/gjInverse()", TN<T>::n (), "in-place form differs from the value form", hexOf (in), "inplace-vs-value", cls);
}

//---------------------------------------------------------------------------
// Frustum
template <class T> struct FX : Frustum<T>
{
    FX () : Frustum<T> () {}
    FX (T n, T f, T l, T r, T t, T b, bool o) : Frustum<T> (n, f, l, r, t, b, o) {}
    using Frustum<T>::localToScreen;
    using Frustum<T>::localToScreenExc;
};
// a span: 0, denormal, tiny, below 1, around 1, large
template <class T> static T span ()
{
    typedef std::numeric_limits<T> L;
    switch (rng () % 8)
    {
        case 0: return T (0);
        case 1: return (T) ri (1, 3) * L::denorm_min ();
        case 2: return L::min () * (T) ri (1, 4);
        case 3: return (T) std::ldexp (1.0, -ri (1, L::max_exponent - 2));
        case 4: return (T) u01 ();
        case 5: return (rng () % 3 == 0) ? dn (T (1)) : (rng () & 1) ? T (1) : up (T (1));
        case 6: return (T) (1 + u01 () * 10);
        default: return (T) std::ldexp (1.0, ri (1, L::max_exponent / 2));
    }
}
template <class T> static void frustumPairs ()
{
    typedef std::numeric_limits<T> L;
    const T MX = L::max ();
    bool    ortho = rng () & 1;
    // window and depth range built from a centre and a span, so that right-left, top-bottom, far-near run from 0 up
    T cx = (rng () % 3 == 0) ? T (0) : any<T> (), cy = (rng () % 3 == 0) ? T (0) : any<T> ();
    T l = cx, r = cx + span<T> () * ((rng () % 8 == 0) ? -1 : 1), b = cy, t = cy + span<T> () * ((rng () % 8 == 0) ? -1 : 1);
    T n = (rng () % 4 == 0) ? any<T> () : span<T> (), f = n + span<T> () * ((rng () % 8 == 0) ? -1 : 1);
    const char* cls = "spans";
    if (rng () % 4 == 0)
    {
        // straddle the 2*near / (right-left) guard of the perspective projection matrix exactly
        T nn, d; straddle (nn, d, cls);
        l = T (0); r = d; n = nn / T (2); f = n + T (1 + ri (0, 3));
        if (rng () & 1) { b = T (0); t = d; } else { b = T (-1); t = T (1); }
        ortho = false;
    }
    std::vector<T> in{n, f, l, r, t, b, T (ortho)};
    FX<T> fr (n, f, l, r, t, b, ortho);
    {
        T rpl = r + l, rml = r - l, tpb = t + b, tmb = t - b, fpn = f + n, fmn = f - n;
        bool g = gGt (rpl, rml) || gGt (tpb, tmb) || gGt (fpn, fmn);
        if (ortho) g = g || (std::abs (rml) < T (1) && T (2) > MX * std::abs (rml)) || (std::abs (tmb) < T (1) && T (2) > MX * std::abs (tmb)) ||
                       (std::abs (fmn) < T (1) && T (2) > MX * std::abs (fmn));
        else g = g || gGt (T (-2) * f * n, fmn) || gGt (T (2) * n, rml) || gGt (T (2) * n, tmb);
        auto c = run<T> ([&] (Res<T>& q) { putM (q, fr.projectionMatrixExc ()); });
        auto u = run<T> ([&] (Res<T>& q) { putM (q, fr.projectionMatrix ()); });
        check<T> (ortho ? "Frustum.projectionMatrixExc/projectionMatrix(ortho)" : "Frustum.projectionMatrixExc/projectionMatrix(persp)", 1, c, u, 2, g, in, cls);
    }
    {
        auto c = run<T> ([&] (Res<T>& q) { q.v.push_back (fr.aspectExc ()); });
        auto u = run<T> ([&] (Res<T>& q) { q.v.push_back (fr.aspect ()); });
        check<T> ("Frustum.aspectExc/aspect", 1, c, u, 2, gGt (r - l, t - b), in, (r == l && t == b) ? "0/0" : "spans");
        if (r == l && t == b)
        {
            // observation (audit W11): the header says aspectExc throws "if the aspect ratio is undefined"; for 0/0 neither form
            // reports anything: both return NaN.  Counted, not a disagreement of the pair.
            Stat& so = stats["Frustum.aspectExc/aspect"];
            ++so.cls[(c.kind == 0 && c.v.size () == 1 && c.v[0] != c.v[0]) ? "0/0:checked-form-returned-NaN" : "0/0:checked-form-did-not-return-NaN"];
        }
    }
    if (rng () % 3 == 0)
    {
        // right-left one ulp either side of max * (top-bottom), top-bottom a power of two below 1
        T nn, d; const char* c2; straddle (nn, d, c2);
        T l2 = T (0), r2 = nn, b2 = (rng () & 1) ? T (0) : -d / T (2), t2 = b2 + d;
        FX<T> g (T (1), T (2), l2, r2, t2, b2, rng () & 1);
        std::vector<T> in2{T (1), T (2), l2, r2, t2, b2};
        auto c = run<T> ([&] (Res<T>& q) { q.v.push_back (g.aspectExc ()); });
        auto u = run<T> ([&] (Res<T>& q) { q.v.push_back (g.aspect ()); });
        check<T> ("Frustum.aspectExc/aspect", 1, c, u, 2, gGt (r2 - l2, t2 - b2), in2, c2);
    }
    {
        Vec2<T> p (any<T> (), any<T> ());
        const char* c2 = "spans";
        if (rng () % 4 == 0) { T nn, d; straddle (nn, d, c2); p.x = (l + r - nn) / T (2); }
        auto in2 = in; in2.push_back (p.x); in2.push_back (p.y);
        auto c = run<T> ([&] (Res<T>& q) { putV (q, fr.localToScreenExc (p)); });
        auto u = run<T> ([&] (Res<T>& q) { putV (q, fr.localToScreen (p)); });
        check<T> ("Frustum.localToScreenExc/localToScreen", 1, c, u, 2, gGt (l - T (2) * p.x + r, l - r) || gGt (b - T (2) * p.y + t, b - t), in2, c2);
    }
    {
        Vec3<T> p (any<T> (), any<T> (), (rng () % 4 == 0) ? ((rng () & 1) ? T (0) : T (-0.0)) : (rng () & 1) ? span<T> () : any<T> ());
        auto in2 = in; in2.push_back (p.x); in2.push_back (p.y); in2.push_back (p.z);
        Vec2<T> pp = (ortho || p.z == T (0)) ? Vec2<T> (p.x, p.y) : Vec2<T> (p.x * n / -p.z, p.y * n / -p.z);
        auto c = run<T> ([&] (Res<T>& q) { putV (q, fr.projectPointToScreenExc (p)); });
        auto u = run<T> ([&] (Res<T>& q) { putV (q, fr.projectPointToScreen (p)); });
        check<T> ("Frustum.projectPointToScreenExc/projectPointToScreen", 1, c, u, 2,
                  gGt (l - T (2) * pp.x + r, l - r) || gGt (b - T (2) * pp.y + t, b - t), in2, p.z == T (0) ? "p.z=0" : "p.z!=0");
    }
    {
        // screenRadius: divisor p.z; worldRadius: divisor -near
        Vec3<T> p (any<T> (), any<T> (), (rng () & 1) ? span<T> () * ((rng () & 1) ? 1 : -1) : any<T> ());
        T       radius = mod<T> ();
        T       nn = n;
        const char* c2 = "spans";
        FX<T>   g2 = fr;
        if (rng () % 3 == 0)
        {
            T a, d; straddle (a, d, c2);
            if (rng () & 1) { p.z = d; nn = a; } else { nn = d; p.z = a; }
            g2 = FX<T> (nn, f, l, r, t, b, ortho);
        }
        std::vector<T> in2{nn, p.z, radius};
        {
            auto c = run<T> ([&] (Res<T>& q) { q.v.push_back (g2.screenRadiusExc (p, radius)); });
            auto u = run<T> ([&] (Res<T>& q) { q.v.push_back (g2.screenRadius (p, radius)); });
            bool ret = std::abs (p.z) > T (1) || std::abs (-nn) < MX * std::abs (p.z);
            check<T> ("Frustum.screenRadiusExc/screenRadius", 1, c, u, 2, !ret, in2, c2);
        }
        {
            auto c = run<T> ([&] (Res<T>& q) { q.v.push_back (g2.worldRadiusExc (p, radius)); });
            auto u = run<T> ([&] (Res<T>& q) { q.v.push_back (g2.worldRadius (p, radius)); });
            bool ret = std::abs (-nn) > T (1) || std::abs (p.z) < MX * std::abs (-nn);
            check<T> ("Frustum.worldRadiusExc/worldRadius", 1, c, u, 2, !ret, in2, c2);
        }
    }
    {
        // depth maps (not extractable: integer arguments / conversion to long)
        T    z = (rng () % 3 == 0) ? (T) u01 () : any<T> ();
        auto in2 = in; in2.push_back (z);
        auto guardNZ = [&] (T zv) {
            if (ortho) return false;
            T Zp = zv * T (2) - T (1);
            T ftn = 2 * f * n, fmn = Zp * (f - n) - f - n;
            return gGt (ftn, fmn);
        };
        auto c = run<T> ([&] (Res<T>& q) { q.v.push_back (fr.normalizedZToDepthExc (z)); });
        auto u = run<T> ([&] (Res<T>& q) { q.v.push_back (fr.normalizedZToDepth (z)); });
        check<T> (ortho ? "Frustum.normalizedZToDepthExc/normalizedZToDepth(ortho)" : "Frustum.normalizedZToDepthExc/normalizedZToDepth(persp)", 1, c, u, 2, guardNZ (z), in2,
                  ortho ? "ortho(no-guard)" : "spans");

        long zmin = ri (-5, 5), zmax = (rng () % 4 == 0) ? zmin : zmin + ri (-3, 1000), zval = zmin + ri (-2, 1004);
        std::vector<T> in3 = in; in3.push_back ((T) zval); in3.push_back ((T) zmin); in3.push_back ((T) zmax);
        int  zdiff = (int) (zmax - zmin);
        long zv    = zval;
        if (zv > zmax + 1) zv -= zdiff;
        bool gz = zdiff == 0 || guardNZ ((T (zv) - T (zmin)) / T (zdiff));
        auto cz = run<T> ([&] (Res<T>& q) { q.v.push_back (fr.ZToDepthExc (zval, zmin, zmax)); });
        auto uz = run<T> ([&] (Res<T>& q) { q.v.push_back (fr.ZToDepth (zval, zmin, zmax)); });
        check<T> ("Frustum.ZToDepthExc/ZToDepth", 1, cz, uz, 2, gz, in3, zdiff == 0 ? "zmax=zmin" : gz ? "zmax!=zmin,inner-guard-fires" : "zmax!=zmin,inner-guard-passes");
    }
    {
        // The guard of normalizedZToDepthExc, |2fn| > max * |D| with D = Zp (f - n) - f - n and |D| < 1.  In binary floating point
        // D is 0 or a multiple of an ulp of f, so (with 2fn finite) the guard can only fire for D = 0, or for D = -n after the
        // cancellation (f - n) - f = 0 with 2 f n overflowing: there is no input with |2fn| one ulp ABOVE max * |D|.  Classes:
        //   denominator=0 / one ulp of z either side of it;   far = max/2 (2fn = max * n exactly at the guard), one ulp below,
        //   and far = 2^emax-1 (2 * far = inf).
        const char* c2;
        T nn, ff, z;
        if (rng () & 1)
        {
            int a = ri (1, 3), q = ri (-6, 6), pp = ri (-2, 4);
            nn = (T) std::ldexp ((double) a, q);
            T sp = (T) std::ldexp (1.0, q + pp);
            ff = nn + sp;
            z  = T (1) + (T) std::ldexp ((double) a, -pp);          // Zp = 2z - 1 = (f + n) / (f - n)
            int w = (int) (rng () % 3);
            if (w == 1) z = up (z); else if (w == 2) z = dn (z);
            T Zp = z * T (2) - T (1), D = Zp * (ff - nn) - ff - nn;
            c2 = D == T (0) ? "denominator=0" : "denominator-one-ulp-of-z-from-0";
        }
        else
        {
            nn = (T) std::ldexp (1.0, -ri (1, 100));
            z  = T (1);
            T half = L::max () / T (2);
            int w = (int) (rng () % 3);
            ff = w == 0 ? dn (half) : w == 1 ? half : up (half);
            c2 = w == 0 ? "one-ulp-below-guard" : w == 1 ? "exactly-at-guard" : "above-guard(2*far=inf)";
        }
        FX<T> g (nn, ff, T (-1), T (1), T (1), T (-1), false);
        std::vector<T> in2{nn, ff, z};
        auto gNZ = [&] (T zv) { T Zp = zv * T (2) - T (1); T ftn = 2 * ff * nn, fmn = Zp * (ff - nn) - ff - nn; return gGt (ftn, fmn); };
        auto c = run<T> ([&] (Res<T>& q) { q.v.push_back (g.normalizedZToDepthExc (z)); });
        auto u = run<T> ([&] (Res<T>& q) { q.v.push_back (g.normalizedZToDepth (z)); });
        check<T> ("Frustum.normalizedZToDepthExc/normalizedZToDepth(persp)", 1, c, u, 2, gNZ (z), in2, c2);
        // the same frusta through ZToDepthExc: integer arguments chosen so that (zval - zmin) / zdiff is that z (inner guard)
        {
            long zmin = ri (-5, 5), zdiff, zval;
            const char* c3;
            if (z == T (1)) { zdiff = ri (1, 300); zval = zmin + zdiff; c3 = c2; }
            else
            {
                // z = 1 + a 2^-pp with a 2^-pp <= 1 / zdiff is needed (no wrap): take a = 1 frusta only, zdiff = 2^pp
                T e = z - T (1);
                int  ex;
                double fr2 = std::frexp ((double) e, &ex);
                if (!(fr2 == 0.5 && ex <= 0 && ex >= -9)) { zdiff = 0; zval = 0; c3 = nullptr; }
                else { zdiff = 1L << (1 - ex); zval = zmin + zdiff + 1; c3 = c2; }
            }
            if (c3)
            {
                long zmax = zmin + zdiff;
                std::vector<T> in3{nn, ff, (T) zval, (T) zmin, (T) zmax};
                bool gz = gNZ ((T (zval) - T (zmin)) / T ((int) zdiff));
                std::string k3 = std::string (gz ? "zmax!=zmin,inner-guard-fires," : "zmax!=zmin,inner-guard-passes,") + c3;
                auto cz = run<T> ([&] (Res<T>& q) { q.v.push_back (g.ZToDepthExc (zval, zmin, zmax)); });
                auto uz = run<T> ([&] (Res<T>& q) { q.v.push_back (g.ZToDepth (zval, zmin, zmax)); });
                check<T> ("Frustum.ZToDepthExc/ZToDepth", 1, cz, uz, 2, gz, in3, k3.c_str ());
            }
        }
    }
    {
        long zmin = ri (-5, 5), zmax = (rng () % 4 == 0) ? zmin : zmin + ri (-3, 1000);

        // DepthToZ: keep the frustum moderate so that the conversion to long is defined whenever the checked form returns
        T nn = (T) (0.1 + u01 ()), ff = nn + ((rng () % 3 == 0) ? span<T> () : (T) (1 + u01 () * 100));
        T depth = (rng () % 3 == 0) ? span<T> () * ((rng () & 1) ? 1 : -1) : -(nn + (T) u01 () * (ff - nn));
        std::string dcls = "spans";
        if (rng () % 3 == 0)
        {
            // one ulp either side of a guard; zmax = zmin keeps the conversion to long defined (0.5 * (Zp + 1) * 0)
            T a, d; const char* cc; straddle (a, d, cc);
            zmax = zmin;
            int w = ortho ? 2 : (int) (rng () % 2);
            if (w == 0) { depth = d; ff = T (1); nn = a / T (2); dcls = std::string ("depth-guard:") + cc; }                    // 2 f n against max * |depth|
            else if (w == 1)
            {
                // second perspective guard, 2fn / depth + f + n against max * (f - n): far - near = |d| exactly, depth chosen so that
                // the quotient lands within a few ulps of max * |d| (the rounding of 2fn / depth cannot be steered to the ulp)
                a = std::abs (a); d = std::abs (d);
                ff = T (1); nn = T (1) - d;
                depth = (T (2) * ff * nn) / a;
                dcls = (nn == ff) ? "far-near-guard(persp):far=near" : "far-near-guard(persp):within-a-few-ulps-of-guard";
            }
            else { nn = T (0); ff = std::abs (d); depth = a / T (2); dcls = std::string ("far-near-guard:") + cc; }               // 2 depth + f + n against max * (f - n)
        }
        FX<T> g3 (nn, ff, l, r, t, b, ortho);
        std::vector<T> in4{nn, ff, depth, T (ortho), (T) zmin, (T) zmax};
        bool gd;
        T    fmn = ff - nn;
        if (ortho) gd = gGt (T (2) * depth + ff + nn, fmn);
        else { T ftn = T (2) * ff * nn; gd = gGt (ftn, depth); if (!gd) gd = gGt (ftn / depth + ff + nn, fmn); }
        auto cd = run<T> ([&] (Res<T>& q) { q.i.push_back (g3.DepthToZExc (depth, zmin, zmax)); });
        bool defined = true;
        if (cd.kind == 0)
        {
            // the unchecked form converts the same value; only call it when that conversion is defined
            long double Zp = ortho ? -(long double) (T (2) * depth + ff + nn) / fmn : (long double) (T (2) * ff * nn / depth + ff + nn) / fmn;
            long double x  = 0.5L * (Zp + 1) * (zmax - zmin);
            defined = x == x && std::fabs ((double) x) < 9.0e18;
        }
        const char* dname = ortho ? "Frustum.DepthToZExc/DepthToZ(ortho)" : "Frustum.DepthToZExc/DepthToZ(persp)";
        if (cd.kind != 0)
        {
            // the checked form threw: the unchecked form would convert inf / NaN to long (undefined); only the guard is compared
            Res<T> none;
            check<T> (dname, 1, cd, none, 2, gd, in4, dcls.c_str ());
        }
        else if (defined)
        {
            auto ud = run<T> ([&] (Res<T>& q) { q.i.push_back (g3.DepthToZ (depth, zmin, zmax)); });
            check<T> (dname, 1, cd, ud, 2, gd, in4, dcls.c_str ());
        }
        else
        {
            // returned, but the unchecked conversion is undefined for this value: compare the decision of the guard only
            check<T> (dname, 1, cd, cd, 2, gd, in4, (dcls + ",unchecked-conversion-undefined(not-called)").c_str ());
        }
    }
    {
        T nn = any<T> (), ff = any<T> (), fovx = (rng () % 3 == 0) ? T (0) : (T) u01 (), fovy = (rng () % 3 == 0) ? T (0) : (T) u01 (), asp = (rng () % 5 == 0) ? T (0) : (T) (0.1 + u01 () * 3);
        std::vector<T> in5{nn, ff, fovx, fovy, asp};
        auto put = [] (Res<T>& q, const FX<T>& g) { q.v.push_back (g.nearPlane ()); q.v.push_back (g.farPlane ()); q.v.push_back (g.left ()); q.v.push_back (g.right ());
                                                    q.v.push_back (g.top ()); q.v.push_back (g.bottom ()); q.i.push_back (g.orthographic ()); };
        // the object that is (re-)initialised may be in ANY prior state: the whole state is the result, so a member that one
        // of the two copies forgets to overwrite (the orthographic flag, a plane) shows when the prior state differs from the
        // default-constructed one
        const bool priorOrtho = rng () % 2 == 0;
        auto prior = [&] (FX<T>& g) { if (priorOrtho) { g.set (T (3), T (7), T (-2), T (5), T (4), T (-1), true); } };
        auto c = run<T> ([&] (Res<T>& q) { FX<T> g; prior (g); g.setExc (nn, ff, fovx, fovy, asp); put (q, g); });
        auto u = run<T> ([&] (Res<T>& q) { FX<T> g; prior (g); g.set (nn, ff, fovx, fovy, asp); put (q, g); });
        check<T> ("Frustum.setExc/set(fov)", 1, c, u, 2, fovx != T (0) && fovy != T (0), in5, priorOrtho ? "prior-state-orthographic" : "prior-state-default");
    }
}

//---------------------------------------------------------------------------
// MatrixAlgo: exc = true vs exc = false
template <class T> static Matrix44<T> algoInput44 (const char*& cls)
{
    typedef std::numeric_limits<T> L;
    Matrix44<T> m;
    cls = "generic";
    T scales[] = {T (0), L::denorm_min (), L::min (), std::sqrt (L::min ()), (T) 1e-6, T (0.5), T (1), T (2), (T) 1e6, std::sqrt (L::max ()) / 4, L::max () / 8};
    switch (rng () % 7)
    {
        case 5: // exactly one failing call site: a zero row, or axis-aligned rows whose orthogonalised row vanishes EXACTLY
        {
            T a = (T) ri (1, 4) * ((rng () & 1) ? 1 : -1), b = (T) ri (1, 4) * T (0.5), c = (T) ri (-3, 3), d = (T) ri (-3, 3);
            int ax = ri (0, 2), ay = (ax + 1 + ri (0, 1)) % 3, az = 3 - ax - ay;
            for (int q = 0; q < 3; ++q) for (int w = 0; w < 3; ++w) m[q][w] = T (0);
            m[0][ax] = a; m[1][ay] = b; m[1][ax] = c; m[2][az] = (T) ri (1, 3); m[2][ax] = d; m[2][ay] = c;
            m[3][0] = mod<T> (); m[3][1] = mod<T> (); m[3][2] = mod<T> ();
            switch (rng () % 5)
            {
                case 0: for (int w = 0; w < 3; ++w) m[0][w] = T (0); cls = "row0=0"; break;
                case 1: for (int w = 0; w < 3; ++w) m[1][w] = T (0); cls = "row1=0"; break;
                case 2: for (int w = 0; w < 3; ++w) m[2][w] = T (0); cls = "row2=0"; break;
                case 3: m[1][ay] = T (0); cls = "row1-parallel-to-row0(axis-aligned)"; break;
                default: m[2][az] = T (0); cls = "row2-in-span-of-rows-0,1(axis-aligned)";
            }
            break;
        }
        case 6: // orthonormal rows 0, 1 (a rotation about z by a Pythagorean angle, exact) and row 2 in their span
        {
            static const int py[3][3] = {{3, 4, 5}, {5, 12, 13}, {8, 15, 17}};
            const int* q = py[rng () % 3];
            T cs = (T) q[0] / (T) q[2], sn = (T) q[1] / (T) q[2];
            for (int a = 0; a < 4; ++a) for (int b = 0; b < 4; ++b) m[a][b] = (a == b) ? T (1) : T (0);
            m[0][0] = cs; m[0][1] = sn; m[1][0] = -sn; m[1][1] = cs;
            m[2][0] = (T) ri (-2, 2); m[2][1] = (T) ri (-2, 2); m[2][2] = T (0);
            cls = "rows-0,1-orthonormal,row2-in-their-span";
            break;
        }
        case 0:
        case 1:
        {
            Vec3<T> s, h (mod<T> () * T (0.25), mod<T> () * T (0.25), mod<T> () * T (0.25)), r ((T) (u01 () * 6 - 3), (T) (u01 () * 3 - 1.5), (T) (u01 () * 6 - 3)), t (mod<T> (), mod<T> (), mod<T> ());
            for (int k = 0; k < 3; ++k) s[k] = scales[rng () % (sizeof (scales) / sizeof (T))] * ((rng () & 1) ? 1 : -1);
            if (rng () & 1) for (int k = 0; k < 3; ++k) s[k] = (T) (0.25 + u01 () * 4) * ((rng () % 4 == 0) ? -1 : 1);
            m.translate (t); m.rotate (r); m.shear (h); m.scale (s);
            cls = "S*H*R*T(zero/tiny/huge-scales)";
            break;
        }
        case 2: // a zero / tiny / huge row
            for (int a = 0; a < 4; ++a) for (int b = 0; b < 4; ++b) m[a][b] = mod<T> ();
            { int r0 = ri (0, 2); T sc = scales[rng () % (sizeof (scales) / sizeof (T))]; for (int b = 0; b < 3; ++b) m[r0][b] *= sc; }
            cls = "row-scaled";
            break;
        case 3: // rank deficient: second row parallel to the first (the orthogonalised row is (nearly) zero)
            for (int a = 0; a < 4; ++a) for (int b = 0; b < 4; ++b) m[a][b] = (T) ri (-3, 3);
            { int r0 = ri (1, 2); for (int b = 0; b < 3; ++b) m[r0][b] = m[0][b] * (T) ri (-2, 2); }
            cls = "parallel-rows";
            break;
        default:
            for (int a = 0; a < 4; ++a) for (int b = 0; b < 4; ++b) m[a][b] = (rng () % 5 == 0) ? special<T> () : mod<T> ();
    }
    return m;
}
template <class T> static Matrix33<T> algoInput33 (const char*& cls)
{
    Matrix44<T> m = algoInput44<T> (cls);
    Matrix33<T> r;
    for (int a = 0; a < 2; ++a) for (int b = 0; b < 2; ++b) r[a][b] = m[a][b];
    r[2][0] = m[3][0]; r[2][1] = m[3][1];
    if (rng () % 4 == 0) { r[0][2] = mod<T> (); r[1][2] = mod<T> (); r[2][2] = mod<T> (); }
    return r;
}
// Which checkForZeroScaleInRow call of extractAndRemoveScalingAndShear fails FIRST for this input (audit W4: every call site must be
// reached, because a call site that loses its `exc` argument throws there, and only there, with exc = false).  The steps of the real
// function are replayed in the same element type with the real Vec operations and an INDEPENDENT copy of the guard (rowOk); the label is
// cross-checked against the outcome of every pair (key self:site-label): a replay that drifted from the source cannot pass silently.
// the guard of checkForZeroScaleInRow recomputed independently (the `>=` predicate with the real max (), as in the pair of that function)
template <class T> static bool rowOk (T scl, const Vec3<T>& r) { return !(gGe (r.x, scl) || gGe (r.y, scl) || gGe (r.z, scl)); }
template <class T> static bool rowOk (T scl, const Vec2<T>& r) { return !(gGe (r.x, scl) || gGe (r.y, scl)); }
template <class T> static const char* algoSite44 (const Matrix44<T>& mat)
{
    Vec3<T> row[3];
    for (int i = 0; i < 3; ++i) row[i] = Vec3<T> (mat[i][0], mat[i][1], mat[i][2]);
    T maxVal = 0;
    for (int i = 0; i < 3; i++) for (int j = 0; j < 3; j++) if (IMATH_INTERNAL_NAMESPACE::abs (row[i][j]) > maxVal) maxVal = IMATH_INTERNAL_NAMESPACE::abs (row[i][j]);
    if (maxVal != 0)
        for (int i = 0; i < 3; i++) { if (!rowOk (maxVal, row[i])) return "site=maxVal"; row[i] /= maxVal; }
    T sx = row[0].length ();
    if (!rowOk (sx, row[0])) return "site=scl.x";
    row[0] /= sx;
    T sh0 = row[0].dot (row[1]);
    row[1] -= sh0 * row[0];
    T sy = row[1].length ();
    if (!rowOk (sy, row[1])) return "site=scl.y";
    row[1] /= sy;
    T sh1 = row[0].dot (row[2]);
    row[2] -= sh1 * row[0];
    T sh2 = row[1].dot (row[2]);
    row[2] -= sh2 * row[1];
    T sz = row[2].length ();
    if (!rowOk (sz, row[2])) return "site=scl.z";
    return "site=none";
}
template <class T> static const char* algoSite33 (const Matrix33<T>& mat)
{
    Vec2<T> row[2];
    for (int i = 0; i < 2; ++i) row[i] = Vec2<T> (mat[i][0], mat[i][1]);
    T maxVal = 0;
    for (int i = 0; i < 2; i++) for (int j = 0; j < 2; j++) if (IMATH_INTERNAL_NAMESPACE::abs (mat[i][j]) > maxVal) maxVal = IMATH_INTERNAL_NAMESPACE::abs (mat[i][j]);
    if (maxVal != 0)
        for (int i = 0; i < 2; i++) { if (!rowOk (maxVal, row[i])) return "site=maxVal"; row[i] /= maxVal; }
    T sx = row[0].length ();
    if (!rowOk (sx, row[0])) return "site=scl.x";
    row[0] /= sx;
    T sh = row[0].dot (row[1]);
    row[1] -= sh * row[0];
    T sy = row[1].length ();
    if (!rowOk (sy, row[1])) return "site=scl.y";
    return "site=none";
}

template <class T> static void algoPairs ()
{
    typedef std::numeric_limits<T> L;
    {
        // checkForZeroScaleInRow, both row types, straddling the guard
        T           scl, a;
        const char* cls = "generic";
        Vec3<T>     row (mod<T> (), mod<T> (), mod<T> ());
        if (rng () & 1) { straddle (a, scl, cls); row[ri (0, 2)] = a; }
        else { scl = (rng () & 1) ? span<T> () : any<T> (); if (rng () & 1) row[ri (0, 2)] = any<T> (); }
        std::vector<T> in{scl, row.x, row.y, row.z};
        auto c3 = run<T> ([&] (Res<T>& q) { q.i.push_back (checkForZeroScaleInRow (scl, row, true)); });
        auto u3 = run<T> ([&] (Res<T>& q) { q.i.push_back (checkForZeroScaleInRow (scl, row, false)); });
        bool f3 = u3.i.size () == 1 && u3.i[0] == 0;
        if (c3.kind) u3.i.clear ();
        check<T> ("Algo.checkForZeroScaleInRow(Vec3)", 1, c3, u3, 2, f3, in, cls);
        if (f3 != (gGe (row.x, scl) || gGe (row.y, scl) || gGe (row.z, scl))) failLine ("Algo.checkForZeroScaleInRow(Vec3)", TN<T>::n (), "false is not equivalent to the >= guard", hexOf (in), "false-vs-guard", cls);
        Vec2<T> row2 (row.x, row.y);
        auto c2 = run<T> ([&] (Res<T>& q) { q.i.push_back (checkForZeroScaleInRow (scl, row2, true)); });
        auto u2 = run<T> ([&] (Res<T>& q) { q.i.push_back (checkForZeroScaleInRow (scl, row2, false)); });
        bool f2 = u2.i.size () == 1 && u2.i[0] == 0;
        if (c2.kind) u2.i.clear ();
        check<T> ("Algo.checkForZeroScaleInRow(Vec2)", 1, c2, u2, 2, f2, in, cls);
        if (f2 != (gGe (row.x, scl) || gGe (row.y, scl))) failLine ("Algo.checkForZeroScaleInRow(Vec2)", TN<T>::n (), "false is not equivalent to the >= guard", hexOf (in), "false-vs-guard", cls);
    }
    // generic runner for a bool-returning function with outputs: body(exc, Res) pushes the flag into .i and the outputs into .v
    auto siteCheck = [&] (const std::string& name, const std::vector<T>& in, const char* cls, int kind) {
        if (!cls || !strstr (cls, "site=")) return;
        bool none = strstr (cls, "site=none") != nullptr;
        if ((kind != 0) == none)
            failLine (name, TN<T>::n (), none ? "the replayed Gram-Schmidt steps say no call site fails, but the checked member threw"
                                              : "the replayed Gram-Schmidt steps name a failing call site, but the checked member returned", hexOf (in), "self:site-label", cls);
    };
    auto boolPair = [&] (const std::string& name, const std::vector<T>& in, const char* cls, std::function<void (bool, Res<T>&)> body) {
        auto c = run<T> ([&] (Res<T>& q) { body (true, q); });
        auto u = run<T> ([&] (Res<T>& q) { body (false, q); });
        siteCheck (name, in, cls, c.kind);
        bool uf = u.kind == 0 && u.i.size () >= 1 && u.i[0] == 0;
        if (c.kind != 0) { u.v.clear (); u.i.clear (); }
        else if (uf) { /* outputs are documented invalid on failure; the flag mismatch is reported by check */ }
        check<T> (name, 1, c, u, 2, uf, in, cls);
    };
    auto matPair = [&] (const std::string& name, const std::vector<T>& in, const char* cls, const Res<T>& input, std::function<void (bool, Res<T>&)> body) {
        auto c = run<T> ([&] (Res<T>& q) { body (true, q); });
        auto u = run<T> ([&] (Res<T>& q) { body (false, q); });
        siteCheck (name, in, cls, c.kind);
        bool uf = sameBits (u, input);
        if (c.kind != 0) { Res<T> e; check<T> (name, 1, c, e, 1, uf, in, cls); }
        else check<T> (name, 1, c, u, 0, false, in, cls);
    };
    {
        const char* cls0;
        Matrix44<T> m = algoInput44<T> (cls0);
        std::vector<T> in;
        for (int a = 0; a < 4; ++a) for (int b = 0; b < 4; ++b) in.push_back (m[a][b]);
        Res<T> inp; putM (inp, m);
        std::string clsS = std::string (cls0) + "," + algoSite44<T> (m);
        const char* cls = clsS.c_str ();
        boolPair ("Algo.extractScaling(M44)", in, cls, [&] (bool e, Res<T>& q) { Vec3<T> s (T (0)); bool ok = extractScaling (m, s, e); q.i.push_back (ok); if (ok) putV (q, s); });
        boolPair ("Algo.extractScalingAndShear(M44)", in, cls, [&] (bool e, Res<T>& q) { Vec3<T> s (T (0)), h (T (0)); bool ok = extractScalingAndShear (m, s, h, e); q.i.push_back (ok); if (ok) { putV (q, s); putV (q, h); } });
        boolPair ("Algo.extractAndRemoveScalingAndShear(M44)", in, cls, [&] (bool e, Res<T>& q) { Matrix44<T> c = m; Vec3<T> s (T (0)), h (T (0)); bool ok = extractAndRemoveScalingAndShear (c, s, h, e); q.i.push_back (ok); putM (q, c); if (ok) { putV (q, s); putV (q, h); } });
        boolPair ("Algo.removeScalingAndShear(M44)", in, cls, [&] (bool e, Res<T>& q) { Matrix44<T> c = m; bool ok = removeScalingAndShear (c, e); q.i.push_back (ok); putM (q, c); });
        boolPair ("Algo.removeScaling(M44)", in, cls, [&] (bool e, Res<T>& q) { Matrix44<T> c = m; bool ok = removeScaling (c, e); q.i.push_back (ok); putM (q, c); });
        boolPair ("Algo.extractSHRT(M44,Vec3)", in, cls, [&] (bool e, Res<T>& q) { Vec3<T> s (T (0)), h (T (0)), r (T (0)), t (T (0)); bool ok = extractSHRT (m, s, h, r, t, e); q.i.push_back (ok); if (ok) { putV (q, s); putV (q, h); putV (q, r); putV (q, t); } });
        boolPair ("Algo.extractSHRT(M44,order)", in, cls, [&] (bool e, Res<T>& q) { Vec3<T> s (T (0)), h (T (0)), r (T (0)), t (T (0)); bool ok = extractSHRT (m, s, h, r, t, e, Euler<T>::ZYX); q.i.push_back (ok); if (ok) { putV (q, s); putV (q, h); putV (q, r); putV (q, t); } });
        boolPair ("Algo.extractSHRT(M44,Euler)", in, cls, [&] (bool e, Res<T>& q) { Vec3<T> s (T (0)), h (T (0)), t (T (0)); Euler<T> r (T (0), T (0), T (0), Euler<T>::YXZ); bool ok = extractSHRT (m, s, h, r, t, e); q.i.push_back (ok); if (ok) { putV (q, s); putV (q, h); putV (q, Vec3<T> (r)); putV (q, t); } });
        matPair ("Algo.sansScaling(M44)", in, cls, inp, [&] (bool e, Res<T>& q) { putM (q, sansScaling (m, e)); });
        matPair ("Algo.sansScalingAndShear(M44)", in, cls, inp, [&] (bool e, Res<T>& q) { putM (q, sansScalingAndShear (m, e)); });
        matPair ("Algo.sansScalingAndShear(result,M44)", in, cls, inp, [&] (bool e, Res<T>& q) { Matrix44<T> res = m; sansScalingAndShear (res, m, e); putM (q, res); });
    }
    {
        const char* cls0;
        Matrix33<T> m = algoInput33<T> (cls0);
        std::vector<T> in;
        for (int a = 0; a < 3; ++a) for (int b = 0; b < 3; ++b) in.push_back (m[a][b]);
        Res<T> inp; putM (inp, m);
        std::string clsS = std::string (cls0) + "," + algoSite33<T> (m);
        const char* cls = clsS.c_str ();
        boolPair ("Algo.extractScaling(M33)", in, cls, [&] (bool e, Res<T>& q) { Vec2<T> s (T (0)); bool ok = extractScaling (m, s, e); q.i.push_back (ok); if (ok) putV (q, s); });
        boolPair ("Algo.extractScalingAndShear(M33)", in, cls, [&] (bool e, Res<T>& q) { Vec2<T> s (T (0)); T h = 0; bool ok = extractScalingAndShear (m, s, h, e); q.i.push_back (ok); if (ok) { putV (q, s); q.v.push_back (h); } });
        boolPair ("Algo.extractAndRemoveScalingAndShear(M33)", in, cls, [&] (bool e, Res<T>& q) { Matrix33<T> c = m; Vec2<T> s (T (0)); T h = 0; bool ok = extractAndRemoveScalingAndShear (c, s, h, e); q.i.push_back (ok); putM (q, c); if (ok) { putV (q, s); q.v.push_back (h); } });
        boolPair ("Algo.removeScalingAndShear(M33)", in, cls, [&] (bool e, Res<T>& q) { Matrix33<T> c = m; bool ok = removeScalingAndShear (c, e); q.i.push_back (ok); putM (q, c); });
        boolPair ("Algo.removeScaling(M33)", in, cls, [&] (bool e, Res<T>& q) { Matrix33<T> c = m; bool ok = removeScaling (c, e); q.i.push_back (ok); putM (q, c); });
        boolPair ("Algo.extractSHRT(M33)", in, cls, [&] (bool e, Res<T>& q) { Vec2<T> s (T (0)), t (T (0)); T h = 0, r = 0; bool ok = extractSHRT (m, s, h, r, t, e); q.i.push_back (ok); if (ok) { putV (q, s); q.v.push_back (h); q.v.push_back (r); putV (q, t); } });
        matPair ("Algo.sansScaling(M33)", in, cls, inp, [&] (bool e, Res<T>& q) { putM (q, sansScaling (m, e)); });
        matPair ("Algo.sansScalingAndShear(M33)", in, cls, inp, [&] (bool e, Res<T>& q) { putM (q, sansScalingAndShear (m, e)); });
    }
}

template <class T> static void all (int n)
{
    for (int k = 0; k < n; ++k)
    {
        vecPairs<T, Vec2<T>> ("V2");
        vecPairs<T, Vec3<T>> ("V3");
        vecPairs<T, Vec4<T>> ("V4");
        ofV4Pairs<T> ();
        inversePairs<T, Matrix22<T>, 2> ("M22");
        inversePairs<T, Matrix33<T>, 3> ("M33");
        inversePairs<T, Matrix44<T>, 4> ("M44");
        gjPairs<T, Matrix33<T>, 3> ("M33");
        gjPairs<T, Matrix44<T>, 4> ("M44");
        frustumPairs<T> ();
        algoPairs<T> ();
    }
}

int main (int argc, char** argv)
{
    unsigned long seed = argc > 1 ? strtoul (argv[1], 0, 10) : 1;
    int           n    = argc > 2 ? atoi (argv[2]) : 2000;
    rng.seed (seed * 2654435761ul + 17);
    all<float> (n);
    all<double> (n);
    if (argc > 3 && std::string (argv[3]) == "lattice")
    {
        gjLattice<float> ();
        gjLattice<double> ();
        gjMagnitudeLattice<float, Matrix33<float>, 3> ("M33");
        gjMagnitudeLattice<double, Matrix33<double>, 3> ("M33");
        gjMagnitudeLattice<float, Matrix44<float>, 4> ("M44");
        gjMagnitudeLattice<double, Matrix44<double>, 4> ("M44");
    }
    long evals = 0;
    for (auto& kv : stats)
    {
        evals += kv.second.evals;
        printf ("PAIR %s evals=%ld returned=%ld threw=%ld fails=%ld", kv.first.c_str (), kv.second.evals, kv.second.returned, kv.second.threw, kv.second.fails);
        for (auto& c : kv.second.cls) printf (" [%s]=%ld", c.first.c_str (), c.second);
        printf ("\n");
    }
    printf ("C07PAIRS pairs=%zu evals=%ld failures=%ld\n", stats.size (), evals, failures);
    return failures ? 1 : 0;
}
