// C09 residue measurement (DESIGN.md §2.4): what the exact-arithmetic theorems of Props/C09.lean cannot see.
// The REAL float/double code is run on structured inputs and compared with an independent evaluation of the
// documented behaviour in long double (64-bit mantissa), with bounds c*eps taken from the property's wording:
//   A  rotation builders (M22/M33 setRotation, M44 setEulerAngles / setAxisAngle / rotate-of-identity): entries vs the
//      documented formula, |R R^T - 1| and |det R - 1|, angles from small to thousands of periods;
//   B  in-place forms vs set*(...) * M (M * setRotation for M22/M33 rotate) on random NON-affine current matrices;
//      on the integer lattice the agreement must be exact;
//   C  frame builders on direction pairs: generic, nearly parallel, exactly parallel / opposite, axis-aligned, zero:
//      finite, orthonormal, det +1, documented axes / origin.
// usage: c09_residue <seed> <n>.  Prints RESIDUE-FAIL lines and one RESIDUE summary line.
#include <ImathVec.h>
#include <ImathMatrix.h>
#include <ImathMatrixAlgo.h>
#include <ImathFrame.h>
#include <ImathShear.h>
#include <cstdio>
#include <cstdlib>
#include <cmath>
#include <map>
#include <random>
#include <string>
#include <type_traits>
#include <vector>
using namespace IMATH_NAMESPACE;
typedef long double L;
static std::mt19937_64 rng;
static long evals = 0, lattice = 0;
static int failures = 0;
static std::map<std::string, double> worst;   // per check: worst error in units of its bound's eps
static std::map<std::string, long>   hits;    // per input class
static double U (double a, double b) { return std::uniform_real_distribution<double> (a, b) (rng); }
static int    I (int a, int b) { return (int) (rng () % (unsigned long) (b - a + 1)) + a; }

template <class T> struct Nm { static const char* n; };
template <> const char* Nm<float>::n = "float";
template <> const char* Nm<double>::n = "double";

// magnitude classes (huge / tiny lengths of the direction arguments) are accounted separately, per function: RESIDUE-CLASS lines
static std::map<std::string, std::pair<long, long>> classAcc;   // "<function>:<class>:<type>" -> (evaluations, failures)
static long failuresMagnitude = 0;
static bool isMagnitudeClass (const std::string& cls) { return cls == "huge-magnitudes" || cls == "tiny-magnitudes"; }
static void fail (const std::string& what, const std::string& cls, const char* ty, double ratio, double c, const std::string& in)
{
    ++failures;
    if (isMagnitudeClass (cls)) ++failuresMagnitude;
    static std::map<std::string, int> printed;   // at most 3 lines per (check, input class, element type): one noisy check must not hide another
    if (++printed[what + ":" + cls + ":" + ty] <= (isMagnitudeClass (cls) ? 2 : 3))
        printf ("RESIDUE-FAIL %s:%s:%s err/eps=%.4g > %.4g in=%s\n", what.c_str (), cls.c_str (), ty, ratio, c, in.c_str ());
}
// record error `err` measured in units of eps against the constant c
template <class T> static void rec (const std::string& what, const std::string& cls, L err, double c, const std::string& in)
{
    ++evals;
    double r = (double) (err / (L) std::numeric_limits<T>::epsilon ());
    if (!(err == err)) r = INFINITY; // NaN
    std::string k = what + ":" + Nm<T>::n;
    if (isMagnitudeClass (cls))
    {
        // kept out of the per-check maxima of the ordinary classes (they calibrate the bounds there)
        k = what + "[" + cls + "]:" + Nm<T>::n;
        auto& acc = classAcc[what.substr (0, what.find ('.')) + ":" + cls + ":" + Nm<T>::n];
        ++acc.first;
        if (!(r <= c)) ++acc.second;
    }
    if (r > worst[k]) worst[k] = r;
    if (!(r <= c)) fail (what, cls, Nm<T>::n, r, c, in);
}
template <class T> static std::string sv (const Vec3<T>& v) { char b[120]; snprintf (b, 120, "(%.17g,%.17g,%.17g)", (double) v.x, (double) v.y, (double) v.z); return b; }
template <class T> static std::string sm (const Matrix44<T>& m)
{
    std::string s = "[";
    char b[40];
    for (int i = 0; i < 4; ++i) for (int j = 0; j < 4; ++j) { snprintf (b, 40, "%.9g ", (double) m[i][j]); s += b; }
    return s + "]";
}

// ---- small long-double matrix helpers
struct LM { L a[4][4]; };
static LM lid () { LM r; for (int i = 0; i < 4; ++i) for (int j = 0; j < 4; ++j) r.a[i][j] = i == j; return r; }
static LM lmul (const LM& x, const LM& y, int n = 4)
{
    LM r = lid ();
    for (int i = 0; i < n; ++i) for (int j = 0; j < n; ++j) { L s = 0; for (int k = 0; k < n; ++k) s += x.a[i][k] * y.a[k][j]; r.a[i][j] = s; }
    return r;
}
// sum of |terms| of the product entry (scale of the rounding bound)
static L labsmul (const LM& x, const LM& y, int i, int j, int n) { L s = 0; for (int k = 0; k < n; ++k) s += fabsl (x.a[i][k] * y.a[k][j]); return s; }
template <class M> static LM toL (const M& m, int n) { LM r = lid (); for (int i = 0; i < n; ++i) for (int j = 0; j < n; ++j) r.a[i][j] = (L) m[i][j]; return r; }
static L det3 (const LM& m)
{
    return m.a[0][0] * (m.a[1][1] * m.a[2][2] - m.a[1][2] * m.a[2][1]) - m.a[0][1] * (m.a[1][0] * m.a[2][2] - m.a[1][2] * m.a[2][0]) +
           m.a[0][2] * (m.a[1][0] * m.a[2][1] - m.a[1][1] * m.a[2][0]);
}
// max |R R^T - 1| over the leading n x n block
static L orthoErr (const LM& m, int n)
{
    L e = 0;
    for (int i = 0; i < n; ++i) for (int j = 0; j < n; ++j) { L s = 0; for (int k = 0; k < n; ++k) s += m.a[i][k] * m.a[j][k]; e = std::max (e, fabsl (s - (i == j))); }
    return e;
}
static bool finiteM (const LM& m) { for (int i = 0; i < 4; ++i) for (int j = 0; j < 4; ++j) if (!std::isfinite ((double) m.a[i][j])) return false; return true; }
static LM rotXL (L a) { LM r = lid (); r.a[1][1] = cosl (a); r.a[1][2] = sinl (a); r.a[2][1] = -sinl (a); r.a[2][2] = cosl (a); return r; }
static LM rotYL (L a) { LM r = lid (); r.a[0][0] = cosl (a); r.a[0][2] = -sinl (a); r.a[2][0] = sinl (a); r.a[2][2] = cosl (a); return r; }
static LM rotZL (L a) { LM r = lid (); r.a[0][0] = cosl (a); r.a[0][1] = sinl (a); r.a[1][0] = -sinl (a); r.a[1][1] = cosl (a); return r; }
static LM eulerL (L x, L y, L z) { return lmul (lmul (rotXL (x), rotYL (y)), rotZL (z)); }
static LM axisAngleL (L x, L y, L z, L a)
{
    L n = sqrtl (x * x + y * y + z * z); x /= n; y /= n; z /= n;
    L s = sinl (a), c = cosl (a), u[3] = {x, y, z};
    LM r = lid ();
    L K[3][3] = {{0, z, -y}, {-z, 0, x}, {y, -x, 0}}; // row-vector convention: p*R = c p + (1-c)(u.p)u + s (u x p)
    for (int i = 0; i < 3; ++i) for (int j = 0; j < 3; ++j) r.a[i][j] = c * (i == j) + (1 - c) * u[i] * u[j] + s * K[i][j];
    return r;
}
static LM transL (L x, L y, L z) { LM r = lid (); r.a[3][0] = x; r.a[3][1] = y; r.a[3][2] = z; return r; }

template <class T> static T angle (int cls)
{
    // 0: small, 1: one period, 2: tens of periods, 3: thousands of periods, 4: multiples of pi/2 (rounded)
    switch (cls)
    {
        case 0: return (T) U (-1e-3, 1e-3);
        case 1: return (T) U (-M_PI, M_PI);
        case 2: return (T) (U (-1, 1) * 2 * M_PI * 40);
        case 3: return (T) (U (-1, 1) * 2 * M_PI * 5000);
        default: return (T) (I (-8, 8) * M_PI / 2);
    }
}
static const char* ANG[] = {"small", "one-period", "tens-of-periods", "thousands-of-periods", "quarter-turns"};

template <class T> static void cmpEntries (const std::string& what, const std::string& cls, const LM& got, const LM& want, int n, double c, const std::string& in)
{
    L e = 0;
    for (int i = 0; i < n; ++i) for (int j = 0; j < n; ++j) e = std::max (e, fabsl (got.a[i][j] - want.a[i][j]));
    rec<T> (what, cls, e, c, in);
}

// ---------------------------------------------------------------- A: rotation builders
template <class T> static void rotations (int k)
{
    int cls = k % 5;
    ++hits[std::string ("angle:") + ANG[cls]];
    char b[200];
    {   // Matrix22 / Matrix33 setRotation
        T r = angle<T> (cls);
        snprintf (b, 200, "r=%.17g", (double) r);
        Matrix22<T> m2; m2.setRotation (r);
        Matrix33<T> m3; m3.setRotation (r);
        LM w = rotZL ((L) r);
        cmpEntries<T> ("M22.setRotation.entries", ANG[cls], toL (m2, 2), w, 2, 2, b);
        cmpEntries<T> ("M33.setRotation.entries", ANG[cls], toL (m3, 3), w, 3, 2, b);
        rec<T> ("M22.setRotation.orthonormal", ANG[cls], orthoErr (toL (m2, 2), 2), 4, b);
        rec<T> ("M33.setRotation.orthonormal", ANG[cls], orthoErr (toL (m3, 3), 3), 4, b);
    }
    {   // Matrix44 setEulerAngles, rotate(identity)
        Vec3<T> r (angle<T> (cls), angle<T> ((cls + k / 5) % 5), angle<T> (cls));
        Matrix44<T> m; m.setEulerAngles (r);
        Matrix44<T> m1; m1.rotate (r);
        LM w = eulerL (r.x, r.y, r.z);
        std::string in = "r=" + sv (r);
        cmpEntries<T> ("M44.setEulerAngles.entries", ANG[cls], toL (m, 4), w, 4, 6, in);
        cmpEntries<T> ("M44.rotate(identity).entries", ANG[cls], toL (m1, 4), w, 4, 6, in);
        rec<T> ("M44.setEulerAngles.orthonormal", ANG[cls], orthoErr (toL (m, 4), 3), 8, in);
        rec<T> ("M44.setEulerAngles.det", ANG[cls], fabsl (det3 (toL (m, 4)) - 1), 12, in);
    }
    {   // Matrix44 setAxisAngle: any non-zero axis (graded magnitude, also axis-aligned)
        int am = (k / 5) % 5;
        Vec3<T> ax;
        if (am == 0) ax = Vec3<T> ((T) U (-1, 1), (T) U (-1, 1), (T) U (-1, 1));
        else if (am == 1) { ax = Vec3<T> (0, 0, 0); ax[I (0, 2)] = (T) (I (0, 1) ? 3 : -0.5); }
        else if (am == 2) ax = Vec3<T> ((T) U (-1, 1), (T) U (-1, 1), (T) U (-1, 1)) * (T) std::pow (2.0, I (-30, 30));
        else if (am == 3) ax = Vec3<T> ((T) I (-3, 3), (T) I (-3, 3), (T) (I (0, 1) ? 1 : -2));
        else
        {
            // huge and tiny axis magnitudes: |axis|^2 overflows / underflows (length() must take its lengthTiny path) while |axis| itself
            // is representable: 1e-30..1e30 at float, 1e-200..1e200 at double
            double e = std::is_same<T, float>::value ? U (-30, 30) : U (-200, 200);
            if (k % 3 == 0) e = (e < 0 ? -1 : 1) * (std::is_same<T, float>::value ? U (20, 30) : U (155, 200));
            ax = Vec3<T> ((T) U (-1, 1), (T) U (-1, 1), (T) U (-1, 1)) * (T) std::pow (10.0, e);
            T l2 = ax.length2 ();
            ++hits[std::string ("axis-magnitude:") + Nm<T>::n + (std::isinf ((double) l2) ? ":huge:length2-overflows" : l2 < 2 * std::numeric_limits<T>::min () ? ":tiny:length2-underflows" : ":moderate")];
        }
        if (ax.x == 0 && ax.y == 0 && ax.z == 0) ax.x = 1;
        T a = angle<T> (cls);
        Matrix44<T> m; m.setAxisAngle (ax, a);
        std::string in = "axis=" + sv (ax) + " angle=" + std::to_string ((double) a);
        if (am == 4) ++hits["axis:huge-or-tiny-magnitude"];
        LM w = axisAngleL (ax.x, ax.y, ax.z, a);
        cmpEntries<T> ("M44.setAxisAngle.entries", ANG[cls], toL (m, 4), w, 4, 12, in);
        rec<T> ("M44.setAxisAngle.orthonormal", ANG[cls], orthoErr (toL (m, 4), 3), 24, in);
        rec<T> ("M44.setAxisAngle.det", ANG[cls], fabsl (det3 (toL (m, 4)) - 1), 24, in);
    }
}

// ---------------------------------------------------------------- B: in-place forms on NON-affine matrices
template <class T> static T rv (int mode)
{
    switch (mode)
    {
        case 0: return (T) I (-3, 3);
        case 1: return (T) U (-1, 1);
        default: return (T) (U (-1, 1) * std::pow (2.0, I (-8, 8)));
    }
}
// got (n x n, real code) vs A*B in long double; bound c*eps*sum|terms| ; lattice: exact
// unitScale: A (or B) is a rotation computed at T, whose entries carry an ABSOLUTE error of a few eps (cancellation inside an entry):
// the bound then scales with sum_k |other factor|, not with sum |terms|
template <class T, class M> static void cmpProd (const std::string& what, int mode, const M& got, const LM& A, const LM& B, int n, double c, const std::string& in, int unitScale = 0)
{
    LM w = lmul (A, B, n), g = toL (got, n);
    L   worstRatio = 0;
    for (int i = 0; i < n; ++i)
        for (int j = 0; j < n; ++j)
        {
            L e = fabsl (g.a[i][j] - w.a[i][j]);
            if (mode == 0) { if (e != 0) worstRatio = INFINITY; continue; }
            L s = labsmul (A, B, i, j, n) + (L) std::numeric_limits<T>::min ();
            if (unitScale == 1) { s = 0; for (int k = 0; k < n; ++k) s += fabsl (B.a[k][j]); s += (L) std::numeric_limits<T>::min (); }
            if (unitScale == 2) { s = 0; for (int k = 0; k < n; ++k) s += fabsl (A.a[i][k]); s += (L) std::numeric_limits<T>::min (); }
            worstRatio = std::max (worstRatio, e / s);
        }
    if (mode == 0) ++lattice;
    rec<T> (what, mode == 0 ? "integer-lattice(exact)" : mode == 1 ? "well-scaled" : "graded", worstRatio, mode == 0 ? 0 : c, in);
}
template <class T> static void inplace (int k)
{
    int mode = k % 3;
    ++hits[std::string ("current-matrix:") + (mode == 0 ? "integer-lattice" : mode == 1 ? "well-scaled" : "graded") + "(non-affine)"];
    Matrix44<T> m;
    for (int i = 0; i < 4; ++i) for (int j = 0; j < 4; ++j) m[i][j] = rv<T> (mode);
    Matrix33<T> m3;
    for (int i = 0; i < 3; ++i) for (int j = 0; j < 3; ++j) m3[i][j] = rv<T> (mode);
    Matrix22<T> m2;
    for (int i = 0; i < 2; ++i) for (int j = 0; j < 2; ++j) m2[i][j] = rv<T> (mode);
    Vec3<T> v (rv<T> (mode), rv<T> (mode), rv<T> (mode));
    Vec2<T> v2 (rv<T> (mode), rv<T> (mode));
    Shear6<T> h6 (rv<T> (mode), rv<T> (mode), rv<T> (mode), rv<T> (mode), rv<T> (mode), rv<T> (mode));
    std::string in = "m=" + sm (m) + " v=" + sv (v);
    LM ML = toL (m, 4), M3L = toL (m3, 3), M2L = toL (m2, 2);
    { Matrix44<T> a (m); a.translate (v); Matrix44<T> s; s.setTranslation (v); cmpProd<T> ("M44.translate=setTranslation*M", mode, a, toL (s, 4), ML, 4, 4, in); }
    { Matrix44<T> a (m); a.scale (v); Matrix44<T> s; s.setScale (v); cmpProd<T> ("M44.scale=setScale*M", mode, a, toL (s, 4), ML, 4, 4, in); }
    { Matrix44<T> a (m); a.shear (v); Matrix44<T> s; s.setShear (v); cmpProd<T> ("M44.shear(V3)=setShear*M", mode, a, toL (s, 4), ML, 4, 4, in); }
    { Matrix44<T> a (m); a.shear (h6); Matrix44<T> s; s.setShear (h6); cmpProd<T> ("M44.shear(Shear6)=setShear*M", mode, a, toL (s, 4), ML, 4, 4, in); }
    {
        Vec3<T> r (angle<T> (k % 4), angle<T> ((k / 3) % 4), angle<T> ((k / 5) % 4));
        Matrix44<T> a (m); a.rotate (r);
        // rounding of the nine rotation entries (computed at T) is part of the budget: compare with the T-valued set matrix AND with the exact one
        Matrix44<T> s; s.setEulerAngles (r);
        cmpProd<T> ("M44.rotate=setEulerAngles*M", mode == 0 ? 1 : mode, a, toL (s, 4), ML, 4, 8, in + " r=" + sv (r));
        cmpProd<T> ("M44.rotate=exactEuler*M", mode == 0 ? 1 : mode, a, eulerL (r.x, r.y, r.z), ML, 4, 16, in + " r=" + sv (r), 1);
    }
    { Matrix33<T> a (m3); a.translate (v2); Matrix33<T> s; s.setTranslation (v2); cmpProd<T> ("M33.translate=setTranslation*M", mode, a, toL (s, 3), M3L, 3, 4, in); }
    { Matrix33<T> a (m3); a.scale (v2); Matrix33<T> s; s.setScale (v2); cmpProd<T> ("M33.scale=setScale*M", mode, a, toL (s, 3), M3L, 3, 4, in); }
    { Matrix33<T> a (m3); a.shear (v2.x); Matrix33<T> s; s.setShear (v2.x); cmpProd<T> ("M33.shear(S)=setShear*M", mode, a, toL (s, 3), M3L, 3, 4, in); }
    { Matrix33<T> a (m3); a.shear (v2); Matrix33<T> s; s.setShear (v2); cmpProd<T> ("M33.shear(V2)=setShear*M", mode, a, toL (s, 3), M3L, 3, 4, in); }
    { T r = angle<T> (k % 4); Matrix33<T> a (m3); a.rotate (r); cmpProd<T> ("M33.rotate=M*exactRotation", mode == 0 ? 1 : mode, a, M3L, rotZL (r), 3, 8, in, 2); }
    { T r = angle<T> (k % 4); Matrix22<T> a (m2); a.rotate (r); cmpProd<T> ("M22.rotate=M*exactRotation", mode == 0 ? 1 : mode, a, M2L, rotZL (r), 2, 8, in, 2); }
    { Matrix22<T> a (m2); a.scale (v2); Matrix22<T> s; s.setScale (v2); cmpProd<T> ("M22.scale=setScale*M", mode, a, toL (s, 2), M2L, 2, 4, in); }
}

// ---------------------------------------------------------------- D: cross-type overloads (audit W9)
// every builder is `template <class S>`: the matrix has element type T, the ARGUMENT element type S.  Extraction and blocks A-C use S = T;
// here S is the other floating type.  Arguments are floats (exactly representable in both types), so the linear builders must agree
// EXACTLY with the S = T call, the in-place forms with set*·M to 4 eps(T)·sum|terms|, and the trigonometric ones with the documented
// formula to c·eps of the COARSER of the two types (sin/cos and the axis normalisation are computed at S).
template <class T, class S> static void crossType (int k)
{
    typedef typename std::conditional<(sizeof (S) < sizeof (T)), S, T>::type Coarse;
    int mode = k % 3;
    const std::string tagL = std::string ("S!=T[") + Nm<T>::n + "-matrix," + Nm<S>::n + "-arg]:";
    ++hits["cross-type:" + std::string (Nm<T>::n) + "-matrix/" + Nm<S>::n + "-argument"];
    auto fv = [&] () { return (float) rv<float> (mode); };
    float a3[3] = {fv (), fv (), fv ()}, a2[2] = {fv (), fv ()};
    Vec3<S> vS ((S) a3[0], (S) a3[1], (S) a3[2]); Vec3<T> vT ((T) a3[0], (T) a3[1], (T) a3[2]);
    Vec2<S> wS ((S) a2[0], (S) a2[1]);            Vec2<T> wT ((T) a2[0], (T) a2[1]);
    Matrix44<T> m; for (int i = 0; i < 4; ++i) for (int j = 0; j < 4; ++j) m[i][j] = (T) fv ();
    Matrix33<T> m3; for (int i = 0; i < 3; ++i) for (int j = 0; j < 3; ++j) m3[i][j] = (T) fv ();
    Matrix22<T> m2; for (int i = 0; i < 2; ++i) for (int j = 0; j < 2; ++j) m2[i][j] = (T) fv ();
    std::string in = "m=" + sm (m) + " v=" + sv (vT);
    const char* cls = mode == 0 ? "integer-lattice(exact)" : mode == 1 ? "well-scaled" : "graded";
    auto same44 = [&] (const std::string& what, const Matrix44<T>& x, const Matrix44<T>& y) { L e = 0; for (int i = 0; i < 4; ++i) for (int j = 0; j < 4; ++j) e = std::max (e, fabsl ((L) x[i][j] - (L) y[i][j])); rec<T> (what, cls, e, 0, in); };
    auto same33 = [&] (const std::string& what, const Matrix33<T>& x, const Matrix33<T>& y) { L e = 0; for (int i = 0; i < 3; ++i) for (int j = 0; j < 3; ++j) e = std::max (e, fabsl ((L) x[i][j] - (L) y[i][j])); rec<T> (what, cls, e, 0, in); };
    auto same22 = [&] (const std::string& what, const Matrix22<T>& x, const Matrix22<T>& y) { L e = 0; for (int i = 0; i < 2; ++i) for (int j = 0; j < 2; ++j) e = std::max (e, fabsl ((L) x[i][j] - (L) y[i][j])); rec<T> (what, cls, e, 0, in); };
    // linear set* builders: exact agreement with the S = T overload
    { Matrix44<T> x (m), y (m); x.setScale (vS); y.setScale (vT); same44 (tagL + "M44.setScale", x, y); }
    { Matrix44<T> x (m), y (m); x.setTranslation (vS); y.setTranslation (vT); same44 (tagL + "M44.setTranslation", x, y); }
    { Matrix44<T> x (m), y (m); x.setShear (vS); y.setShear (vT); same44 (tagL + "M44.setShear(V3)", x, y); }
    { Matrix33<T> x (m3), y (m3); x.setScale (wS); y.setScale (wT); same33 (tagL + "M33.setScale", x, y); }
    { Matrix33<T> x (m3), y (m3); x.setTranslation (wS); y.setTranslation (wT); same33 (tagL + "M33.setTranslation", x, y); }
    { Matrix33<T> x (m3), y (m3); x.setShear (wS); y.setShear (wT); same33 (tagL + "M33.setShear(V2)", x, y); }
    { Matrix33<T> x (m3), y (m3); x.setShear ((S) a2[0]); y.setShear ((T) a2[0]); same33 (tagL + "M33.setShear(S)", x, y); }
    { Matrix22<T> x (m2), y (m2); x.setScale (wS); y.setScale (wT); same22 (tagL + "M22.setScale", x, y); }
    // in-place forms with an S-typed argument = set*·M
    LM ML = toL (m, 4), M3L = toL (m3, 3), M2L = toL (m2, 2);
    { Matrix44<T> x (m); x.translate (vS); Matrix44<T> s; s.setTranslation (vT); cmpProd<T> (tagL + "M44.translate=setTranslation*M", mode, x, toL (s, 4), ML, 4, 4, in); }
    { Matrix44<T> x (m); x.scale (vS); Matrix44<T> s; s.setScale (vT); cmpProd<T> (tagL + "M44.scale=setScale*M", mode, x, toL (s, 4), ML, 4, 4, in); }
    { Matrix44<T> x (m); x.shear (vS); Matrix44<T> s; s.setShear (vT); cmpProd<T> (tagL + "M44.shear(V3)=setShear*M", mode, x, toL (s, 4), ML, 4, 4, in); }
    { Matrix33<T> x (m3); x.translate (wS); Matrix33<T> s; s.setTranslation (wT); cmpProd<T> (tagL + "M33.translate=setTranslation*M", mode, x, toL (s, 3), M3L, 3, 4, in); }
    { Matrix33<T> x (m3); x.scale (wS); Matrix33<T> s; s.setScale (wT); cmpProd<T> (tagL + "M33.scale=setScale*M", mode, x, toL (s, 3), M3L, 3, 4, in); }
    { Matrix33<T> x (m3); x.shear (wS); Matrix33<T> s; s.setShear (wT); cmpProd<T> (tagL + "M33.shear(V2)=setShear*M", mode, x, toL (s, 3), M3L, 3, 4, in); }
    { Matrix22<T> x (m2); x.scale (wS); Matrix22<T> s; s.setScale (wT); cmpProd<T> (tagL + "M22.scale=setScale*M", mode, x, toL (s, 2), M2L, 2, 4, in); }
    // trigonometric builders.  Axis and angles are drawn at the precision of S (for S = double they are NOT representable in float), so that
    // a computation carried out at the wrong type is visible:
    //  (i)  setAxisAngle is specified (ImathMatrix.h) to normalise the axis and evaluate sin / cos and every entry AT S and to convert each
    //       entry to T on assignment: it must agree EXACTLY with the S = T instantiation at S (validated by extraction / TV / theorems),
    //       converted entrywise to T.  Catches "unit computed in T", "sin/cos computed in T";
    //  (ii) entries vs the documented formula evaluated from the S-valued arguments, to c·eps of the coarser type;
    //  (iii) the in-place rotate vs set*·M for the SAME S-valued angles (the property's clause, at S != T).
    int acl = k % 4;
    const std::string tag = std::string ("S!=T[") + Nm<T>::n + "-matrix," + Nm<S>::n + "-arg]:";
    S ang = angle<S> (acl);
    Vec3<S> r (angle<S> (acl), angle<S> ((acl + 1) % 4), angle<S> (acl));
    std::string inA = in + " angle=" + std::to_string ((double) ang) + " r=" + sv (r);
    {
        Vec3<S> ax ((S) U (-1, 1), (S) U (-1, 1), (S) U (-1, 1));
        if (mode == 2) ax *= (S) std::ldexp (1.0, I (-8, 8));
        if (ax.x == 0 && ax.y == 0 && ax.z == 0) ax.x = 1;
        Matrix44<T> x (m); x.setAxisAngle (ax, ang);
        Matrix44<S> y; y.setAxisAngle (ax, ang);
        Matrix44<T> yT; for (int i = 0; i < 4; ++i) for (int j = 0; j < 4; ++j) yT[i][j] = (T) y[i][j];
        L e = 0; for (int i = 0; i < 4; ++i) for (int j = 0; j < 4; ++j) e = std::max (e, fabsl ((L) x[i][j] - (L) yT[i][j]));
        rec<T> (tag + "M44.setAxisAngle=T(computed-at-S)", ANG[acl], e, 0, inA + " axis=" + sv (ax));
        cmpEntries<Coarse> (tag + "M44.setAxisAngle.entries", ANG[acl], toL (x, 4), axisAngleL (ax.x, ax.y, ax.z, (L) ang), 4, 12, inA + " axis=" + sv (ax));
    }
    {
        Matrix44<T> x (m); x.setEulerAngles (r);
        cmpEntries<Coarse> (tag + "M44.setEulerAngles.entries", ANG[acl], toL (x, 4), eulerL (r.x, r.y, r.z), 4, 6, inA);
        Matrix44<T> y (m); y.rotate (r);
        cmpProd<Coarse> (tag + "M44.rotate=exactEuler*M", mode == 0 ? 1 : mode, y, eulerL (r.x, r.y, r.z), ML, 4, 16, inA, 1);
        // rotate (r) of the identity and setEulerAngles (r) are the same matrix (clause "rotate = setEulerAngles·M", M = 1)
        Matrix44<T> id; id.rotate (r);
        cmpEntries<Coarse> (tag + "M44.rotate(identity)=setEulerAngles", ANG[acl], toL (id, 4), toL (x, 4), 4, 8, inA);
    }
    { Matrix33<T> x (m3); x.setRotation (ang); cmpEntries<Coarse> (tag + "M33.setRotation.entries", ANG[acl], toL (x, 3), rotZL ((L) ang), 3, 2, inA);
      Matrix33<T> y (m3); y.rotate (ang); cmpProd<Coarse> (tag + "M33.rotate=M*exactRotation", mode == 0 ? 1 : mode, y, M3L, rotZL ((L) ang), 3, 8, inA, 2); }
    { Matrix22<T> x (m2); x.setRotation (ang); cmpEntries<Coarse> (tag + "M22.setRotation.entries", ANG[acl], toL (x, 2), rotZL ((L) ang), 2, 2, inA);
      Matrix22<T> y (m2); y.rotate (ang); cmpProd<Coarse> (tag + "M22.rotate=M*exactRotation", mode == 0 ? 1 : mode, y, M2L, rotZL ((L) ang), 2, 8, inA, 2); }
}

// ---------------------------------------------------------------- C: frame builders
struct V { L x, y, z; };
static V  vl (L x, L y, L z) { return V{x, y, z}; }
template <class T> static V vl (const Vec3<T>& v) { return V{(L) v.x, (L) v.y, (L) v.z}; }
static L  dotl (V a, V b) { return a.x * b.x + a.y * b.y + a.z * b.z; }
static V  crossl (V a, V b) { return V{a.y * b.z - a.z * b.y, a.z * b.x - a.x * b.z, a.x * b.y - a.y * b.x}; }
static L  lenl (V a) { return sqrtl (dotl (a, a)); }
static V  nrml (V a) { L l = lenl (a); return l == 0 ? a : V{a.x / l, a.y / l, a.z / l}; }
static L  distl (V a, V b) { return lenl (V{a.x - b.x, a.y - b.y, a.z - b.z}); }
static V  rowl (const LM& m, int i) { return V{m.a[i][0], m.a[i][1], m.a[i][2]}; }
static V  vecRow (V p, const LM& m) { return V{p.x * m.a[0][0] + p.y * m.a[1][0] + p.z * m.a[2][0], p.x * m.a[0][1] + p.y * m.a[1][1] + p.z * m.a[2][1], p.x * m.a[0][2] + p.y * m.a[1][2] + p.z * m.a[2][2]}; }

// direction pair classes
static const char* PAIR[] = {"generic", "graded-magnitudes", "nearly-parallel", "exactly-parallel", "exactly-opposite", "axis-aligned-parallel",
                             "zero-first", "zero-second", "both-zero", "perpendicular-lattice", "huge-magnitudes", "tiny-magnitudes",
                             "nearly-opposite"};
static const int NPAIR = 13;
// magnitude classes (audit W4): generic, well-separated directions whose LENGTHS are far from 1 — the property's "direction arguments neither
// zero nor nearly parallel" carries no magnitude restriction.  huge: |v| in 1e10..1e37 (float) / 1e100..1e300 (double); tiny: reciprocals
// (down to the edge of the normal range).  |v|^2 overflows / underflows in the upper half of these ranges, |v|^3 (the unnormalised double
// cross product alignZAxisWithTargetDir used before /repo 8e640b7: NaN / zero rows from ~7e12 float, ~5.6e102 double) almost everywhere.
template <class T> static T magnitude (bool huge)
{
    double e = std::is_same<T, float>::value ? U (10, 37) : U (100, 300);
    return (T) std::pow (10.0, huge ? e : -e);
}
template <class T> static bool isZero (const Vec3<T>& v) { return v.x == 0 && v.y == 0 && v.z == 0; }
template <class T> static void dirPair (int cls, Vec3<T>& a, Vec3<T>& b, L& sinAngle)
{
    auto rnd = [] () { return Vec3<T> ((T) U (-1, 1), (T) U (-1, 1), (T) U (-1, 1)); };
    a = rnd (); b = rnd ();
    if (a.length2 () == 0) a.x = 1;
    if (b.length2 () == 0) b.y = 1;
    switch (cls)
    {
        case 0: break;
        case 1:
        {
            // lengths 2^-40..2^40 (float) / 2^-300..2^300 (double): |a|^2 |b| (the largest intermediate of any builder) stays a normal number
            int g = std::is_same<T, float>::value ? 40 : 300;
            a *= (T) std::ldexp (1.0, I (-g, g)); b *= (T) std::ldexp (1.0, I (-g, g));
            break;
        }
        case 2: b = a * (T) U (0.5, 2) + rnd () * (T) (std::is_same<T, float>::value ? 2e-3 : 1e-6); break;
        case 3: a = Vec3<T> ((T) I (-3, 3), (T) I (-3, 3), (T) I (1, 3)); b = a * (T) (1 << I (0, 3)); break;
        case 4: a = Vec3<T> ((T) I (-3, 3), (T) I (-3, 3), (T) I (1, 3)); b = a * (T) (-(1 << I (0, 3))); break;
        case 5: { int ax = I (0, 2); a = Vec3<T> (0, 0, 0); a[ax] = (T) (I (0, 1) ? 2 : -3); b = a * (T) (I (0, 1) ? 4 : -1); break; }
        case 6: a = Vec3<T> (0, 0, 0); break;
        case 7: b = Vec3<T> (0, 0, 0); break;
        case 8: a = Vec3<T> (0, 0, 0); b = Vec3<T> (0, 0, 0); break;
        case 9: { int ax = I (0, 2); a = Vec3<T> (0, 0, 0); b = Vec3<T> (0, 0, 0); a[ax] = (T) I (1, 4); b[(ax + 1) % 3] = (T) -I (1, 4); break; }
        case 10: case 11:
        {
            // well-separated directions (angle between 30 and 150 degrees), then scaled
            for (int tries = 0; tries < 100; ++tries)
            {
                V c0 = crossl (vl (a), vl (b));
                L d0 = lenl (vl (a)) * lenl (vl (b));
                if (d0 > 0 && lenl (c0) / d0 > 0.5) break;
                a = rnd (); b = rnd ();
            }
            a *= magnitude<T> (cls == 10); b *= magnitude<T> (cls == 10);
            break;
        }
        default:
        {
            // nearly opposite: b = -k a + small perpendicular-ish perturbation; angles pi - delta, delta from 1e-1 down to a few eps
            // (the (8 eps)^2 threshold branch of Quat::setRotation with f0 + t0 != 0 is reached at the small end)
            double de = std::is_same<T, float>::value ? U (-6.5, -1) : U (-15, -1);
            // a third of the pairs in the band where |f0 + t0| is a few eps: both sides of the (8 eps)^2 threshold, f0 + t0 != 0
            if (I (0, 2) == 0) de = std::is_same<T, float>::value ? U (-7.5, -6) : U (-16.3, -14.8);
            b = a * (T) -U (0.5, 2) + rnd () * (T) std::pow (10.0, de);
        }
    }
    V c = crossl (vl (a), vl (b));
    L d = lenl (vl (a)) * lenl (vl (b));
    sinAngle = d > 0 ? lenl (c) / d : 0;
}
// orthonormal, right-handed, finite, affine; `cond` scales the bound (1/sin(angle) for nearly parallel inputs)
template <class T> static void checkFrame (const std::string& what, const std::string& cls, const Matrix44<T>& m, L cond, double c, const std::string& in)
{
    LM g = toL (m, 4);
    if (!finiteM (g)) { rec<T> (what + ".finite", cls, INFINITY, 0, in); return; }
    rec<T> (what + ".orthonormal", cls, orthoErr (g, 3) / cond, c, in);
    rec<T> (what + ".det+1", cls, fabsl (det3 (g) - 1) / cond, 2 * c, in);
    L aff = std::max (std::max (fabsl (g.a[0][3]), fabsl (g.a[1][3])), std::max (fabsl (g.a[2][3]), fabsl (g.a[3][3] - 1)));
    rec<T> (what + ".affine", cls, aff, 0, in);
}
template <class T> static void frames (int k)
{
    int cls = k % NPAIR;
    ++hits[std::string ("directions:") + PAIR[cls]];
    const bool mag = cls == 10 || cls == 11;
    Vec3<T> a, b;
    L sinA;
    dirPair<T> (cls, a, b, sinA);
    std::string in = std::string ("a=") + sv (a) + " b=" + sv (b);
    L eps = std::numeric_limits<T>::epsilon ();
    // cancellation in a x b for nearly parallel a, b (class 2 by construction; any class by coincidence): the bound scales with 1/sin(angle)
    L cond = (cls == 2 || (sinA > 0 && sinA < 0.05)) ? 1 / std::max (sinA, eps) : 1;
    bool degenerate = cls >= 3 && cls <= 8;
    {   // alignZAxisWithTargetDir (target = a, up = b): EVERY class must give a valid frame with z-row = target^
        Matrix44<T> m;
        alignZAxisWithTargetDir (m, a, b);
        checkFrame<T> ("alignZAxisWithTargetDir", PAIR[cls], m, cond, 24, in);
        V t = isZero (a) ? vl (0, 0, 1) : nrml (vl (a));
        rec<T> ("alignZAxisWithTargetDir.z-row=target", PAIR[cls], distl (rowl (toL (m, 4), 2), t), 4, in);
        if (!degenerate)
        {
            V x = nrml (crossl (vl (b), vl (a)));
            rec<T> ("alignZAxisWithTargetDir.x-row=up x target", PAIR[cls], distl (rowl (toL (m, 4), 0), x) / cond, 32, in);
        }
    }
    {   // rotationMatrixWithUpDir (from = a, to = b, up = third vector): takes a^ to b^ (b = 0: to +z; a = 0: identity)
        Vec3<T> up ((T) U (-1, 1), (T) U (-1, 1), (T) U (-1, 1));
        if (mag && (k / NPAIR) % 2 == 0) up *= magnitude<T> (cls == 10); // the up direction at the same scale as the other two
        if (k % 7 == 0) up = b; // up parallel to the target
        if (k % 11 == 0) up = Vec3<T> (0, 0, 0);
        Matrix44<T> m = rotationMatrixWithUpDir (a, b, up);
        V uc = crossl (vl (up), vl (b));
        L condUp = 1;
        { L d = lenl (vl (up)) * lenl (vl (b)); L s = d > 0 ? lenl (uc) / d : 0; if (s > 0 && s < 1e-2) condUp = 1 / std::max (s, eps); }
        L condA = 1; // a vs the fixed up (0,1,0) of the first alignment
        { V c0 = crossl (vl (0, 1, 0), vl (a)); L d = lenl (vl (a)); L s = d > 0 ? lenl (c0) / d : 0; if (s > 0 && s < 1e-2) condA = 1 / std::max (s, eps); }
        std::string in2 = in + " up=" + sv (up);
        checkFrame<T> ("rotationMatrixWithUpDir", PAIR[cls], m, condUp * condA, 32, in2);
        if (!isZero (a))
        {
            V t = isZero (b) ? vl (0, 0, 1) : nrml (vl (b));
            rec<T> ("rotationMatrixWithUpDir.from->to", PAIR[cls], distl (vecRow (nrml (vl (a)), toL (m, 4)), t) / (condUp * condA), 16, in2);
            // the up clause (theorem rotationMatrixWithUpDir_up / alignZAxisWithTargetDir_up): y-row of alignZ (to, up) has a positive
            // component along up; measured on well-conditioned up (angle to `to` above ~0.6 degrees)
            L du = lenl (vl (up)) * lenl (vl (b));
            if (du > 0 && lenl (uc) / du > 1e-2 && finiteM (toL (m, 4)))
            {
                Matrix44<T> zf; alignZAxisWithTargetDir (zf, a, Vec3<T> (0, 1, 0));
                V img = vecRow (rowl (toL (zf, 4), 1), toL (m, 4));   // image of the from-frame's up axis
                L along = dotl (img, nrml (vl (up)));
                L want = lenl (uc) / du;                              // = sin(angle(up, to)): the exact component
                rec<T> ("rotationMatrixWithUpDir.up-component", PAIR[cls], fabsl (along - want), 32, in2);
            }
        }
        else
            rec<T> ("rotationMatrixWithUpDir.zero-from=identity", PAIR[cls], orthoErr (toL (m, 4), 3) + fabsl (toL (m, 4).a[0][0] - 1), 0, in2);
    }
    if (!isZero (a) && !isZero (b))
    {   // rotationMatrix (from = a, to = b) through Quat::setRotation: every non-zero pair, incl. parallel, opposite and NEARLY opposite
        Matrix44<T> m = rotationMatrix (a, b);
        checkFrame<T> ("rotationMatrix", PAIR[cls], m, 1, 64, in);
        // which arm of Quat::setRotation the pair takes (decided as the code does, on the normalised T-valued directions)
        Vec3<T> f0 = a.normalized (), t0 = b.normalized ();
        T e8 = 8 * std::numeric_limits<T>::epsilon ();
        const char* arm = (f0 ^ t0) >= 0 ? "acute" : ((f0 + t0).length2 () > e8 * e8 ? "obtuse-split" : "opposite-fallback");
        ++hits[std::string ("rotationMatrix-arm:") + arm];
        // the threshold branch proper: fallback taken although f0 + t0 != 0 (exactly opposite lattice pairs give f0 + t0 == 0 and would
        // satisfy an arm count alone) — counted per element type; only class `nearly-opposite` reaches it, at angles pi - few eps
        const bool thresholdFallback = std::string (arm) == "opposite-fallback" && !isZero (f0 + t0);
        if (thresholdFallback) ++hits[std::string ("rotationMatrix-arm:opposite-fallback(f0+t0!=0):") + Nm<T>::n];
        // from^ -> to^: the half-way vector h0 = (f0 + t0)^ carries a relative error eps / |f0 + t0|, i.e. the map is conditioned by
        // 1 / |f0 + t0| (documented in ImathQuat.h: "nearly opposite" is the ill-conditioned case); on the fallback arm the result is the
        // exact half-turn from^ -> -from^ at distance |f0 + t0| <= 8 eps from to^ (theorem rotationMatrix_carries)
        L s2 = lenl (V{(L) f0.x + (L) t0.x, (L) f0.y + (L) t0.y, (L) f0.z + (L) t0.z});
        // (only the split arm is conditioned by 1 / |f0 + t0|; the fallback arm must stay within 8 eps + rounding, unscaled)
        L condO = (cls == 12 && std::string (arm) == "obtuse-split") ? std::max ((L) 1, 2 / std::max (s2, eps)) : 1;
        rec<T> ("rotationMatrix.from->to", PAIR[cls], distl (vecRow (nrml (vl (a)), toL (m, 4)), nrml (vl (b))) / condO, 32, in);
        // rotationMatrix_carries, second clause, on floats: on the threshold branch the image of from^ is -from^ (to rounding) …
        if (thresholdFallback)
            rec<T> ("rotationMatrix.threshold-fallback.from->-from", PAIR[cls], distl (vecRow (nrml (vl (a)), toL (m, 4)), V{-nrml (vl (a)).x, -nrml (vl (a)).y, -nrml (vl (a)).z}), 8, in);
    }
    if (!degenerate)
    {   // computeLocalFrame (p, xDir = a, normal = b)
        Vec3<T> p ((T) U (-10, 10), (T) U (-10, 10), (T) U (-10, 10));
        Matrix44<T> m = computeLocalFrame (p, a, b);
        LM g = toL (m, 4);
        checkFrame<T> ("computeLocalFrame", PAIR[cls], m, cond, 24, in);
        rec<T> ("computeLocalFrame.x-row=xDir", PAIR[cls], distl (rowl (g, 0), nrml (vl (a))), 4, in);
        rec<T> ("computeLocalFrame.y-row.normal=0", PAIR[cls], fabsl (dotl (rowl (g, 1), nrml (vl (b)))) / cond, 24, in);
        rec<T> ("computeLocalFrame.origin", PAIR[cls], distl (rowl (g, 3), vl (p)), 0, in);
        if (cls == 9) rec<T> ("computeLocalFrame.z-row=normal(perpendicular)", PAIR[cls], distl (rowl (g, 2), nrml (vl (b))), 8, in);
    }
    {   // firstFrame (pi, pj = pi + a, pk = pi + b); collinear classes use lattice points so that collinearity is exact
        bool lat = cls >= 3 && cls <= 5;
        Vec3<T> pi = lat ? Vec3<T> ((T) I (-4, 4), (T) I (-4, 4), (T) I (-4, 4)) : Vec3<T> ((T) U (-2, 2), (T) U (-2, 2), (T) U (-2, 2));
        if (cls == 11) pi = Vec3<T> (0, 0, 0);   // tiny offsets would be absorbed by an O(1) origin
        if (!isZero (a) && (lat || cls <= 2 || cls == 9 || cls == 7 || cls >= 10))
        {
            Vec3<T> pj = pi + a, pk = pi + b;
            Vec3<T> d = pj - pi, e = pk - pi;   // what the function sees after rounding of pi + a
            if (!isZero (d))
            {
                V c = crossl (vl (d), vl (e));
                L dd = lenl (vl (d)) * lenl (vl (e));
                L s = dd > 0 ? lenl (c) / dd : 0;
                L cnd = (s > 0 && s < 1e-1) ? 1 / std::max (s, eps) : 1;
                Matrix44<T> m = firstFrame (pi, pj, pk);
                LM g = toL (m, 4);
                std::string in3 = "pi=" + sv (pi) + " pj=" + sv (pj) + " pk=" + sv (pk);
                checkFrame<T> ("firstFrame", PAIR[cls], m, cnd, 16, in3);
                rec<T> ("firstFrame.x-row=tangent", PAIR[cls], distl (rowl (g, 0), nrml (vl (d))), 4, in3);
                rec<T> ("firstFrame.origin", PAIR[cls], distl (rowl (g, 3), vl (pi)), 0, in3);
                if (s > 0) rec<T> ("firstFrame.y-row=plane-normal", PAIR[cls], distl (rowl (g, 1), nrml (c)) / cnd, 12, in3);
                // lastFrame: same axes, origin moved by (pk - pj)
                Matrix44<T> ml = lastFrame (m, pj, pk);
                LM gl = toL (ml, 4);
                L ea = 0;
                for (int i = 0; i < 3; ++i) for (int j = 0; j < 4; ++j) ea = std::max (ea, fabsl (gl.a[i][j] - g.a[i][j]));
                rec<T> ("lastFrame.axes-unchanged", PAIR[cls], ea, 0, in3);
                V o = V{g.a[3][0] + ((L) pk.x - (L) pj.x), g.a[3][1] + ((L) pk.y - (L) pj.y), g.a[3][2] + ((L) pk.z - (L) pj.z)};
                rec<T> ("lastFrame.origin", PAIR[cls], distl (rowl (gl, 3), o) / std::max ((L) 1, lenl (o)), 4, in3);
                // nextFrame from this frame with tangents ti = pj - pi (the tangent the frame was built with), tj = b
                Vec3<T> ti = d, tj = b;
                Matrix44<T> mn = nextFrame (m, pi, pj, ti, tj);
                LM gn = toL (mn, 4);
                checkFrame<T> ("nextFrame", PAIR[cls], mn, cnd, 24, in3 + " ti=" + sv (d) + " tj=" + sv (b));
                L sinT = 0;
                { V c2 = crossl (vl (d), vl (b)); L d2 = lenl (vl (d)) * lenl (vl (b)); sinT = d2 > 0 ? lenl (c2) / d2 : 0; }
                rec<T> ("nextFrame.origin", PAIR[cls], distl (rowl (gn, 3), vl (pj)) / std::max ((L) 1, lenl (vl (pj)) + lenl (vl (pi))), 16, in3);
                if (!isZero (b) && sinT > 0.25 && dotl (vl (d), vl (b)) > -0.9 * lenl (vl (d)) * lenl (vl (b)))
                {
                    // well-conditioned angle between the tangents: the frame's x-row (the old tangent a^) must turn into b^
                    ++hits["nextFrame:well-conditioned-tangent-angle"];
                    rec<T> ("nextFrame.tangent-ti->tj", PAIR[cls], distl (rowl (gn, 0), nrml (vl (b))), 32, in3 + " ti=" + sv (d) + " tj=" + sv (b));
                }
            }
        }
    }
}

template <class T> static void runAll (int n)
{
    for (int k = 0; k < n; ++k) { rotations<T> (k); inplace<T> (k); frames<T> (k); }
}

int main (int argc, char** argv)
{
    unsigned long seed = argc > 1 ? strtoul (argv[1], 0, 10) : 1;
    int           n    = argc > 2 ? atoi (argv[2]) : 2000;
    rng.seed (seed * 2654435761ul + 17);
    runAll<float> (n);
    runAll<double> (n);
    for (int k = 0; k < n / 4; ++k) { crossType<float, double> (k); crossType<double, float> (k); }
    for (auto& kv : worst) printf ("RESIDUE-WORST %s %.4g\n", kv.first.c_str (), kv.second);
    for (auto& kv : hits) printf ("RESIDUE-HITS %s %ld\n", kv.first.c_str (), kv.second);
    for (auto& kv : classAcc) printf ("RESIDUE-CLASS %s evals=%ld fails=%ld\n", kv.first.c_str (), kv.second.first, kv.second.second);
    printf ("RESIDUE evals=%ld lattice_exact=%ld failures=%d failures_magnitude_classes=%ld\n", evals, lattice, failures, failuresMagnitude);
    return failures ? 1 : 0;
}
