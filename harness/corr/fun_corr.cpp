// Correspondence harness for C17: runs the REAL code of ImathFun.h/.cpp,
// ImathMath.h, ImathRoots.h, ImathColorAlgo.h/.cpp (linked in-process) and
// prints the same canonical lines as lean/Driver/Fun.lean prints for the models.
//
//   fun_corr f32_blocks <op> <lo> <hi>     FNV hash per block of 2^16 float patterns
//                                           op: floor ceil trunc finitef succf predf
//   fun_corr f32_range <op> <lo> <hi>      one result per pattern
//   fun_corr f32_spec <lo> <hi>            the real code against integer-only specs of
//                                           floor/ceil/trunc/finitef/succf/predf over blocks [lo,hi):
//                                           prints "<op> <violations> <first failing pattern or ->"
//   fun_corr alpha <T> <fn>                exhaustive alpha pass-through of Color4<T> fn=rgb2hsv|hsv2rgb
//   fun_corr lines                          command lines on stdin (see Driver/Fun.lean)
//   fun_corr ilines                         the same, ISOLATED: the lines are answered by a forked child; when the child dies
//                                           (a sanitizer abort in the -fsanitize=undefined build) the line it was working on is
//                                           answered "UB <first line of the sanitizer report>" and a new child continues after it
//   fun_corr packed_sweep                   rgb2packed (packed2rgb (p)) for ALL 2^32 words p, Color4<float> and Vec3<float>:
//                                           prints "<C4f mismatches> <first or -> <V3f mismatches> <first or ->"
#include <ImathFun.h>
#include <ImathMath.h>
#include <ImathRoots.h>
#include <ImathColorAlgo.h>
#include <cstdio>
#include <cstring>
#include <cstdlib>
#include <cstdint>
#include <climits>
#include <csignal>
#include <csetjmp>
#include <string>
#include <vector>
#include <thread>
#include <sstream>
#include <iostream>
#include <atomic>
#include <unistd.h>
#include <sys/wait.h>
using namespace IMATH_NAMESPACE;

static uint32_t f2u (float f) { uint32_t u; memcpy (&u, &f, 4); return u; }
static float    u2f (uint32_t u) { float f; memcpy (&f, &u, 4); return f; }
static uint64_t d2u (double f) { uint64_t u; memcpy (&u, &f, 8); return u; }
static double   u2d (uint64_t u) { double f; memcpy (&f, &u, 8); return f; }

static inline bool inRange32 (uint32_t u) { return (u & 0x7fffffffu) < 0x4f000000u; }
static inline bool inRange64 (uint64_t u) { return (u & 0x7fffffffffffffffull) < 0x41e0000000000000ull; }

static int opCode (const char* s)
{
    if (!strcmp (s, "floor")) return 0;
    if (!strcmp (s, "ceil")) return 1;
    if (!strcmp (s, "trunc")) return 2;
    if (!strcmp (s, "finitef") || !strcmp (s, "finite")) return 3;
    if (!strcmp (s, "succf") || !strcmp (s, "succ")) return 4;
    return 5;
}

// volatile-free but not inlinable across the call: keep the compiler from
// constant-folding the templates away
static inline uint32_t f32op (int op, uint32_t u)
{
    float f = u2f (u);
    switch (op)
    {
        case 0: return inRange32 (u) ? (uint32_t) IMATH_NAMESPACE::floor (f) : 0x80000000u;
        case 1: return inRange32 (u) ? (uint32_t) IMATH_NAMESPACE::ceil (f) : 0x80000000u;
        case 2: return inRange32 (u) ? (uint32_t) IMATH_NAMESPACE::trunc (f) : 0x80000000u;
        case 3: return IMATH_NAMESPACE::finitef (f) ? 1u : 0u;
        case 4: return f2u (succf (f));
        default: return f2u (predf (f));
    }
}

static uint64_t block_hash (int op, uint32_t b)
{
    uint64_t h    = 1469598103934665603ull;
    uint32_t base = b << 16;
    for (uint32_t i = 0; i < 65536; ++i)
        h = (h ^ (uint64_t) f32op (op, base + i)) * 1099511628211ull;
    return h;
}

// ---- integer-only specifications on binary32 patterns --------------------
// value = (-1)^s * mag.frac ; returns integer part of |x| and whether a fraction remains
static void spec_parts (uint32_t u, int64_t& mag, bool& frac)
{
    uint32_t e = (u >> 23) & 0xff, m = u & 0x7fffff;
    if (e == 0) { mag = 0; frac = m != 0; return; }
    uint64_t sig = m | 0x800000u;
    int      sh  = (int) e - 150;
    if (sh >= 0) { mag = (int64_t) (sig << sh); frac = false; }
    else if (-sh >= 25) { mag = 0; frac = true; }
    else { mag = (int64_t) (sig >> (-sh)); frac = (sig & ((1ull << (-sh)) - 1)) != 0; }
}
static int64_t spec_ord (uint32_t u) { return (u & 0x80000000u) ? -(int64_t) (u & 0x7fffffffu) : (int64_t) u; }
static bool    spec_finite (uint32_t u) { return ((u >> 23) & 0xff) != 0xff; }

struct SpecRes { uint64_t bad[6]; uint32_t first[6]; };

static void spec_block (uint32_t b, SpecRes& r)
{
    uint32_t base = b << 16;
    for (uint32_t i = 0; i < 65536; ++i)
    {
        uint32_t u = base + i;
        float    f = u2f (u);
        bool     s = (u >> 31) != 0;
        bool     ok[6] = {true, true, true, true, true, true};
        if (inRange32 (u))
        {
            int64_t mag; bool frac;
            spec_parts (u, mag, frac);
            int64_t fl = s ? -(mag + (frac ? 1 : 0)) : mag;
            int64_t ce = s ? -mag : mag + (frac ? 1 : 0);
            int64_t tr = s ? -mag : mag;
            ok[0] = (int64_t) IMATH_NAMESPACE::floor (f) == fl;
            ok[1] = (int64_t) IMATH_NAMESPACE::ceil (f) == ce;
            ok[2] = (int64_t) IMATH_NAMESPACE::trunc (f) == tr;
        }
        ok[3] = IMATH_NAMESPACE::finitef (f) == spec_finite (u);
        uint32_t su = f2u (succf (f)), pu = f2u (predf (f));
        if (spec_finite (u))
        {
            ok[4] = spec_ord (su) == spec_ord (u) + 1;
            ok[5] = spec_ord (pu) == spec_ord (u) - 1;
        }
        else { ok[4] = su == u; ok[5] = pu == u; }
        for (int k = 0; k < 6; ++k)
            if (!ok[k]) { if (!r.bad[k]) r.first[k] = u; r.bad[k]++; }
    }
}

// ---- traps ------------------------------------------------------------------
static sigjmp_buf trap_env;
static void on_fpe (int) { siglongjmp (trap_env, 1); }

template <class F> static std::string guarded (F f)
{
    if (sigsetjmp (trap_env, 1)) return "T";
    int r = f ();
    return std::to_string (r);
}

// not inlined so that the optimiser cannot specialise the sign-case tables on constants
__attribute__ ((noinline)) static int call_divs (int x, int y) { return divs (x, y); }
__attribute__ ((noinline)) static int call_mods (int x, int y) { return mods (x, y); }
__attribute__ ((noinline)) static int call_divp (int x, int y) { return divp (x, y); }
__attribute__ ((noinline)) static int call_modp (int x, int y) { return modp (x, y); }

// floor / ceil / trunc: the result is STORED in an `int` by a function the optimiser cannot look through, so that what is
// printed is what a caller receives (g++ otherwise propagates "signed overflow does not happen" through the inlined template
// into the printing code and prints 2147483648 for ceil (2147483647.5)); in the UBSan build the overflow aborts here.
__attribute__ ((noinline)) static int call_floor_d (double x) { return IMATH_NAMESPACE::floor (x); }
__attribute__ ((noinline)) static int call_ceil_d (double x) { return IMATH_NAMESPACE::ceil (x); }
__attribute__ ((noinline)) static int call_trunc_d (double x) { return IMATH_NAMESPACE::trunc (x); }
__attribute__ ((noinline)) static int call_floor_f (float x) { return IMATH_NAMESPACE::floor (x); }
__attribute__ ((noinline)) static int call_ceil_f (float x) { return IMATH_NAMESPACE::ceil (x); }
__attribute__ ((noinline)) static int call_trunc_f (float x) { return IMATH_NAMESPACE::trunc (x); }
// integer instantiations of the scalar templates
__attribute__ ((noinline)) static int call_abs_i (int a) { return IMATH_NAMESPACE::abs (a); }
__attribute__ ((noinline)) static int call_sign_i (int a) { return sign (a); }
__attribute__ ((noinline)) static int call_cmp_i (int a, int b) { return cmp (a, b); }
__attribute__ ((noinline)) static int call_cmpt_i (int a, int b, int t) { return cmpt (a, b, t); }
__attribute__ ((noinline)) static int call_clamp_i (int a, int l, int h) { return clamp (a, l, h); }
__attribute__ ((noinline)) static int call_iszero_i (int a, int t) { return iszero (a, t) ? 1 : 0; }
__attribute__ ((noinline)) static int call_equal_i (int a, int b, int t) { return equal (a, b, t) ? 1 : 0; }
__attribute__ ((noinline)) static unsigned call_ulerp_u (unsigned a, unsigned b, float t) { return ulerp (a, b, t); }
__attribute__ ((noinline)) static unsigned call_lerp_u (unsigned a, unsigned b, float t) { return lerp (a, b, t); }

// ---- printing helpers -------------------------------------------------------
static std::string hx (uint64_t v) { char b[32]; snprintf (b, sizeof b, "%llx", (unsigned long long) v); return b; }
static std::string hf (float f) { return hx (f2u (f)); }
static std::string hd (double f) { return hx (d2u (f)); }
static float       pf (const std::string& s) { return u2f ((uint32_t) strtoul (s.c_str (), 0, 16)); }
static double      pd (const std::string& s) { return u2d (strtoull (s.c_str (), 0, 16)); }
static long long   pi (const std::string& s) { return atoll (s.c_str ()); }

template <class T> static std::string scal (T a, T b, T t, std::string (*h) (T))
{
    std::ostringstream o;
    o << h (IMATH_NAMESPACE::abs (a)) << ' ' << sign (a) << ' ' << h (lerp (a, b, t)) << ' ' << h (ulerp (a, b, t)) << ' '
      << h (lerpfactor (t, a, b)) << ' ' << h (clamp (t, a, b)) << ' ' << cmp (a, b) << ' ' << cmpt (a, b, t) << ' '
      << (iszero (a, t) ? 1 : 0) << ' ' << (equal (a, b, t) ? 1 : 0) << ' ' << (equalWithAbsError (a, b, t) ? 1 : 0) << ' '
      << (equalWithRelError (a, b, t) ? 1 : 0);
    return o.str ();
}

template <class T> static std::string roots (int n, T* x, std::string (*h) (T))
{
    std::ostringstream o;
    o << n;
    for (int i = 0; i < n && i < 3; ++i) o << ' ' << h (x[i]);
    return o.str ();
}

template <class T> static std::string icolor (const std::string& cmd, std::vector<std::string>& w)
{
    std::ostringstream o;
    if (cmd == "ih2r3" || cmd == "ir2h3")
    {
        Vec3<T> v ((T) pi (w[3]), (T) pi (w[4]), (T) pi (w[5]));
        Vec3<T> r = cmd == "ih2r3" ? hsv2rgb (v) : rgb2hsv (v);
        o << (long long) r.x << ' ' << (long long) r.y << ' ' << (long long) r.z;
    }
    else if (cmd == "ih2r4" || cmd == "ir2h4")
    {
        Color4<T> v ((T) pi (w[3]), (T) pi (w[4]), (T) pi (w[5]), (T) pi (w[6]));
        Color4<T> r = cmd == "ih2r4" ? hsv2rgb (v) : rgb2hsv (v);
        o << (long long) r.r << ' ' << (long long) r.g << ' ' << (long long) r.b << ' ' << (long long) r.a;
    }
    else if (cmd == "p2r4i")
    {
        Color4<T> r;
        packed2rgb ((PackedColor) strtoul (w[2].c_str (), 0, 16), r);
        o << (long long) r.r << ' ' << (long long) r.g << ' ' << (long long) r.b << ' ' << (long long) r.a;
    }
    else if (cmd == "r2p4i")
    {
        Color4<T> v ((T) pi (w[2]), (T) pi (w[3]), (T) pi (w[4]), (T) pi (w[5]));
        o << hx (rgb2packed (v));
    }
    else if (cmd == "p2r3i")
    {
        Vec3<T> r;
        packed2rgb ((PackedColor) strtoul (w[2].c_str (), 0, 16), r);
        o << (long long) r.x << ' ' << (long long) r.y << ' ' << (long long) r.z;
    }
    else if (cmd == "r2p3i")
    {
        Vec3<T> v ((T) pi (w[2]), (T) pi (w[3]), (T) pi (w[4]));
        o << hx (rgb2packed (v));
    }
    return o.str ();
}

template <class T> static std::string idispatch (const std::string& cmd, std::vector<std::string>& w)
{
    return icolor<T> (cmd, w);
}

static std::string by_type (const std::string& t, const std::string& cmd, std::vector<std::string>& w)
{
    if (t == "uc") return idispatch<unsigned char> (cmd, w);
    if (t == "s") return idispatch<short> (cmd, w);
    if (t == "us") return idispatch<unsigned short> (cmd, w);
    if (t == "i") return idispatch<int> (cmd, w);
    return idispatch<unsigned int> (cmd, w);
}

static std::string handle (std::vector<std::string>& w)
{
    const std::string& c = w[0];
    std::ostringstream o;
    if (c == "f32")
    {
        int      op = opCode (w[1].c_str ());
        uint32_t u  = (uint32_t) strtoul (w[2].c_str (), 0, 16);
        if (op <= 2)
        {
            if (!inRange32 (u)) return "x";
            int r = op == 0 ? call_floor_f (u2f (u)) : op == 1 ? call_ceil_f (u2f (u)) : call_trunc_f (u2f (u));
            return std::to_string (r);
        }
        return hx (f32op (op, u));
    }
    if (c == "f64")
    {
        int      op = opCode (w[1].c_str ());
        uint64_t u  = strtoull (w[2].c_str (), 0, 16);
        double   d  = u2d (u);
        switch (op)
        {
            case 0: { if (!inRange64 (u)) return "x"; int r = call_floor_d (d); return std::to_string (r); }
            case 1: { if (!inRange64 (u)) return "x"; int r = call_ceil_d (d); return std::to_string (r); }
            case 2: { if (!inRange64 (u)) return "x"; int r = call_trunc_d (d); return std::to_string (r); }
            case 3: return IMATH_NAMESPACE::finited (d) ? "1" : "0";
            case 4: return hd (succd (d));
            default: return hd (predd (d));
        }
    }
    if (c == "int")
    {
        int x = (int) pi (w[1]), y = (int) pi (w[2]);
        return guarded ([=] { return call_divs (x, y); }) + " " + guarded ([=] { return call_mods (x, y); }) + " " +
               guarded ([=] { return call_divp (x, y); }) + " " + guarded ([=] { return call_modp (x, y); });
    }
    if (c == "int1")
    {
        // one function per line (the sanitised build aborts on the first overflowing intermediate)
        int x = (int) pi (w[2]), y = (int) pi (w[3]);
        const std::string& f = w[1];
        return guarded ([=] { return f == "divs" ? call_divs (x, y) : f == "mods" ? call_mods (x, y) : f == "divp" ? call_divp (x, y) : call_modp (x, y); });
    }
    if (c == "si1")
    {
        // integer instantiation of one scalar template: si1 <fn> a b t
        int a = (int) pi (w[2]), b = (int) pi (w[3]), t = (int) pi (w[4]);
        const std::string& f = w[1];
        int r = f == "abs" ? call_abs_i (a) : f == "sign" ? call_sign_i (a) : f == "cmp" ? call_cmp_i (a, b) : f == "cmpt" ? call_cmpt_i (a, b, t)
              : f == "clamp" ? call_clamp_i (t, a, b) : f == "iszero" ? call_iszero_i (a, t) : call_equal_i (a, b, t);
        return std::to_string (r);
    }
    if (c == "sm")
    {
        // MIXED instantiations of equal (T1 a, T2 b, T3 t): sm <id|fd|lf|df> a b t   (a: decimal int / float hex / double hex; b, t: hex)
        // the usual arithmetic conversions make `a - b` a T2 (the wider type): the definition is |a - b| <= t evaluated THERE
        const std::string& k = w[1];
        bool r = k == "id" ? equal ((int) pi (w[2]), pd (w[3]), pd (w[4]))
               : k == "fd" ? equal (pf (w[2]), pd (w[3]), pd (w[4]))
               : k == "lf" ? equal ((long) pi (w[2]), pf (w[3]), pf (w[4]))
                           : equal (pd (w[2]), pf (w[3]), pf (w[4]));
        return r ? "1" : "0";
    }
    if (c == "ul")
    {
        // ulerp / lerp at T = unsigned int, Q = float: ul <a> <b> <t as float hex>
        unsigned a = (unsigned) strtoul (w[1].c_str (), 0, 10), b = (unsigned) strtoul (w[2].c_str (), 0, 10);
        float t = pf (w[3]);
        return std::to_string (call_ulerp_u (a, b, t)) + " " + std::to_string (call_lerp_u (a, b, t));
    }
    if (c == "sf") return scal<float> (pf (w[1]), pf (w[2]), pf (w[3]), hf);
    if (c == "sd") return scal<double> (pd (w[1]), pd (w[2]), pd (w[3]), hd);
    if (c == "rl")
    {
        if (w[1] == "d") { double x[3] = {0, 0, 0}; int n = solveLinear (pd (w[2]), pd (w[3]), x[0]); return roots (n, x, hd); }
        float x[3] = {0, 0, 0}; int n = solveLinear (pf (w[2]), pf (w[3]), x[0]); return roots (n, x, hf);
    }
    if (c == "rq")
    {
        if (w[1] == "d") { double x[3] = {0, 0, 0}; int n = solveQuadratic (pd (w[2]), pd (w[3]), pd (w[4]), x); return roots (n, x, hd); }
        float x[3] = {0, 0, 0}; int n = solveQuadratic (pf (w[2]), pf (w[3]), pf (w[4]), x); return roots (n, x, hf);
    }
    if (c == "rn")
    {
        if (w[1] == "d") { double x[3] = {0, 0, 0}; int n = solveNormalizedCubic (pd (w[2]), pd (w[3]), pd (w[4]), x); return roots (n, x, hd); }
        float x[3] = {0, 0, 0}; int n = solveNormalizedCubic (pf (w[2]), pf (w[3]), pf (w[4]), x); return roots (n, x, hf);
    }
    if (c == "rc")
    {
        if (w[1] == "d") { double x[3] = {0, 0, 0}; int n = solveCubic (pd (w[2]), pd (w[3]), pd (w[4]), pd (w[5]), x); return roots (n, x, hd); }
        float x[3] = {0, 0, 0}; int n = solveCubic (pf (w[2]), pf (w[3]), pf (w[4]), pf (w[5]), x); return roots (n, x, hf);
    }
    if (c == "h2r3") { V3d r = hsv2rgb_d (V3d (pd (w[1]), pd (w[2]), pd (w[3]))); return hd (r.x) + " " + hd (r.y) + " " + hd (r.z); }
    if (c == "r2h3") { V3d r = rgb2hsv_d (V3d (pd (w[1]), pd (w[2]), pd (w[3]))); return hd (r.x) + " " + hd (r.y) + " " + hd (r.z); }
    if (c == "h2r4")
    {
        Color4<double> r = hsv2rgb_d (Color4<double> (pd (w[1]), pd (w[2]), pd (w[3]), pd (w[4])));
        return hd (r.r) + " " + hd (r.g) + " " + hd (r.b) + " " + hd (r.a);
    }
    if (c == "r2h4")
    {
        Color4<double> r = rgb2hsv_d (Color4<double> (pd (w[1]), pd (w[2]), pd (w[3]), pd (w[4])));
        return hd (r.r) + " " + hd (r.g) + " " + hd (r.b) + " " + hd (r.a);
    }
    if (c == "fh2r3" || c == "fr2h3")
    {
        // the `else` arms of the templated wrappers (floating element types): fh2r3 <f|d> x y z
        bool h2r = c == "fh2r3";
        if (w[1] == "f") { V3f v (pf (w[2]), pf (w[3]), pf (w[4])); V3f r = h2r ? hsv2rgb (v) : rgb2hsv (v); return hf (r.x) + " " + hf (r.y) + " " + hf (r.z); }
        V3d v (pd (w[2]), pd (w[3]), pd (w[4])); V3d r = h2r ? hsv2rgb (v) : rgb2hsv (v); return hd (r.x) + " " + hd (r.y) + " " + hd (r.z);
    }
    if (c == "fh2r4" || c == "fr2h4")
    {
        bool h2r = c == "fh2r4";
        if (w[1] == "f") { C4f v (pf (w[2]), pf (w[3]), pf (w[4]), pf (w[5])); C4f r = h2r ? hsv2rgb (v) : rgb2hsv (v); return hf (r.r) + " " + hf (r.g) + " " + hf (r.b) + " " + hf (r.a); }
        Color4<double> v (pd (w[2]), pd (w[3]), pd (w[4]), pd (w[5])); Color4<double> r = h2r ? hsv2rgb (v) : rgb2hsv (v);
        return hd (r.r) + " " + hd (r.g) + " " + hd (r.b) + " " + hd (r.a);
    }
    if (c == "p2r3d") { V3d r; packed2rgb ((PackedColor) strtoul (w[1].c_str (), 0, 16), r); return hd (r.x) + " " + hd (r.y) + " " + hd (r.z); }
    if (c == "p2r4d") { Color4<double> r; packed2rgb ((PackedColor) strtoul (w[1].c_str (), 0, 16), r); return hd (r.r) + " " + hd (r.g) + " " + hd (r.b) + " " + hd (r.a); }
    if (c == "p2r3i" || c == "r2p3i") return by_type (w[1], c, w);
    if (c == "ih2r3" || c == "ir2h3" || c == "ih2r4" || c == "ir2h4") return by_type (w[1], c, w);
    if (c == "p2r4i" || c == "r2p4i") return by_type (w[1], c, w);
    if (c == "p2r3f") { V3f r; packed2rgb ((PackedColor) strtoul (w[1].c_str (), 0, 16), r); return hf (r.x) + " " + hf (r.y) + " " + hf (r.z); }
    if (c == "p2r4f") { C4f r; packed2rgb ((PackedColor) strtoul (w[1].c_str (), 0, 16), r); return hf (r.r) + " " + hf (r.g) + " " + hf (r.b) + " " + hf (r.a); }
    if (c == "rt3f") { V3f r; packed2rgb ((PackedColor) strtoul (w[1].c_str (), 0, 16), r); return hx (rgb2packed (r)); }
    if (c == "rt4f") { C4f r; packed2rgb ((PackedColor) strtoul (w[1].c_str (), 0, 16), r); return hx (rgb2packed (r)); }
    if (c == "rt3d") { V3d r; packed2rgb ((PackedColor) strtoul (w[1].c_str (), 0, 16), r); return hx (rgb2packed (r)); }
    if (c == "rt4d") { Color4<double> r; packed2rgb ((PackedColor) strtoul (w[1].c_str (), 0, 16), r); return hx (rgb2packed (r)); }
    if (c == "r2p3f") return hx (rgb2packed (V3f (pf (w[1]), pf (w[2]), pf (w[3]))));
    if (c == "r2p4f") return hx (rgb2packed (C4f (pf (w[1]), pf (w[2]), pf (w[3]), pf (w[4]))));
    return "?";
}

template <class T> static void alpha_sweep (const char* fn)
{
    // every alpha value 0..max of Color4<T> through the integer wrapper; rgb fixed
    unsigned long long mx = (unsigned long long) std::numeric_limits<T>::max ();
    unsigned           nt = 16;
    std::vector<unsigned long long> bad (nt, 0), first (nt, ~0ull), got (nt, 0);
    std::vector<std::thread>        th;
    bool                            r2h = !strcmp (fn, "rgb2hsv");
    for (unsigned t = 0; t < nt; ++t)
        th.emplace_back ([&, t] {
            for (unsigned long long a = t; a <= mx; a += nt)
            {
                Color4<T> c ((T) (mx / 3), (T) (mx / 2), (T) (mx / 5), (T) a);
                Color4<T> r = r2h ? rgb2hsv (c) : hsv2rgb (c);
                if ((unsigned long long) r.a != a)
                {
                    if (a < first[t]) { first[t] = a; got[t] = (unsigned long long) r.a; }
                    bad[t]++;
                }
            }
        });
    for (auto& t : th) t.join ();
    unsigned long long b = 0, f = ~0ull, g = 0;
    for (unsigned t = 0; t < nt; ++t) { b += bad[t]; if (first[t] < f) { f = first[t]; g = got[t]; } }
    if (b) printf ("%llu %llu %llu %llu\n", b, mx + 1, f, g);
    else printf ("0 %llu - -\n", mx + 1);
}

int main (int argc, char** argv)
{
    if (argc < 2) return 2;
    if (!strcmp (argv[1], "f32_blocks"))
    {
        int      op = opCode (argv[2]);
        uint32_t lo = (uint32_t) atol (argv[3]), hi = (uint32_t) atol (argv[4]);
        std::vector<uint64_t> out (hi - lo + 1);
        unsigned nt = 16;
        std::vector<std::thread> th;
        for (unsigned t = 0; t < nt; ++t)
            th.emplace_back ([&, t] { for (uint32_t b = lo + t; b < hi; b += nt) out[b - lo] = block_hash (op, b); });
        for (auto& t : th) t.join ();
        for (uint32_t b = lo; b < hi; ++b) printf ("%llx\n", (unsigned long long) out[b - lo]);
        return 0;
    }
    if (!strcmp (argv[1], "f32_range"))
    {
        int      op = opCode (argv[2]);
        uint64_t lo = strtoull (argv[3], 0, 10), hi = strtoull (argv[4], 0, 10);
        for (uint64_t u = lo; u < hi; ++u)
        {
            if (op <= 2) { if (inRange32 ((uint32_t) u)) printf ("%d\n", (int32_t) f32op (op, (uint32_t) u)); else printf ("x\n"); }
            else printf ("%x\n", f32op (op, (uint32_t) u));
        }
        return 0;
    }
    if (!strcmp (argv[1], "f32_spec"))
    {
        uint32_t lo = (uint32_t) atol (argv[2]), hi = (uint32_t) atol (argv[3]);
        unsigned nt = 16;
        std::vector<SpecRes> rs (nt);
        for (auto& r : rs) { memset (&r, 0, sizeof r); }
        std::vector<std::thread> th;
        for (unsigned t = 0; t < nt; ++t)
            th.emplace_back ([&, t] { for (uint32_t b = lo + t; b < hi; b += nt) spec_block (b, rs[t]); });
        for (auto& t : th) t.join ();
        const char* names[6] = {"floor", "ceil", "trunc", "finitef", "succf", "predf"};
        for (int k = 0; k < 6; ++k)
        {
            uint64_t bad = 0; uint32_t first = 0; bool have = false;
            for (unsigned t = 0; t < nt; ++t)
                if (rs[t].bad[k]) { bad += rs[t].bad[k]; if (!have || rs[t].first[k] < first) { first = rs[t].first[k]; have = true; } }
            if (have) printf ("%s %llu %x\n", names[k], (unsigned long long) bad, first);
            else printf ("%s 0 -\n", names[k]);
        }
        return 0;
    }
    if (!strcmp (argv[1], "alpha"))
    {
        std::string t = argv[2];
        if (t == "uc") alpha_sweep<unsigned char> (argv[3]);
        else if (t == "s") alpha_sweep<short> (argv[3]);
        else if (t == "us") alpha_sweep<unsigned short> (argv[3]);
        else if (t == "i") alpha_sweep<int> (argv[3]);
        else alpha_sweep<unsigned int> (argv[3]);
        return 0;
    }
    if (!strcmp (argv[1], "ints_small"))
    {
        // all (x, y) in [-N, N]^2, y != 0: the four functions against definitional specifications in 64-bit arithmetic;
        // prints "<mismatches> <first x> <first y>"
        long long N = argc > 2 ? atoll (argv[2]) : 2048;
        unsigned  nt = 16;
        std::vector<unsigned long long> bad (nt, 0);
        std::vector<long long> fx (nt, 0), fy (nt, 0);
        std::vector<std::thread> th;
        for (unsigned t = 0; t < nt; ++t)
            th.emplace_back ([&, t] {
                for (long long x = -N + t; x <= N; x += nt)
                    for (long long y = -N; y <= N; ++y)
                    {
                        if (y == 0) continue;
                        long long ay = y < 0 ? -y : y, ax = x < 0 ? -x : x;
                        long long tq = (ax / ay) * (((x < 0) != (y < 0)) ? -1 : 1), tr = x - y * tq;   // truncating
                        long long er = ((x % ay) + ay) % ay, eq = (x - er) / y;                          // Euclidean
                        bool ok = call_divs ((int) x, (int) y) == tq && call_mods ((int) x, (int) y) == tr &&
                                  call_divp ((int) x, (int) y) == eq && call_modp ((int) x, (int) y) == er;
                        if (!ok && !bad[t]++) { fx[t] = x; fy[t] = y; }
                    }
            });
        for (auto& t : th) t.join ();
        unsigned long long b = 0; long long x0 = 0, y0 = 0; bool have = false;
        for (unsigned t = 0; t < nt; ++t) { b += bad[t]; if (bad[t] && !have) { x0 = fx[t]; y0 = fy[t]; have = true; } }
        printf ("%llu %lld %lld\n", b, x0, y0);
        return 0;
    }
    if (!strcmp (argv[1], "packed_sweep"))
    {
        unsigned nt = 16;
        std::vector<uint64_t> bad4 (nt, 0), bad3 (nt, 0), f4 (nt, ~0ull), f3 (nt, ~0ull);
        std::vector<std::thread> th;
        for (unsigned t = 0; t < nt; ++t)
            th.emplace_back ([&, t] {
                for (uint64_t blk = t; blk < 65536; blk += nt)
                    for (uint64_t i = 0; i < 65536; ++i)
                    {
                        PackedColor p = (PackedColor) ((blk << 16) | i);
                        C4f c4; packed2rgb (p, c4);
                        if (rgb2packed (c4) != p) { if (!bad4[t]++) f4[t] = p; }
                        if ((p >> 24) == 0)
                        {
                            // the Vec3 form has no alpha: all 2^24 rgb words, alpha comes back as 0xFF
                            V3f c3; packed2rgb (p, c3);
                            if (rgb2packed (c3) != (p | 0xFF000000u)) { if (!bad3[t]++) f3[t] = p; }
                        }
                    }
            });
        for (auto& t : th) t.join ();
        uint64_t b4 = 0, b3 = 0, m4 = ~0ull, m3 = ~0ull;
        for (unsigned t = 0; t < nt; ++t) { b4 += bad4[t]; b3 += bad3[t]; if (f4[t] < m4) m4 = f4[t]; if (f3[t] < m3) m3 = f3[t]; }
        printf ("%llu %s %llu %s\n", (unsigned long long) b4, b4 ? hx (m4).c_str () : "-", (unsigned long long) b3, b3 ? hx (m3).c_str () : "-");
        return 0;
    }
    if (!strcmp (argv[1], "ilines"))
    {
        std::vector<std::string> lines;
        std::string line;
        while (std::getline (std::cin, line)) lines.push_back (line);
        size_t i = 0;
        while (i < lines.size ())
        {
            int po[2], pe[2];
            if (pipe (po) || pipe (pe)) return 3;
            fflush (stdout);
            pid_t pid = fork ();
            if (pid == 0)
            {
                close (po[0]); close (pe[0]);
                dup2 (po[1], 1); dup2 (pe[1], 2);
                struct sigaction sa; memset (&sa, 0, sizeof sa);
                sa.sa_handler = on_fpe; sigemptyset (&sa.sa_mask); sa.sa_flags = SA_NODEFER;
                sigaction (SIGFPE, &sa, 0);
                for (size_t k = i; k < lines.size (); ++k)
                {
                    std::istringstream is (lines[k]);
                    std::vector<std::string> w; std::string x;
                    while (is >> x) w.push_back (x);
                    std::string r = w.empty () ? std::string ("") : handle (w);
                    r += "\n";
                    if (write (1, r.data (), r.size ()) < 0) _exit (4);
                }
                _exit (0);
            }
            close (po[1]); close (pe[1]);
            size_t answered = 0;
            char   buf[65536];
            ssize_t n;
            std::string pend;
            while ((n = read (po[0], buf, sizeof buf)) > 0)
            {
                pend.append (buf, (size_t) n);
                size_t nl;
                while ((nl = pend.find ('\n')) != std::string::npos)
                {
                    fwrite (pend.data (), 1, nl + 1, stdout);
                    pend.erase (0, nl + 1);
                    ++answered;
                }
            }
            std::string err;
            while ((n = read (pe[0], buf, sizeof buf)) > 0) err.append (buf, (size_t) n);
            close (po[0]); close (pe[0]);
            int status = 0;
            waitpid (pid, &status, 0);
            i += answered;
            if (i < lines.size ())
            {
                // the child died while answering line i
                std::string first = err.substr (0, err.find ('\n'));
                size_t k = first.find ("runtime error:");
                if (k != std::string::npos) first = first.substr (k);
                for (auto& ch : first) if (ch == '\n' || ch == '\r') ch = ' ';
                printf ("UB %s\n", first.empty () ? (WIFSIGNALED (status) ? "signal" : "exit") : first.c_str ());
                ++i;
            }
        }
        return 0;
    }
    if (!strcmp (argv[1], "lines"))
    {
        struct sigaction sa; memset (&sa, 0, sizeof sa);
        sa.sa_handler = on_fpe; sigemptyset (&sa.sa_mask); sa.sa_flags = SA_NODEFER;
        sigaction (SIGFPE, &sa, 0);
        std::string line;
        while (std::getline (std::cin, line))
        {
            std::istringstream is (line);
            std::vector<std::string> w; std::string x;
            while (is >> x) w.push_back (x);
            if (w.empty ()) continue;
            std::string r = handle (w);
            fputs (r.c_str (), stdout); fputc ('\n', stdout);
        }
        return 0;
    }
    return 2;
}
