// C05 residue measurement (DESIGN.md §2.4): the real float/double results of the
// product/determinant family against a 113-bit (__float128) evaluation of the
// textbook sums, with the property's bound  c * u * sum|products|;  on integer
// lattices every intermediate is exact and equality is required bit for bit.
#include <ImathVec.h>
#include <ImathMatrix.h>
#include <ImathMatrixAlgo.h>
#include <ImathQuat.h>
#include <cstdio>
#include <cstdlib>
#include <cmath>
#include <algorithm>
#include <random>
#include <string>
#include <vector>
using namespace IMATH_NAMESPACE;
typedef __float128 Q;
static std::mt19937_64 rng;
static long evals = 0, lattice = 0, branchHits[16];
static double worst = 0;
static int failures = 0;
static Q qabs (Q x) { return x < 0 ? -x : x; }

template <class T> static T rnd (int mode)
{
    std::uniform_real_distribution<double> U (-1, 1);
    switch (mode)
    {
        case 0: return (T) (double) ((long) (rng () % 7) - 3);          // integer lattice
        case 1: return (T) U (rng);                                      // well scaled
        case 2: return (rng () % 3 == 0) ? (T) 0 : (T) U (rng);          // sparse
        default: return (T) (U (rng) * std::pow (2.0, (double) ((long) (rng () % 21) - 10)));
    }
}
template <class T> static void report (const char* what, T got, Q exact, Q sumabs, int nterms, int mode, const std::string& in)
{
    ++evals;
    Q u = (Q) std::numeric_limits<T>::epsilon () / 2;
    Q err = qabs ((Q) got - exact);
    if (mode == 0)
    {
        ++lattice;
        if (err != 0) { ++failures; printf ("RESIDUE-FAIL %s lattice-not-exact got=%.17g exact=%.17g in=%s\n", what, (double) got, (double) exact, in.c_str ()); }
        return;
    }
    Q bound = (Q) (nterms + 2) * u * sumabs + (Q) std::numeric_limits<T>::denorm_min ();
    double ratio = sumabs > 0 ? (double) (err / (u * sumabs)) : 0;
    if (ratio > worst) worst = ratio;
    if (err > bound) { ++failures; printf ("RESIDUE-FAIL %s err/(u*sum|terms|)=%.3g > %d got=%.17g exact=%.17g in=%s\n", what, ratio, nterms + 2, (double) got, (double) exact, in.c_str ()); }
}
template <class T, int N> struct Mat;
template <class T> struct Mat<T, 2> { typedef Matrix22<T> type; typedef Vec2<T> vec; };
template <class T> struct Mat<T, 3> { typedef Matrix33<T> type; typedef Vec3<T> vec; };
template <class T> struct Mat<T, 4> { typedef Matrix44<T> type; typedef Vec4<T> vec; };

template <class T, int N> static std::string show (const typename Mat<T, N>::type& m)
{
    std::string s;
    char b[40];
    for (int i = 0; i < N; ++i) for (int j = 0; j < N; ++j) { snprintf (b, 40, "%.9g ", (double) m[i][j]); s += b; }
    return s;
}
template <class T, int N> static void detQ (const typename Mat<T, N>::type& m, Q& det, Q& sumabs)
{
    // Leibniz sum over permutations, in quad precision
    int p[4] = {0, 1, 2, 3};
    det = 0; sumabs = 0;
    do {
        int inv = 0;
        for (int i = 0; i < N; ++i) for (int j = i + 1; j < N; ++j) if (p[i] > p[j]) ++inv;
        Q t = 1;
        for (int i = 0; i < N; ++i) t *= (Q) m[i][p[i]];
        det += (inv & 1) ? -t : t;
        sumabs += qabs (t);
    } while (std::next_permutation (p, p + N));
}
template <class T, int N> static void runMat (int mode)
{
    typedef typename Mat<T, N>::type M;
    M a, b;
    for (int i = 0; i < N; ++i) for (int j = 0; j < N; ++j) { a[i][j] = rnd<T> (mode); b[i][j] = rnd<T> (mode); }
    if (N == 4 && mode == 2) { int k = 0; for (int i = 0; i < 4; ++i) if (a[i][3] == 0) k |= 1 << i; ++branchHits[k]; }
    if (N == 4 && mode == 1 && rng () % 2) { a[0][3] = a[1][3] = a[2][3] = 0; a[3][3] = 1; ++branchHits[7]; } // affine pattern
    M c = a * b;
    std::string in = show<T, N> (a) + "| " + show<T, N> (b);
    for (int i = 0; i < N; ++i) for (int j = 0; j < N; ++j)
    {
        Q s = 0, sa = 0;
        for (int k = 0; k < N; ++k) { Q t = (Q) a[i][k] * (Q) b[k][j]; s += t; sa += qabs (t); }
        report<T> (N == 2 ? "M22.mul" : N == 3 ? "M33.mul" : "M44.mul", c[i][j], s, sa, N, mode, in);
    }
    Q d, sa;
    detQ<T, N> (a, d, sa);
    report<T> (N == 2 ? "M22.determinant" : N == 3 ? "M33.determinant" : "M44.determinant", a.determinant (), d, sa, 3 * N, mode, show<T, N> (a));
}
template <class T> static void runVec (int mode)
{
    Vec3<T> a (rnd<T> (mode), rnd<T> (mode), rnd<T> (mode)), b (rnd<T> (mode), rnd<T> (mode), rnd<T> (mode));
    char buf[200]; snprintf (buf, 200, "%.9g %.9g %.9g | %.9g %.9g %.9g", (double) a.x, (double) a.y, (double) a.z, (double) b.x, (double) b.y, (double) b.z);
    Q d = (Q) a.x * b.x + (Q) a.y * b.y + (Q) a.z * b.z, da = qabs ((Q) a.x * b.x) + qabs ((Q) a.y * b.y) + qabs ((Q) a.z * b.z);
    report<T> ("V3.dot", a.dot (b), d, da, 3, mode, buf);
    Vec3<T> c = a.cross (b);
    report<T> ("V3.cross.x", c.x, (Q) a.y * b.z - (Q) a.z * b.y, qabs ((Q) a.y * b.z) + qabs ((Q) a.z * b.y), 2, mode, buf);
    report<T> ("V3.cross.y", c.y, (Q) a.z * b.x - (Q) a.x * b.z, qabs ((Q) a.z * b.x) + qabs ((Q) a.x * b.z), 2, mode, buf);
    report<T> ("V3.cross.z", c.z, (Q) a.x * b.y - (Q) a.y * b.x, qabs ((Q) a.x * b.y) + qabs ((Q) a.y * b.x), 2, mode, buf);
    Matrix44<T> o = outerProduct (Vec4<T> (a.x, a.y, a.z, rnd<T> (mode)), Vec4<T> (b.x, b.y, b.z, rnd<T> (mode)));
    (void) o;
    Quat<T> p (rnd<T> (mode), a), q (rnd<T> (mode), b), r = p * q;
    Q rr = (Q) p.r * q.r - d;
    report<T> ("Quat.mul.r", r.r, rr, qabs ((Q) p.r * q.r) + da, 4, mode, buf);
}
int main (int argc, char** argv)
{
    rng.seed (argc > 1 ? strtoul (argv[1], 0, 10) : 1);
    long n = argc > 2 ? atol (argv[2]) : 20000;
    for (long i = 0; i < n; ++i)
    {
        int mode = (int) (i % 4);
        runMat<float, 2> (mode); runMat<float, 3> (mode); runMat<float, 4> (mode);
        runMat<double, 2> (mode); runMat<double, 3> (mode); runMat<double, 4> (mode);
        runVec<float> (mode); runVec<double> (mode);
    }
    printf ("RESIDUE evals=%ld lattice_exact=%ld failures=%d worst_err_over_u_sumabs=%.3f det44_zero_pattern_hits=", evals, lattice, failures, worst);
    for (int k = 0; k < 16; ++k) printf ("%ld,", branchHits[k]);
    printf ("\n");
    return failures ? 1 : 0;
}
