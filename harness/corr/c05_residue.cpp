// C05 residue measurement (DESIGN.md §2.4): the real float/double results of EVERY function
// family of the property against a 113-bit (__float128) evaluation of the textbook sums.
//
//   bound rows    |impl - exact| <= c * u * sum|products| (+ one narrowing rounding for the mixed
//                 S != T instantiations), c fixed per family; on the integer lattice every
//                 intermediate is exact and equality is required (for the two dividing forms:
//                 equality with the correctly rounded quotient).
//   exact rows    outerProduct (one rounding: must equal the rounded exact product), transposes.
//   bitwise rows  spellings (operator / compound / member / static / aliased) against the operator
//                 form; the mixed instantiations Vec<S> * Matrix<T> against the same-type
//                 instantiation at the wider type rounded once per component.
//
// Output: RESIDUE-FAIL <function>:<types>:<input class> ... lines, one RESIDUE summary line, one
// FAMILY line per (function, element types) with its own maximum (fraction of its own bound).
#include <ImathVec.h>
#include <ImathMatrix.h>
#include <ImathMatrixAlgo.h>
#include <ImathQuat.h>
#include <cstdio>
#include <cstdlib>
#include <cstring>
#include <cmath>
#include <algorithm>
#include <limits>
#include <map>
#include <random>
#include <string>
#include <type_traits>
#include <vector>
using namespace IMATH_NAMESPACE;
typedef __float128 Q;
static std::mt19937_64 rng;
static long evals = 0, lattice = 0, failures = 0, printed = 0;
static long branchHits[2][16], affineHits[2], wzero = 0, wcond = 0;
static std::vector<char> fm33seen (81, 0), fm44seen (4096, 0);
static const char* MODE[4] = {"lattice", "scaled", "sparse", "graded"};
static Q qabs (Q x) { return x < 0 ? -x : x; }

template <class T> struct TN;
template <> struct TN<float> { static const char* n () { return "float"; } enum { idx = 0 }; };
template <> struct TN<double> { static const char* n () { return "double"; } enum { idx = 1 }; };
template <class T> static Q unitRoundoff () { return (Q) std::numeric_limits<T>::epsilon () / 2; }
template <class T> static Q tiny () { return (Q) std::numeric_limits<T>::denorm_min (); }

struct Fam
{
    std::string kind;
    double      c = 0;
    long        evals = 0, lattice = 0, fails = 0, skipped = 0;
    double      worst = 0; // max over non-lattice inputs of err / bound
};
static std::map<std::string, Fam> fams;
static Fam& fam (const std::string& name, const char* kind, double c)
{
    Fam& f = fams[name];
    if (f.kind.empty ()) { f.kind = kind; f.c = c; }
    return f;
}

template <class T> static T rnd (int mode)
{
    std::uniform_real_distribution<double> U (-1, 1);
    switch (mode)
    {
        case 0: return (T) (double) ((long) (rng () % 7) - 3);          // integer lattice
        case 1: return (T) U (rng);                                      // well scaled
        case 2: return (rng () % 3 == 0) ? (T) 0 : (T) U (rng);          // sparse
        default: return (T) (U (rng) * std::pow (2.0, (double) ((long) (rng () % 21) - 10)));
    }
}
template <class T> static T rndNonzero (int mode)
{
    for (;;) { T x = rnd<T> (mode); if (x != 0) return x; }
}

static void failLine (const std::string& name, int mode, Fam& f, const char* why, Q got, Q want, const std::string& in)
{
    ++failures; ++f.fails;
    static std::map<std::string, int> perKey; // a few lines per (row, input class), so that one failing family cannot hide another
    if (++perKey[name + ":" + MODE[mode]] <= 3 && printed++ < 2000)
        printf ("RESIDUE-FAIL %s:%s %s got=%.17g want=%.17g in=%s\n", name.c_str (), MODE[mode], why, (double) got, (double) want, in.c_str ());
}

// bound row:  |got - exact| <= c*unit + extra ; on the lattice got == latticeWant
template <class F>
static void check (const std::string& name, double c, Q got, Q exact, Q latticeWant, Q unit, Q extra, int mode, F&& in)
{
    Fam& f = fam (name, "bound", c);
    ++f.evals; ++evals;
    if (mode == 0)
    {
        ++f.lattice; ++lattice;
        if (!(got == latticeWant)) failLine (name, mode, f, "lattice-not-exact", got, latticeWant, in ());
        return;
    }
    Q err = qabs (got - exact), bound = (Q) c * unit + extra;
    double frac = bound > 0 ? (double) (err / bound) : (err > 0 ? 1e30 : 0);
    if (frac > f.worst) f.worst = frac;
    if (!(err <= bound))
    {
        char why[120];
        snprintf (why, 120, "err/bound=%.4g err/(u*sum|terms|)=%.4g c=%g", frac, unit > 0 ? (double) (err / unit) : 1e30, c);
        failLine (name, mode, f, why, got, exact, in ());
    }
}
// exact / bitwise rows
template <class T, class F> static void same (const std::string& name, const char* kind, T got, T want, int mode, F&& in)
{
    Fam& f = fam (name, kind, 0);
    ++f.evals; ++evals;
    if (mode == 0) { ++f.lattice; ++lattice; }
    if (std::memcmp (&got, &want, sizeof (T)) != 0) failLine (name, mode, f, "differs-bitwise", (Q) got, (Q) want, in ());
}

template <class T, int N> struct Mat;
template <class T> struct Mat<T, 2> { typedef Matrix22<T> type; typedef Vec2<T> vec; };
template <class T> struct Mat<T, 3> { typedef Matrix33<T> type; typedef Vec3<T> vec; };
template <class T> struct Mat<T, 4> { typedef Matrix44<T> type; typedef Vec4<T> vec; };

template <class M> static std::string showM (const M& m, int N)
{
    std::string s;
    char b[40];
    for (int i = 0; i < N; ++i) for (int j = 0; j < N; ++j) { snprintf (b, 40, "%.17g ", (double) m[i][j]); s += b; }
    return s;
}
template <class V> static std::string showV (const V& v, int N)
{
    std::string s;
    char b[40];
    for (int i = 0; i < N; ++i) { snprintf (b, 40, "%.17g ", (double) v[i]); s += b; }
    return s;
}
// Leibniz sum over permutations of an n x n quad array
static void detQn (int n, const Q a[4][4], Q& det, Q& sumabs)
{
    int p[4] = {0, 1, 2, 3};
    det = 0; sumabs = 0;
    do {
        int inv = 0;
        for (int i = 0; i < n; ++i) for (int j = i + 1; j < n; ++j) if (p[i] > p[j]) ++inv;
        Q t = 1;
        for (int i = 0; i < n; ++i) t *= a[i][p[i]];
        det += (inv & 1) ? -t : t;
        sumabs += qabs (t);
    } while (std::next_permutation (p, p + n));
}
template <class M> static void subDetQ (const M& m, int n, const int* rows, const int* cols, Q& det, Q& sumabs)
{
    Q a[4][4];
    for (int i = 0; i < n; ++i) for (int j = 0; j < n; ++j) a[i][j] = (Q) m[rows[i]][cols[j]];
    detQn (n, a, det, sumabs);
}

template <class T, int N> static typename Mat<T, N>::type rndMat (int mode)
{
    typename Mat<T, N>::type a;
    for (int i = 0; i < N; ++i) for (int j = 0; j < N; ++j) a[i][j] = rnd<T> (mode);
    return a;
}

// ---- fastMinor: every index tuple (repeated and descending ones included), cycled over the rounds
template <class T> static void runFastMinor (const Matrix33<T>& a, int mode, long round)
{
    std::string nm = std::string ("M33.fastMinor:") + TN<T>::n ();
    for (int k = 0; k < 9; ++k)
    {
        int t = (int) ((round * 9 + k) % 81);
        int r[2] = {t / 27, (t / 9) % 3}, cc[2] = {(t / 3) % 3, t % 3};
        fm33seen[t] = 1;
        Q d, sa;
        subDetQ (a, 2, r, cc, d, sa);
        check (nm, 4, (Q) a.fastMinor (r[0], r[1], cc[0], cc[1]), d, d, unitRoundoff<T> () * sa, tiny<T> (), mode, [&] {
            char b[64]; snprintf (b, 64, "rows %d %d cols %d %d | ", r[0], r[1], cc[0], cc[1]); return b + showM (a, 3); });
    }
}
template <class T> static void runFastMinor (const Matrix44<T>& a, int mode, long round)
{
    std::string nm = std::string ("M44.fastMinor:") + TN<T>::n ();
    for (int k = 0; k < 8; ++k)
    {
        int t = (int) ((round * 8 + k) % 4096);
        int r[3] = {t / 1024, (t / 256) % 4, (t / 64) % 4}, cc[3] = {(t / 16) % 4, (t / 4) % 4, t % 4};
        fm44seen[t] = 1;
        Q d, sa;
        subDetQ (a, 3, r, cc, d, sa);
        check (nm, 11, (Q) a.fastMinor (r[0], r[1], r[2], cc[0], cc[1], cc[2]), d, d, unitRoundoff<T> () * sa, tiny<T> (), mode, [&] {
            char b[80]; snprintf (b, 80, "rows %d %d %d cols %d %d %d | ", r[0], r[1], r[2], cc[0], cc[1], cc[2]); return b + showM (a, 4); });
    }
}
template <class T> static void runFastMinor (const Matrix22<T>&, int, long) {}
template <class T> static void runStatic (const Matrix44<T>& a, const Matrix44<T>& b, const Matrix44<T>& c, int mode)
{
    std::string ty = std::string (":") + TN<T>::n ();
    Matrix44<T> s2 = Matrix44<T>::multiply (a, b), s3, aa = a, bb = b;
    Matrix44<T>::multiply (a, b, s3);
    Matrix44<T>::multiply (aa, b, aa);
    Matrix44<T>::multiply (a, bb, bb);
    auto in = [&] { return showM (a, 4) + "| " + showM (b, 4); };
    for (int i = 0; i < 4; ++i) for (int j = 0; j < 4; ++j)
    {
        same<T> ("M44.multiplyStatic" + ty, "bitwise", s2[i][j], c[i][j], mode, in);
        same<T> ("M44.multiplyStatic3" + ty, "bitwise", s3[i][j], c[i][j], mode, in);
        same<T> ("M44.multiplyStatic3Alias" + ty, "bitwise", aa[i][j], c[i][j], mode, in);
        same<T> ("M44.multiplyStatic3Alias" + ty, "bitwise", bb[i][j], c[i][j], mode, in);
    }
}
template <class T> static void runStatic (const Matrix33<T>&, const Matrix33<T>&, const Matrix33<T>&, int) {}
template <class T> static void runStatic (const Matrix22<T>&, const Matrix22<T>&, const Matrix22<T>&, int) {}

template <class T, int N> static void runMat (int mode, long round)
{
    typedef typename Mat<T, N>::type M;
    const Q     u  = unitRoundoff<T> ();
    std::string L  = N == 2 ? "M22." : N == 3 ? "M33." : "M44.";
    std::string ty = std::string (":") + TN<T>::n ();
    M a = rndMat<T, N> (mode), b = rndMat<T, N> (mode);
    if (N == 4)
    {
        // every zero pattern of the last column (Matrix44::determinant skips x[i][3] == 0): forced in the sparse class
        if (mode == 2)
        {
            int k = (int) ((round / 4) % 16);
            for (int i = 0; i < 4; ++i) a[i][3] = (k >> i & 1) ? (T) 0 : rndNonzero<T> (mode);
        }
        if (mode == 1 && rng () % 2) { a[0][3] = a[1][3] = a[2][3] = 0; a[3][3] = 1; ++affineHits[TN<T>::idx]; } // affine pattern
        int k = 0;
        for (int i = 0; i < 4; ++i) if (a[i][3] == 0) k |= 1 << i;
        ++branchHits[TN<T>::idx][k];
    }
    auto inAB = [&] { return showM (a, N) + "| " + showM (b, N); };
    auto inA  = [&] { return showM (a, N); };
    // product, all spellings
    M c = a * b, ca = a, cs = a;
    ca *= b;
    cs *= cs;
    M csq = a * a;
    for (int i = 0; i < N; ++i) for (int j = 0; j < N; ++j)
    {
        Q s = 0, sa = 0;
        for (int k = 0; k < N; ++k) { Q t = (Q) a[i][k] * (Q) b[k][j]; s += t; sa += qabs (t); }
        check (L + "mul" + ty, N + 2, (Q) c[i][j], s, s, u * sa, tiny<T> (), mode, inAB);
        same<T> (L + "mulAssign" + ty, "bitwise", ca[i][j], c[i][j], mode, inAB);
        same<T> (L + "mulAssignSelf" + ty, "bitwise", cs[i][j], csq[i][j], mode, inA);
    }
    runStatic (a, b, c, mode);
    // transposes: slot identity
    M t1 = a.transposed (), t2 = a;
    t2.transpose ();
    for (int i = 0; i < N; ++i) for (int j = 0; j < N; ++j)
    {
        same<T> (L + "transposed" + ty, "exact", t1[i][j], a[j][i], mode, inA);
        same<T> (L + "transpose" + ty, "exact", t2[i][j], a[j][i], mode, inA);
    }
    // trace
    {
        Q s = 0, sa = 0;
        for (int i = 0; i < N; ++i) { s += (Q) a[i][i]; sa += qabs ((Q) a[i][i]); }
        check (L + "trace" + ty, N + 2, (Q) a.trace (), s, s, u * sa, tiny<T> (), mode, inA);
    }
    // determinant
    {
        int id[4] = {0, 1, 2, 3};
        Q   d, sa;
        subDetQ (a, N, id, id, d, sa);
        check (L + "determinant" + ty, 3 * N + 2, (Q) a.determinant (), d, d, u * sa, tiny<T> (), mode, inA);
    }
}
// minorOf: every (r, c) against the Leibniz sum of the matrix with row r and column c removed
template <class T> static void runMinors (int mode, long round)
{
    std::string ty = std::string (":") + TN<T>::n ();
    const Q     u  = unitRoundoff<T> ();
    Matrix33<T> a3 = rndMat<T, 3> (mode);
    Matrix44<T> a4 = rndMat<T, 4> (mode);
    for (int r = 0; r < 3; ++r) for (int c = 0; c < 3; ++c)
    {
        int rows[2], cols[2], n = 0, m = 0;
        for (int i = 0; i < 3; ++i) { if (i != r) rows[n++] = i; if (i != c) cols[m++] = i; }
        Q d, sa;
        subDetQ (a3, 2, rows, cols, d, sa);
        check ("M33.minorOf" + ty, 4, (Q) a3.minorOf (r, c), d, d, u * sa, tiny<T> (), mode, [&] {
            char b[40]; snprintf (b, 40, "r=%d c=%d | ", r, c); return b + showM (a3, 3); });
    }
    for (int r = 0; r < 4; ++r) for (int c = 0; c < 4; ++c)
    {
        int rows[3], cols[3], n = 0, m = 0;
        for (int i = 0; i < 4; ++i) { if (i != r) rows[n++] = i; if (i != c) cols[m++] = i; }
        Q d, sa;
        subDetQ (a4, 3, rows, cols, d, sa);
        check ("M44.minorOf" + ty, 11, (Q) a4.minorOf (r, c), d, d, u * sa, tiny<T> (), mode, [&] {
            char b[40]; snprintf (b, 40, "r=%d c=%d | ", r, c); return b + showM (a4, 4); });
    }
    runFastMinor (a3, mode, round);
    runFastMinor (a4, mode, round);
}

// ---- vectors, quaternions, outer products
template <class T, class V> static void dotRows (const char* L, int N, const V& a, const V& b, int mode)
{
    std::string ty = std::string (":") + TN<T>::n ();
    const Q     u  = unitRoundoff<T> ();
    auto in = [&] { return showV (a, N) + "| " + showV (b, N); };
    Q s = 0, sa = 0, s2 = 0;
    for (int i = 0; i < N; ++i) { Q t = (Q) a[i] * (Q) b[i]; s += t; sa += qabs (t); s2 += (Q) a[i] * (Q) a[i]; }
    T d = a.dot (b);
    check (std::string (L) + ".dot" + ty, N + 2, (Q) d, s, s, u * sa, tiny<T> (), mode, in);
    same<T> (std::string (L) + ".dotOp" + ty, "bitwise", a ^ b, d, mode, in);
    check (std::string (L) + ".length2" + ty, N + 2, (Q) a.length2 (), s2, s2, u * s2, tiny<T> (), mode, in);
}
template <class T> static void runVec (int mode)
{
    std::string ty = std::string (":") + TN<T>::n ();
    const Q     u  = unitRoundoff<T> ();
    Vec2<T> a2 (rnd<T> (mode), rnd<T> (mode)), b2 (rnd<T> (mode), rnd<T> (mode));
    Vec3<T> a (rnd<T> (mode), rnd<T> (mode), rnd<T> (mode)), b (rnd<T> (mode), rnd<T> (mode), rnd<T> (mode));
    Vec4<T> a4 (rnd<T> (mode), rnd<T> (mode), rnd<T> (mode), rnd<T> (mode)), b4 (rnd<T> (mode), rnd<T> (mode), rnd<T> (mode), rnd<T> (mode));
    dotRows<T> ("V2", 2, a2, b2, mode);
    dotRows<T> ("V3", 3, a, b, mode);
    dotRows<T> ("V4", 4, a4, b4, mode);
    auto in2 = [&] { return showV (a2, 2) + "| " + showV (b2, 2); };
    auto in3 = [&] { return showV (a, 3) + "| " + showV (b, 3); };
    // 2-D cross
    {
        Q p = (Q) a2.x * b2.y, q = (Q) a2.y * b2.x;
        T c = a2.cross (b2);
        check ("V2.cross" + ty, 4, (Q) c, p - q, p - q, u * (qabs (p) + qabs (q)), tiny<T> (), mode, in2);
        same<T> ("V2.crossOp" + ty, "bitwise", a2 % b2, c, mode, in2);
    }
    // 3-D cross, three spellings + the aliased one
    Q cx[3], cs[3];
    for (int i = 0; i < 3; ++i)
    {
        int j = (i + 1) % 3, k = (i + 2) % 3;
        Q p = (Q) a[j] * b[k], q = (Q) a[k] * b[j];
        cx[i] = p - q; cs[i] = qabs (p) + qabs (q);
    }
    {
        Vec3<T> c = a.cross (b), c2 = a % b, c3 = a, c4 = a, c5 = a % a;
        c3 %= b;
        c4 %= c4;
        for (int i = 0; i < 3; ++i)
        {
            check ("V3.cross" + ty, 4, (Q) c[i], cx[i], cx[i], u * cs[i], tiny<T> (), mode, in3);
            same<T> ("V3.crossOp" + ty, "bitwise", c2[i], c[i], mode, in3);
            same<T> ("V3.crossAssign" + ty, "bitwise", c3[i], c[i], mode, in3);
            same<T> ("V3.crossAssignSelf" + ty, "bitwise", c4[i], c5[i], mode, in3);
        }
    }
    // outer products: a single rounding per entry, so the result is the correctly rounded exact product
    {
        Matrix33<T> o3 = outerProduct (a, b);
        Matrix44<T> o4 = outerProduct (a4, b4);
        for (int i = 0; i < 3; ++i) for (int j = 0; j < 3; ++j)
            same<T> ("M33.outerProduct" + ty, "exact", o3[i][j], (T) ((Q) a[i] * (Q) b[j]), mode, in3);
        for (int i = 0; i < 4; ++i) for (int j = 0; j < 4; ++j)
            same<T> ("M44.outerProduct" + ty, "exact", o4[i][j], (T) ((Q) a4[i] * (Q) b4[j]), mode, [&] { return showV (a4, 4) + "| " + showV (b4, 4); });
    }
    // quaternion product: real part 4 products, each vector component 4 products
    {
        Quat<T> p (rnd<T> (mode), a), q (rnd<T> (mode), b), r = p * q, r2 = p, r3 = p, sq = p * p;
        r2 *= q;
        r3 *= r3;
        auto inq = [&] { char bb[80]; snprintf (bb, 80, "%.17g %.17g | ", (double) p.r, (double) q.r); return bb + in3 (); };
        Q d = 0, da = 0;
        for (int i = 0; i < 3; ++i) { Q t = (Q) a[i] * (Q) b[i]; d += t; da += qabs (t); }
        Q rr = (Q) p.r * q.r;
        check ("Quat.mul.r" + ty, 6, (Q) r.r, rr - d, rr - d, u * (qabs (rr) + da), tiny<T> (), mode, inq);
        check ("Quat.euclideanInnerProduct" + ty, 6, (Q) (p ^ q), rr + d, rr + d, u * (qabs (rr) + da), tiny<T> (), mode, inq);
        same<T> ("Quat.mulAssign" + ty, "bitwise", r2.r, r.r, mode, inq);
        same<T> ("Quat.mulAssignSelf" + ty, "bitwise", r3.r, sq.r, mode, inq);
        for (int i = 0; i < 3; ++i)
        {
            Q t1 = (Q) p.r * (Q) b[i], t2 = (Q) q.r * (Q) a[i];
            check ("Quat.mul.v" + ty, 6, (Q) r.v[i], t1 + t2 + cx[i], t1 + t2 + cx[i], u * (qabs (t1) + qabs (t2) + cs[i]), tiny<T> (), mode, inq);
            same<T> ("Quat.mulAssign" + ty, "bitwise", r2.v[i], r.v[i], mode, inq);
            same<T> ("Quat.mulAssignSelf" + ty, "bitwise", r3.v[i], sq.v[i], mode, inq);
        }
    }
}

// ---- vector x matrix, two-type templates: S = vector element, T = matrix element
template <class S, class T> struct Types
{
    typedef decltype (S () * T ()) C; // the type the sums are computed in
    static const bool narrowing = sizeof (S) < sizeof (C);
    static std::string ty ()
    {
        return std::is_same<S, T>::value ? std::string (":") + TN<S>::n () : std::string (":") + TN<S>::n () + "*" + TN<T>::n ();
    }
};
// plain sum of n products (+ optionally the constant row), computed at C and stored to S
template <class S, class T, class F>
static void sumRow (const std::string& name, int nterms, S got, Q X, Q SX, int mode, F&& in)
{
    typedef Types<S, T> Ty;
    Q extra = tiny<S> () + (Ty::narrowing ? unitRoundoff<S> () * qabs (X) * (Q) 1.000001 : (Q) 0);
    check (name, nterms + 2, (Q) got, X, X, unitRoundoff<typename Ty::C> () * SX, extra, mode, in);
}
// homogeneous divide: got = fl (fl (X) / fl (W))
template <class S, class T, class F>
static void divRow (const std::string& name, int nterms, S got, Q X, Q SX, Q W, Q SW, int mode, F&& in)
{
    typedef Types<S, T> Ty;
    Fam& f = fam (name, "bound", (nterms + 2) * 4.0 / 3.0);
    const Q uc = unitRoundoff<typename Ty::C> (), us = unitRoundoff<S> ();
    if (W == 0) { ++wzero; ++f.skipped; return; }
    if ((Q) (nterms + 2) * uc * SW * 4 > qabs (W)) { ++wcond; ++f.skipped; return; } // w itself has lost its leading digits
    Q q = X / W;
    Q unit  = uc * (SX + qabs (q) * SW) / qabs (W);
    Q extra = tiny<S> () + (Ty::narrowing ? (Q) 3.01 : (Q) 1.01) * us * qabs (q);
    check (name, (nterms + 2) * 4.0 / 3.0, (Q) got, q, (Q) (S) q, unit, extra, mode, in);
}

template <class S, class T> static void runVecMat (int mode)
{
    typedef Types<S, T>      Ty;
    typedef typename Ty::C   C;
    const std::string        ty = Ty::ty ();
    const bool               mixed = !std::is_same<S, T>::value;
    Vec2<S>     v2 (rnd<S> (mode), rnd<S> (mode));
    Vec3<S>     v3 (rnd<S> (mode), rnd<S> (mode), rnd<S> (mode));
    Vec4<S>     v4 (rnd<S> (mode), rnd<S> (mode), rnd<S> (mode), rnd<S> (mode));
    Matrix22<T> m2 = rndMat<T, 2> (mode);
    Matrix33<T> m3 = rndMat<T, 3> (mode);
    Matrix44<T> m4 = rndMat<T, 4> (mode);
    if (mode != 0 && mode != 2 && rng () % 4 == 0) { m4[0][3] = m4[1][3] = m4[2][3] = 0; m4[3][3] = 1; m3[0][2] = m3[1][2] = 0; m3[2][2] = 1; } // affine
    auto in22 = [&] { return showV (v2, 2) + "| " + showM (m2, 2); };
    auto in23 = [&] { return showV (v2, 2) + "| " + showM (m3, 3); };
    auto in33 = [&] { return showV (v3, 3) + "| " + showM (m3, 3); };
    auto in34 = [&] { return showV (v3, 3) + "| " + showM (m4, 4); };
    auto in44 = [&] { return showV (v4, 4) + "| " + showM (m4, 4); };
    // wide copies for the "computed at the wider type, rounded once" reference of the mixed instantiations
    Matrix22<C> w2; Matrix33<C> w3; Matrix44<C> w4;
    for (int i = 0; i < 2; ++i) for (int j = 0; j < 2; ++j) w2[i][j] = (C) m2[i][j];
    for (int i = 0; i < 3; ++i) for (int j = 0; j < 3; ++j) w3[i][j] = (C) m3[i][j];
    for (int i = 0; i < 4; ++i) for (int j = 0; j < 4; ++j) w4[i][j] = (C) m4[i][j];

    // V2 x M22, V3 x M33, V4 x M44 (plain), operator and compound; M22::multDirMatrix is the same sum
    {
        Vec2<S> r = v2 * m2, ra = v2, rd;
        ra *= m2;
        m2.multDirMatrix (v2, rd);
        Vec2<C> ref = Vec2<C> ((C) v2.x, (C) v2.y) * w2, refd;
        w2.multDirMatrix (Vec2<C> ((C) v2.x, (C) v2.y), refd);
        for (int j = 0; j < 2; ++j)
        {
            if (mixed) same<S> ("M22.multDirMatrix" + ty + ":vs-widened", "bitwise", rd[j], (S) refd[j], mode, in22);
            Q X = 0, SX = 0;
            for (int i = 0; i < 2; ++i) { Q t = (Q) v2[i] * (Q) m2[i][j]; X += t; SX += qabs (t); }
            sumRow<S, T> ("V2.mulM22" + ty, 2, r[j], X, SX, mode, in22);
            sumRow<S, T> ("M22.multDirMatrix" + ty, 2, rd[j], X, SX, mode, in22);
            same<S> ("V2.mulAssignM22" + ty, "bitwise", ra[j], r[j], mode, in22);
            if (mixed) same<S> ("V2.mulM22" + ty + ":vs-widened", "bitwise", r[j], (S) ref[j], mode, in22);
        }
    }
    {
        Vec3<S> r = v3 * m3, ra = v3;
        ra *= m3;
        Vec3<C> ref = Vec3<C> ((C) v3.x, (C) v3.y, (C) v3.z) * w3;
        for (int j = 0; j < 3; ++j)
        {
            Q X = 0, SX = 0;
            for (int i = 0; i < 3; ++i) { Q t = (Q) v3[i] * (Q) m3[i][j]; X += t; SX += qabs (t); }
            sumRow<S, T> ("V3.mulM33" + ty, 3, r[j], X, SX, mode, in33);
            same<S> ("V3.mulAssignM33" + ty, "bitwise", ra[j], r[j], mode, in33);
            if (mixed) same<S> ("V3.mulM33" + ty + ":vs-widened", "bitwise", r[j], (S) ref[j], mode, in33);
        }
    }
    {
        Vec4<S> r = v4 * m4, ra = v4;
        ra *= m4;
        Vec4<C> ref = Vec4<C> ((C) v4.x, (C) v4.y, (C) v4.z, (C) v4.w) * w4;
        for (int j = 0; j < 4; ++j)
        {
            Q X = 0, SX = 0;
            for (int i = 0; i < 4; ++i) { Q t = (Q) v4[i] * (Q) m4[i][j]; X += t; SX += qabs (t); }
            sumRow<S, T> ("V4.mulM44" + ty, 4, r[j], X, SX, mode, in44);
            same<S> ("V4.mulAssignM44" + ty, "bitwise", ra[j], r[j], mode, in44);
            if (mixed) same<S> ("V4.mulM44" + ty + ":vs-widened", "bitwise", r[j], (S) ref[j], mode, in44);
        }
    }
    // V2 x M33: append 1, divide by the last homogeneous coordinate; multDirMatrix: append 0, no division
    {
        Q X[3], SX[3], D[2], SD[2];
        for (int j = 0; j < 3; ++j)
        {
            X[j] = (Q) m3[2][j]; SX[j] = qabs (X[j]);
            Q d = 0, sd = 0;
            for (int i = 0; i < 2; ++i) { Q t = (Q) v2[i] * (Q) m3[i][j]; d += t; sd += qabs (t); }
            X[j] += d; SX[j] += sd;
            if (j < 2) { D[j] = d; SD[j] = sd; }
        }
        Vec2<S> rd;
        m3.multDirMatrix (v2, rd);
        Vec2<C> refd;
        w3.multDirMatrix (Vec2<C> ((C) v2.x, (C) v2.y), refd);
        for (int j = 0; j < 2; ++j)
        {
            sumRow<S, T> ("M33.multDirMatrix" + ty, 2, rd[j], D[j], SD[j], mode, in23);
            if (mixed) same<S> ("M33.multDirMatrix" + ty + ":vs-widened", "bitwise", rd[j], (S) refd[j], mode, in23);
        }
        // the division is only performed when w != 0 (w == 0 is outside the clause: the result is inf/nan)
        C wc = (C) v2.x * (C) m3[0][2] + (C) v2.y * (C) m3[1][2] + (C) m3[2][2];
        if ((S) wc != 0)
        {
            Vec2<S> r = v2 * m3, ra = v2, rm;
            ra *= m3;
            m3.multVecMatrix (v2, rm);
            Vec3<C> h = Vec3<C> ((C) v2.x, (C) v2.y, (C) 1) * w3; // same-type plain instantiation at the wide type
            for (int j = 0; j < 2; ++j)
            {
                divRow<S, T> ("V2.mulM33" + ty, 3, r[j], X[j], SX[j], X[2], SX[2], mode, in23);
                same<S> ("V2.mulAssignM33" + ty, "bitwise", ra[j], r[j], mode, in23);
                same<S> ("M33.multVecMatrix" + ty, "bitwise", rm[j], r[j], mode, in23);
                if (mixed) same<S> ("V2.mulM33" + ty + ":vs-widened", "bitwise", r[j], (S) ((S) h[j] / (S) h[2]), mode, in23);
            }
        }
        else { ++wzero; }
    }
    // V3 x M44
    {
        Q X[4], SX[4], D[3], SD[3];
        for (int j = 0; j < 4; ++j)
        {
            X[j] = (Q) m4[3][j]; SX[j] = qabs (X[j]);
            Q d = 0, sd = 0;
            for (int i = 0; i < 3; ++i) { Q t = (Q) v3[i] * (Q) m4[i][j]; d += t; sd += qabs (t); }
            X[j] += d; SX[j] += sd;
            if (j < 3) { D[j] = d; SD[j] = sd; }
        }
        Vec3<S> rd;
        m4.multDirMatrix (v3, rd);
        Vec3<C> refd;
        w4.multDirMatrix (Vec3<C> ((C) v3.x, (C) v3.y, (C) v3.z), refd);
        for (int j = 0; j < 3; ++j)
        {
            sumRow<S, T> ("M44.multDirMatrix" + ty, 3, rd[j], D[j], SD[j], mode, in34);
            if (mixed) same<S> ("M44.multDirMatrix" + ty + ":vs-widened", "bitwise", rd[j], (S) refd[j], mode, in34);
        }
        C wc = (C) v3.x * (C) m4[0][3] + (C) v3.y * (C) m4[1][3] + (C) v3.z * (C) m4[2][3] + (C) m4[3][3];
        if ((S) wc != 0)
        {
            Vec3<S> r = v3 * m4, ra = v3, rm;
            ra *= m4;
            m4.multVecMatrix (v3, rm);
            Vec4<C> h = Vec4<C> ((C) v3.x, (C) v3.y, (C) v3.z, (C) 1) * w4;
            for (int j = 0; j < 3; ++j)
            {
                divRow<S, T> ("V3.mulM44" + ty, 4, r[j], X[j], SX[j], X[3], SX[3], mode, in34);
                same<S> ("V3.mulAssignM44" + ty, "bitwise", ra[j], r[j], mode, in34);
                same<S> ("M44.multVecMatrix" + ty, "bitwise", rm[j], r[j], mode, in34);
                if (mixed) same<S> ("V3.mulM44" + ty + ":vs-widened", "bitwise", r[j], (S) ((S) h[j] / (S) h[3]), mode, in34);
            }
        }
        else { ++wzero; }
    }
}

int main (int argc, char** argv)
{
    rng.seed (argc > 1 ? strtoul (argv[1], 0, 10) : 1);
    long n = argc > 2 ? atol (argv[2]) : 20000;
    for (long i = 0; i < n; ++i)
    {
        int mode = (int) (i % 4);
        runMat<float, 2> (mode, i); runMat<float, 3> (mode, i); runMat<float, 4> (mode, i);
        runMat<double, 2> (mode, i); runMat<double, 3> (mode, i); runMat<double, 4> (mode, i);
        runMinors<float> (mode, i); runMinors<double> (mode, i);
        runVec<float> (mode); runVec<double> (mode);
        runVecMat<float, float> (mode); runVecMat<double, double> (mode);
        runVecMat<float, double> (mode); runVecMat<double, float> (mode);
    }
    double worst = 0;
    for (auto& kv : fams) worst = std::max (worst, kv.second.worst);
    long fm33 = 0, fm44 = 0;
    for (char c : fm33seen) fm33 += c;
    for (char c : fm44seen) fm44 += c;
    for (auto& kv : fams)
        printf ("FAMILY %s kind=%s c=%.6g evals=%ld lattice=%ld skipped=%ld fails=%ld worst_frac=%.6f\n", kv.first.c_str (), kv.second.kind.c_str (),
                kv.second.c, kv.second.evals, kv.second.lattice, kv.second.skipped, kv.second.fails, kv.second.worst);
    printf ("RESIDUE evals=%ld lattice_exact=%ld failures=%ld worst_frac=%.6f w_zero_skipped=%ld w_illconditioned_skipped=%ld fastminor33_tuples=%ld fastminor44_tuples=%ld affine_hits=%ld,%ld",
            evals, lattice, failures, worst, wzero, wcond, fm33, fm44, affineHits[0], affineHits[1]);
    for (int t = 0; t < 2; ++t)
    {
        printf (" det44_zero_pattern_hits_%s=", t ? "double" : "float");
        for (int k = 0; k < 16; ++k) printf ("%ld,", branchHits[t][k]);
    }
    printf ("\n");
    return failures ? 1 : 0;
}
