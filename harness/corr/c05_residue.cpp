// C05 residue measurement (DESIGN.md §2.4): the real float/double results of EVERY function
// family of the property against a 113-bit (__float128) evaluation of the textbook sums.
//
//   bound rows    |impl - exact| <= c * u * sum|products| * (1 + 1e-6) + (products that can underflow) * denorm_min / 2
//                 (+ one narrowing rounding for the mixed S != T instantiations).  c is the number of roundings on the
//                 longest path of the function as written (standard model of floating point arithmetic: the bound is
//                 what the CODE AS WRITTEN guarantees; an extra rounding / a cancellation-prone rewrite exceeds it or
//                 moves the recorded maximum, which c05.py compares with the calibrated clean-tree maximum).
//                 On the integer lattice every intermediate is exact and equality is required (for the two dividing
//                 forms: equality with the correctly rounded quotient, and the IEEE pattern +-inf / NaN when w == 0).
//   exact rows    outerProduct (one rounding: must equal the rounded exact product), transposes.
//   bitwise rows  spellings (operator / compound / member / static / aliased) against the operator form (w == 0 included);
//                 the mixed instantiations Vec<S> * Matrix<T> against the same-type instantiation at the wider type
//                 rounded once per component.
//
// Input classes: lattice [-3,3]; scaled [-1,1]; sparse (zeros with probability 1/3, the 16 zero patterns of Matrix44's
// last column forced in turn); graded 2^-10..2^10; extreme: all entries of a call in ONE band, either so small that the
// top-degree products straddle the subnormal boundary (2^(emin +- 4 deg)) or so large that they come within 2^-2deg..2^-6deg
// of overflow (every exact value and partial sum stays in range, so a non-finite result is a failure).
//
// Output: RESIDUE-FAIL <function>:<types>:<input class> ... lines, one RESIDUE summary line, one
// FAMILY line per (function, element types) with its own maxima and means (fractions of its own bound; the extreme class separately).
#include <ImathVec.h>
#include <ImathMatrix.h>
#include <ImathMatrixAlgo.h>
#include <ImathQuat.h>
#include <cstdio>
#include <cstdlib>
#include <cstring>
#include <cmath>
#include <algorithm>
#include <limits>
#include <map>
#include <random>
#include <string>
#include <type_traits>
#include <vector>
using namespace IMATH_NAMESPACE;
typedef __float128 Q;
static std::mt19937_64 rng;
static long evals = 0, lattice = 0, failures = 0, printed = 0;
static long branchHits[2][16], affineHits[2], wzero = 0, wzeroLattice = 0, wcond = 0, xband[2];
static std::vector<char> fm33seen (81, 0), fm44seen (4096, 0);
enum { LATTICE = 0, SCALED = 1, SPARSE = 2, GRADED = 3, EXTREME = 4, NMODES = 5 };
static const char* MODE[NMODES] = {"lattice", "scaled", "sparse", "graded", "extreme"};
static Q qabs (Q x) { return x < 0 ? -x : x; }
static const Q SLACK = (Q) 1.000001; // second-order terms of (1+u)^k

template <class T> struct TN;
template <> struct TN<float> { static const char* n () { return "float"; } enum { idx = 0 }; };
template <> struct TN<double> { static const char* n () { return "double"; } enum { idx = 1 }; };
template <class T> static Q unitRoundoff () { return (Q) std::numeric_limits<T>::epsilon () / 2; }
// absolute error of np products whose results may be subnormal: half a denorm_min each
template <class T> static Q under (double np) { return (Q) std::numeric_limits<T>::denorm_min () * (Q) (np * 0.5005); }

struct Fam
{
    std::string kind;
    double      c = 0;
    long        evals = 0, lattice = 0, fails = 0, skipped = 0, extreme = 0;
    double      worst = 0, worstX = 0; // max of err / bound over the scaled+sparse+graded classes / over the extreme class
    double      sum = 0, sumX = 0;     // sums of err / bound (the MEAN is stable from run to run: c05.py compares it with the calibrated one)
    long        cnt = 0, cntX = 0;
};
static std::map<std::string, Fam> fams;
static Fam& fam (const std::string& name, const char* kind, double c)
{
    Fam& f = fams[name];
    if (f.kind.empty ()) { f.kind = kind; f.c = c; }
    return f;
}

// extreme class: degree of the polynomial the entries go into, band (0 = underflow, 1 = near overflow), exponent range of the
// narrowest type taking part in the call
static struct { int deg = 2, band = 0, emin = -126, emax = 127; } X;
template <class R> static void extremeCall (int deg)
{
    X.deg  = deg;
    X.band = (int) (rng () % 2);
    X.emin = std::numeric_limits<R>::min_exponent - 1;
    X.emax = std::numeric_limits<R>::max_exponent - 1;
    ++xband[X.band];
}
template <class T> static T rnd (int mode)
{
    std::uniform_real_distribution<double> U (-1, 1);
    switch (mode)
    {
        case LATTICE: return (T) (double) ((long) (rng () % 7) - 3);
        case SCALED: return (T) U (rng);
        case SPARSE: return (rng () % 3 == 0) ? (T) 0 : (T) U (rng);
        case GRADED: return (T) (U (rng) * std::pow (2.0, (double) ((long) (rng () % 21) - 10)));
        default:
        {
            double m = 1.0 + 0.5 * (U (rng) + 1.0); // [1, 2)
            int    e = X.band == 0 ? X.emin / X.deg - 4 + (int) (rng () % 9) : X.emax / X.deg - 8 + (int) (rng () % 6);
            return (T) std::ldexp ((rng () % 2) ? m : -m, e);
        }
    }
}
template <class T> static T rndNonzero (int mode)
{
    for (;;) { T x = rnd<T> (mode); if (x != 0) return x; }
}

static void failLine (const std::string& name, int mode, Fam& f, const char* why, Q got, Q want, const std::string& in)
{
    ++failures; ++f.fails;
    static std::map<std::string, int> perKey; // a few lines per (row, input class), so that one failing family cannot hide another
    if (++perKey[name + ":" + MODE[mode]] <= 3 && printed++ < 2000)
        printf ("RESIDUE-FAIL %s:%s %s got=%.17g want=%.17g in=%s\n", name.c_str (), MODE[mode], why, (double) got, (double) want, in.c_str ());
}

// bound row:  |got - exact| <= c*unit*SLACK + extra ; on the lattice got == latticeWant
template <class F>
static void check (const std::string& name, double c, Q got, Q exact, Q latticeWant, Q unit, Q extra, int mode, F&& in)
{
    Fam& f = fam (name, "bound", c);
    ++f.evals; ++evals;
    if (mode == LATTICE)
    {
        ++f.lattice; ++lattice;
        if (!(got == latticeWant)) failLine (name, mode, f, "lattice-not-exact", got, latticeWant, in ());
        return;
    }
    Q err = qabs (got - exact), bound = (Q) c * unit * SLACK + extra;
    double frac = bound > 0 ? (double) (err / bound) : (err > 0 ? 1e30 : 0);
    if (!(err <= bound)) frac = std::max (frac, 1e30 > frac ? frac : 1e30); // NaN / inf
    if (mode == EXTREME) { ++f.extreme; ++f.cntX; f.sumX += std::min (frac, 1e6); if (frac > f.worstX) f.worstX = frac; }
    else { ++f.cnt; f.sum += std::min (frac, 1e6); if (frac > f.worst) f.worst = frac; }
    if (!(err <= bound))
    {
        char why[120];
        snprintf (why, 120, "err/bound=%.4g err/(u*sum|terms|)=%.4g c=%g", frac, unit > 0 ? (double) (err / unit) : 1e30, c);
        failLine (name, mode, f, why, got, exact, in ());
    }
}
// exact / bitwise rows
template <class T, class F> static void same (const std::string& name, const char* kind, T got, T want, int mode, F&& in)
{
    Fam& f = fam (name, kind, 0);
    ++f.evals; ++evals;
    if (mode == LATTICE) { ++f.lattice; ++lattice; }
    if (mode == EXTREME) ++f.extreme;
    if (std::memcmp (&got, &want, sizeof (T)) != 0) failLine (name, mode, f, "differs-bitwise", (Q) got, (Q) want, in ());
}

template <class T, int N> struct Mat;
template <class T> struct Mat<T, 2> { typedef Matrix22<T> type; typedef Vec2<T> vec; };
template <class T> struct Mat<T, 3> { typedef Matrix33<T> type; typedef Vec3<T> vec; };
template <class T> struct Mat<T, 4> { typedef Matrix44<T> type; typedef Vec4<T> vec; };

template <class M> static std::string showM (const M& m, int N)
{
    std::string s;
    char b[40];
    for (int i = 0; i < N; ++i) for (int j = 0; j < N; ++j) { snprintf (b, 40, "%.17g ", (double) m[i][j]); s += b; }
    return s;
}
template <class V> static std::string showV (const V& v, int N)
{
    std::string s;
    char b[40];
    for (int i = 0; i < N; ++i) { snprintf (b, 40, "%.17g ", (double) v[i]); s += b; }
    return s;
}
// Leibniz sum over permutations of an n x n quad array
static void detQn (int n, const Q a[4][4], Q& det, Q& sumabs)
{
    int p[4] = {0, 1, 2, 3};
    det = 0; sumabs = 0;
    do {
        int inv = 0;
        for (int i = 0; i < n; ++i) for (int j = i + 1; j < n; ++j) if (p[i] > p[j]) ++inv;
        Q t = 1;
        for (int i = 0; i < n; ++i) t *= a[i][p[i]];
        det += (inv & 1) ? -t : t;
        sumabs += qabs (t);
    } while (std::next_permutation (p, p + n));
}
template <class M> static void subDetQ (const M& m, int n, const int* rows, const int* cols, Q& det, Q& sumabs)
{
    Q a[4][4];
    for (int i = 0; i < n; ++i) for (int j = 0; j < n; ++j) a[i][j] = (Q) m[rows[i]][cols[j]];
    detQn (n, a, det, sumabs);
}

template <class T, int N> static typename Mat<T, N>::type rndMat (int mode)
{
    typename Mat<T, N>::type a;
    for (int i = 0; i < N; ++i) for (int j = 0; j < N; ++j) a[i][j] = rnd<T> (mode);
    return a;
}

// Number of roundings on the longest path (see the header).  2x2 determinant a*d - b*c: 2.  3x3 by
// x*(b*c - d*e) + ... : product, difference, product, two additions: 5.  Matrix44::determinant: fastMinor (5), product,
// three accumulations (the first one is 0 - t, exact): 9.
static const double C_DET[5] = {0, 0, 2, 5, 9};

// ---- fastMinor: every index tuple (repeated and descending ones included), cycled over the rounds
template <class T> static void runFastMinor (const Matrix33<T>& a, int mode, long round)
{
    std::string nm = std::string ("M33.fastMinor:") + TN<T>::n ();
    for (int k = 0; k < 9; ++k)
    {
        int t = (int) ((round * 9 + k) % 81);
        int r[2] = {t / 27, (t / 9) % 3}, cc[2] = {(t / 3) % 3, t % 3};
        fm33seen[t] = 1;
        Q d, sa;
        subDetQ (a, 2, r, cc, d, sa);
        check (nm, C_DET[2], (Q) a.fastMinor (r[0], r[1], cc[0], cc[1]), d, d, unitRoundoff<T> () * sa, under<T> (2), mode, [&] {
            char b[64]; snprintf (b, 64, "rows %d %d cols %d %d | ", r[0], r[1], cc[0], cc[1]); return b + showM (a, 3); });
    }
}
template <class T> static void runFastMinor (const Matrix44<T>& a, int mode, long round)
{
    std::string nm = std::string ("M44.fastMinor:") + TN<T>::n ();
    for (int k = 0; k < 8; ++k)
    {
        int t = (int) ((round * 8 + k) % 4096);
        int r[3] = {t / 1024, (t / 256) % 4, (t / 64) % 4}, cc[3] = {(t / 16) % 4, (t / 4) % 4, t % 4};
        fm44seen[t] = 1;
        Q d, sa;
        subDetQ (a, 3, r, cc, d, sa);
        check (nm, C_DET[3], (Q) a.fastMinor (r[0], r[1], r[2], cc[0], cc[1], cc[2]), d, d, unitRoundoff<T> () * sa, under<T> (3), mode, [&] {
            char b[80]; snprintf (b, 80, "rows %d %d %d cols %d %d %d | ", r[0], r[1], r[2], cc[0], cc[1], cc[2]); return b + showM (a, 4); });
    }
}
template <class T> static void runStatic (const Matrix44<T>& a, const Matrix44<T>& b, const Matrix44<T>& c, int mode)
{
    std::string ty = std::string (":") + TN<T>::n ();
    Matrix44<T> s2 = Matrix44<T>::multiply (a, b), s3, aa = a, bb = b;
    Matrix44<T>::multiply (a, b, s3);
    Matrix44<T>::multiply (aa, b, aa);
    Matrix44<T>::multiply (a, bb, bb);
    auto in = [&] { return showM (a, 4) + "| " + showM (b, 4); };
    for (int i = 0; i < 4; ++i) for (int j = 0; j < 4; ++j)
    {
        same<T> ("M44.multiplyStatic" + ty, "bitwise", s2[i][j], c[i][j], mode, in);
        same<T> ("M44.multiplyStatic3" + ty, "bitwise", s3[i][j], c[i][j], mode, in);
        same<T> ("M44.multiplyStatic3Alias" + ty, "bitwise", aa[i][j], c[i][j], mode, in);
        same<T> ("M44.multiplyStatic3Alias" + ty, "bitwise", bb[i][j], c[i][j], mode, in);
    }
}
template <class T> static void runStatic (const Matrix33<T>&, const Matrix33<T>&, const Matrix33<T>&, int) {}
template <class T> static void runStatic (const Matrix22<T>&, const Matrix22<T>&, const Matrix22<T>&, int) {}

template <class T, int N> static void runMat (int mode, long round)
{
    typedef typename Mat<T, N>::type M;
    const Q     u  = unitRoundoff<T> ();
    std::string L  = N == 2 ? "M22." : N == 3 ? "M33." : "M44.";
    std::string ty = std::string (":") + TN<T>::n ();
    if (mode == EXTREME) extremeCall<T> (2);
    M a = rndMat<T, N> (mode), b = rndMat<T, N> (mode);
    auto inAB = [&] { return showM (a, N) + "| " + showM (b, N); };
    auto inA  = [&] { return showM (a, N); };
    // product, all spellings: N products per entry, at most N roundings on a path
    M c = a * b, ca = a, cs = a;
    ca *= b;
    cs *= cs;
    M csq = a * a;
    for (int i = 0; i < N; ++i) for (int j = 0; j < N; ++j)
    {
        Q s = 0, sa = 0;
        for (int k = 0; k < N; ++k) { Q t = (Q) a[i][k] * (Q) b[k][j]; s += t; sa += qabs (t); }
        check (L + "mul" + ty, N, (Q) c[i][j], s, s, u * sa, under<T> (N), mode, inAB);
        same<T> (L + "mulAssign" + ty, "bitwise", ca[i][j], c[i][j], mode, inAB);
        same<T> (L + "mulAssignSelf" + ty, "bitwise", cs[i][j], csq[i][j], mode, inA);
    }
    runStatic (a, b, c, mode);
    // transposes: slot identity
    M t1 = a.transposed (), t2 = a;
    t2.transpose ();
    for (int i = 0; i < N; ++i) for (int j = 0; j < N; ++j)
    {
        same<T> (L + "transposed" + ty, "exact", t1[i][j], a[j][i], mode, inA);
        same<T> (L + "transpose" + ty, "exact", t2[i][j], a[j][i], mode, inA);
    }
    // trace: N-1 additions, no product (extreme class: subnormal / near-overflow entries themselves)
    {
        if (mode == EXTREME) extremeCall<T> (1);
        M tr = mode == EXTREME ? rndMat<T, N> (mode) : a;
        Q s = 0, sa = 0;
        for (int i = 0; i < N; ++i) { s += (Q) tr[i][i]; sa += qabs ((Q) tr[i][i]); }
        check (L + "trace" + ty, N - 1, (Q) tr.trace (), s, s, u * sa, (Q) 0, mode, [&] { return showM (tr, N); });
    }
    // determinant
    {
        if (mode == EXTREME) extremeCall<T> (N);
        M d = mode == EXTREME ? rndMat<T, N> (mode) : a;
        if (N == 4)
        {
            // every zero pattern of the last column (Matrix44::determinant skips x[i][3] == 0): forced in turn in the sparse class
            if (mode == SPARSE)
            {
                int k = (int) ((round / NMODES) % 16);
                for (int i = 0; i < 4; ++i) d[i][3] = (k >> i & 1) ? (T) 0 : rndNonzero<T> (mode);
            }
            if (mode == SCALED && rng () % 2) { d[0][3] = d[1][3] = d[2][3] = 0; d[3][3] = 1; ++affineHits[TN<T>::idx]; } // affine pattern
            int k = 0;
            for (int i = 0; i < 4; ++i) if (d[i][3] == 0) k |= 1 << i;
            ++branchHits[TN<T>::idx][k];
        }
        int id[4] = {0, 1, 2, 3};
        Q   dq, sa;
        subDetQ (d, N, id, id, dq, sa);
        check (L + "determinant" + ty, C_DET[N], (Q) d.determinant (), dq, dq, u * sa, under<T> (N), mode, [&] { return showM (d, N); });
    }
}
// minorOf: every (r, c) against the Leibniz sum of the matrix with row r and column c removed; one row per (r, c)
template <class T> static void runMinors (int mode, long round)
{
    std::string ty = std::string (":") + TN<T>::n ();
    const Q     u  = unitRoundoff<T> ();
    if (mode == EXTREME) extremeCall<T> (2);
    Matrix33<T> a3 = rndMat<T, 3> (mode);
    if (mode == EXTREME) extremeCall<T> (3);
    Matrix44<T> a4 = rndMat<T, 4> (mode);
    char nm[40];
    for (int r = 0; r < 3; ++r) for (int c = 0; c < 3; ++c)
    {
        int rows[2], cols[2], n = 0, m = 0;
        for (int i = 0; i < 3; ++i) { if (i != r) rows[n++] = i; if (i != c) cols[m++] = i; }
        Q d, sa;
        subDetQ (a3, 2, rows, cols, d, sa);
        snprintf (nm, 40, "M33.minorOf_%d_%d", r, c);
        check (nm + ty, C_DET[2], (Q) a3.minorOf (r, c), d, d, u * sa, under<T> (2), mode, [&] { return showM (a3, 3); });
    }
    for (int r = 0; r < 4; ++r) for (int c = 0; c < 4; ++c)
    {
        int rows[3], cols[3], n = 0, m = 0;
        for (int i = 0; i < 4; ++i) { if (i != r) rows[n++] = i; if (i != c) cols[m++] = i; }
        Q d, sa;
        subDetQ (a4, 3, rows, cols, d, sa);
        snprintf (nm, 40, "M44.minorOf_%d_%d", r, c);
        check (nm + ty, C_DET[3], (Q) a4.minorOf (r, c), d, d, u * sa, under<T> (3), mode, [&] { return showM (a4, 4); });
    }
    runFastMinor (a3, mode, round);
    runFastMinor (a4, mode, round);
}

// ---- vectors, quaternions, outer products
template <class T, class V> static void dotRows (const char* L, int N, const V& a, const V& b, int mode)
{
    std::string ty = std::string (":") + TN<T>::n ();
    const Q     u  = unitRoundoff<T> ();
    auto in = [&] { return showV (a, N) + "| " + showV (b, N); };
    Q s = 0, sa = 0, s2 = 0;
    for (int i = 0; i < N; ++i) { Q t = (Q) a[i] * (Q) b[i]; s += t; sa += qabs (t); s2 += (Q) a[i] * (Q) a[i]; }
    T d = a.dot (b);
    check (std::string (L) + ".dot" + ty, N, (Q) d, s, s, u * sa, under<T> (N), mode, in);
    same<T> (std::string (L) + ".dotOp" + ty, "bitwise", a ^ b, d, mode, in);
    check (std::string (L) + ".length2" + ty, N, (Q) a.length2 (), s2, s2, u * s2, under<T> (N), mode, in);
}
template <class T> static void runVec (int mode)
{
    std::string ty = std::string (":") + TN<T>::n ();
    const Q     u  = unitRoundoff<T> ();
    if (mode == EXTREME) extremeCall<T> (2);
    Vec2<T> a2 (rnd<T> (mode), rnd<T> (mode)), b2 (rnd<T> (mode), rnd<T> (mode));
    Vec3<T> a (rnd<T> (mode), rnd<T> (mode), rnd<T> (mode)), b (rnd<T> (mode), rnd<T> (mode), rnd<T> (mode));
    Vec4<T> a4 (rnd<T> (mode), rnd<T> (mode), rnd<T> (mode), rnd<T> (mode)), b4 (rnd<T> (mode), rnd<T> (mode), rnd<T> (mode), rnd<T> (mode));
    dotRows<T> ("V2", 2, a2, b2, mode);
    dotRows<T> ("V3", 3, a, b, mode);
    dotRows<T> ("V4", 4, a4, b4, mode);
    auto in2 = [&] { return showV (a2, 2) + "| " + showV (b2, 2); };
    auto in3 = [&] { return showV (a, 3) + "| " + showV (b, 3); };
    // 2-D cross: two products, one difference
    {
        Q p = (Q) a2.x * b2.y, q = (Q) a2.y * b2.x;
        T c = a2.cross (b2);
        check ("V2.cross" + ty, 2, (Q) c, p - q, p - q, u * (qabs (p) + qabs (q)), under<T> (2), mode, in2);
        same<T> ("V2.crossOp" + ty, "bitwise", a2 % b2, c, mode, in2);
    }
    // 3-D cross, three spellings + the aliased one
    Q cx[3], cs[3];
    for (int i = 0; i < 3; ++i)
    {
        int j = (i + 1) % 3, k = (i + 2) % 3;
        Q p = (Q) a[j] * b[k], q = (Q) a[k] * b[j];
        cx[i] = p - q; cs[i] = qabs (p) + qabs (q);
    }
    {
        Vec3<T> c = a.cross (b), c2 = a % b, c3 = a, c4 = a, c5 = a % a;
        c3 %= b;
        c4 %= c4;
        for (int i = 0; i < 3; ++i)
        {
            check ("V3.cross" + ty, 2, (Q) c[i], cx[i], cx[i], u * cs[i], under<T> (2), mode, in3);
            same<T> ("V3.crossOp" + ty, "bitwise", c2[i], c[i], mode, in3);
            same<T> ("V3.crossAssign" + ty, "bitwise", c3[i], c[i], mode, in3);
            same<T> ("V3.crossAssignSelf" + ty, "bitwise", c4[i], c5[i], mode, in3);
        }
    }
    // outer products: a single rounding per entry, so the result is the correctly rounded exact product (subnormal results included)
    {
        Matrix33<T> o3 = outerProduct (a, b);
        Matrix44<T> o4 = outerProduct (a4, b4);
        for (int i = 0; i < 3; ++i) for (int j = 0; j < 3; ++j)
            same<T> ("M33.outerProduct" + ty, "exact", o3[i][j], (T) ((Q) a[i] * (Q) b[j]), mode, in3);
        for (int i = 0; i < 4; ++i) for (int j = 0; j < 4; ++j)
            same<T> ("M44.outerProduct" + ty, "exact", o4[i][j], (T) ((Q) a4[i] * (Q) b4[j]), mode, [&] { return showV (a4, 4) + "| " + showV (b4, 4); });
    }
    // quaternion product.  real part r*r' - (x*x' + y*y' + z*z'): at most 4 roundings on a path; vector part
    // r*v' + v*r' + v x v': at most 3
    {
        Quat<T> p (rnd<T> (mode), a), q (rnd<T> (mode), b), r = p * q, r2 = p, r3 = p, sq = p * p;
        r2 *= q;
        r3 *= r3;
        auto inq = [&] { char bb[80]; snprintf (bb, 80, "%.17g %.17g | ", (double) p.r, (double) q.r); return bb + in3 (); };
        Q d = 0, da = 0;
        for (int i = 0; i < 3; ++i) { Q t = (Q) a[i] * (Q) b[i]; d += t; da += qabs (t); }
        Q rr = (Q) p.r * q.r;
        check ("Quat.mul.r" + ty, 4, (Q) r.r, rr - d, rr - d, u * (qabs (rr) + da), under<T> (4), mode, inq);
        check ("Quat.euclideanInnerProduct" + ty, 4, (Q) (p ^ q), rr + d, rr + d, u * (qabs (rr) + da), under<T> (4), mode, inq);
        same<T> ("Quat.mulAssign" + ty, "bitwise", r2.r, r.r, mode, inq);
        same<T> ("Quat.mulAssignSelf" + ty, "bitwise", r3.r, sq.r, mode, inq);
        for (int i = 0; i < 3; ++i)
        {
            Q t1 = (Q) p.r * (Q) b[i], t2 = (Q) q.r * (Q) a[i];
            check ("Quat.mul.v" + ty, 3, (Q) r.v[i], t1 + t2 + cx[i], t1 + t2 + cx[i], u * (qabs (t1) + qabs (t2) + cs[i]), under<T> (4), mode, inq);
            same<T> ("Quat.mulAssign" + ty, "bitwise", r2.v[i], r.v[i], mode, inq);
            same<T> ("Quat.mulAssignSelf" + ty, "bitwise", r3.v[i], sq.v[i], mode, inq);
        }
    }
}

// ---- vector x matrix, two-type templates: S = vector element, T = matrix element
template <class S, class T> struct Types
{
    typedef decltype (S () * T ()) C;                                                        // the type the sums are computed in
    typedef typename std::conditional<sizeof (S) < sizeof (T), S, T>::type R;                // narrowest type: range of the extreme class
    static const bool narrowing = sizeof (S) < sizeof (C);
    static std::string ty ()
    {
        return std::is_same<S, T>::value ? std::string (":") + TN<S>::n () : std::string (":") + TN<S>::n () + "*" + TN<T>::n ();
    }
};
// plain sum of n terms (products, optionally the constant row), computed at C and stored to S: at most n roundings on a path
template <class S, class T, class F>
static void sumRow (const std::string& name, int nterms, S got, Q X, Q SX, int mode, F&& in)
{
    typedef Types<S, T> Ty;
    Q extra = under<typename Ty::C> (nterms) + (Ty::narrowing ? unitRoundoff<S> () * qabs (X) * SLACK + under<S> (1) : (Q) 0);
    check (name, nterms, (Q) got, X, X, unitRoundoff<typename Ty::C> () * SX, extra, mode, in);
}
// homogeneous divide: got = fl (fl (X) / fl (W)),  |fl (X) - X| <= dx = n u SX + underflow,  same for W;  requires dw <= |W| / 64
template <class S, class T, class F>
static void divRow (const std::string& name, int nterms, S got, Q X, Q SX, Q W, Q SW, int mode, F&& in)
{
    typedef Types<S, T> Ty;
    const double c = nterms * 64.0 / 63.0;
    Fam&    f  = fam (name, "bound", c);
    const Q uc = unitRoundoff<typename Ty::C> (), us = unitRoundoff<S> ();
    const Q ud = under<typename Ty::C> (nterms) + (Ty::narrowing ? under<S> (1) : (Q) 0); // absolute (underflow) part of dx, dw
    if (((Q) nterms * uc * SW + ud) * 64 > qabs (W)) { ++wcond; ++f.skipped; return; } // w itself has lost its leading digits
    Q q = X / W;
    Q unit  = uc * (SX + qabs (q) * SW) / qabs (W);
    Q extra = under<S> (1) + (Ty::narrowing ? (Q) 3.01 : (Q) 1.01) * us * qabs (q) + (Q) c * ud * (1 + qabs (q)) / qabs (W);
    check (name, c, (Q) got, q, (Q) (S) q, unit, extra, mode, in);
}
// w == 0: x / w is IEEE-defined; on the lattice x and w are exact, so the result must be the infinity of the sign of x (w is +0:
// an exactly cancelling sum, or products of zeros plus the +0 constant) or NaN when x == 0; elsewhere it must not be finite
template <class S, class F> static void wZeroRow (const std::string& name, S got, Q X, S wS, int mode, F&& in)
{
    Fam& f = fam (name, "exact", 0);
    ++f.evals; ++evals;
    if (mode == EXTREME) ++f.extreme;
    if (mode == LATTICE)
    {
        ++f.lattice; ++lattice; ++wzeroLattice;
        S want = X == 0 ? std::numeric_limits<S>::quiet_NaN () : (S) ((X > 0 ? (S) 1 : (S) -1) / wS);
        bool ok = X == 0 ? std::isnan (got) : (std::memcmp (&got, &want, sizeof (S)) == 0);
        if (!ok) failLine (name, mode, f, "not-the-IEEE-quotient-by-zero", (Q) got, (Q) want, in ());
    }
    else if (std::isfinite (got)) failLine (name, mode, f, "finite-result-of-a-division-by-zero", (Q) got, (Q) 0, in ());
}

template <class S, class T> static void runVecMat (int mode)
{
    typedef Types<S, T>      Ty;
    typedef typename Ty::C   C;
    const std::string        ty = Ty::ty ();
    const bool               mixed = !std::is_same<S, T>::value;
    if (mode == EXTREME) extremeCall<typename Ty::R> (2);
    Vec2<S>     v2 (rnd<S> (mode), rnd<S> (mode));
    Vec3<S>     v3 (rnd<S> (mode), rnd<S> (mode), rnd<S> (mode));
    Vec4<S>     v4 (rnd<S> (mode), rnd<S> (mode), rnd<S> (mode), rnd<S> (mode));
    Matrix22<T> m2 = rndMat<T, 2> (mode);
    Matrix33<T> m3 = rndMat<T, 3> (mode);
    Matrix44<T> m4 = rndMat<T, 4> (mode);
    if ((mode == SCALED || mode == GRADED) && rng () % 4 == 0) { m4[0][3] = m4[1][3] = m4[2][3] = 0; m4[3][3] = 1; m3[0][2] = m3[1][2] = 0; m3[2][2] = 1; } // affine
    if (mode == SPARSE && rng () % 8 == 0) { m4[0][3] = m4[1][3] = m4[2][3] = m4[3][3] = 0; m3[0][2] = m3[1][2] = m3[2][2] = 0; }                  // w == 0
    // matrices of the homogeneous forms: in the extreme class the constant row is added to PRODUCTS of two entries, so it gets their magnitude
    Matrix33<T> m3h = m3;
    Matrix44<T> m4h = m4;
    if (mode == EXTREME)
    {
        for (int j = 0; j < 4; ++j) m4h[3][j] = (T) ((C) m4[3][j] * (C) rnd<S> (mode));
        for (int j = 0; j < 3; ++j) m3h[2][j] = (T) ((C) m3[2][j] * (C) rnd<S> (mode));
    }
    auto in22 = [&] { return showV (v2, 2) + "| " + showM (m2, 2); };
    auto in23 = [&] { return showV (v2, 2) + "| " + showM (m3h, 3); };
    auto in33 = [&] { return showV (v3, 3) + "| " + showM (m3, 3); };
    auto in34 = [&] { return showV (v3, 3) + "| " + showM (m4h, 4); };
    auto in44 = [&] { return showV (v4, 4) + "| " + showM (m4, 4); };
    // wide copies for the "computed at the wider type, rounded once" reference of the mixed instantiations
    Matrix22<C> w2; Matrix33<C> w3, w3h; Matrix44<C> w4, w4h;
    for (int i = 0; i < 2; ++i) for (int j = 0; j < 2; ++j) w2[i][j] = (C) m2[i][j];
    for (int i = 0; i < 3; ++i) for (int j = 0; j < 3; ++j) { w3[i][j] = (C) m3[i][j]; w3h[i][j] = (C) m3h[i][j]; }
    for (int i = 0; i < 4; ++i) for (int j = 0; j < 4; ++j) { w4[i][j] = (C) m4[i][j]; w4h[i][j] = (C) m4h[i][j]; }

    // V2 x M22, V3 x M33, V4 x M44 (plain), operator and compound; M22::multDirMatrix is the same sum
    {
        Vec2<S> r = v2 * m2, ra = v2, rd;
        ra *= m2;
        m2.multDirMatrix (v2, rd);
        Vec2<C> ref = Vec2<C> ((C) v2.x, (C) v2.y) * w2, refd;
        w2.multDirMatrix (Vec2<C> ((C) v2.x, (C) v2.y), refd);
        for (int j = 0; j < 2; ++j)
        {
            if (mixed) same<S> ("M22.multDirMatrix" + ty + ":vs-widened", "bitwise", rd[j], (S) refd[j], mode, in22);
            Q X = 0, SX = 0;
            for (int i = 0; i < 2; ++i) { Q t = (Q) v2[i] * (Q) m2[i][j]; X += t; SX += qabs (t); }
            sumRow<S, T> ("V2.mulM22" + ty, 2, r[j], X, SX, mode, in22);
            sumRow<S, T> ("M22.multDirMatrix" + ty, 2, rd[j], X, SX, mode, in22);
            same<S> ("V2.mulAssignM22" + ty, "bitwise", ra[j], r[j], mode, in22);
            if (mixed) same<S> ("V2.mulM22" + ty + ":vs-widened", "bitwise", r[j], (S) ref[j], mode, in22);
        }
    }
    {
        Vec3<S> r = v3 * m3, ra = v3;
        ra *= m3;
        Vec3<C> ref = Vec3<C> ((C) v3.x, (C) v3.y, (C) v3.z) * w3;
        for (int j = 0; j < 3; ++j)
        {
            Q X = 0, SX = 0;
            for (int i = 0; i < 3; ++i) { Q t = (Q) v3[i] * (Q) m3[i][j]; X += t; SX += qabs (t); }
            sumRow<S, T> ("V3.mulM33" + ty, 3, r[j], X, SX, mode, in33);
            same<S> ("V3.mulAssignM33" + ty, "bitwise", ra[j], r[j], mode, in33);
            if (mixed) same<S> ("V3.mulM33" + ty + ":vs-widened", "bitwise", r[j], (S) ref[j], mode, in33);
        }
    }
    {
        Vec4<S> r = v4 * m4, ra = v4;
        ra *= m4;
        Vec4<C> ref = Vec4<C> ((C) v4.x, (C) v4.y, (C) v4.z, (C) v4.w) * w4;
        for (int j = 0; j < 4; ++j)
        {
            Q X = 0, SX = 0;
            for (int i = 0; i < 4; ++i) { Q t = (Q) v4[i] * (Q) m4[i][j]; X += t; SX += qabs (t); }
            sumRow<S, T> ("V4.mulM44" + ty, 4, r[j], X, SX, mode, in44);
            same<S> ("V4.mulAssignM44" + ty, "bitwise", ra[j], r[j], mode, in44);
            if (mixed) same<S> ("V4.mulM44" + ty + ":vs-widened", "bitwise", r[j], (S) ref[j], mode, in44);
        }
    }
    // V2 x M33: append 1, divide by the last homogeneous coordinate; multDirMatrix: append 0, no division
    {
        Q X[3], SX[3], D[2], SD[2];
        for (int j = 0; j < 3; ++j)
        {
            X[j] = (Q) m3h[2][j]; SX[j] = qabs (X[j]);
            Q d = 0, sd = 0;
            for (int i = 0; i < 2; ++i) { Q t = (Q) v2[i] * (Q) m3h[i][j]; d += t; sd += qabs (t); }
            X[j] += d; SX[j] += sd;
            if (j < 2) { D[j] = d; SD[j] = sd; }
        }
        Vec2<S> rd;
        m3h.multDirMatrix (v2, rd);
        Vec2<C> refd;
        w3h.multDirMatrix (Vec2<C> ((C) v2.x, (C) v2.y), refd);
        for (int j = 0; j < 2; ++j)
        {
            sumRow<S, T> ("M33.multDirMatrix" + ty, 2, rd[j], D[j], SD[j], mode, in23);
            if (mixed) same<S> ("M33.multDirMatrix" + ty + ":vs-widened", "bitwise", rd[j], (S) refd[j], mode, in23);
        }
        // the three spellings are compared with one another whatever w is
        Vec2<S> r = v2 * m3h, ra = v2, rm;
        ra *= m3h;
        m3h.multVecMatrix (v2, rm);
        Vec3<C> h = Vec3<C> ((C) v2.x, (C) v2.y, (C) 1) * w3h; // same-type plain instantiation at the wide type
        S       wS = (S) h[2];
        if (wS == 0) ++wzero;
        for (int j = 0; j < 2; ++j)
        {
            same<S> ("V2.mulAssignM33" + ty, "bitwise", ra[j], r[j], mode, in23);
            same<S> ("M33.multVecMatrix" + ty, "bitwise", rm[j], r[j], mode, in23);
            if (mixed) same<S> ("V2.mulM33" + ty + ":vs-widened", "bitwise", r[j], (S) ((S) h[j] / wS), mode, in23);
            if (wS == 0) wZeroRow<S> ("V2.mulM33" + ty + ":w-zero", r[j], X[j], wS, mode, in23);
            else divRow<S, T> ("V2.mulM33" + ty, 3, r[j], X[j], SX[j], X[2], SX[2], mode, in23);
        }
    }
    // V3 x M44
    {
        Q X[4], SX[4], D[3], SD[3];
        for (int j = 0; j < 4; ++j)
        {
            X[j] = (Q) m4h[3][j]; SX[j] = qabs (X[j]);
            Q d = 0, sd = 0;
            for (int i = 0; i < 3; ++i) { Q t = (Q) v3[i] * (Q) m4h[i][j]; d += t; sd += qabs (t); }
            X[j] += d; SX[j] += sd;
            if (j < 3) { D[j] = d; SD[j] = sd; }
        }
        Vec3<S> rd;
        m4h.multDirMatrix (v3, rd);
        Vec3<C> refd;
        w4h.multDirMatrix (Vec3<C> ((C) v3.x, (C) v3.y, (C) v3.z), refd);
        for (int j = 0; j < 3; ++j)
        {
            sumRow<S, T> ("M44.multDirMatrix" + ty, 3, rd[j], D[j], SD[j], mode, in34);
            if (mixed) same<S> ("M44.multDirMatrix" + ty + ":vs-widened", "bitwise", rd[j], (S) refd[j], mode, in34);
        }
        Vec3<S> r = v3 * m4h, ra = v3, rm;
        ra *= m4h;
        m4h.multVecMatrix (v3, rm);
        Vec4<C> h = Vec4<C> ((C) v3.x, (C) v3.y, (C) v3.z, (C) 1) * w4h;
        S       wS = (S) h[3];
        if (wS == 0) ++wzero;
        for (int j = 0; j < 3; ++j)
        {
            same<S> ("V3.mulAssignM44" + ty, "bitwise", ra[j], r[j], mode, in34);
            same<S> ("M44.multVecMatrix" + ty, "bitwise", rm[j], r[j], mode, in34);
            if (mixed) same<S> ("V3.mulM44" + ty + ":vs-widened", "bitwise", r[j], (S) ((S) h[j] / wS), mode, in34);
            if (wS == 0) wZeroRow<S> ("V3.mulM44" + ty + ":w-zero", r[j], X[j], wS, mode, in34);
            else divRow<S, T> ("V3.mulM44" + ty, 4, r[j], X[j], SX[j], X[3], SX[3], mode, in34);
        }
    }
}

int main (int argc, char** argv)
{
    rng.seed (argc > 1 ? strtoul (argv[1], 0, 10) : 1);
    long n = argc > 2 ? atol (argv[2]) : 25000;
    for (long i = 0; i < n; ++i)
    {
        int mode = (int) (i % NMODES);
        runMat<float, 2> (mode, i); runMat<float, 3> (mode, i); runMat<float, 4> (mode, i);
        runMat<double, 2> (mode, i); runMat<double, 3> (mode, i); runMat<double, 4> (mode, i);
        runMinors<float> (mode, i); runMinors<double> (mode, i);
        runVec<float> (mode); runVec<double> (mode);
        runVecMat<float, float> (mode); runVecMat<double, double> (mode);
        runVecMat<float, double> (mode); runVecMat<double, float> (mode);
    }
    double worst = 0, worstX = 0;
    for (auto& kv : fams) { worst = std::max (worst, kv.second.worst); worstX = std::max (worstX, kv.second.worstX); }
    long fm33 = 0, fm44 = 0;
    for (char c : fm33seen) fm33 += c;
    for (char c : fm44seen) fm44 += c;
    for (auto& kv : fams)
        printf ("FAMILY %s kind=%s c=%.6g evals=%ld lattice=%ld extreme=%ld skipped=%ld fails=%ld worst_frac=%.6f worst_frac_extreme=%.6f mean_frac=%.6f mean_frac_extreme=%.6f\n",
                kv.first.c_str (), kv.second.kind.c_str (), kv.second.c, kv.second.evals, kv.second.lattice, kv.second.extreme, kv.second.skipped, kv.second.fails,
                kv.second.worst, kv.second.worstX, kv.second.cnt ? kv.second.sum / kv.second.cnt : 0.0, kv.second.cntX ? kv.second.sumX / kv.second.cntX : 0.0);
    printf ("RESIDUE evals=%ld lattice_exact=%ld failures=%ld worst_frac=%.6f worst_frac_extreme=%.6f w_zero_cases=%ld w_zero_lattice_checked=%ld "
            "w_illconditioned_skipped=%ld extreme_calls_underflow=%ld extreme_calls_overflow=%ld fastminor33_tuples=%ld fastminor44_tuples=%ld affine_hits=%ld,%ld",
            evals, lattice, failures, worst, worstX, wzero, wzeroLattice, wcond, xband[0], xband[1], fm33, fm44, affineHits[0], affineHits[1]);
    for (int t = 0; t < 2; ++t)
    {
        printf (" det44_zero_pattern_hits_%s=", t ? "double" : "float");
        for (int k = 0; k < 16; ++k) printf ("%ld,", branchHits[t][k]);
    }
    printf ("\n");
    return failures ? 1 : 0;
}
