// Correspondence / small-scope harness for C13 (Box, Interval, box algorithms, box transforms).
// Calls the REAL code of /repo/src/Imath/{ImathBox.h,ImathInterval.h,ImathBoxAlgo.h} in-process and compares it
// with the SET SEMANTICS computed independently here (integer arithmetic on a half-step lattice, brute force
// over lattice points) — the property's own quantifier:
//
//   members <quick|thorough> <seed>
//        element types int, short, float, double; Interval (1-D), Box<Vec2>, Box<Vec3> (the unrolled
//        specialisations) and Box<Vec4> (the generic template).  EVERY min/max pair over the coordinate lattice
//        (incl. inverted pairs) x every point (for float types also the half steps):
//          intersects(point) = membership; intersects(box,box) = "the two sets share a lattice point" and symmetric;
//          isEmpty = "no point inside"; hasVolume, size, center, majorAxis, isInfinite, ==, != as functions of min/max;
//          default / makeEmpty contain nothing, makeInfinite contains everything;
//          every extendBy sequence of points up to length 3 and of points/boxes up to length 2 (+ sampled mixed
//          length 3) from the default box = least box containing what was added;
//          clip / closestPointInBox = brute-force nearest point of the box; closestPointOnBox = on the surface and as
//          near as the brute-force nearest surface point; the point itself for an empty box.
//   random <seed> <n>
//        float/double boxes and points incl. extremes (0, denormals, 1e30, max, infinities): the same laws.
//   transform <seed> <n>
//        all four overloads of transform / affineTransform at float and double on lattice + dyadic affine and
//        projective matrices x boxes incl. empty and infinite: vs the 8-corner bound computed independently (exact
//        int64 fractions), containment of images of box points, agreement of the overloads whatever the old `result`
//        holds, empty -> empty, infinite -> infinite; plus random float matrices (tolerance, measured).
//        Lines "T ..." are the input of lean/Driver/BoxTransform.lean (model correspondence, exact).
//
// Output: "SUMMARY <test> evals=<n> nontrivial=<n> fails=<n>", "FAIL <key> <details>" (first few per key),
//         "COUNT <key> <n>".
#include <ImathBox.h>
#include <ImathBoxAlgo.h>
#include <ImathInterval.h>
#include <ImathMatrix.h>
#include <ImathVec.h>
#include <array>
#include <atomic>
#include <cinttypes>
#include <cmath>
#include <cstdint>
#include <cstdio>
#include <cstdlib>
#include <cstring>
#include <limits>
#include <map>
#include <mutex>
#include <random>
#include <sstream>
#include <string>
#include <thread>
#include <vector>
using namespace IMATH_NAMESPACE;

//---------------------------------------------------------------------------------------------
// reporting

static std::mutex                  g_mu;
static std::map<std::string, long> g_failCount;
static std::map<std::string, int>  g_failPrinted;
static void                        fail (const std::string& key, const std::string& detail)
{
    std::lock_guard<std::mutex> l (g_mu);
    ++g_failCount[key];
    if (g_failPrinted[key]++ < 3) printf ("FAIL %s | %s\n", key.c_str (), detail.c_str ());
}
// per-law evaluation counts for the members / random modes (audit r2 N5): a law whose loop is skipped cannot fail.
// Thread-local tallies keyed by the two string LITERALS that make up the law key; merged under g_mu when a thread ends / on flush.
static std::map<std::string, long> g_lawEvals;
struct LawTally
{
    std::map<std::pair<const char*, const char*>, long> m;
    void flush ()
    {
        std::lock_guard<std::mutex> l (g_mu);
        for (auto& kv : m) g_lawEvals[std::string (kv.first.first) + kv.first.second] += kv.second;
        m.clear ();
    }
    ~LawTally () { flush (); }
};
static thread_local LawTally tl_law;
static inline void lawEval (const char* cls, const char* suffix, long n = 1) { tl_law.m[{cls, suffix}] += n; }
struct Tally
{
    std::atomic<long> evals{0}, nontrivial{0};
};
static void summary (const std::string& name, const Tally& t)
{
    printf ("SUMMARY %s evals=%ld nontrivial=%ld\n", name.c_str (), t.evals.load (), t.nontrivial.load ());
}
static unsigned nthreads ()
{
    unsigned n = std::thread::hardware_concurrency ();
    return n ? n : 4;
}
template <class F> static void parfor (long n, F f)
{
    unsigned                 nt = nthreads ();
    std::vector<std::thread> th;
    for (unsigned t = 0; t < nt; ++t)
        th.emplace_back ([&, t] {
            for (long i = t; i < n; i += nt) f (i);
        });
    for (auto& t : th) t.join ();
}

//---------------------------------------------------------------------------------------------
// shapes: D = 1 Interval<T>, 2/3 the specialisations, 4 the generic template

template <class T, int D> struct Tr;
template <class T> struct Tr<T, 1>
{
    typedef T           P;
    typedef Interval<T> B;
    static T&           at (P& p, int) { return p; }
    static const T&     at (const P& p, int) { return p; }
    static const char*  name () { return "Interval"; }
    static const char*  cls () { return "interval"; }
};
template <class T> struct Tr<T, 2>
{
    typedef Vec2<T>      P;
    typedef Box<Vec2<T>> B;
    static T&            at (P& p, int i) { return p[i]; }
    static const T&      at (const P& p, int i) { return p[i]; }
    static const char*   name () { return "Box<Vec2>"; }
    static const char*   cls () { return "box"; }
};
template <class T> struct Tr<T, 3>
{
    typedef Vec3<T>      P;
    typedef Box<Vec3<T>> B;
    static T&            at (P& p, int i) { return p[i]; }
    static const T&      at (const P& p, int i) { return p[i]; }
    static const char*   name () { return "Box<Vec3>"; }
    static const char*   cls () { return "box"; }
};
template <class T> struct Tr<T, 4>
{
    typedef Vec4<T>      P;
    typedef Box<Vec4<T>> B;
    static T&            at (P& p, int i) { return p[i]; }
    static const T&      at (const P& p, int i) { return p[i]; }
    static const char*   name () { return "Box<Vec4>(generic)"; }
    static const char*   cls () { return "box"; }
};
template <class T> struct TName;
template <> struct TName<int> { static const char* s () { return "int"; } };
template <> struct TName<short> { static const char* s () { return "short"; } };
template <> struct TName<float> { static const char* s () { return "float"; } };
template <> struct TName<double> { static const char* s () { return "double"; } };

// coordinates are kept in HALF units (value = h/2); integer types only use even h
template <int D> using IP = std::array<int, D>;
template <class T> static T fromHalf (int h)
{
    if (std::numeric_limits<T>::is_integer) return (T) (h / 2);
    return (T) ((double) h / 2.0);
}
template <class T, int D> static typename Tr<T, D>::P mkP (const IP<D>& p)
{
    typename Tr<T, D>::P r{};
    for (int i = 0; i < D; ++i) Tr<T, D>::at (r, i) = fromHalf<T> (p[i]);
    return r;
}
template <class T, int D> static typename Tr<T, D>::B mkB (const IP<D>& lo, const IP<D>& hi)
{
    return typename Tr<T, D>::B (mkP<T, D> (lo), mkP<T, D> (hi));
}
template <int D> static std::string ipStr (const IP<D>& p)
{
    std::ostringstream s;
    s << "(";
    for (int i = 0; i < D; ++i) s << (i ? "," : "") << p[i] / 2.0;
    s << ")";
    return s.str ();
}
template <class T, int D> static std::string pStr (const typename Tr<T, D>::P& p)
{
    std::ostringstream s;
    s.precision (9);
    s << "(";
    for (int i = 0; i < D; ++i) s << (i ? "," : "") << (double) Tr<T, D>::at (p, i);
    s << ")";
    return s.str ();
}
template <class T, int D> static std::string tag ()
{
    return std::string (Tr<T, D>::name ()) + "<" + TName<T>::s () + ">";
}

// independent set semantics
template <int D> static bool specMem (const IP<D>& lo, const IP<D>& hi, const IP<D>& p)
{
    for (int i = 0; i < D; ++i)
        if (!(lo[i] <= p[i] && p[i] <= hi[i])) return false;
    return true;
}
template <int D> static bool specInverted (const IP<D>& lo, const IP<D>& hi)
{
    for (int i = 0; i < D; ++i)
        if (hi[i] < lo[i]) return true;
    return false;
}

// all tuples over a coordinate list
template <int D> static std::vector<IP<D>> tuples (const std::vector<int>& c)
{
    std::vector<IP<D>> r;
    long               n = 1;
    for (int i = 0; i < D; ++i) n *= (long) c.size ();
    for (long k = 0; k < n; ++k)
    {
        IP<D> p;
        long  q = k;
        for (int i = 0; i < D; ++i) { p[i] = c[q % c.size ()]; q /= (long) c.size (); }
        r.push_back (p);
    }
    return r;
}

template <class T, int D> struct Members
{
    typedef Tr<T, D>      X;
    typedef typename X::P P;
    typedef typename X::B B;
    std::vector<int>      boxC, ptC; // half units
    std::vector<IP<D>>    corners, pts;
    bool                  thorough;
    unsigned long         seed;
    std::string           tg;

    Members (bool th, unsigned long sd) : thorough (th), seed (sd), tg (tag<T, D> ())
    {
        bool isInt = std::numeric_limits<T>::is_integer;
        int  lo = -1, hi = 2; // units
        if (D == 4) { lo = 0; hi = 2; }
        if (thorough && D <= 2) { lo = -2; hi = 2; }
        for (int u = lo; u <= hi; ++u) boxC.push_back (2 * u);
        if (isInt)
            for (int u = lo - 1; u <= hi + 1; ++u) ptC.push_back (2 * u);
        else
            for (int h = 2 * lo - 1; h <= 2 * hi + 1; ++h) ptC.push_back (h);
        if (D == 4 && !isInt)
        {
            ptC.clear ();
            for (int h = 2 * lo; h <= 2 * hi; ++h) ptC.push_back (h);
        }
        corners = tuples<D> (boxC);
        pts     = tuples<D> (ptC);
    }
    long nBoxes () const { return (long) corners.size () * (long) corners.size (); }
    void box (long k, IP<D>& lo, IP<D>& hi) const
    {
        lo = corners[k % (long) corners.size ()];
        hi = corners[k / (long) corners.size ()];
    }
    std::string boxStr (const IP<D>& lo, const IP<D>& hi) const { return "min=" + ipStr<D> (lo) + " max=" + ipStr<D> (hi); }

    //-----------------------------------------------------------------------------------------
    void pointsAndQueries ()
    {
        Tally t;
        parfor (nBoxes (), [&] (long k) {
            IP<D> lo, hi;
            box (k, lo, hi);
            B    b     = mkB<T, D> (lo, hi);
            long nin   = 0;
            for (auto& p : pts)
            {
                bool s = specMem<D> (lo, hi, p);
                bool r = b.intersects (mkP<T, D> (p));
                nin += s;
                if (r != s) fail (std::string (X::cls ()) + "-intersects-point", tg + " " + boxStr (lo, hi) + " p=" + ipStr<D> (p) + " impl=" + (r ? "true" : "false"));
            }
            t.evals += (long) pts.size ();
            t.nontrivial += nin;
            lawEval (X::cls (), "-intersects-point", (long) pts.size ());
            // isEmpty <-> no point inside (brute force)
            if (lawEval (X::cls (), "-isEmpty"), (b.isEmpty () != (nin == 0))) fail (std::string (X::cls ()) + "-isEmpty", tg + " " + boxStr (lo, hi) + " impl=" + (b.isEmpty () ? "true" : "false"));
            bool vol = true;
            for (int i = 0; i < D; ++i) vol = vol && lo[i] < hi[i];
            if (lawEval (X::cls (), "-hasVolume"), (b.hasVolume () != vol)) fail (std::string (X::cls ()) + "-hasVolume", tg + " " + boxStr (lo, hi));
            if (lawEval (X::cls (), "-isInfinite"), (b.isInfinite ())) fail (std::string (X::cls ()) + "-isInfinite", tg + " " + boxStr (lo, hi) + " reported infinite");
            // size, center
            P sz = b.size (), ce = b.center ();
            bool inv = specInverted<D> (lo, hi);
            for (int i = 0; i < D; ++i)
            {
                T es = inv ? T (0) : T (fromHalf<T> (hi[i]) - fromHalf<T> (lo[i]));
                if (lawEval (X::cls (), "-size"), (X::at (sz, i) != es)) fail (std::string (X::cls ()) + "-size", tg + " " + boxStr (lo, hi) + " size=" + pStr<T, D> (sz));
                T ec = T ((fromHalf<T> (hi[i]) + fromHalf<T> (lo[i])) / 2);
                if (!std::numeric_limits<T>::is_integer) ec = (T) ((hi[i] + lo[i]) / 4.0);
                if (lawEval (X::cls (), "-center"), (X::at (ce, i) != ec)) fail (std::string (X::cls ()) + "-center", tg + " " + boxStr (lo, hi) + " center=" + pStr<T, D> (ce));
            }
            t.evals += 6;
        });
        summary ("points+queries:" + tg, t);
    }

    template <int DD = D> typename std::enable_if<(DD > 1)>::type majorAxis ()
    {
        Tally t;
        for (long k = 0; k < nBoxes (); ++k)
        {
            IP<D> lo, hi;
            box (k, lo, hi);
            B    b   = mkB<T, D> (lo, hi);
            bool inv = specInverted<D> (lo, hi);
            int  best = 0;
            for (int i = 1; i < D; ++i)
            {
                int si = inv ? 0 : hi[i] - lo[i], sb = inv ? 0 : hi[best] - lo[best];
                if (si > sb) best = i;
            }
            if (lawEval ("", "box-majorAxis"), ((int) b.majorAxis () != best)) fail ("box-majorAxis", tg + " " + boxStr (lo, hi) + " impl=" + std::to_string (b.majorAxis ()) + " spec=" + std::to_string (best));
            ++t.evals;
            if (best) ++t.nontrivial;
        }
        summary ("majorAxis:" + tg, t);
    }
    template <int DD = D> typename std::enable_if<(DD == 1)>::type majorAxis () {}

    //-----------------------------------------------------------------------------------------
    void specialBoxes ()
    {
        Tally t;
        B     d;                 // default
        B     e = mkB<T, D> (corners[0], corners[0]);
        e.makeEmpty ();
        B inf = e;
        inf.makeInfinite ();
        T      lowest = std::numeric_limits<T>::lowest (), mx = std::numeric_limits<T>::max ();
        auto   ext    = pts;
        IP<D>  dummy{};
        std::vector<P> probes;
        for (auto& p : pts) probes.push_back (mkP<T, D> (p));
        for (int m = 0; m < (1 << D); ++m)
        {
            P p{};
            for (int i = 0; i < D; ++i) X::at (p, i) = (m >> i & 1) ? mx : lowest;
            probes.push_back (p);
        }
        for (auto& p : probes)
        {
            if (lawEval (X::cls (), "-default-contains"), (d.intersects (p))) fail (std::string (X::cls ()) + "-default-contains", tg + " default box contains " + pStr<T, D> (p));
            if (lawEval (X::cls (), "-makeEmpty-contains"), (e.intersects (p))) fail (std::string (X::cls ()) + "-makeEmpty-contains", tg + " makeEmpty box contains " + pStr<T, D> (p));
            if (lawEval (X::cls (), "-makeInfinite-misses"), (!inf.intersects (p))) fail (std::string (X::cls ()) + "-makeInfinite-misses", tg + " makeInfinite box misses " + pStr<T, D> (p));
            t.evals += 3;
            ++t.nontrivial;
        }
        if (lawEval (X::cls (), "-default-empty"), (!d.isEmpty () || !e.isEmpty () || d != e || !(d == e))) fail (std::string (X::cls ()) + "-default-empty", tg + " default/makeEmpty not empty or unequal");
        if (lawEval (X::cls (), "-isInfinite"), (!inf.isInfinite () || inf.isEmpty ())) fail (std::string (X::cls ()) + "-isInfinite", tg + " makeInfinite box not reported infinite");
        // DESIGN §7 item 5 (repaired): empty vs infinite
        // (reported by pairs() on the lattice as well; here the literal makeEmpty / makeInfinite pair)
        {
            // the former counterexample to *_intersectsBox_iff (repaired in /repo 955f533): the inverted box [5,-5] against [-5,5]
            IP<D> a, c;
            for (int i = 0; i < D; ++i) { a[i] = 10; c[i] = -10; }
            B wE = mkB<T, D> (a, c), wI = mkB<T, D> (c, a);
            std::lock_guard<std::mutex> l (g_mu);
            printf ("WITNESS %s intersectsBox empty-vs-containing: [5..-5].intersects([-5..5]) = %d, [5..-5].isEmpty() = %d\n", tg.c_str (), (int) wE.intersects (wI), (int) wE.isEmpty ());
        }
        if (lawEval (X::cls (), "-intersects:empty-vs-containing"), (e.intersects (inf) || inf.intersects (e)))
            fail (std::string (X::cls ()) + "-intersects:empty-vs-containing",
                  tg + " makeEmpty().intersects(makeInfinite()) = " + (e.intersects (inf) ? "true" : "false") + ", reverse = " + (inf.intersects (e) ? "true" : "false") +
                      " although the empty box contains no point");
        t.evals += 2;
        // == / != on all lattice boxes against a few neighbours
        long nb = nBoxes ();
        for (long k = 0; k < nb; ++k)
        {
            IP<D> lo, hi, lo2, hi2;
            box (k, lo, hi);
            B b = mkB<T, D> (lo, hi);
            for (long j : {k, (k + 1) % nb, (k * 7 + 3) % nb, (k + (long) corners.size ()) % nb})
            {
                box (j, lo2, hi2);
                B    c  = mkB<T, D> (lo2, hi2);
                bool eq = lo == lo2 && hi == hi2;
                if (lawEval (X::cls (), "-equality"), ((b == c) != eq || (b != c) == eq)) fail (std::string (X::cls ()) + "-equality", tg + " " + boxStr (lo, hi) + " vs " + boxStr (lo2, hi2));
                ++t.evals;
            }
        }
        summary ("special+equality:" + tg, t);
    }

    //-----------------------------------------------------------------------------------------
    void pairs ()
    {
        Tally t;
        long  nb = nBoxes ();
        int   W  = (int) ((pts.size () + 63) / 64);
        std::vector<uint64_t> bits ((size_t) nb * W, 0);
        std::vector<char>     inv (nb);
        std::vector<B>        bx (nb);
        for (long k = 0; k < nb; ++k)
        {
            IP<D> lo, hi;
            box (k, lo, hi);
            bx[k]  = mkB<T, D> (lo, hi);
            inv[k] = specInverted<D> (lo, hi);
            for (size_t j = 0; j < pts.size (); ++j)
                if (specMem<D> (lo, hi, pts[j])) bits[(size_t) k * W + j / 64] |= 1ull << (j % 64);
        }
        std::atomic<long> nEmptyWrong{0};
        parfor (nb, [&] (long a) {
            long tr = 0;
            for (long b = 0; b < nb; ++b)
            {
                bool s = false;
                for (int w = 0; w < W; ++w) s = s || (bits[(size_t) a * W + w] & bits[(size_t) b * W + w]);
                bool r = bx[a].intersects (bx[b]);
                tr += s;
                // which of the two laws this pair evaluates: an empty operand -> "empty-vs-containing", otherwise "nonempty-boxes"
                lawEval (X::cls (), (inv[a] || inv[b]) ? "-intersects:empty-vs-containing" : "-intersects:nonempty-boxes");
                if (a < b) lawEval (X::cls (), "-intersects:asymmetric");
                if (r != s)
                {
                    IP<D> lo, hi, lo2, hi2;
                    box (a, lo, hi);
                    box (b, lo2, hi2);
                    std::string det = tg + " this:" + boxStr (lo, hi) + " arg:" + boxStr (lo2, hi2) + " impl=" + (r ? "true" : "false") + " sets-share-a-point=" + (s ? "true" : "false");
                    if (r && !s && (inv[a] || inv[b]))
                    {
                        ++nEmptyWrong;
                        fail (std::string (X::cls ()) + "-intersects:empty-vs-containing", det);
                    }
                    else
                        fail (std::string (X::cls ()) + "-intersects:nonempty-boxes", det);
                }
                if (a < b && r != bx[b].intersects (bx[a]))
                {
                    IP<D> lo, hi, lo2, hi2;
                    box (a, lo, hi);
                    box (b, lo2, hi2);
                    fail (std::string (X::cls ()) + "-intersects:asymmetric", tg + " " + boxStr (lo, hi) + " vs " + boxStr (lo2, hi2));
                }
            }
            t.evals += nb;
            t.nontrivial += tr;
        });
        summary ("box-pairs:" + tg, t);
        printf ("COUNT %s-intersects:empty-vs-containing:%s %ld\n", X::cls (), tg.c_str (), nEmptyWrong.load ());
    }

    //-----------------------------------------------------------------------------------------
    struct Arg
    {
        bool  isBox, canonEmpty;
        IP<D> lo, hi;
    };
    void checkSeq (const std::vector<const Arg*>& seq, Tally& t)
    {
        B     b;
        bool  has = false;
        IP<D> lo{}, hi{};
        for (auto* a : seq)
        {
            if (a->isBox)
            {
                if (a->canonEmpty) { B e; b.extendBy (e); continue; }
                b.extendBy (mkB<T, D> (a->lo, a->hi));
            }
            else
                b.extendBy (mkP<T, D> (a->lo));
            for (int i = 0; i < D; ++i)
            {
                lo[i] = has ? std::min (lo[i], a->lo[i]) : a->lo[i];
                hi[i] = has ? std::max (hi[i], a->hi[i]) : a->hi[i];
            }
            has = true;
        }
        ++t.evals;
        bool ok;
        if (!has) ok = b.isEmpty () && b == B ();
        else
        {
            ++t.nontrivial;
            ok = b.min == mkP<T, D> (lo) && b.max == mkP<T, D> (hi);
        }
        lawEval (X::cls (), "-extendBy:not-least");
        if (!ok)
        {
            std::string d = tg + " sequence from the default box:";
            for (auto* a : seq) d += a->isBox ? (a->canonEmpty ? " box(empty)" : " box[" + ipStr<D> (a->lo) + ".." + ipStr<D> (a->hi) + "]") : " pt" + ipStr<D> (a->lo);
            d += " result min=" + pStr<T, D> (b.min) + " max=" + pStr<T, D> (b.max) + " expected " + (has ? "min=" + ipStr<D> (lo) + " max=" + ipStr<D> (hi) : "empty");
            fail (std::string (X::cls ()) + "-extendBy:not-least", d);
        }
    }
    void sequences ()
    {
        Tally            t;
        std::vector<Arg> P0, A;
        for (auto& c : corners) P0.push_back (Arg{false, false, c, c});
        A = P0;
        for (long k = 0; k < nBoxes (); ++k)
        {
            IP<D> lo, hi;
            box (k, lo, hi);
            if (!specInverted<D> (lo, hi)) A.push_back (Arg{true, false, lo, hi});
        }
        A.push_back (Arg{true, true, {}, {}});
        long np = (long) P0.size (), na = (long) A.size ();
        // all point sequences of length 0..3 (length 3 capped for the 4-D lattice in the quick tier)
        std::vector<const Arg*> s;
        checkSeq (s, t);
        bool len3 = !(D == 4 && !thorough);
        parfor (np, [&] (long i) {
            Tally lt;
            std::vector<const Arg*> q{&P0[i]};
            checkSeq (q, lt);
            for (long j = 0; j < np; ++j)
            {
                q.resize (1); q.push_back (&P0[j]);
                checkSeq (q, lt);
                if (!len3) continue;
                for (long k = 0; k < np; ++k)
                {
                    q.resize (2); q.push_back (&P0[k]);
                    checkSeq (q, lt);
                }
            }
            t.evals += lt.evals.load (); t.nontrivial += lt.nontrivial.load ();
        });
        // all sequences of length 1..2 over points + non-inverted boxes + the empty box
        long cap = (D == 4 && !thorough) ? 400 : na;
        parfor (na, [&] (long i) {
            Tally lt;
            std::vector<const Arg*> q{&A[i]};
            checkSeq (q, lt);
            for (long j = 0; j < na; ++j)
            {
                if (cap < na && (i * 31 + j * 17) % na >= cap) continue;
                q.resize (1); q.push_back (&A[j]);
                checkSeq (q, lt);
            }
            t.evals += lt.evals.load (); t.nontrivial += lt.nontrivial.load ();
        });
        // sampled mixed sequences of length 3
        std::mt19937_64 g (seed * 7919 + D * 13 + sizeof (T));
        long            ns = thorough ? 2000000 : 200000;
        for (long n = 0; n < ns; ++n)
        {
            std::vector<const Arg*> q{&A[g () % na], &A[g () % na], &A[g () % na]};
            checkSeq (q, t);
        }
        summary ("extendBy-sequences:" + tg, t);
    }

    //-----------------------------------------------------------------------------------------
    template <int DD = D> typename std::enable_if<(DD > 1)>::type clipTests ()
    {
        Tally              t;
        std::vector<long>  good;
        for (long k = 0; k < nBoxes (); ++k)
        {
            IP<D> lo, hi;
            box (k, lo, hi);
            if (!specInverted<D> (lo, hi)) good.push_back (k);
        }
        parfor ((long) good.size (), [&] (long gi) {
            IP<D> lo, hi;
            box (good[gi], lo, hi);
            B b = mkB<T, D> (lo, hi);
            std::vector<const IP<D>*> inside;
            for (auto& q : pts)
                if (specMem<D> (lo, hi, q)) inside.push_back (&q);
            for (auto& p : pts)
            {
                long         best = -1;
                const IP<D>* arg  = nullptr;
                int          ties = 0;
                for (auto* q : inside)
                {
                    long d2 = 0;
                    for (int i = 0; i < D; ++i) d2 += (long) ((*q)[i] - p[i]) * ((*q)[i] - p[i]);
                    if (best < 0 || d2 < best) { best = d2; arg = q; ties = 1; }
                    else if (d2 == best) ++ties;
                }
                P r  = clip (mkP<T, D> (p), b);
                P r2 = closestPointInBox (mkP<T, D> (p), b);
                if (lawEval ("", "clip:not-nearest"), (!(r == mkP<T, D> (*arg)) || ties != 1))
                    fail ("clip:not-nearest", tg + " " + boxStr (lo, hi) + " p=" + ipStr<D> (p) + " clip=" + pStr<T, D> (r) + " brute-force nearest=" + ipStr<D> (*arg));
                if (lawEval ("", "closestPointInBox:differs-from-clip"), (!(r2 == r))) fail ("closestPointInBox:differs-from-clip", tg + " " + boxStr (lo, hi) + " p=" + ipStr<D> (p));
                ++t.evals;
                if (best > 0) ++t.nontrivial;
            }
        });
        summary ("clip:" + tg, t);
    }
    template <int DD = D> typename std::enable_if<(DD == 1)>::type clipTests () {}

    template <int DD = D> typename std::enable_if<(DD == 3)>::type onBoxTests ()
    {
        Tally t;
        parfor (nBoxes (), [&] (long k) {
            IP<D> lo, hi;
            box (k, lo, hi);
            B    b   = mkB<T, D> (lo, hi);
            bool inv = specInverted<D> (lo, hi);
            std::vector<const IP<D>*> surf;
            if (!inv)
                for (auto& q : pts)
                {
                    if (!specMem<D> (lo, hi, q)) continue;
                    bool on = false;
                    for (int i = 0; i < D; ++i) on = on || q[i] == lo[i] || q[i] == hi[i];
                    if (on) surf.push_back (&q);
                }
            for (auto& p : pts)
            {
                P pp = mkP<T, D> (p);
                P r  = closestPointOnBox (pp, b);
                ++t.evals;
                if (inv)
                {
                    if (lawEval ("", "closestPointOnBox:empty-box-not-identity"), (!(r == pp))) fail ("closestPointOnBox:empty-box-not-identity", tg + " " + boxStr (lo, hi) + " p=" + ipStr<D> (p) + " result=" + pStr<T, D> (r));
                    continue;
                }
                ++t.nontrivial;
                long best = -1;
                for (auto* q : surf)
                {
                    long d2 = 0;
                    for (int i = 0; i < D; ++i) d2 += (long) ((*q)[i] - p[i]) * ((*q)[i] - p[i]);
                    if (best < 0 || d2 < best) best = d2;
                }
                // result in half units (exact: all values are multiples of 1/2, or integers for the integer types)
                IP<D> rh;
                bool  exact = true;
                for (int i = 0; i < D; ++i)
                {
                    double v = 2.0 * (double) X::at (r, i);
                    rh[i]    = (int) std::lrint (v);
                    exact    = exact && (double) rh[i] == v;
                }
                bool on = false;
                for (int i = 0; i < D; ++i) on = on || rh[i] == lo[i] || rh[i] == hi[i];
                long d2 = 0;
                for (int i = 0; i < D; ++i) d2 += (long) (rh[i] - p[i]) * (rh[i] - p[i]);
                lawEval ("", "closestPointOnBox:not-on-surface"); lawEval ("", "closestPointOnBox:not-nearest");
                if (!exact || !specMem<D> (lo, hi, rh) || !on)
                    fail ("closestPointOnBox:not-on-surface", tg + " " + boxStr (lo, hi) + " p=" + ipStr<D> (p) + " result=" + pStr<T, D> (r));
                else if (d2 != best)
                    fail ("closestPointOnBox:not-nearest", tg + " " + boxStr (lo, hi) + " p=" + ipStr<D> (p) + " result=" + pStr<T, D> (r) + " dist2(half units)=" + std::to_string (d2) + " best=" + std::to_string (best));
            }
        });
        summary ("closestPointOnBox:" + tg, t);
    }
    template <int DD = D> typename std::enable_if<(DD != 3)>::type onBoxTests () {}

    void all ()
    {
        pointsAndQueries ();
        majorAxis ();
        specialBoxes ();
        pairs ();
        sequences ();
        clipTests ();
        onBoxTests ();
    }
};

template <class T> static void membersT (bool th, unsigned long seed)
{
    Members<T, 1> (th, seed).all ();
    Members<T, 2> (th, seed).all ();
    Members<T, 3> (th, seed).all ();
    Members<T, 4> (th, seed).all ();
}

//---------------------------------------------------------------------------------------------
// random float/double boxes incl. extremes

template <class T> static T rndVal (std::mt19937_64& g)
{
    static const double sp[] = {0.0, -0.0, 1.0, -1.0, 0.5, 2.0, 1e-30, -1e-30, 1e30, -1e30};
    T mx = std::numeric_limits<T>::max (), dn = std::numeric_limits<T>::denorm_min (), inf = std::numeric_limits<T>::infinity ();
    switch (g () % 8)
    {
        case 0: return (T) sp[g () % 10];
        case 1: { T e[] = {mx, (T) -mx, dn, (T) -dn, inf, (T) -inf, std::numeric_limits<T>::min (), (T) (mx / 2)}; return e[g () % 8]; }
        case 2: return (T) ((long) (g () % 9) - 4);
        default: { std::uniform_real_distribution<double> U (-4, 4); return (T) (U (g) * std::pow (10.0, (double) ((long) (g () % 5) - 2) * (g () % 3 == 0 ? 10 : 1))); }
    }
}
template <class T> static void randomT (unsigned long seed, long n)
{
    std::mt19937_64 g (seed * 1000003 + sizeof (T));
    Tally           t;
    std::string     tg = std::string ("Box<Vec3<") + TName<T>::s () + ">>";
    typedef Vec3<T> V;
    auto mem = [] (const Box<V>& b, const V& p) {
        for (int i = 0; i < 3; ++i)
            if (!(b.min[i] <= p[i] && p[i] <= b.max[i])) return false;
        return true;
    };
    auto vs = [] (const V& v) { std::ostringstream s; s.precision (9); s << "(" << (double) v.x << "," << (double) v.y << "," << (double) v.z << ")"; return s.str (); };
    for (long k = 0; k < n; ++k)
    {
        Box<V> a (V (rndVal<T> (g), rndVal<T> (g), rndVal<T> (g)), V (rndVal<T> (g), rndVal<T> (g), rndVal<T> (g)));
        Box<V> b (V (rndVal<T> (g), rndVal<T> (g), rndVal<T> (g)), V (rndVal<T> (g), rndVal<T> (g), rndVal<T> (g)));
        if (g () % 3 == 0)
            for (int i = 0; i < 3; ++i)
                if (a.max[i] < a.min[i]) std::swap (a.max[i], a.min[i]);
        if (g () % 3 == 0)
            for (int i = 0; i < 3; ++i)
                if (b.max[i] < b.min[i]) std::swap (b.max[i], b.min[i]);
        V p (rndVal<T> (g), rndVal<T> (g), rndVal<T> (g));
        if (g () % 4 == 0) p = a.min;
        if (g () % 7 == 0) p = a.max;
        ++t.evals;
        if (lawEval ("", "box-intersects-point:random"), (a.intersects (p) != mem (a, p))) fail ("box-intersects-point:random", tg + " min=" + vs (a.min) + " max=" + vs (a.max) + " p=" + vs (p));
        // shared point: candidates are the componentwise max of the mins and min of the maxes
        V c1, c2;
        for (int i = 0; i < 3; ++i) { c1[i] = a.min[i] < b.min[i] ? b.min[i] : a.min[i]; c2[i] = a.max[i] < b.max[i] ? a.max[i] : b.max[i]; }
        bool share = (mem (a, c1) && mem (b, c1)) || (mem (a, c2) && mem (b, c2));
        bool r     = a.intersects (b);
        if (share) ++t.nontrivial;
        lawEval ("", (a.isEmpty () || b.isEmpty ()) ? "box-intersects:empty-vs-containing" : "box-intersects:nonempty-boxes");
        if (r != share)
        {
            bool e = a.isEmpty () || b.isEmpty ();
            fail (r && e ? "box-intersects:empty-vs-containing" : "box-intersects:nonempty-boxes",
                  tg + " random: this min=" + vs (a.min) + " max=" + vs (a.max) + " arg min=" + vs (b.min) + " max=" + vs (b.max) + " impl=" + (r ? "true" : "false"));
        }
        if (lawEval ("", "box-intersects:asymmetric"), (r != b.intersects (a))) fail ("box-intersects:asymmetric", tg + " random");
        bool inv = false, vol = true;
        for (int i = 0; i < 3; ++i) { inv = inv || a.max[i] < a.min[i]; vol = vol && a.min[i] < a.max[i]; }
        if (lawEval ("", "box-isEmpty"), (a.isEmpty () != inv)) fail ("box-isEmpty", tg + " random min=" + vs (a.min) + " max=" + vs (a.max));
        if (lawEval ("", "box-hasVolume"), (a.hasVolume () != vol)) fail ("box-hasVolume", tg + " random min=" + vs (a.min) + " max=" + vs (a.max));
        // extendBy sequence of up to 5 finite-or-infinite points from the default box
        Box<V> e;
        V      lo, hi;
        int    len = (int) (g () % 6);
        for (int j = 0; j < len; ++j)
        {
            V q (rndVal<T> (g), rndVal<T> (g), rndVal<T> (g));
            for (int i = 0; i < 3; ++i)
                if (std::isinf ((double) q[i])) q[i] = (T) 3; // makeEmpty's bounds are max()/lowest(): infinities lie outside the type's "range"
            e.extendBy (q);
            for (int i = 0; i < 3; ++i)
            {
                lo[i] = (j == 0 || q[i] < lo[i]) ? q[i] : lo[i];
                hi[i] = (j == 0 || hi[i] < q[i]) ? q[i] : hi[i];
            }
        }
        if (lawEval ("", "box-extendBy:not-least"), (len == 0 ? !e.isEmpty () : !(e.min == lo && e.max == hi))) fail ("box-extendBy:not-least", tg + " random sequence of " + std::to_string (len) + " points: min=" + vs (e.min) + " max=" + vs (e.max));
        // clip: inside the box and per axis between p and any box point
        if (!inv)
        {
            V q = clip (p, a);
            if (lawEval ("", "clip:not-in-box"), (!mem (a, q))) fail ("clip:not-in-box", tg + " random min=" + vs (a.min) + " max=" + vs (a.max) + " p=" + vs (p) + " clip=" + vs (q));
            for (int i = 0; i < 3; ++i)
            {
                T expect = p[i] < a.min[i] ? a.min[i] : (a.max[i] < p[i] ? a.max[i] : p[i]);
                if (lawEval ("", "clip:not-nearest"), (!(q[i] == expect))) fail ("clip:not-nearest", tg + " random axis " + std::to_string (i));
            }
        }
    }
    summary ("random:" + tg, t);
}

//---------------------------------------------------------------------------------------------
// audit W9: points with a NaN coordinate.  NaN lies outside the LinearOrder model of the theorems (every comparison with NaN is
// false, so `!(p < min || p > max)` and `p >= min && p <= max` differ).  The set semantics {p | min <= p <= max} with IEEE `<=`
// contains no such point; what matters for the property ("the Vec2/Vec3 specialisations behave identically to the generic template",
// "intersects(point) is membership") is that all template copies give the SAME answer, namely `false`.
template <class T> static void nanPoints ()
{
    Tally t;
    T     nan = std::numeric_limits<T>::quiet_NaN (), h = (T) 0.5;
    std::string tn = TName<T>::s ();
    {
        Interval<T> u ((T) 0, (T) 1);
        ++t.evals; ++t.nontrivial;
        if (lawEval ("", "box-intersects-point:nan-coordinate"), (u.intersects (nan))) fail ("box-intersects-point:nan-coordinate", "Interval<" + tn + ">[0,1].intersects(NaN) = true");
    }
    for (int k = 0; k < 2; ++k)
    {
        Box<Vec2<T>> u (Vec2<T> (0, 0), Vec2<T> (1, 1));
        Vec2<T>      p (h, h);
        p[k] = nan;
        ++t.evals; ++t.nontrivial;
        if (lawEval ("", "box-intersects-point:nan-coordinate"), (u.intersects (p))) fail ("box-intersects-point:nan-coordinate", "Box<Vec2<" + tn + ">> [0,1]^2 .intersects(point with NaN at axis " + std::to_string (k) + ", 0.5 elsewhere) = true");
    }
    for (int k = 0; k < 3; ++k)
    {
        Box<Vec3<T>> u (Vec3<T> (0, 0, 0), Vec3<T> (1, 1, 1));
        Vec3<T>      p (h, h, h);
        p[k] = nan;
        ++t.evals; ++t.nontrivial;
        if (lawEval ("", "box-intersects-point:nan-coordinate"), (u.intersects (p))) fail ("box-intersects-point:nan-coordinate", "Box<Vec3<" + tn + ">> [0,1]^3 .intersects(point with NaN at axis " + std::to_string (k) + ", 0.5 elsewhere) = true");
    }
    for (int k = 0; k < 4; ++k)
    {
        Box<Vec4<T>> u (Vec4<T> (0, 0, 0, 0), Vec4<T> (1, 1, 1, 1));
        Vec4<T>      p (h, h, h, h);
        p[k] = nan;
        ++t.evals; ++t.nontrivial;
        if (lawEval ("", "box-intersects-point:nan-coordinate"), u.intersects (p))
            fail ("box-intersects-point:nan-coordinate", "Box<Vec4<" + tn + ">> (the GENERIC template) [0,1]^4 .intersects(point with NaN at axis " + std::to_string (k) +
                  ", 0.5 elsewhere) = true, while Interval / Box<Vec2> / Box<Vec3> answer false for the same kind of point");
    }
    {
        // extendBy with a NaN coordinate, recorded (informational): every copy compares (`p < min`, std::min / std::max), all false -> no-op
        Interval<T>  i1 ((T) 0, (T) 1), j1 = i1;
        Box<Vec2<T>> b2 (Vec2<T> (0, 0), Vec2<T> (1, 1)), c2 = b2;
        Box<Vec3<T>> b3 (Vec3<T> (0, 0, 0), Vec3<T> (1, 1, 1)), c3 = b3;
        Box<Vec4<T>> b4 (Vec4<T> (0, 0, 0, 0), Vec4<T> (1, 1, 1, 1)), c4 = b4;
        j1.extendBy (nan); c2.extendBy (Vec2<T> (nan, h)); c3.extendBy (Vec3<T> (nan, h, h)); c4.extendBy (Vec4<T> (nan, h, h, h));
        std::lock_guard<std::mutex> l (g_mu);
        printf ("WITNESS %s extendBy(point with x = NaN) leaves [0,1]^D unchanged (informational): Interval=%d Box<Vec2>=%d Box<Vec3>=%d Box<Vec4>(generic)=%d\n", tn.c_str (),
                (int) (j1 == i1), (int) (c2 == b2), (int) (c3 == b3), (int) (c4 == b4));
    }
    summary (std::string ("nan-points:") + tn, t);
}

//---------------------------------------------------------------------------------------------
// transforms

struct Frac // exact fraction with int64 parts
{
    long long n, d;
};
static long long gcdll (long long a, long long b) { a = a < 0 ? -a : a; b = b < 0 ? -b : b; while (b) { long long t = a % b; a = b; b = t; } return a ? a : 1; }
static Frac      mkF (long long n, long long d)
{
    if (d < 0) { n = -n; d = -d; }
    long long g = gcdll (n, d);
    return Frac{n / g, d / g};
}
static bool fless (Frac a, Frac b) { return (__int128) a.n * b.d < (__int128) b.n * a.d; }
static bool feq (Frac a, double v, int scale)
{
    // v == a.n / (a.d * scale) exactly?
    long double x = (long double) a.n / ((long double) a.d * scale);
    if ((double) x != v) return false;
    // verify exactly: v * a.d * scale == a.n
    long double back = (long double) v * (long double) a.d * scale;
    return back == (long double) a.n;
}

template <class T> static std::string hexd (T v)
{
    double   d = (double) v;
    if (d == 0) d = 0.0;
    uint64_t u;
    memcpy (&u, &d, 8);
    char buf[32];
    snprintf (buf, sizeof buf, "x%016" PRIx64, u);
    return buf;
}

// per-law evaluation counts of the transform mode (audit W7): a law that is never evaluated cannot fail
static std::map<std::string, long> g_evalCount;
static void evald (const char* key, long n = 1) { g_evalCount[key] += n; }

// a dyadic double as an exact fraction (false if it does not fit)
static bool toFrac (double v, Frac& f)
{
    if (v != v || std::fabs (v) > 1e15) return false;
    int    e;
    double mant = std::frexp (v, &e); // v = mant * 2^e, |mant| in [0.5,1)
    long long n = (long long) std::ldexp (mant, 53);
    int       sh = 53 - e;            // v = n / 2^sh
    while (sh > 0 && (n & 1) == 0) { n >>= 1; --sh; }
    if (sh < 0 || sh > 40) return false;
    f = Frac{n, 1ll << sh};
    return true;
}

// S = element type of the box, T = element type of the matrix (all four overloads are `template <class S, class T>`;
// audit W4: S != T is the common "float boxes, double camera matrix" use and exercises the casts `(S) m[j][i]`)
template <class S, class T = S> struct Xf
{
    typedef Vec3<S>     V;
    typedef Box<V>      B;
    typedef Matrix44<T> M;
    static const bool   mixed = !std::is_same<S, T>::value;
    static const char*  ty () { return sizeof (S) == 4 ? "f" : "d"; }
    static std::string  tg ()
    {
        return std::string ("Box<Vec3<") + TName<S>::s () + ">>" + (mixed ? std::string ("xMatrix44<") + TName<T>::s () + ">" : std::string ());
    }

    static std::string boxS (const B& b)
    {
        std::ostringstream s;
        s.precision (9);
        s << "[(" << (double) b.min.x << "," << (double) b.min.y << "," << (double) b.min.z << ")..(" << (double) b.max.x << "," << (double) b.max.y << "," << (double) b.max.z << ")]";
        return s.str ();
    }
    static std::string matS (const M& m)
    {
        std::ostringstream s;
        s.precision (9);
        s << "[";
        for (int i = 0; i < 4; ++i) { s << (i ? " ; " : ""); for (int j = 0; j < 4; ++j) s << (j ? "," : "") << (double) m[i][j]; }
        s << "]";
        return s.str ();
    }
    static void emitT (int ovl, int exact, const B& b, const M& m, const B& r0, const B& out)
    {
        std::string s = "T " + std::to_string (ovl) + " " + ty () + " " + std::to_string (exact);
        for (int i = 0; i < 3; ++i) s += " " + hexd (b.min[i]);
        for (int i = 0; i < 3; ++i) s += " " + hexd (b.max[i]);
        for (int i = 0; i < 4; ++i) for (int j = 0; j < 4; ++j) s += " " + hexd (m[i][j]);
        for (int i = 0; i < 3; ++i) s += " " + hexd (r0.min[i]);
        for (int i = 0; i < 3; ++i) s += " " + hexd (r0.max[i]);
        s += " |";
        for (int i = 0; i < 3; ++i) s += " " + hexd (out.min[i]);
        for (int i = 0; i < 3; ++i) s += " " + hexd (out.max[i]);
        std::lock_guard<std::mutex> l (g_mu);
        puts (s.c_str ());
    }
    static bool sameSet (const B& a, const B& b)
    {
        if (a.isEmpty () && b.isEmpty ()) return true;
        return a.min == b.min && a.max == b.max;
    }

    // one case: box/matrix given as integers over `scale` (value = k/scale); all four overloads
    static void one (const long long bk[6], const long long mk[16], int scale, int kind /*0 lattice box,1 empty,2 infinite*/, Tally& t,
                     std::mt19937_64& g)
    {
        B b;
        if (kind == 1) b.makeEmpty ();
        else if (kind == 2) b.makeInfinite ();
        else b = B (V ((S) bk[0] / scale, (S) bk[1] / scale, (S) bk[2] / scale), V ((S) bk[3] / scale, (S) bk[4] / scale, (S) bk[5] / scale));
        M m;
        for (int i = 0; i < 4; ++i) for (int j = 0; j < 4; ++j) m[i][j] = (T) mk[i * 4 + j] / scale;
        bool affine = mk[3] == 0 && mk[7] == 0 && mk[11] == 0 && mk[15] == scale;
        bool inv    = kind == 1 || (kind == 0 && (bk[3] < bk[0] || bk[4] < bk[1] || bk[5] < bk[2]));
        // junk in the out-parameter before the call: a box far away from everything, or the unit cube, or default
        B olds[3] = {B (V (50, 50, 50), V (60, 60, 60)), B (V (0, 0, 0), V (1, 1, 1)), B ()};
        // expected: exact 8-corner bound (fractions over scale^2 for the numerators, w over scale^2)
        bool   haveExp = false, exactDiv = true, init = false, anyW0 = false, allWpos = true, allWneg = true;
        Frac   elo[3], ehi[3];
        if (!inv && kind == 0)
        {
            for (int c = 0; c < 8; ++c)
            {
                long long v[3] = {(c & 4) ? bk[3] : bk[0], (c & 2) ? bk[4] : bk[1], (c & 1) ? bk[5] : bk[2]};
                long long num[4];
                for (int j = 0; j < 4; ++j) num[j] = v[0] * mk[0 * 4 + j] + v[1] * mk[1 * 4 + j] + v[2] * mk[2 * 4 + j] + (long long) scale * mk[3 * 4 + j];
                // coordinate j = num[j] / num[3] (homogeneous divide) for the general operator; affine: w = scale^2 -> num[j]/scale^2
                long long w = num[3];
                if (w <= 0) allWpos = false;
                if (w >= 0) allWneg = false;
                if (w == 0) { exactDiv = false; anyW0 = true; continue; }
                // is the floating-point division exact?  w (over scale^2) must be +-2^k
                long long aw = w < 0 ? -w : w;
                if (aw & (aw - 1)) exactDiv = false; // scale is a power of two, so w/scale^2 is a power of two iff aw is
                for (int j = 0; j < 3; ++j)
                {
                    Frac f = mkF (num[j], w);
                    if (!init) { elo[j] = f; ehi[j] = f; }
                    else { if (fless (f, elo[j])) elo[j] = f; if (fless (ehi[j], f)) ehi[j] = f; }
                }
                init = true;
            }
            haveExp = init && exactDiv;
        }
        int exact = (kind != 0 || inv || affine || exactDiv) ? 1 : 0;
        // the naive eight-corner loop on a FRESH box with the real `Vec3 * Matrix44` and `extendBy`: what the projective path must
        // return bit for bit (also when the divisions round)
        bool haveS8 = false;
        B    s8;
        if (!inv && kind == 0 && !affine && !anyW0)
        {
            for (int c = 0; c < 8; ++c)
                s8.extendBy (V ((c & 4) ? b.max.x : b.min.x, (c & 2) ? b.max.y : b.min.y, (c & 1) ? b.max.z : b.min.z) * m);
            haveS8 = s8.min == s8.min && s8.max == s8.max; // no NaN
        }
        B   outs[4];
        for (int oi = 0; oi < 3; ++oi)
        {
            const B& old = olds[oi];
            B r0 = transform (b, m);
            B r1 = old; transform (b, m, r1);
            B r2, r3 = old;
            bool canAffine = affine; // affineTransform's precondition: rightmost column (0 0 0 1)
            if (canAffine) { r2 = affineTransform (b, m); affineTransform (b, m, r3); }
            if (oi == 0)
            {
                emitT (0, exact, b, m, old, r0);
                if (canAffine) emitT (2, exact, b, m, old, r2);
            }
            emitT (1, exact, b, m, old, r1);
            if (canAffine) emitT (3, exact, b, m, old, r3);
            t.evals += canAffine ? 4 : 2;
            std::string ctx = tg () + " box=" + (kind == 1 ? "makeEmpty()" : kind == 2 ? "makeInfinite()" : boxS (b)) + " m=" + matS (m) + " old result=" + boxS (old);
            // value-returning transform vs the spec
            if (oi == 0)
            {
                if (inv) evald ("transform:empty-input-not-empty");
                if (kind == 2) evald ("transform:infinite-input-not-infinite");
                if (canAffine && inv) evald ("affineTransform:empty-input-not-empty");
                if (canAffine && kind == 2) evald ("affineTransform:infinite-input-not-infinite");
                if (inv && !r0.isEmpty ()) fail ("transform:empty-input-not-empty", ctx + " -> " + boxS (r0));
                if (kind == 2 && !r0.isInfinite ()) fail ("transform:infinite-input-not-infinite", ctx + " -> " + boxS (r0));
                if (canAffine && inv && !r2.isEmpty ()) fail ("affineTransform:empty-input-not-empty", ctx);
                if (canAffine && kind == 2 && !r2.isInfinite ()) fail ("affineTransform:infinite-input-not-infinite", ctx);
                if (haveS8 && !(r0.min == s8.min && r0.max == s8.max))
                    fail ("transform:projective-not-8-corner-bound", ctx + " value form -> " + boxS (r0) + " eight-corner loop -> " + boxS (s8));
                if (haveS8) { ++t.nontrivial; evald ("transform:projective-not-8-corner-bound"); }
                if (haveExp && exact)
                {
                    ++t.nontrivial;
                    evald (affine ? "transform:affine-not-8-corner-bound" : "transform:projective-not-8-corner-bound");
                    if (canAffine) evald ("affineTransform:differs-from-transform");
                    for (int j = 0; j < 3; ++j)
                        if (!feq (elo[j], (double) r0.min[j], 1) || !feq (ehi[j], (double) r0.max[j], 1))
                        {
                            fail (affine ? "transform:affine-not-8-corner-bound" : "transform:projective-not-8-corner-bound", ctx + " -> " + boxS (r0));
                            break;
                        }
                    if (canAffine && !(r2.min == r0.min && r2.max == r0.max)) fail ("affineTransform:differs-from-transform", ctx + " -> " + boxS (r2) + " vs " + boxS (r0));
                    // images of lattice points of the box lie inside: affine path, and (audit W3 / r2 N7) projective path when the
                    // homogeneous coordinate w has ONE sign at all eight corners (theorems transform_contains_of_pos_w / _of_neg_w).
                    // The image is computed EXACTLY here (fractions) and compared with the box the real code returned;
                    // when w(p) is a power of two the real `p * m` is exact too and `intersects` is asked as well.
                    if (affine || allWpos || allWneg)
                        for (int s = 0; s < 4; ++s)
                        {
                            V         p;
                            long long pk[3];
                            for (int i = 0; i < 3; ++i)
                            {
                                long long lo = bk[i], hi = bk[3 + i];
                                pk[i]        = lo + (long long) (g () % (unsigned long long) (hi - lo + 1));
                                p[i]         = (S) pk[i] / scale;
                            }
                            long long num[4];
                            for (int j = 0; j < 4; ++j) num[j] = pk[0] * mk[0 * 4 + j] + pk[1] * mk[1 * 4 + j] + pk[2] * mk[2 * 4 + j] + (long long) scale * mk[3 * 4 + j];
                            std::string ps = " p=(" + std::to_string ((double) p.x) + "," + std::to_string ((double) p.y) + "," + std::to_string ((double) p.z) + ")";
                            bool        outside = (!affine && allWneg) ? num[3] >= 0 : num[3] <= 0; // w of constant sign at the corners => same sign on the box
                            for (int j = 0; j < 3 && !outside; ++j)
                            {
                                Frac img = mkF (num[j], num[3]), lo, hi;
                                if (!toFrac ((double) r0.min[j], lo) || !toFrac ((double) r0.max[j], hi)) continue;
                                if (fless (img, lo) || fless (hi, img)) outside = true;
                            }
                            evald (affine ? "transform:image-of-box-point-outside" : allWpos ? "transform:image-of-box-point-outside:projective-w>0" : "transform:image-of-box-point-outside:projective-w<0");
                            if (outside) fail ("transform:image-of-box-point-outside", ctx + ps + (affine ? "" : allWpos ? " (projective, w > 0 at all corners)" : " (projective, w < 0 at all corners)"));
                            long long aw = num[3] < 0 ? -num[3] : num[3];
                            if (aw > 0 && (aw & (aw - 1)) == 0)
                            {
                                V q = p * m;
                                if (!r0.intersects (q)) fail ("transform:image-of-box-point-outside", ctx + ps + " real p*m outside");
                            }
                        }
                }
            }
            // the overloads must agree whatever `result` held before
            if (haveS8)
            {
                // projective path: each overload separately against the fresh eight-corner loop
                evald ("transform-outparam:projective-extends-old-result");
                if (!(r1.min == s8.min && r1.max == s8.max))
                    fail ("transform-outparam:projective-extends-old-result", ctx + " eight-corner loop -> " + boxS (s8) + " out-parameter form -> " + boxS (r1));
            }
            else evald (inv ? "transform-outparam:empty-input-leaves-result" : kind == 2 ? "transform-outparam:infinite-input-leaves-result" : affine ? "transform-outparam:affine-differs" : "transform-overloads-differ:projective-with-w=0-corner");
            if (!haveS8 && !sameSet (r1, r0))
            {
                std::string key = inv ? "transform-outparam:empty-input-leaves-result" : kind == 2 ? "transform-outparam:infinite-input-leaves-result" : affine ? "transform-outparam:affine-differs" : "transform-overloads-differ:projective-with-w=0-corner";
                fail (key, ctx + " value-form -> " + boxS (r0) + " out-parameter form -> " + boxS (r1));
            }
            if (canAffine) evald (inv ? "affineTransform-outparam:empty-input" : kind == 2 ? "affineTransform-outparam:infinite-input" : "affineTransform-outparam:differs");
            if (canAffine && !sameSet (r3, r2))
            {
                std::string key = inv ? "affineTransform-outparam:empty-input" : kind == 2 ? "affineTransform-outparam:infinite-input" : "affineTransform-outparam:differs";
                fail (key, ctx + " value-form -> " + boxS (r2) + " out-parameter form -> " + boxS (r3));
            }
        }
    }

    // the former counterexamples to `transformOut_eq` (repaired in /repo 6dca912), replayed on the real code
    static void witnesses ()
    {
        M id; // identity
        M pr;
        pr[3][3] = 2; // identity with m[3][3] = 2: every image is the corner divided by 2
        B unit (V (0, 0, 0), V (1, 1, 1));
        B e;
        B inf;
        inf.makeInfinite ();
        B r1 = unit; transform (e, id, r1);
        B r2 = unit; transform (inf, id, r2);
        B r3 (V (5, 5, 5), V (6, 6, 6)); transform (unit, pr, r3);
        B v3 = transform (unit, pr);
        printf ("WITNESS %s transformOut empty input: transform(makeEmpty(), I, result=[0,1]^3) -> result=%s isEmpty=%d (value form: isEmpty=%d)\n", tg ().c_str (),
                boxS (r1).c_str (), (int) r1.isEmpty (), (int) transform (e, id).isEmpty ());
        printf ("WITNESS %s transformOut infinite input: transform(makeInfinite(), I, result=[0,1]^3) -> result=%s isInfinite=%d (value form: isInfinite=%d)\n", tg ().c_str (),
                boxS (r2).c_str (), (int) r2.isInfinite (), (int) transform (inf, id).isInfinite ());
        printf ("WITNESS %s transformOut projective: transform([0,1]^3, diag(1,1,1,2), result=[5,6]^3) -> result=%s ; value form -> %s\n", tg ().c_str (),
                boxS (r3).c_str (), boxS (v3).c_str ());
    }

    // DETERMINISTIC, every tier: for three base matrices ALL 16 zero / non-zero patterns of the last column
    // (m[0][3], m[1][3], m[2][3] in {0, c}, m[3][3] in {1, k}) x c in {1, -1/2} x k in {2, 1/2} x boxes (ordinary, off-centre, flat, point,
    // inverted, makeEmpty, makeInfinite) x all four overloads x three old `result`s.  Each term of the affine test
    // `m[0][3] == 0 && m[1][3] == 0 && m[2][3] == 0 && m[3][3] == 1` is thus the ONLY failing term for some matrix.
    static void lastColumnSweep ()
    {
        Tally           t;
        std::mt19937_64 g (12345);
        const int       sc = 8; // values are multiples of 1/8
        // rows 0..3, columns 0..2 (the last column is filled in below)
        static const long long base[3][12] = {
            {8, 0, 0, 0, 8, 0, 0, 0, 8, 0, 0, 0},                  // identity
            {0, 8, 0, -8, 0, 0, 0, 0, 8, 8, -16, 24},              // rotation by 90 degrees about z, translation (1,-2,3)
            {16, -4, 8, 4, 12, -8, -8, 0, 20, -12, 8, 4}};         // general affine
        static const long long boxes[5][6] = {{0, 0, 0, 8, 8, 8}, {-8, 0, 8, 16, 8, 24}, {0, -8, 8, 16, 8, 8} /*flat*/, {8, 0, 8, 8, 0, 8} /*point*/,
                                              {8, 0, 0, 0, 8, 8} /*inverted*/};
        static const long long cs[2] = {8, -4}, ks[2] = {16, 4};
        for (int bi = 0; bi < 3; ++bi)
            for (int pat = 0; pat < 16; ++pat)
                for (long long c : cs)
                    for (long long k : ks)
                    {
                        long long mk[16];
                        for (int i = 0; i < 4; ++i) for (int j = 0; j < 3; ++j) mk[i * 4 + j] = base[bi][i * 3 + j];
                        mk[3] = (pat & 1) ? c : 0; mk[7] = (pat & 2) ? c : 0; mk[11] = (pat & 4) ? c : 0; mk[15] = (pat & 8) ? k : sc;
                        for (int bx = 0; bx < 7; ++bx)
                        {
                            long long bk[6] = {0, 0, 0, 0, 0, 0};
                            if (bx < 5) for (int i = 0; i < 6; ++i) bk[i] = boxes[bx][i];
                            one (bk, mk, sc, bx == 5 ? 1 : bx == 6 ? 2 : 0, t, g);
                        }
                    }
        summary (std::string ("transform-last-column-sweep:") + tg (), t);
    }

    static void run (unsigned long seed, long n)
    {
        if (!mixed) witnesses ();
        lastColumnSweep ();
        std::mt19937_64 g (seed * 2654435761ul + sizeof (T) + (mixed ? 16 * sizeof (S) : 0));
        Tally           t;
        auto            I = [&] (int lo, int hi) { return (long long) lo + (long long) (g () % (unsigned long long) (hi - lo + 1)); };
        for (long k = 0; k < n; ++k)
        {
            long long bk[6], mk[16];
            int       scale = (k % 3 == 0) ? 1 : 8; // integer lattice / dyadic (multiples of 1/8)
            int       kind  = (k % 11 == 3) ? 1 : (k % 11 == 7) ? 2 : 0;
            for (int i = 0; i < 6; ++i) bk[i] = (scale == 1) ? I (-1, 2) : I (-16, 24);
            if (kind == 0 && k % 5 != 0)
                for (int i = 0; i < 3; ++i)
                    if (bk[3 + i] < bk[i]) std::swap (bk[i], bk[3 + i]); // most boxes non-inverted; every 5th keeps inverted pairs
            int sel = (int) (g () % 6);
            for (int i = 0; i < 16; ++i) mk[i] = (scale == 1) ? I (-2, 2) : I (-16, 16);
            if (sel == 0) // sparse / axis permutations with signs
                for (int i = 0; i < 12; ++i) if (g () % 2) mk[i] = 0;
            // last column
            if (sel <= 3) { mk[3] = mk[7] = mk[11] = 0; mk[15] = scale; }                         // affine
            else if (sel == 4) { mk[3] = mk[7] = mk[11] = 0; long long w[] = {2, 4, -2, 8}; mk[15] = scale * w[g () % 4]; } // w = const != 1: exact
            else { mk[3] = I (-1, 1) * scale / (scale == 1 ? 1 : 4); mk[7] = I (-1, 1) * scale / (scale == 1 ? 1 : 4); mk[11] = I (-1, 1) * scale / (scale == 1 ? 1 : 4); mk[15] = (scale == 1 ? I (1, 3) : scale * I (1, 3)); if (mk[3] == 0 && mk[7] == 0 && mk[11] == 0 && mk[15] == scale) mk[15] = 2 * scale; } // general projective
            one (bk, mk, scale, kind, t, g);
        }
        summary (std::string ("transform-lattice:") + tg (), t);
        // random float matrices and boxes: measured against the long-double 8-corner bound (affine), tolerance from rounding
        Tally                                  t2;
        std::uniform_real_distribution<double> U (-4, 4);
        double                                 worst = 0;
        for (long k = 0; k < n; ++k)
        {
            B b;
            for (int i = 0; i < 3; ++i) { S a = (S) U (g), c = (S) U (g); b.min[i] = a < c ? a : c; b.max[i] = a < c ? c : a; }
            M m;
            for (int i = 0; i < 4; ++i) for (int j = 0; j < 3; ++j) m[i][j] = (T) (U (g) * (g () % 4 == 0 ? 100 : 1));
            m[0][3] = m[1][3] = m[2][3] = 0; m[3][3] = 1;
            B r0 = transform (b, m), r2 = affineTransform (b, m), r1 (V (7, 7, 7), V (8, 8, 8)), r3 = r1;
            transform (b, m, r1);
            affineTransform (b, m, r3);
            ++t2.evals; ++t2.nontrivial;
            evald ("transform:overloads-differ-bitwise:affine-random"); evald ("transform:affine-residue", 3);
            if (!(r0.min == r2.min && r0.max == r2.max && r0.min == r1.min && r0.max == r1.max && r0.min == r3.min && r0.max == r3.max))
                fail ("transform:overloads-differ-bitwise:affine-random", tg () + " box=" + boxS (b) + " m=" + matS (m));
            for (int j = 0; j < 3; ++j)
            {
                long double lo = 0, hi = 0, mag = std::fabs ((long double) m[3][j]);
                for (int c = 0; c < 8; ++c)
                {
                    long double v[3] = {(c & 4) ? b.max[0] : b.min[0], (c & 2) ? b.max[1] : b.min[1], (c & 1) ? b.max[2] : b.min[2]};
                    long double x = (long double) m[3][j];
                    long double mg = std::fabs ((long double) m[3][j]);
                    for (int i = 0; i < 3; ++i) { x += v[i] * (long double) m[i][j]; mg += std::fabs (v[i] * (long double) m[i][j]); }
                    if (c == 0 || x < lo) lo = x;
                    if (c == 0 || x > hi) hi = x;
                    if (mg > mag) mag = mg;
                }
                long double u   = std::numeric_limits<S>::epsilon () / 2; // results are rounded in the box's element type
                long double err = std::max (std::fabs ((long double) r0.min[j] - lo), std::fabs ((long double) r0.max[j] - hi)) / (u * mag);
                if ((double) err > worst) worst = (double) err;
                if (err > 8) fail ("transform:affine-residue", tg () + " box=" + boxS (b) + " m=" + matS (m) + " axis " + std::to_string (j) + " err/(u*sum|terms|)=" + std::to_string ((double) err));
            }
        }
        summary (std::string ("transform-random:") + tg (), t2);
        printf ("RESIDUE transform-affine:%s worst_err_over_u_sumabs=%.3f bound=8\n", tg ().c_str (), worst);
    }
};

int main (int argc, char** argv)
{
    if (argc < 2) return 2;
    std::string mode = argv[1];
    if (mode == "members")
    {
        bool          th   = argc > 2 && !strcmp (argv[2], "thorough");
        unsigned long seed = argc > 3 ? strtoul (argv[3], 0, 10) : 1;
        membersT<int> (th, seed);
        membersT<short> (th, seed);
        membersT<float> (th, seed);
        membersT<double> (th, seed);
        {
            // audit W6, informational (documented limitation, not a law): integer center() is (max + min) / 2 in the element type.
            // Box<Vec2<short>> adds through Vec2<short>::operator+, which truncates to short: the sum wraps and the "centre" leaves the
            // box; Interval<short> adds two promoted ints and does not wrap.  The theorems Box*_center_int_mem are over unbounded Int.
            Box<Vec2<short>> b (Vec2<short> (30000, 30000), Vec2<short> (32000, 32000));
            Interval<short>  iv (30000, 32000);
            Vec2<short>      c = b.center ();
            printf ("WITNESS Box<Vec2<short>> integer center overflow (documented limitation): [30000,32000]^2.center() = (%d,%d) inside=%d ; "
                    "Interval<short>[30000,32000].center() = %d inside=%d\n",
                    (int) c.x, (int) c.y, (int) b.intersects (c), (int) iv.center (), (int) iv.intersects (iv.center ()));
        }
    }
    else if (mode == "random")
    {
        unsigned long seed = argc > 2 ? strtoul (argv[2], 0, 10) : 1;
        long          n    = argc > 3 ? atol (argv[3]) : 100000;
        randomT<float> (seed, n);
        randomT<double> (seed, n);
        nanPoints<float> ();
        nanPoints<double> ();
    }
    else if (mode == "transform")
    {
        unsigned long seed = argc > 2 ? strtoul (argv[2], 0, 10) : 1;
        long          n    = argc > 3 ? atol (argv[3]) : 2000;
        Xf<float>::run (seed, n);
        Xf<double>::run (seed, n);
        // mixed element types S != T (audit W4): the same generators, expectations and model lines (all values exact in both types)
        Xf<float, double>::run (seed, n);
        Xf<double, float>::run (seed, n);
        {
            // audit W3, informational: "contains the image of every point" needs w > 0 on the box.  The Lean counterexample
            // transform_misses_point_when_w_changes_sign replayed on the real code: w = x changes sign on [-1,2] x {0} x {0}.
            Matrix44<double> m (0, 0, 0, 1, 0, 1, 0, 0, 0, 0, 1, 0, 1, 0, 0, 0);
            Box<Vec3<double>> b (Vec3<double> (-1, 0, 0), Vec3<double> (2, 0, 0)), r = transform (b, m);
            Vec3<double>      p (0.25, 0, 0), q = p * m;
            printf ("WITNESS Box<Vec3<double>> projective w changes sign (documented limitation, not a defect): transform([-1,2]x{0}x{0}, w=x) -> [%g,%g]x[%g,%g]x[%g,%g]; "
                    "box point (0.25,0,0) -> (%g,%g,%g) inside=%d\n",
                    r.min.x, r.max.x, r.min.y, r.max.y, r.min.z, r.max.z, q.x, q.y, q.z, (int) r.intersects (q));
        }
        {
            // audit r2 N1, informational: a corner ON the plane w = 0 has no image.  The theorems exclude it (hypothesis w != 0 at the eight
            // corners); the real code divides by zero: x/0 = +-inf enters the bound, 0/0 = NaN is ignored by extendBy (all comparisons false).
            Matrix44<double>  m (1, 0, 0, 1, 0, 1, 0, 0, 0, 0, 1, 0, 0, 0, 0, 0); // w = x
            Box<Vec3<double>> b (Vec3<double> (0, 0, 0), Vec3<double> (1, 1, 1)), r = transform (b, m);
            printf ("WITNESS Box<Vec3<double>> projective corner with w = 0 (excluded by the theorems, documented): transform([0,1]^3, x'=x/x, y'=y/x, z'=z/x) -> "
                    "[%g,%g]x[%g,%g]x[%g,%g]\n", r.min.x, r.max.x, r.min.y, r.max.y, r.min.z, r.max.z);
        }
        for (auto& kv : g_evalCount) printf ("COUNT-EVAL %s %ld\n", kv.first.c_str (), kv.second);
    }
    else
        return 2;
    tl_law.flush ();
    for (auto& kv : g_lawEvals) printf ("COUNT-EVAL %s %ld\n", kv.first.c_str (), kv.second);
    for (auto& kv : g_failCount) printf ("COUNT %s %ld\n", kv.first.c_str (), kv.second);
    printf ("DONE fails=%zu\n", g_failCount.size ());
    return 0;
}
