// C15 residue measurement (DESIGN.md §2.4) and failing-input finder.
//
// The REAL Line3 / Plane3 / Sphere3 / ImathLineAlgo / ImathVecAlgo code at float and double, on configurations whose
// points lie on a small integer lattice (optionally translated far from the origin), against an oracle evaluated
// independently in __float128 from the INTEGER data (the intended geometry: exact lines through two lattice points,
// exact planes through three, ...).  Checked: returned points lie on their lines / planes and equal the exact answers
// to c*eps*scale (scaled by the conditioning 1/sin^2 for line pairs, 1/|cos| for line-plane hits); hit / miss decisions
// agree with the exact answer except within c*eps of an edge / tangency / parallelism (those are counted and reported).
//
// usage: c15_residue <seed> <n>      output: C15-FAIL lines and one C15-RESIDUE summary line
#include <ImathLine.h>
#include <ImathLineAlgo.h>
#include <ImathPlane.h>
#include <ImathSphere.h>
#include <ImathVecAlgo.h>
#include <ImathMatrix.h>
#include <ImathBox.h>
#include <cstdio>
#include <cstdlib>
#include <cmath>
#include <map>
#include <random>
#include <string>
#include <vector>
using namespace IMATH_NAMESPACE;
typedef __float128 Q;

static std::mt19937_64 rng;
static long evals = 0, failures = 0;
static std::map<std::string, double> worst;   // function -> max err / (eps * scale * conditioning)
static std::map<std::string, long>   counts;  // informational counters
static std::map<std::string, int> failPrinted;   // per function: at most 8 lines each

static Q qabs (Q x) { return x < 0 ? -x : x; }
static Q qsqrt (Q x)
{
    if (x <= 0) return 0;
    Q r = (Q) std::sqrt ((double) x);
    if (r == 0) r = (Q) 1e-160;
    for (int i = 0; i < 6; ++i) r = (r + x / r) / 2;
    return r;
}
struct QV { Q x, y, z; };
static QV  qv (Q x, Q y, Q z) { QV r = {x, y, z}; return r; }
static QV  operator+ (QV a, QV b) { return qv (a.x + b.x, a.y + b.y, a.z + b.z); }
static QV  operator- (QV a, QV b) { return qv (a.x - b.x, a.y - b.y, a.z - b.z); }
static QV  operator* (Q k, QV a) { return qv (k * a.x, k * a.y, k * a.z); }
static Q   dot (QV a, QV b) { return a.x * b.x + a.y * b.y + a.z * b.z; }
static QV  cross (QV a, QV b) { return qv (a.y * b.z - a.z * b.y, a.z * b.x - a.x * b.z, a.x * b.y - a.y * b.x); }
static Q   len (QV a) { return qsqrt (dot (a, a)); }
static QV  unit (QV a) { Q l = len (a); return (1 / l) * a; }
template <class T> static QV toQ (const Vec3<T>& v) { return qv ((Q) v.x, (Q) v.y, (Q) v.z); }
template <class T> static Vec3<T> toT (QV v) { return Vec3<T> ((T) (double) v.x, (T) (double) v.y, (T) (double) v.z); }

template <class T> static const char* tname () { return sizeof (T) == 4 ? "float" : "double"; }
static std::string fmt (std::initializer_list<double> xs)
{
    std::string s; char b[40];
    for (double x : xs) { snprintf (b, 40, "%.17g ", x); s += b; }
    return s;
}
template <class T> static std::string fv (const Vec3<T>& v) { return fmt ({(double) v.x, (double) v.y, (double) v.z}); }

// record err against bound = c * eps * scale
template <class T>
static void check (const std::string& fn, const char* cls, Q err, Q scale, double c, const std::string& in)
{
    ++evals;
    Q eps = (Q) std::numeric_limits<T>::epsilon ();
    double ratio = (double) (err / (eps * scale));
    if (!(ratio <= 1e300)) ratio = 1e300;
    std::string key = fn + ":" + tname<T> ();
    if (ratio > worst[key]) worst[key] = ratio;
    if (!(ratio <= c))
    {
        ++failures;
        if (failPrinted[fn]++ < 8) printf ("C15-FAIL %s %s T=%s err/(eps*scale)=%.3g > %g in=%s\n", fn.c_str (), cls, tname<T> (), ratio, c, in.c_str ());
    }
}
static void flag (const std::string& fn, const char* cls, const char* tn, const std::string& what, const std::string& in)
{
    ++failures;
    if (failPrinted[fn]++ < 8) printf ("C15-FAIL %s %s T=%s %s in=%s\n", fn.c_str (), cls, tn, what.c_str (), in.c_str ());
}

static int  li (int lo, int hi) { return lo + (int) (rng () % (unsigned long) (hi - lo + 1)); }
struct IV { long x, y, z; };
static IV  iv (int r) { IV v = {li (-r, r), li (-r, r), li (-r, r)}; return v; }
static bool izero (IV a) { return a.x == 0 && a.y == 0 && a.z == 0; }
static IV  isub (IV a, IV b) { IV v = {a.x - b.x, a.y - b.y, a.z - b.z}; return v; }
static IV  icross (IV a, IV b) { IV v = {a.y * b.z - a.z * b.y, a.z * b.x - a.x * b.z, a.x * b.y - a.y * b.x}; return v; }
static long idot (IV a, IV b) { return a.x * b.x + a.y * b.y + a.z * b.z; }
static QV  iq (IV a) { return qv ((Q) a.x, (Q) a.y, (Q) a.z); }
template <class T> static Vec3<T> it (IV a) { return Vec3<T> ((T) a.x, (T) a.y, (T) a.z); }
static Q   maxabs (QV a) { Q m = qabs (a.x); if (qabs (a.y) > m) m = qabs (a.y); if (qabs (a.z) > m) m = qabs (a.z); return m; }

// offset of the "far" class: exactly representable at float, makes cancellation visible
static IV offsetOf (int far) { IV o = {0, 0, 0}; if (far) { o.x = 1024; o.y = -2048; o.z = 512; } return o; }
static IV iadd (IV a, IV b) { IV v = {a.x + b.x, a.y + b.y, a.z + b.z}; return v; }

//------------------------------------------------------------------------------------------------ lines
template <class T> static void runLines (int far)
{
    const char* cls = far ? "far" : "near";
    IV off = offsetOf (far);
    IV a0 = iadd (iv (4), off), a1 = iadd (iv (4), off), b0 = iadd (iv (4), off), b1 = iadd (iv (4), off), pp = iadd (iv (4), off);
    if (izero (isub (a1, a0))) return;
    // structured classes: exactly parallel (1/8), nearly parallel (1/8: direction k*(a1-a0) + one lattice step), generic
    int kind = (int) (rng () % 8);
    if (kind == 0) { long k = li (1, 3) * (rng () % 2 ? 1 : -1); IV e = isub (a1, a0); b1 = iadd (b0, IV{k * e.x, k * e.y, k * e.z}); cls = far ? "far-parallel" : "parallel"; }
    if (kind == 1) { long k = 1l << li (2, 6); IV e = isub (a1, a0); IV st = iv (1); b1 = iadd (b0, IV{k * e.x + st.x, k * e.y + st.y, k * e.z + st.z}); cls = far ? "far-nearly-parallel" : "nearly-parallel"; }
    if (izero (isub (b1, b0))) return;
    Line3<T> l1 (it<T> (a0), it<T> (a1)), l2 (it<T> (b0), it<T> (b1));
    Vec3<T>  p = it<T> (pp);
    QV e1 = iq (isub (a1, a0)), e2 = iq (isub (b1, b0)), d1 = unit (e1), d2 = unit (e2);
    Q  scale = 1 + maxabs (iq (a0)) + maxabs (iq (b0)) + maxabs (iq (pp)) + len (iq (isub (a0, b0))) + len (iq (isub (pp, a0)));
    std::string in = fmt ({(double) a0.x, (double) a0.y, (double) a0.z, (double) a1.x, (double) a1.y, (double) a1.z, (double) b0.x, (double) b0.y,
                           (double) b0.z, (double) b1.x, (double) b1.y, (double) b1.z, (double) pp.x, (double) pp.y, (double) pp.z});
    // set: pos exact, unit direction parallel to p1 - p0
    if (!(l1.pos == it<T> (a0))) flag ("Line3.set", cls, tname<T> (), "pos != p0", in);
    check<T> ("Line3.set", cls, qabs (len (toQ (l1.dir)) - 1), 1, 4, in);
    check<T> ("Line3.set", cls, len (toQ (l1.dir) - d1), 1, 4, in);
    // operator(): one rounding per operation on the stored members
    T  tt = (T) (li (-16, 16) * 0.25);
    QV ev = toQ (l1.pos) + (Q) tt * toQ (l1.dir);
    check<T> ("Line3.eval", cls, len (toQ (l1 (tt)) - ev), maxabs (toQ (l1.pos)) + qabs ((Q) tt) + 1, 3, in);
    // closestPointTo (point), distanceTo (point): the foot of the perpendicular on the exact lattice line
    QV foot = iq (a0) + (dot (iq (isub (pp, a0)), e1) / dot (e1, e1)) * e1;
    check<T> ("Line3.closestPointToPoint", cls, len (toQ (l1.closestPointTo (p)) - foot), scale, 16, in);
    check<T> ("Line3.distanceToPoint", cls, qabs ((Q) l1.distanceTo (p) - len (iq (pp) - foot)), scale, 16, in);
    // closestVertex (v0,v1,v2,line): exact squared distances to the exact line; ties skipped
    {
        IV  v[3] = {iadd (iv (4), off), iadd (iv (4), off), iadd (iv (4), off)};
        Q   dd[3];
        for (int i = 0; i < 3; ++i) { QV w = iq (isub (v[i], a0)); QV c = cross (w, e1); dd[i] = dot (c, c) / dot (e1, e1); }
        int best = 0;
        for (int i = 1; i < 3; ++i) if (dd[i] < dd[best]) best = i;
        bool tie = false;
        for (int i = 0; i < 3; ++i) if (i != best && qabs (dd[i] - dd[best]) <= (Q) 1e-3 * (1 + dd[best]) * (far ? 1e3 : 1)) tie = true;
        if (tie) ++counts["closestVertex_ties_skipped"];
        else
        {
            ++evals;
            Vec3<T> r = closestVertex (it<T> (v[0]), it<T> (v[1]), it<T> (v[2]), l1);
            if (!(r == it<T> (v[best]))) flag ("LineAlgo.closestVertex", cls, tname<T> (), "wrong vertex", in + fv (it<T> (v[0])) + fv (it<T> (v[1])) + fv (it<T> (v[2])));
        }
    }
    // rotatePoint: Rodrigues about the exact line, sin/cos of the T-rounded angle in long double
    {
        T  ang = (T) (li (-8, 8) * 0.39269908169872414);
        QV q = foot, x = iq (pp) - foot;
        Q  c = (Q) cosl ((long double) ang), s = (Q) sinl ((long double) ang);
        QV expect = q + c * x + s * cross (x, d1);
        check<T> ("LineAlgo.rotatePoint", cls, len (toQ (rotatePoint (p, l1, ang)) - expect), scale, 32, in + fmt ({(double) ang}));
    }
    // pairs of lines
    IV   nI = icross (isub (a1, a0), isub (b1, b0));
    bool parallel = izero (nI);
    QV   w = iq (isub (a0, b0));
    Q    A = dot (d1, d2), sin2 = 1 - A * A;
    Vec3<T> c1 (T (0)), c2 (T (0));
    bool ok = closestPoints (l1, l2, c1, c2);
    Vec3<T> cl = l1.closestPointTo (l2);
    T    dl = l1.distanceTo (l2);
    if (parallel)
    {
        // every point of l1 is a nearest one; closestPointTo(line) must return a point of l1
        ++counts["parallel_pairs"];
        QV r = toQ (cl) - iq (a0);
        Q  offLine = len (cross (r, d1));
        check<T> ("Line3.closestPointToLine", "parallel-on-line", offLine, scale + len (r), 16, in);
        Q trueDist = len (cross (w, d1));
        bool sameDir = (l1.dir == l2.dir) || (l1.dir == -l2.dir);   // exactly parallel AS REPRESENTED
        if (sameDir)
        {
            ++counts[std::string ("parallel_as_represented:") + tname<T> ()];
            if (ok)
            {
                bool closest = qabs (len (toQ (c1) - toQ (c2)) - trueDist) <= (Q) 1e-3 * (1 + trueDist);
                ++counts[std::string ("parallel_as_represented_reported_true:") + tname<T> () + (closest ? ":closest" : ":not-closest")];
                ++evals;
                flag ("LineAlgo.closestPoints", closest ? "exactly-parallel-reported-true" : "exactly-parallel-reported-true-not-closest", tname<T> (),
                      "closestPoints returned true for lines whose stored directions are bitwise +-equal", in);
            }
        }
        if (ok)
        {
            ++counts[std::string ("parallel_closestPoints_reported_true:") + tname<T> ()];
            if (qabs (len (toQ (c1) - toQ (c2)) - trueDist) > (Q) 1e-3 * (1 + trueDist)) ++counts[std::string ("parallel_closestPoints_true_but_not_closest:") + tname<T> ()];
        }
        else ++counts[std::string ("parallel_closestPoints_reported_false:") + tname<T> ()];
        // distanceTo (line) for parallel lines: the distance of l2.pos to l1.  Judged only when the two ROUNDED directions are
        // still exactly parallel (bitwise equal or opposite): otherwise the represented lines are not parallel and their distance
        // is unrelated to the lattice answer (counted).
        bool same = (l1.dir == l2.dir) || (l1.dir == -l2.dir);
        if (same) check<T> ("Line3.distanceToLine", "parallel", qabs ((Q) dl - trueDist), scale, 64, in);
        else
        {
            // parallel in the lattice, but the two normalised directions differ in the last place: the code takes the skew branch and
            // divides an eps-sized triple product by the eps-sized |d1 x d2|.  JUDGED against the lattice answer (the distance of
            // two parallel lines) with a generous bound (1e-3 relative): the outcome is recorded, not skipped.
            ++counts[std::string ("parallel_in_lattice_but_directions_differ_by_rounding:") + tname<T> ()];
            ++evals;
            bool okd = qabs ((Q) dl - trueDist) <= (Q) 1e-3 * (1 + trueDist);
            ++counts[std::string ("parallel_differ_by_rounding_distance:") + tname<T> () + (okd ? ":within-1e-3" : ":wrong")];
            if (!okd)
            {
                char b[200];
                snprintf (b, 200, "distanceTo(line) = %.9g, distance of the two parallel lattice lines = %.9g", (double) dl, (double) trueDist);
                flag ("Line3.distanceToLine", "parallel-directions-differ-by-rounding", tname<T> (), b, in);
            }
        }
        return;
    }
    // feet of the common perpendicular of the exact lines
    Q  d1w = dot (d1, w), d2w = dot (d2, w);
    Q  s = (A * d2w - d1w) / sin2, t = (d2w - A * d1w) / sin2;
    QV f1 = iq (a0) + s * d1, f2 = iq (b0) + t * d2;
    Q  cond = 1 / sin2;
    Q  sc2  = scale + qabs (s) + qabs (t);
    if (!ok) flag ("LineAlgo.closestPoints", cls, tname<T> (), "reported false for non-parallel lines", in);
    else
    {
        check<T> ("LineAlgo.closestPoints", cls, len (toQ (c1) - f1), sc2 * cond, 32, in);
        check<T> ("LineAlgo.closestPoints", cls, len (toQ (c2) - f2), sc2 * cond, 32, in);
    }
    check<T> ("Line3.closestPointToLine", cls, len (toQ (cl) - f1), sc2 * cond, 32, in);
    // distanceTo (line): length of the common perpendicular |w . (d1 x d2)| / |d1 x d2|
    Q trueDist = qabs (dot (w, cross (d1, d2))) / qsqrt (sin2);
    check<T> ("Line3.distanceToLine", idot (isub (a1, a0), isub (b1, b0)) == 0 ? "perpendicular" : "skew-nonperpendicular",
              qabs ((Q) dl - trueDist), sc2 * cond, 64, in);
    // the skew branch depends on the positions only through their (exactly representable) difference: translation-invariant bound,
    // which an implementation that expands n.(p2 - p1) into n.p2 - n.p1 violates in the FAR class
    check<T> ("Line3.distanceToLine:translation-invariant", far ? "far-skew" : "skew", qabs ((Q) dl - trueDist), (1 + len (w)) * cond, 64, in);
}

//------------------------------------------------------------------------------------------------ planes
template <class T> static void runPlanes (int far)
{
    const char* cls = far ? "far" : "near";
    IV off = offsetOf (far);
    IV p1 = iadd (iv (4), off), p2 = iadd (iv (4), off), p3 = iadd (iv (4), off);
    IV nI = icross (isub (p2, p1), isub (p3, p1));
    if (izero (nI)) return;
    QV n = unit (iq (nI));
    Q  d = dot (n, iq (p1));
    Q  scale = 1 + maxabs (iq (p1)) + maxabs (iq (p2)) + maxabs (iq (p3));
    std::string in = fmt ({(double) p1.x, (double) p1.y, (double) p1.z, (double) p2.x, (double) p2.y, (double) p2.z, (double) p3.x, (double) p3.y, (double) p3.z});
    Plane3<T> pl (it<T> (p1), it<T> (p2), it<T> (p3));
    check<T> ("Plane3.setPoints", cls, qabs (len (toQ (pl.normal)) - 1), 1, 4, in);
    // the normal of a thin lattice triangle far from the origin is conditioned by |p|/|cross|
    Q condN = 1 + (far ? maxabs (iq (p1)) * (len (iq (isub (p2, p1))) + len (iq (isub (p3, p1)))) / len (iq (nI)) : 0);
    check<T> ("Plane3.setPoints", cls, len (toQ (pl.normal) - n), condN, 8, in);
    check<T> ("Plane3.setPoints", cls, qabs ((Q) pl.distance - d), scale * condN, 8, in);
    check<T> ("Plane3.distanceTo", cls, qabs ((Q) pl.distanceTo (it<T> (p1))), scale * condN, 16, in);
    check<T> ("Plane3.distanceTo", cls, qabs ((Q) pl.distanceTo (it<T> (p2))), scale * condN, 16, in);
    check<T> ("Plane3.distanceTo", cls, qabs ((Q) pl.distanceTo (it<T> (p3))), scale * condN, 16, in);
    // point + normal, normal + distance (integer normal: exactly representable)
    Plane3<T> pn (it<T> (p1), it<T> (nI));
    check<T> ("Plane3.setPointNormal", cls, len (toQ (pn.normal) - n), 1, 4, in);
    check<T> ("Plane3.setPointNormal", cls, qabs ((Q) pn.distance - d), scale, 8, in);
    T dd = (T) li (-8, 8);
    Plane3<T> pd (it<T> (nI), dd);
    check<T> ("Plane3.setNormalDistance", cls, len (toQ (pd.normal) - n), 1, 4, in);
    if (!(pd.distance == dd)) flag ("Plane3.setNormalDistance", cls, tname<T> (), "distance changed", in);
    Plane3<T> ng = -pn;
    check<T> ("Plane3.neg", cls, len (toQ (ng.normal) + n), 1, 6, in);
    check<T> ("Plane3.neg", cls, qabs ((Q) ng.distance + d), scale, 8, in);
    // reflections against the exact plane (pn: well conditioned)
    IV qI = iadd (iv (4), off);
    QV q = iq (qI);
    Q  sd = dot (n, q) - d;
    QV rp = q - (2 * sd) * n;
    Vec3<T> r = pn.reflectPoint (it<T> (qI));
    std::string in2 = in + fv (it<T> (qI));
    check<T> ("Plane3.reflectPoint", cls, len (toQ (r) - rp), scale + maxabs (q), 16, in2);
    check<T> ("Plane3.reflectPoint", "involution", len (toQ (pn.reflectPoint (r)) - q), scale + maxabs (q), 32, in2);
    check<T> ("Plane3.reflectPoint", "negates-distance", qabs ((Q) pn.distanceTo (r) + sd), scale + maxabs (q), 32, in2);
    IV vI = iv (4);
    QV v = iq (vI), rv = (2 * dot (n, v)) * n - v;
    check<T> ("Plane3.reflectVector", cls, len (toQ (pn.reflectVector (it<T> (vI))) - rv), 1 + maxabs (v), 16, in2 + fv (it<T> (vI)));
    // line-plane intersection
    IV a0 = iadd (iv (4), off), a1 = iadd (iv (4), off);
    if (izero (isub (a1, a0))) return;
    Line3<T> l (it<T> (a0), it<T> (a1));
    QV e = iq (isub (a1, a0)), dq = unit (e);
    std::string in3 = in + fv (it<T> (a0)) + fv (it<T> (a1));
    T tpar = 0; Vec3<T> hit (T (0));
    bool okT = pn.intersectT (l, tpar), okP = pn.intersect (l, hit);
    if (okT != okP) flag ("Plane3.intersect", cls, tname<T> (), "intersect and intersectT disagree", in3);
    if (idot (nI, isub (a1, a0)) == 0)
    {
        ++counts["plane_line_exactly_parallel"];
        ++counts[std::string ("plane_line_exactly_parallel:") + tname<T> ()];
        if (okT) ++counts[std::string ("plane_line_exactly_parallel_reported_hit:") + tname<T> ()];
        // JUDGED (was only counted): a lattice line parallel to the lattice plane at distance h > 0 never meets it.  `true` happens when
        // normal.dir of the two ROUNDED unit vectors is rounding noise instead of 0; the parameter is then ~h/eps and the returned point
        // is neither near the configuration nor on the plane ("line-plane intersections lie on both")
        Q h = qabs (dot (n, iq (a0)) - d);
        if (h > 0)
        {
            ++evals;
            ++counts[std::string ("plane_line_parallel_off_plane:") + tname<T> ()];
            if (okT)
            {
                ++counts[std::string ("plane_line_parallel_off_plane_reported_hit:") + tname<T> ()];
                char b[260];
                snprintf (b, 260, "intersectT returned true, t = %.6g, point (%.6g %.6g %.6g); the line is parallel to the plane at distance %.6g",
                          (double) tpar, (double) hit.x, (double) hit.y, (double) hit.z, (double) h);
                flag ("Plane3.intersectT", "lattice-parallel-line-reported-hit", tname<T> (), b, in3);
            }
        }
        return;
    }
    Q cosq = dot (n, dq), ts = (d - dot (n, iq (a0))) / cosq;
    QV hq = iq (a0) + ts * dq;
    Q  sc = scale + maxabs (iq (a0)) + qabs (ts);
    if (!okT) flag ("Plane3.intersectT", cls, tname<T> (), "non-parallel line reported as miss", in3);
    else
    {
        check<T> ("Plane3.intersectT", cls, qabs ((Q) tpar - ts), sc / qabs (cosq), 32, in3);
        check<T> ("Plane3.intersect", cls, len (toQ (hit) - hq), sc / qabs (cosq), 32, in3);
        check<T> ("Plane3.intersect", "on-plane", qabs (dot (n, toQ (hit)) - d), sc / qabs (cosq), 32, in3);
    }
}

template <class T> static void runPlaneXform ()
{
    IV p1 = iv (4), p2 = iv (4), p3 = iv (4);
    IV nI = icross (isub (p2, p1), isub (p3, p1));
    if (izero (nI)) return;
    long m[3][3], tr[3];
    for (int i = 0; i < 3; ++i) { for (int j = 0; j < 3; ++j) m[i][j] = li (-2, 2); tr[i] = li (-4, 4); }
    long det = m[0][0] * (m[1][1] * m[2][2] - m[1][2] * m[2][1]) - m[0][1] * (m[1][0] * m[2][2] - m[1][2] * m[2][0]) + m[0][2] * (m[1][0] * m[2][1] - m[1][1] * m[2][0]);
    if (det == 0) return;
    Matrix44<T> M ((T) m[0][0], (T) m[0][1], (T) m[0][2], 0, (T) m[1][0], (T) m[1][1], (T) m[1][2], 0, (T) m[2][0], (T) m[2][1], (T) m[2][2], 0, (T) tr[0], (T) tr[1], (T) tr[2], 1);
    Plane3<T> pl (it<T> (p1), it<T> (p2), it<T> (p3));
    Plane3<T> px = pl * M;
    std::string in = fmt ({(double) p1.x, (double) p1.y, (double) p1.z, (double) p2.x, (double) p2.y, (double) p2.z, (double) p3.x, (double) p3.y, (double) p3.z});
    for (int i = 0; i < 3; ++i) for (int j = 0; j < 3; ++j) in += fmt ({(double) m[i][j]});
    in += fmt ({(double) tr[0], (double) tr[1], (double) tr[2]});
    auto xf = [&] (IV a) { IV r = {a.x * m[0][0] + a.y * m[1][0] + a.z * m[2][0] + tr[0], a.x * m[0][1] + a.y * m[1][1] + a.z * m[2][1] + tr[1], a.x * m[0][2] + a.y * m[1][2] + a.z * m[2][2] + tr[2]}; return r; };
    // exact transformed plane through the exact images
    IV x1 = xf (p1), x2 = xf (p2), x3 = xf (p3);
    IV nx = icross (isub (x2, x1), isub (x3, x1));
    if (izero (nx)) return;
    QV nq = unit (iq (nx));
    Q  scale = 1 + maxabs (iq (x1)) + maxabs (iq (x2)) + maxabs (iq (x3));
    // conditioning: the code builds its own three points from the (rounded) unit normal; error is amplified by |M|^2/|det|-like factor
    Q normM = 0;
    for (int i = 0; i < 3; ++i) for (int j = 0; j < 3; ++j) normM += (Q) (m[i][j] * m[i][j]);
    Q cond = 1 + normM * qsqrt (normM) / qabs ((Q) det);
    check<T> ("Plane3.mulM44", "unit-normal", qabs (len (toQ (px.normal)) - 1), 1, 4, in);
    // (dir2 L) x (dir1 L) = det(L) |dir1|^2 n L^-T and the cross product of the images of p1,p2,p3 is det(L) N L^-T: same orientation
    check<T> ("Plane3.mulM44", "normal", len (toQ (px.normal) - nq), cond, 32, in);
    for (IV xi : {x1, x2, x3}) check<T> ("Plane3.mulM44", "contains-images", qabs ((Q) px.distanceTo (it<T> (xi))), scale * cond, 32, in);
    // operator* (Line3, Matrix44) on the same matrix: the line through the images; pos is exact on the lattice
    if (!izero (isub (p2, p1)))
    {
        Line3<T> ln (it<T> (p1), it<T> (p2));
        Line3<T> lx = ln * M;
        if (!(lx.pos == it<T> (x1))) flag ("Line3.mulM44", "pos", tname<T> (), "pos of line * M is not the image of pos", in);
        QV dimg = iq (isub (x2, x1));
        Q  stretch = len (dimg) / len (iq (isub (p2, p1)));           // |L d| for the unit direction d
        check<T> ("Line3.mulM44", "unit-dir", qabs (len (toQ (lx.dir)) - 1), 1, 4, in);
        check<T> ("Line3.mulM44", "dir", len (toQ (lx.dir) - unit (dimg)), (1 + maxabs (iq (x1)) + qsqrt (normM)) / stretch, 16, in);
    }
    // sides
    IV q = iv (6);
    long side = idot (nI, isub (q, p1));
    if (side != 0)
    {
        ++evals;
        T got = px.distanceTo (it<T> (xf (q)));
        bool same = (got > 0) == ((side > 0) == (det > 0));
        if (!same) flag ("Plane3.mulM44", "sides", tname<T> (), "side of a lattice point not kept (det sign accounted)", in);
    }
}

//------------------------------------------------------------------------------------------------ overflow guards (audit W6)
// The guards `|n| >= max*|d|` of closestPoints / closestPointTo(line) and `|d| >= max*|nd|` of the triangle test with a NON-ZERO
// denominator are out of reach of the lattice classes (they need |w| ~ theta*max).  Here: unit directions at a small angle theta
// (2^-20..2^-10 at double, 2^-9..2^-5 at float: d = sin^2 theta is well above eps, so its float evaluation is accurate to < 2 %),
// positions = lattice points times a power of two chosen so that the EXACT ratio r = |n|/(max*|d|), evaluated in __float128 on the
// STORED values, is about 4 (guard must fire) or about 1/4 (must not fire).  Judged: the decision equals the exact predicate.
template <class T> static void runGuards ()
{
    const Q MAXT = (Q) std::numeric_limits<T>::max ();
    IV a0 = iv (4), a1 = iv (4), b0 = iv (4), u = iv (3);
    if (izero (isub (a1, a0))) return;
    IV uu = icross (isub (a1, a0), u);                 // a lattice vector perpendicular to the direction
    if (izero (uu)) return;
    int    te = sizeof (T) == 4 ? li (5, 9) : li (10, 20);
    Q      theta = 1 / (Q) (1l << te);
    Line3<T> l1 (it<T> (a0), it<T> (a1));
    QV     d1q = toQ (l1.dir), uq = unit (iq (uu));
    Vec3<T> d2T = toT<T> (unit (d1q + theta * uq));
    d2T.normalize ();
    bool   wantFire = rng () % 2;
    // exact quantities on the stored directions, positions a0*s, b0*s
    QV d1 = toQ (l1.dir), d2 = toQ (d2T), w0 = iq (isub (a0, b0));
    if (izero (isub (a0, b0))) return;
    Q d1d2 = dot (d1, d2), d = 1 - d1d2 * d1d2;
    Q n1 = d1d2 * dot (d2, w0) - dot (d1, w0), n2 = dot (d2, w0) - d1d2 * dot (d1, w0);
    Q num = dot (d1, w0) - d1d2 * dot (d2, w0), den = d1d2 * d1d2 - 1;
    Q big = qabs (n1) > qabs (n2) ? qabs (n1) : qabs (n2);
    if (big == 0 || d == 0) { ++counts["guard_degenerate_skipped"]; return; }
    Q r0 = big / (MAXT * qabs (d));
    long double want = (long double) ((wantFire ? (Q) 4 : (Q) 0.25) / r0);
    if (!(want > 1e-300L && want < 1e320L)) { ++counts["guard_scale_out_of_range"]; return; }
    int e = (int) std::floor (log2l (want) + 0.5L);
    Q s = (Q) std::ldexp (1.0, e);
    // positions up to 4*2^e and a foot parameter up to max/2: keep |pos| + |foot| representable (64 * 2^e < max)
    if (!(std::ldexp (64.0, e) < (double) std::numeric_limits<T>::max ())) { ++counts["guard_scale_out_of_range"]; return; }
    Vec3<T> p1 = it<T> (a0) * (T) std::ldexp (1.0, e), p2 = it<T> (b0) * (T) std::ldexp (1.0, e);
    Line3<T> L1, L2;
    L1.pos = p1; L1.dir = l1.dir; L2.pos = p2; L2.dir = d2T;
    Q r1 = qabs (n1) * s / (MAXT * qabs (d)), r2 = qabs (n2) * s / (MAXT * qabs (d)), r3 = qabs (num) * s / (MAXT * qabs (den));
    std::string in = fmt ({(double) p1.x, (double) p1.y, (double) p1.z, (double) L1.dir.x, (double) L1.dir.y, (double) L1.dir.z,
                           (double) p2.x, (double) p2.y, (double) p2.z, (double) L2.dir.x, (double) L2.dir.y, (double) L2.dir.z});
    // closestPoints: false iff one of the two ratios is >= 1; judged when both are outside [1/2, 2]
    if ((r1 < 0.5 || r1 > 2) && (r2 < 0.5 || r2 > 2))
    {
        bool fire = r1 > 2 || r2 > 2;
        Vec3<T> c1 (T (0)), c2 (T (0));
        bool ok = closestPoints (L1, L2, c1, c2);
        ++evals;
        ++counts[std::string ("guard_closestPoints:") + tname<T> () + (fire ? ":fired" : ":not-fired")];
        if (ok == fire) flag ("LineAlgo.closestPoints", fire ? "overflow-guard-must-fire" : "overflow-guard-must-not-fire", tname<T> (),
                              "decision differs from the exact guard predicate |n| >= max*|d| on the stored values", in);
        else if (ok)
        {
            // not fired: the feet are finite and lie on their lines to c*eps*|foot|
            bool fin = std::isfinite ((double) c1.x) && std::isfinite ((double) c1.y) && std::isfinite ((double) c1.z) && std::isfinite ((double) c2.x) && std::isfinite ((double) c2.y) && std::isfinite ((double) c2.z);
            if (!fin) flag ("LineAlgo.closestPoints", "overflow-guard-passed-nonfinite", tname<T> (), "guard did not fire but a returned point is not finite", in);
        }
    }
    else ++counts["guard_near_boundary_skipped"];
    if (r3 < 0.5 || r3 > 2)
    {
        bool fire = r3 > 2;
        Vec3<T> cl = L1.closestPointTo (L2);
        ++evals;
        ++counts[std::string ("guard_closestPointToLine:") + tname<T> () + (fire ? ":fired" : ":not-fired")];
        bool isPos = cl == L1.pos;
        bool fin = std::isfinite ((double) cl.x) && std::isfinite ((double) cl.y) && std::isfinite ((double) cl.z);
        if (fire && !isPos) flag ("Line3.closestPointToLine", "overflow-guard-must-fire", tname<T> (), "guard |num| >= |den|*max holds exactly on the stored values but the result is not pos", in);
        if (!fire && (isPos || !fin)) flag ("Line3.closestPointToLine", "overflow-guard-must-not-fire", tname<T> (), "guard does not hold exactly but the result is pos / not finite", in);
    }
    // triangle: a line at angle theta to the triangle's plane, far away: |d| >= max*|nd| must give false
    IV v0 = iv (4), v1 = iv (4), v2 = iv (4);
    IV NI = icross (isub (v2, v1), isub (v1, v0));
    if (izero (NI)) return;
    QV nh = unit (iq (NI)), eq = unit (iq (isub (v1, v0)));
    Vec3<T> dirT = toT<T> (unit (eq + theta * nh));
    dirT.normalize ();
    // the code's own (rounded) unit normal is not available: use the exact one; margin 4 covers its eps-sized error (theta >> eps)
    Q nd = dot (nh, toQ (dirT));
    IV off = iv (4);
    Q dd0 = dot (nh, iq (isub (v0, off)));
    if (dd0 == 0 || nd == 0) return;
    Q rt0 = qabs (dd0) / (MAXT * qabs (nd));
    long double want2 = (long double) ((Q) 4 / rt0);
    if (!(want2 > 1e-300L && want2 < 1e320L)) { ++counts["guard_scale_out_of_range"]; return; }
    int e2 = (int) std::floor (log2l (want2) + 0.5L);
    if (!(std::ldexp (8.0, e2) < (double) std::numeric_limits<T>::max ())) { ++counts["guard_scale_out_of_range"]; return; }
    Line3<T> L;
    L.pos = it<T> (off) * (T) std::ldexp (1.0, e2); L.dir = dirT;
    Q ddq = dot (nh, iq (v0) - toQ (L.pos));
    Q rt = qabs (ddq) / (MAXT * qabs (nd));
    if (rt > 2)
    {
        Vec3<T> pt (T (0)), bary (T (0)); bool front = false;
        bool ok = intersect (L, it<T> (v0), it<T> (v1), it<T> (v2), pt, bary, front);
        ++evals;
        ++counts[std::string ("guard_triangle:") + tname<T> () + ":fired"];
        if (ok) flag ("LineAlgo.intersect", "overflow-guard-must-fire", tname<T> (), "|d| >= max*|nd| holds exactly but intersect returned true",
                      fmt ({(double) L.pos.x, (double) L.pos.y, (double) L.pos.z, (double) L.dir.x, (double) L.dir.y, (double) L.dir.z}) + fv (it<T> (v0)) + fv (it<T> (v1)) + fv (it<T> (v2)));
    }
}

//------------------------------------------------------------------------------------------------ plane * projective matrix (audit W2)
static long det4l (const long a[4][4])
{
    long r = 0;
    for (int c = 0; c < 4; ++c)
    {
        long m[3][3];
        for (int i = 1; i < 4; ++i) { int k = 0; for (int j = 0; j < 4; ++j) if (j != c) m[i - 1][k++] = a[i][j]; }
        long d3 = m[0][0] * (m[1][1] * m[2][2] - m[1][2] * m[2][1]) - m[0][1] * (m[1][0] * m[2][2] - m[1][2] * m[2][0]) + m[0][2] * (m[1][0] * m[2][1] - m[1][1] * m[2][0]);
        r += ((c % 2) ? -1 : 1) * a[0][c] * d3;
    }
    return r;
}
// Matrices with last column (a,b,c,16)/16, a,b,c in {-2..2}: a genuinely projective map.  Oracle: the exact images X_i / w_i of the
// three lattice points and of a fourth in-plane lattice point (rationals, evaluated in __float128 from the integers); all four
// must have signed distance ~ 0 to plane*M, the normal must be +-the exact one, and the SIDE of an off-plane point follows the
// sign relation of theorem Plane3_mulM44_projective: sign(dist(q*M)) = sign(det4 * side(q) * w(q) * W), W the product of the three
// construction w's.  Cases where an exact w vanishes or a construction w is small are skipped (counted).
template <class T> static void runPlaneXformProj ()
{
    IV p1 = iv (4), p2 = iv (4), p3 = iv (4);
    IV nI = icross (isub (p2, p1), isub (p3, p1));
    if (izero (nI)) return;
    long m[4][4];
    for (int i = 0; i < 3; ++i) { for (int j = 0; j < 3; ++j) m[i][j] = li (-2, 2); m[3][i] = li (-4, 4); m[i][3] = li (-2, 2); }
    m[3][3] = 16;
    if (m[0][3] == 0 && m[1][3] == 0 && m[2][3] == 0) m[li (0, 2)][3] = 1;
    long det = det4l (m);          // = 16 * det of the real matrix (last column / 16)
    if (det == 0) { ++counts["proj_singular_skipped"]; return; }
    Matrix44<T> M;
    for (int i = 0; i < 4; ++i) for (int j = 0; j < 4; ++j) M[i][j] = j == 3 ? (T) (m[i][j] / 16.0) : (T) m[i][j];
    auto wI = [&] (IV a) { return a.x * m[0][3] + a.y * m[1][3] + a.z * m[2][3] + 16; };                          // 16 * w
    auto xq = [&] (QV a) { Q w = (a.x * (Q) m[0][3] + a.y * (Q) m[1][3] + a.z * (Q) m[2][3]) / 16 + 1;
                           return qv ((a.x * (Q) m[0][0] + a.y * (Q) m[1][0] + a.z * (Q) m[2][0] + (Q) m[3][0]) / w,
                                      (a.x * (Q) m[0][1] + a.y * (Q) m[1][1] + a.z * (Q) m[2][1] + (Q) m[3][1]) / w,
                                      (a.x * (Q) m[0][2] + a.y * (Q) m[1][2] + a.z * (Q) m[2][2] + (Q) m[3][2]) / w); };
    auto wq = [&] (QV a) { return (a.x * (Q) m[0][3] + a.y * (Q) m[1][3] + a.z * (Q) m[2][3]) / 16 + 1; };
    IV p4 = iadd (p2, isub (p3, p1));
    IV q = iv (6);
    if (wI (p1) == 0 || wI (p2) == 0 || wI (p3) == 0 || wI (p4) == 0 || wI (q) == 0) { ++counts["proj_w_zero_skipped"]; return; }
    // the code's construction points from the exact unit normal: point = d n, dir1 = e_i x n of largest length, point + dir1 x n, point + dir1
    QV n = unit (iq (nI));
    Q  dpl = dot (n, iq (p1));
    QV cand[3] = {cross (qv (1, 0, 0), n), cross (qv (0, 1, 0), n), cross (qv (0, 0, 1), n)};
    int best = 0; Q l0 = dot (cand[0], cand[0]), l1 = dot (cand[1], cand[1]), l2 = dot (cand[2], cand[2]);
    if (l0 < l1) best = (l1 < l2) ? 2 : 1; else best = (l0 < l2) ? 2 : 0;
    Q sorted[3] = {l0, l1, l2};
    Q top = sorted[best], second = 0;
    for (int i = 0; i < 3; ++i) if (i != best && sorted[i] > second) second = sorted[i];
    bool tie = top - second < (Q) 1e-6;
    QV P0 = dpl * n, P2 = P0 + cand[best], P1 = P0 + cross (cand[best], n);
    Q  w0 = wq (P0), w1 = wq (P1), w2 = wq (P2);
    Q  minw = qabs (w0); if (qabs (w1) < minw) minw = qabs (w1); if (qabs (w2) < minw) minw = qabs (w2);
    for (IV a : {p1, p2, p3, p4, q}) { Q w = qabs ((Q) wI (a)) / 16; if (w < minw) minw = w; }
    if (minw < (Q) 0.25 && !tie) { ++counts["proj_small_w_skipped"]; return; }
    if (tie)
    {
        // near-tie of the axis choice: the construction points are not predictable; require all candidates to be safe
        for (int b = 0; b < 3; ++b) { Q a = qabs (wq (P0 + cand[b])), c = qabs (wq (P0 + cross (cand[b], n))); if (a < minw) minw = a; if (c < minw) minw = c; }
        if (minw < (Q) 0.25) { ++counts["proj_small_w_skipped"]; return; }
    }
    QV x1 = xq (iq (p1)), x2 = xq (iq (p2)), x3 = xq (iq (p3)), x4 = xq (iq (p4));
    QV nx = cross (x2 - x1, x3 - x1);
    if (len (nx) < (Q) 1e-9) return;
    QV nq = unit (nx);
    Plane3<T> pl (it<T> (p1), it<T> (p2), it<T> (p3));
    Plane3<T> px = pl * M;
    std::string in = fmt ({(double) p1.x, (double) p1.y, (double) p1.z, (double) p2.x, (double) p2.y, (double) p2.z, (double) p3.x, (double) p3.y, (double) p3.z});
    for (int i = 0; i < 4; ++i) for (int j = 0; j < 4; ++j) in += fmt ({(double) M[i][j]});
    Q scale = 1 + maxabs (x1) + maxabs (x2) + maxabs (x3) + maxabs (x4);
    Q normM = 0;
    for (int i = 0; i < 4; ++i) for (int j = 0; j < 4; ++j) normM += (Q) M[i][j] * (Q) M[i][j];
    // conditioning: the images of the code's three points span a triangle of area |N'|/2; the normal's error is (error of the images)/(its height)
    QV i0 = xq (P0), i1 = xq (P1), i2 = xq (P2);
    QV Nc = cross (i1 - i0, i2 - i0);
    Q  ext = 1 + maxabs (i0) + maxabs (i1) + maxabs (i2) + len (i1 - i0) + len (i2 - i0);
    Q  cond = 1 + ext * (len (i1 - i0) + len (i2 - i0)) / (len (Nc) * minw);
    ++counts[std::string ("proj_cases:") + tname<T> ()];
    check<T> ("Plane3.mulM44", "projective-unit-normal", qabs (len (toQ (px.normal)) - 1), 1, 4, in);
    Q dn = len (toQ (px.normal) - nq), dp = len (toQ (px.normal) + nq);
    check<T> ("Plane3.mulM44", "projective-normal", dn < dp ? dn : dp, cond, 32, in);
    for (QV xi : {x1, x2, x3, x4})
        check<T> ("Plane3.mulM44", "projective-contains-images", qabs (dot (toQ (px.normal), xi) - (Q) px.distance), scale * cond, 32, in);
    // sides
    long side = idot (nI, isub (q, p1));
    if (side != 0 && !tie)
    {
        QV xqv = xq (iq (q));
        Q  got = dot (toQ (px.normal), xqv) - (Q) px.distance;
        Q  sdq = dot (n, iq (q)) - dpl;
        Q  hgt = qabs (dot (nq, xqv - x1));          // exact distance of the image from the exact image plane
        if (hgt > 64 * (Q) std::numeric_limits<T>::epsilon () * scale * cond)
        {
            ++evals;
            Q pred = (Q) det * sdq * ((Q) wI (q) / 16) * (w0 * w1 * w2);
            if ((got > 0) != (pred > 0)) flag ("Plane3.mulM44", "projective-sides", tname<T> (), "side of the image differs from sign(det4 * side * w(q) * W) (theorem Plane3_mulM44_projective)", in + fv (it<T> (q)));
        }
    }
}

//------------------------------------------------------------------------------------------------ spheres
template <class T> static void runSpheres (int far)
{
    // far class: sphere and line translated together AND scaled by a factor f in (1,2) with 12 / 30 dense fractional bits (every coordinate stays exactly
    // representable but products of coordinates are not), so that the answers keep their relative size — the bounds stay
    // relative to |pos - center| + radius — while an implementation that expands |pos - center|^2 loses them by cancellation.
    // The oracle works from the exact values of the T inputs.
    IV off = offsetOf (far);
    IV cI = iadd (iv (4), off); long R = li (1, 5);
    IV a0 = iadd (iv (6), off), a1 = iadd (iv (6), off);
    if (izero (isub (a1, a0))) return;
    T f = far ? (sizeof (T) == 4 ? (T) (1 + 0xA53 / 4096.0) : (T) (1 + 0x2B5C3A7D / 1073741824.0)) : (T) 1;   // 12 / 30 fractional bits, dense pattern
    Vec3<T> cT = it<T> (cI) * f, p0 = it<T> (a0) * f, p1 = it<T> (a1) * f;
    T RT = (T) R * f;
    Sphere3<T> s (cT, RT);
    Line3<T>   l (p0, p1);
    QV dq = unit (toQ (p1) - toQ (p0)), v = toQ (p0) - toQ (cT);
    Q  B = 2 * dot (dq, v), C = dot (v, v) - (Q) RT * (Q) RT, disc = B * B - 4 * C;
    std::string in = fmt ({(double) cT.x, (double) cT.y, (double) cT.z, (double) RT, (double) p0.x, (double) p0.y, (double) p0.z, (double) p1.x, (double) p1.y, (double) p1.z});
    T t = 0; Vec3<T> hit (T (0));
    bool ok = s.intersectT (l, t), ok2 = s.intersect (l, hit);
    if (ok != ok2) flag ("Sphere3.intersect", "agree", tname<T> (), "intersect and intersectT disagree", in);
    Q scale = 1 + maxabs (v) + (Q) R;
    Q eps = (Q) std::numeric_limits<T>::epsilon ();
    Q tol = 64 * eps * scale * scale;
    if (qabs (disc) <= tol) { ++counts["sphere_near_tangent_skipped"]; return; }
    bool expect; Q ts = 0;
    if (disc < 0) expect = false;
    else
    {
        Q sq = qsqrt (disc), t0 = (-B - sq) / 2, t1 = (-B + sq) / 2;
        Q tolr = 64 * eps * scale * (1 + scale / sq);
        if (qabs (t0) <= tolr || qabs (t1) <= tolr) { ++counts["sphere_root_near_zero_skipped"]; return; }
        if (t0 >= 0) { expect = true; ts = t0; }
        else if (t1 >= 0) { expect = true; ts = t1; }
        else expect = false;
    }
    ++evals;
    if (ok != expect) { flag ("Sphere3.intersectT", far ? (expect ? "far-hit" : "far-miss") : (expect ? "hit" : "miss"), tname<T> (), "decision differs from the exact answer away from tangency", in); return; }
    if (ok)
    {
        Q sq = qsqrt (disc);
        check<T> ("Sphere3.intersectT", far ? "far-smallest-nonneg-root" : "smallest-nonneg-root", qabs ((Q) t - ts), scale * (1 + scale / sq), 32, in);
        Q sch = scale * (1 + scale / sq) + maxabs (toQ (p0));   // the point itself is rounded at the magnitude of its coordinates
        check<T> ("Sphere3.intersect", far ? "far-point" : "point", len (toQ (hit) - (toQ (p0) + ts * dq)), sch, 32, in);
        check<T> ("Sphere3.intersect", far ? "far-on-sphere" : "on-sphere", qabs (len (toQ (hit) - toQ (cT)) - (Q) RT), sch, 32, in);
    }
    // circumscribe
    IV lo = iv (4), hi = iadd (lo, IV{li (0, 5), li (0, 5), li (0, 5)});
    Sphere3<T> cs; cs.circumscribe (Box<Vec3<T>> (it<T> (lo), it<T> (hi)));
    QV cq = (Q) 0.5 * (iq (lo) + iq (hi));
    Q  rq = len (iq (hi) - cq);
    std::string inb = fmt ({(double) lo.x, (double) lo.y, (double) lo.z, (double) hi.x, (double) hi.y, (double) hi.z});
    check<T> ("Sphere3.circumscribe", "center", len (toQ (cs.center) - cq), 1 + maxabs (cq), 2, inb);
    check<T> ("Sphere3.circumscribe", "radius", qabs ((Q) cs.radius - rq), 1 + rq, 4, inb);
    for (int k = 0; k < 8; ++k)
    {
        QV corner = qv ((Q) ((k & 1) ? hi.x : lo.x), (Q) ((k & 2) ? hi.y : lo.y), (Q) ((k & 4) ? hi.z : lo.z));
        Q  over = len (corner - toQ (cs.center)) - (Q) cs.radius;
        check<T> ("Sphere3.circumscribe", "encloses-corners", over > 0 ? over : 0, 1 + rq + maxabs (cq), 4, inb);
    }
}

//------------------------------------------------------------------------------------------------ triangles
template <class T> static void runTriangles (int far)
{
    const char* cls = far ? "far" : "near";
    IV off = offsetOf (far);
    IV v0 = iadd (iv (4), off), v1 = iadd (iv (4), off), v2 = iadd (iv (4), off);
    IV a0 = iadd (iv (6), off), a1 = iadd (iv (6), off);
    // aim half of the lines at a lattice point of the triangle's plane (edges, vertices, interior)
    if (rng () % 2)
    {
        int i = li (0, 4), j = li (0, 4 - i), k = 4 - i - j;
        IV  tgt = {(i * v0.x + j * v1.x + k * v2.x), (i * v0.y + j * v1.y + k * v2.y), (i * v0.z + j * v1.z + k * v2.z)}; // 4 * point
        a1.x = a0.x + (tgt.x - 4 * a0.x); a1.y = a0.y + (tgt.y - 4 * a0.y); a1.z = a0.z + (tgt.z - 4 * a0.z); // a0 + 4*(target - a0)
    }
    if (izero (isub (a1, a0))) return;
    IV NI = icross (isub (v2, v1), isub (v1, v0));
    std::string in = fmt ({(double) a0.x, (double) a0.y, (double) a0.z, (double) a1.x, (double) a1.y, (double) a1.z, (double) v0.x, (double) v0.y, (double) v0.z,
                           (double) v1.x, (double) v1.y, (double) v1.z, (double) v2.x, (double) v2.y, (double) v2.z});
    Line3<T> l (it<T> (a0), it<T> (a1));
    Vec3<T> pt (T (0)), bary (T (0)); bool front = false;
    bool ok = intersect (l, it<T> (v0), it<T> (v1), it<T> (v2), pt, bary, front);
    if (izero (NI)) { ++evals; ++counts["degenerate_triangles"]; if (ok) flag ("LineAlgo.intersect", "degenerate", tname<T> (), "zero-area triangle reported as hit", in); return; }
    QV N = iq (NI), e = iq (isub (a1, a0)), dq = unit (e);
    Q  nd = dot (N, dq);
    Q  eps = (Q) std::numeric_limits<T>::epsilon ();
    Q  scale = 1 + maxabs (iq (v0)) + maxabs (iq (v1)) + maxabs (iq (v2)) + maxabs (iq (a0));
    if (qabs (nd) <= 64 * eps * len (N) * (far ? 4096 : 1)) { ++counts[std::string ("triangle_line_parallel_to_plane:") + (ok ? "reported_hit" : "reported_miss")]; return; }
    Q  ts = dot (N, iq (isub (v0, a0))) / nd;
    QV hq = iq (a0) + ts * dq;
    // exact barycentrics
    QV E = iq (isub (v1, v0)), b = iq (isub (v2, v0)), a = hq - iq (v0);
    Q  NN = dot (N, N);
    Q  mu = (dot (E, E) * dot (a, b) - dot (E, a) * dot (E, b)) / NN;
    Q  la = (dot (b, b) * dot (a, E) - dot (a, b) * dot (E, b)) / NN;
    Q  b0 = 1 - la - mu, b1 = la, b2 = mu;
    Q  mn = b0 < b1 ? b0 : b1; if (b2 < mn) mn = b2;
    // conditioning of the barycentrics: |a| * |edge| / |N| times the conditioning of the hit 1/|cos|
    Q  cosq = qabs (nd) / len (N);
    Q  K = (scale + qabs (ts)) * (len (E) + len (b)) / qsqrt (NN) / cosq;
    Q  tolEdge = 64 * eps * (1 + K);
    bool expect = mn >= 0;
    if (qabs (mn) <= tolEdge) { ++counts[std::string ("triangle_near_edge:") + tname<T> () + (ok == expect ? ":agree" : ":differ")]; return; }
    ++evals;
    ++counts[std::string ("triangle_decisions:") + (expect ? "hit" : "miss")];
    if (ok != expect) { flag ("LineAlgo.intersect", expect ? "hit" : "miss", tname<T> (), "decision differs from the exact answer away from the edges", in); return; }
    if (!ok) return;
    check<T> ("LineAlgo.intersect", "point", len (toQ (pt) - hq), (scale + qabs (ts)) / cosq, 32, in);
    check<T> ("LineAlgo.intersect", "barycentric", qabs ((Q) bary.x - b0) + qabs ((Q) bary.y - b1) + qabs ((Q) bary.z - b2), 1 + K, 64, in);
    QV rec = (Q) bary.x * iq (v0) + (Q) bary.y * iq (v1) + (Q) bary.z * iq (v2);
    check<T> ("LineAlgo.intersect", "barycentrics-reproduce-point", len (rec - toQ (pt)), (1 + K) * scale, 64, in);
    check<T> ("LineAlgo.intersect", "barycentrics-sum", qabs ((Q) bary.x + (Q) bary.y + (Q) bary.z - 1), 1, 4, in);
    if (front != (nd < 0)) flag ("LineAlgo.intersect", "front", tname<T> (), "front flag is not the sign of dir.normal", in);
}

//------------------------------------------------------------------------------------------------ ImathVecAlgo.h
template <class V, int N> static void runVecAlgo (const char* name)
{
    typedef typename V::BaseType T;
    V s, t, p, w[3];
    Q sq[4], tq[4];
    bool zero = true;
    for (int i = 0; i < N; ++i) { s[i] = (T) li (-4, 4); t[i] = (T) li (-4, 4); p[i] = (T) li (-4, 4); sq[i] = (Q) s[i]; tq[i] = (Q) t[i]; if (s[i] != 0) zero = false; }
    std::string in;
    for (int i = 0; i < N; ++i) in += fmt ({(double) s[i]});
    for (int i = 0; i < N; ++i) in += fmt ({(double) t[i]});
    Q ss = 0, st = 0, tt = 0;
    for (int i = 0; i < N; ++i) { ss += sq[i] * sq[i]; st += sq[i] * tq[i]; tt += tq[i] * tq[i]; }
    Q sc = 1 + qsqrt (tt);
    V pr = project (s, t), orr = orthogonal (s, t);
    Q e1 = 0, e2 = 0;
    for (int i = 0; i < N; ++i)
    {
        Q want = zero ? 0 : st / ss * sq[i];
        e1 += qabs ((Q) pr[i] - want);
        e2 += qabs ((Q) orr[i] - (tq[i] - want));
    }
    check<T> (std::string (name) + ".project", "lattice", e1, sc, 8, in);
    check<T> (std::string (name) + ".orthogonal", "lattice", e2, sc, 8, in);
    // reflect (t, s): mirror image of t in the line along s
    V rf = reflect (t, s);
    Q e3 = 0;
    for (int i = 0; i < N; ++i) { Q want = (zero ? 0 : 2 * st / ss * sq[i]) - tq[i]; e3 += qabs ((Q) rf[i] - want); }
    check<T> (std::string (name) + ".reflect", "lattice", e3, sc, 16, in);
    // "scaled" class: the same s multiplied by an exact power of two chosen so that |s|^2 leaves the normal range (underflows to 0 or overflows
    // to inf) while s itself stays normal.  project / orthogonal / reflect do not depend on |s| (the source normalises s with Vec::normalized (),
    // whose length () falls back to the scaled lengthTiny () in exactly these cases), so the lattice oracle is unchanged.  A rewrite through
    // s.length2 () or s ^ s (one division instead of a square root) is exact on the lattice and wrong here.
    // (the exponent is derived from the operands, not drawn: the random stream of the other classes stays what it was)
    {
        static const int exF[4] = {-100, -70, 61, 120}, exD[4] = {-900, -600, 510, 1000};
        int e = (sizeof (T) == 4 ? exF : exD)[((int) std::fabs ((double) s[0]) + (int) std::fabs ((double) t[0]) + N) % 4];
        V sb = s * std::ldexp (T (1), e);
        V pr2 = project (sb, t), or2 = orthogonal (sb, t), rf2 = reflect (t, sb);
        Q f1 = 0, f2 = 0, f3 = 0;
        bool fin = true;
        for (int i = 0; i < N; ++i)
        {
            Q want = zero ? 0 : st / ss * sq[i];
            if (!std::isfinite ((double) pr2[i]) || !std::isfinite ((double) or2[i]) || !std::isfinite ((double) rf2[i])) fin = false;
            f1 += qabs ((Q) pr2[i] - want);
            f2 += qabs ((Q) or2[i] - (tq[i] - want));
            f3 += qabs ((Q) rf2[i] - (2 * want - tq[i]));
        }
        std::string in2 = in + " s*2^" + std::to_string (e);
        if (!fin) { ++evals; flag (std::string (name) + ".project:scaled", "scaled", tname<T> (), "non-finite result for a normal, non-overflowing s", in2); }
        else
        {
            check<T> (std::string (name) + ".project:scaled", "scaled", f1, sc, 8, in2);
            check<T> (std::string (name) + ".orthogonal:scaled", "scaled", f2, sc, 8, in2);
            check<T> (std::string (name) + ".reflect:scaled", "scaled", f3, sc, 16, in2);
        }
    }
    // closestVertex (exact on the lattice; ties skipped)
    long dd[3];
    for (int k = 0; k < 3; ++k) { dd[k] = 0; for (int i = 0; i < N; ++i) { w[k][i] = (T) li (-4, 4); long df = (long) w[k][i] - (long) p[i]; dd[k] += df * df; } }
    int best = 0;
    for (int k = 1; k < 3; ++k) if (dd[k] < dd[best]) best = k;
    bool tie = false;
    for (int k = 0; k < 3; ++k) if (k != best && dd[k] == dd[best]) tie = true;
    if (!tie) { ++evals; if (!(closestVertex (w[0], w[1], w[2], p) == w[best])) flag (std::string (name) + ".closestVertex", "lattice", tname<T> (), "wrong vertex", in); }
}

template <class T> static void runAll (long n)
{
    for (long k = 0; k < n; ++k)
    {
        int far = (k % 4 == 3);
        runLines<T> (far);
        runPlanes<T> (far);
        runPlaneXform<T> ();
        runPlaneXformProj<T> ();
        runGuards<T> ();
        runSpheres<T> (far);
        runTriangles<T> (far);
        runVecAlgo<Vec2<T>, 2> ("VecAlgo2");
        runVecAlgo<Vec3<T>, 3> ("VecAlgo3");
        runVecAlgo<Vec4<T>, 4> ("VecAlgo4");
    }
}

int main (int argc, char** argv)
{
    unsigned long seed = argc > 1 ? strtoul (argv[1], 0, 10) : 1;
    long          n    = argc > 2 ? atol (argv[2]) : 2000;
    rng.seed (seed * 2654435761ul + 15);
    runAll<double> (n);
    runAll<float> (n);
    printf ("C15-RESIDUE evals=%ld failures=%ld", evals, failures);
    for (auto& kv : worst) printf (" max[%s]=%.3g", kv.first.c_str (), kv.second);
    for (auto& kv : counts) printf (" count[%s]=%ld", kv.first.c_str (), kv.second);
    printf ("\n");
    return failures ? 1 : 0;
}
