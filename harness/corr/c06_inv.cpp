// C06: matrix inversion — correspondence (H-route tie of the Gauss-Jordan hand model) and residue measurement.
//
//   c06_inv corr <seed> <n>       one line per case:
//        <tag> <3|4> <d|f> <n*n input bit patterns> => <n><ty> exc=<ok|invalidArgument> <n*n bit patterns of gjInverse()>
//     computed by the REAL Matrix33/44<T>::gjInverse() (values) and gjInverse(true) (exception kind); the part after
//     "=>" must equal, bit for bit, what lean/Driver/GaussJordan.lean prints for the part before it.
//     Also checked here, in-process (lines `SELF-FAIL ...`): gjInvert()/invert() leave exactly what gjInverse()/inverse()
//     return; gjInverse(true) returns the same values as gjInverse() when it does not throw; Matrix44::inverse() of a
//     non-affine matrix is gjInverse().  Last line: `CORR cases=<k> self=<k> selffail=<k> classes=...`.
//
//   c06_inv residue <seed> <n> [c]   measured rounding residue (DESIGN.md §2.4; never presented as proof):
//     error of inverse()/gjInverse() against a 113-bit (__float128) full-pivoting Gauss-Jordan inverse X of the SAME
//     floating-point input, in units of  cond(M) * eps * ||X||   (infinity norms, cond = ||M|| ||X||), bound c (default 8),
//     accounted PER CODE PATH (M22.inverse, M33.inverse:affine-arm / :cofactor-general-arm, M33.gjInverse,
//     M44.inverse:nonaffine-arm / :cofactor-affine-arm, M44.gjInverse): graded condition numbers up to 1/eps with three
//     singular-value profiles, both |det| branches, affine last column perturbed by one ulp (fast path vs general path must
//     agree to 2c: `affine-jump:*`), finiteness of every result for cond < 1/eps^2 (entries within a dynamic range of 1/eps^2), and on integer lattices every entry
//     produced by one division must be the correctly rounded adj/det.  The fixed witnesses come first (unseeded).
//     Lines: `RESIDUE-FAIL <key> ...` (key = residue:accuracy:<path> | residue:affine-jump:<fn> | residue:nonfinite:<path> |
//     residue:lattice:<path>; at most 4 per key and type), `RPATH <path> <ty> n= judged= worst= ...`, one `RESIDUE ...` summary.
#include <ImathMatrix.h>
#include <ImathMatrixAlgo.h>
#include <cmath>
#include <cstdio>
#include <cstdlib>
#include <cstring>
#include <cstdint>
#include <algorithm>
#include <map>
#include <random>
#include <stdexcept>
#include <string>
#include <vector>
using namespace IMATH_NAMESPACE;
typedef __float128 Q;
static std::mt19937_64 rng;
static long irand (long lo, long hi) { return lo + (long) (rng () % (uint64_t) (hi - lo + 1)); }
static double urand () { return std::uniform_real_distribution<double> (-1, 1) (rng); }

template <class T, int N> struct MatT;
template <class T> struct MatT<T, 2> { typedef Matrix22<T> type; };
template <class T> struct MatT<T, 3> { typedef Matrix33<T> type; };
template <class T> struct MatT<T, 4> { typedef Matrix44<T> type; };

static std::string hexOf (double x) { if (x != x) return "nan"; uint64_t u; memcpy (&u, &x, 8); char b[20]; snprintf (b, 20, "%016llx", (unsigned long long) u); return b; }
static std::string hexOf (float x) { if (x != x) return "nan"; uint32_t u; memcpy (&u, &x, 4); char b[20]; snprintf (b, 20, "%08x", u); return b; }
static std::string rawHex (double x) { uint64_t u; memcpy (&u, &x, 8); char b[20]; snprintf (b, 20, "%016llx", (unsigned long long) u); return b; }
static std::string rawHex (float x) { uint32_t u; memcpy (&u, &x, 4); char b[20]; snprintf (b, 20, "%08x", u); return b; }
template <class T> static bool sameBits (T a, T b) { if (a != a && b != b) return true; return memcmp (&a, &b, sizeof (T)) == 0; }
template <class T> static const char* tyName () { return sizeof (T) == 8 ? "d" : "f"; }

//---------------------------------------------------------------------------------------------------------------
// correspondence

static long corrCases = 0, selfChecks = 0, selfFail = 0;
static std::map<std::string, long> classCount;

template <class M, int N> static bool eqM (const M& a, const M& b)
{
    for (int i = 0; i < N; ++i) for (int j = 0; j < N; ++j) if (!sameBits (a[i][j], b[i][j])) return false;
    return true;
}
template <class T, int N> static std::string inHex (const typename MatT<T, N>::type& m)
{
    std::string s;
    for (int i = 0; i < N; ++i) for (int j = 0; j < N; ++j) s += " " + rawHex (m[i][j]);
    return s;
}
template <class T, int N> static void selfFailLine (const char* what, const typename MatT<T, N>::type& m)
{
    ++selfFail;
    printf ("SELF-FAIL %s %d%s in=%s\n", what, N, tyName<T> (), inHex<T, N> (m).c_str ());
}

template <class T, int N> static void emitCase (const std::string& cls, const typename MatT<T, N>::type& m)
{
    typedef typename MatT<T, N>::type M;
    ++corrCases;
    long k = classCount[cls]++;
    M r = m.gjInverse ();
    bool threw = false;
    M re;
    try { re = m.gjInverse (true); }
    catch (const std::invalid_argument&) { threw = true; }
    catch (...) { threw = true; selfFailLine<T, N> ("gjInverse(true)-throws-other-type", m); }
    printf ("%s%ld %d %s%s => %d%s exc=%s", cls.c_str (), k, N, tyName<T> (), inHex<T, N> (m).c_str (), N, tyName<T> (), threw ? "invalidArgument" : "ok");
    for (int i = 0; i < N; ++i) for (int j = 0; j < N; ++j) printf (" %s", hexOf (r[i][j]).c_str ());
    printf ("\n");
    // in-process identities between the spellings
    ++selfChecks;
    if (!threw && !eqM<M, N> (r, re)) selfFailLine<T, N> ("gjInverse(true)-value-differs-from-gjInverse()", m);
    { M c (m); c.gjInvert (); ++selfChecks; if (!eqM<M, N> (c, r)) selfFailLine<T, N> ("gjInvert()-differs-from-gjInverse()", m); }
    { M c (m); bool t2 = false; try { c.gjInvert (true); } catch (...) { t2 = true; } ++selfChecks;
      if (t2 != threw || (!t2 && !eqM<M, N> (c, r))) selfFailLine<T, N> ("gjInvert(true)-differs", m); }
    { M c (m); c.invert (); M v = m.inverse (); ++selfChecks; if (!eqM<M, N> (c, v)) selfFailLine<T, N> ("invert()-differs-from-inverse()", m); }
    // the duplicated bodies taking `bool singExc`: with singExc = false they are non-throwing determinant-based forms too
    { M v = m.inverse (); M vf = m.inverse (false); ++selfChecks; if (!eqM<M, N> (vf, v)) selfFailLine<T, N> ("inverse(false)-differs-from-inverse()", m);
      M c (m); c.invert (false); ++selfChecks; if (!eqM<M, N> (c, v)) selfFailLine<T, N> ("invert(false)-differs-from-inverse()", m);
      M gf = m.gjInverse (false); ++selfChecks; if (!eqM<M, N> (gf, r)) selfFailLine<T, N> ("gjInverse(false)-differs-from-gjInverse()", m);
      bool t3 = false; M ve; try { ve = m.inverse (true); } catch (...) { t3 = true; } ++selfChecks;
      if (!t3 && !eqM<M, N> (ve, v)) selfFailLine<T, N> ("inverse(true)-value-differs-from-inverse()", m); }
}
template <class T> static void self44 (const Matrix44<T>& m)
{
    // non-affine 4x4: inverse() is gjInverse()
    if (m[0][3] != 0 || m[1][3] != 0 || m[2][3] != 0 || m[3][3] != 1)
    {
        ++selfChecks;
        if (!eqM<Matrix44<T>, 4> (m.inverse (), m.gjInverse ())) selfFailLine<T, 4> ("M44.inverse()-nonaffine-differs-from-gjInverse()", m);
    }
}
template <class T> static void self44 (const Matrix33<T>&) {}

// a dyadic matrix with determinant +-2^k: products of elementary operations on a signed power-of-two diagonal
template <class T, int N> static typename MatT<T, N>::type dyadic (int steps, bool singular)
{
    typename MatT<T, N>::type m;
    for (int i = 0; i < N; ++i) for (int j = 0; j < N; ++j) m[i][j] = 0;
    for (int i = 0; i < N; ++i) m[i][i] = (T) std::ldexp (irand (0, 1) ? 1.0 : -1.0, (int) irand (-2, 2));
    if (singular) { int z = (int) irand (0, N - 1); m[z][z] = 0; }   // rank N-1, still dyadic
    static const double cs[] = {1, -1, 2, -2, 0.5, -0.5};
    for (int s = 0; s < steps; ++s)
    {
        int i = (int) irand (0, N - 1), j = (int) irand (0, N - 1);
        if (i == j) continue;
        T c = (T) cs[irand (0, 5)];
        switch (irand (0, 3))
        {
            case 0: for (int k = 0; k < N; ++k) m[i][k] += c * m[j][k]; break;          // row shear
            case 1: for (int k = 0; k < N; ++k) m[k][i] += c * m[k][j]; break;          // column shear
            case 2: for (int k = 0; k < N; ++k) std::swap (m[i][k], m[j][k]); break;    // row swap
            default: for (int k = 0; k < N; ++k) std::swap (m[k][i], m[k][j]); break;   // column swap
        }
    }
    return m;
}

template <class T, int N> static void corrRound (long it)
{
    typedef typename MatT<T, N>::type M;
    M m;
    auto fill = [&] (auto f) { for (int i = 0; i < N; ++i) for (int j = 0; j < N; ++j) m[i][j] = (T) f (i, j); };
    // exact classes (dyadic, determinant a power of two: every pivot is a power of two, no operation rounds)
    m = dyadic<T, N> ((int) irand (2, 8), false); emitCase<T, N> ("ex-dyadic-", m); self44 (m);
    m = dyadic<T, N> ((int) irand (2, 8), true); emitCase<T, N> ("ex-singular-", m); self44 (m);
    // signed scaled permutations: a zero on the diagonal at every stage, swap needed
    {
        int p[4] = {0, 1, 2, 3};
        for (long s = irand (0, 23); s > 0; --s) std::next_permutation (p, p + N);
        fill ([&] (int i, int j) { return j == p[i] ? std::ldexp (irand (0, 1) ? 1.0 : -1.0, (int) irand (-3, 3)) : 0.0; });
        emitCase<T, N> ("ex-perm-", m); self44 (m);
    }
    // random
    fill ([&] (int, int) { return urand (); }); emitCase<T, N> ("rand-", m); self44 (m);
    fill ([&] (int, int) { return (double) irand (-3, 3); }); emitCase<T, N> ("randint-", m); self44 (m);
    fill ([&] (int, int) { return urand () * std::ldexp (1.0, (int) irand (-20, 20)); }); emitCase<T, N> ("graded-", m); self44 (m);
    // zero column / zero row at each position (zero pivot at that stage; last one is found by the backward loop)
    {
        int c = (int) (it % N);
        fill ([&] (int, int j) { return j == c ? 0.0 : urand (); }); emitCase<T, N> ("zerocol" + std::to_string (c) + "-", m);
        fill ([&] (int i, int) { return i == c ? 0.0 : urand (); }); emitCase<T, N> ("zerorow" + std::to_string (c) + "-", m);
        // zero pivot first met at stage c: M = L * U, L unit lower (|entries| <= 1/2, dyadic), U upper with U[c][c] = 0 (dyadic)
        double L[4][4], U[4][4];
        for (int i = 0; i < N; ++i) for (int j = 0; j < N; ++j)
        {
            L[i][j] = i == j ? 1.0 : i > j ? (double) irand (-2, 2) / 4 : 0.0;
            U[i][j] = i == j ? std::ldexp (irand (0, 1) ? 1.0 : -1.0, (int) irand (-1, 1)) : i < j ? (double) irand (-3, 3) : 0.0;
        }
        U[c][c] = 0;
        fill ([&] (int i, int j) { double s = 0; for (int k = 0; k < N; ++k) s += L[i][k] * U[k][j]; return s; });
        emitCase<T, N> ("ex-stage" + std::to_string (c) + "-", m);
    }
    // rank deficient: one row a combination of two others
    {
        fill ([&] (int, int) { return (double) irand (-4, 4); });
        int r = (int) irand (0, N - 1), a = (r + 1) % N, b = (r + 2) % N;
        for (int j = 0; j < N; ++j) m[r][j] = m[a][j] * 2 - m[b][j];
        emitCase<T, N> ("rankdef-", m);
    }
    // affine 4x4 / 3x3 (gjInverse does not special-case it) and nearly singular
    fill ([&] (int i, int j) { return j == N - 1 ? (i == N - 1 ? 1.0 : 0.0) : urand (); }); emitCase<T, N> ("affine-", m);
    {
        fill ([&] (int, int) { return urand (); });
        int r = (int) irand (0, N - 1), a = (r + 1) % N;
        double e = std::ldexp (1.0, (int) -irand (10, sizeof (T) == 8 ? 60 : 28));
        for (int j = 0; j < N; ++j) m[r][j] = m[a][j] * (T) 0.5 + (T) (e * urand ());
        emitCase<T, N> ("nearsing-", m);
    }
    // special values: signed zeros, denormals, huge/tiny, occasionally inf/nan
    {
        static const double sp[] = {0.0, -0.0, 1.0, -1.0, 4.9e-324, -4.9e-324, 1e-310, 1e300, -1e300, 1e-300, 2.0, 0.5, 3.0, 1e30, 1e-30, 1.5};
        bool wild = irand (0, 9) == 0;
        fill ([&] (int, int) { double v = sp[irand (0, 15)]; if (wild && irand (0, 7) == 0) v = irand (0, 1) ? INFINITY : NAN; return v; });
        emitCase<T, N> (wild ? "special-nonfinite-" : "special-", m);
    }
}

static int corrMain (unsigned long seed, long n)
{
    rng.seed (seed * 2654435761ul + 17);
    for (long it = 0; it < n; ++it)
    {
        corrRound<double, 3> (it); corrRound<double, 4> (it);
        corrRound<float, 3> (it); corrRound<float, 4> (it);
    }
    printf ("CORR cases=%ld self=%ld selffail=%ld classes=", corrCases, selfChecks, selfFail);
    for (auto& kv : classCount) printf ("%s%ld,", kv.first.c_str (), kv.second);
    printf ("\n");
    return selfFail ? 1 : 0;
}

//---------------------------------------------------------------------------------------------------------------
// residue

static Q qabs (Q x) { return x < 0 ? -x : x; }
// full-pivoting Gauss-Jordan in quad precision; false = exactly singular
template <int N> static bool invQ (const Q a[4][4], Q x[4][4])
{
    Q w[4][8];
    for (int i = 0; i < N; ++i) for (int j = 0; j < N; ++j) { w[i][j] = a[i][j]; w[i][N + j] = i == j ? 1 : 0; }
    int colOf[4];
    bool usedR[4] = {false, false, false, false}, usedC[4] = {false, false, false, false};
    for (int s = 0; s < N; ++s)
    {
        int pr = -1, pc = -1; Q best = 0;
        for (int i = 0; i < N; ++i) if (!usedR[i]) for (int j = 0; j < N; ++j) if (!usedC[j] && qabs (w[i][j]) > best) { best = qabs (w[i][j]); pr = i; pc = j; }
        if (pr < 0) return false;
        usedR[pr] = usedC[pc] = true; colOf[pr] = pc;
        Q d = w[pr][pc];
        for (int j = 0; j < 2 * N; ++j) w[pr][j] /= d;
        for (int i = 0; i < N; ++i) if (i != pr) { Q f = w[i][pc]; if (f != 0) for (int j = 0; j < 2 * N; ++j) w[i][j] -= f * w[pr][j]; }
    }
    // row r now has a 1 in column colOf[r]: X[colOf[r]][*] = right half of row r
    for (int r = 0; r < N; ++r) for (int j = 0; j < N; ++j) x[colOf[r]][j] = w[r][N + j];
    return true;
}
template <int N> static Q normInf (const Q a[4][4])
{
    Q m = 0;
    for (int i = 0; i < N; ++i) { Q s = 0; for (int j = 0; j < N; ++j) s += qabs (a[i][j]); if (s > m) m = s; }
    return m;
}

// one record per (path, element type); the path names are the stable part of the failure keys
struct PathStat { long n = 0, judged = 0, fails = 0, nonfinite = 0, printed = 0; double worst = 0, worstCond = 0; };
static std::map<std::string, PathStat> pstat;
static std::map<std::string, long> classN;
static long rEvals = 0, rFail = 0, detGe1 = 0, detLt1 = 0, guardIdentity = 0, finiteChecked = 0, latticeChecked = 0, rangeExcluded = 0;
static double CBOUND = 8;

template <class T, int N> static std::string showM (const typename MatT<T, N>::type& m)
{
    std::string s;
    for (int i = 0; i < N; ++i) for (int j = 0; j < N; ++j) s += (s.empty () ? "" : " ") + rawHex (m[i][j]);
    return s;
}
template <class T, int N> static std::string showDec (const typename MatT<T, N>::type& m)
{
    std::string s; char b[40];
    for (int i = 0; i < N; ++i) for (int j = 0; j < N; ++j) { snprintf (b, 40, "%.17g", (double) m[i][j]); s += (s.empty () ? "" : ",") + std::string (b); }
    return s;
}
template <class T, int N> static bool finiteM (const typename MatT<T, N>::type& m)
{
    for (int i = 0; i < N; ++i) for (int j = 0; j < N; ++j) if (!std::isfinite ((double) m[i][j])) return false;
    return true;
}
template <class T, int N> static bool isIdentity (const typename MatT<T, N>::type& m)
{
    for (int i = 0; i < N; ++i) for (int j = 0; j < N; ++j) if (m[i][j] != (i == j ? (T) 1 : (T) 0)) return false;
    return true;
}
template <class T, int N> static bool isAffine (const typename MatT<T, N>::type& m)
{
    for (int i = 0; i < N - 1; ++i) if (m[i][N - 1] != 0) return false;
    return m[N - 1][N - 1] == 1;
}
// which arm of the code computes inverse() of this matrix
template <class T, int N> static std::string inversePath (const typename MatT<T, N>::type& m)
{
    if (N == 2) return "M22.inverse";
    if (N == 3) return isAffine<T, N> (m) ? "M33.inverse:affine-arm" : "M33.inverse:cofactor-general-arm";
    return isAffine<T, N> (m) ? "M44.inverse:cofactor-affine-arm" : "M44.inverse:nonaffine-arm";
}
static void failLine (PathStat& st, const std::string& key, const std::string& text)
{
    ++rFail; ++st.fails;
    if (st.printed++ < 4) printf ("RESIDUE-FAIL %s %s\n", key.c_str (), text.c_str ());
}
// error of `got` against the quad inverse of m, in units of cond*eps*||X||
template <class T, int N> static void judge (const std::string& cls, const std::string& path, const typename MatT<T, N>::type& m, const typename MatT<T, N>::type& got)
{
    Q a[4][4], x[4][4];
    for (int i = 0; i < N; ++i) for (int j = 0; j < N; ++j) a[i][j] = (Q) m[i][j];
    ++rEvals; ++classN[cls];
    PathStat& st = pstat[path + " " + tyName<T> ()];
    ++st.n;
    if (!invQ<N> (a, x)) return;
    Q eps = (Q) std::numeric_limits<T>::epsilon ();
    Q nx = normInf<N> (x), cond = normInf<N> (a) * nx;
    bool fin = finiteM<T, N> (got);
    char buf[400];
    // the finiteness claim is for entries "in a bounded dynamic range": a non-zero entry below eps^2 * max|entry| (e.g. a
    // denormal next to O(1) entries) makes 1/pivot overflow once the matrix is numerically singular; such inputs are counted apart
    Q amax = 0, amin = 0;
    for (int i = 0; i < N; ++i) for (int j = 0; j < N; ++j) { Q v = qabs (a[i][j]); if (v > amax) amax = v; if (v != 0 && (amin == 0 || v < amin)) amin = v; }
    bool bounded = amin == 0 || amin >= amax * eps * eps;
    if (!bounded) ++rangeExcluded;
    if (cond < 1 / (eps * eps) && bounded)
    {
        ++finiteChecked;
        if (!fin)
        {
            ++st.nonfinite;
            snprintf (buf, 400, "%s cond=%.3g class=%s in=", tyName<T> (), (double) cond, cls.c_str ());
            failLine (st, "residue:nonfinite:" + path, buf + showM<T, N> (m) + " dec=" + showDec<T, N> (m));
            return;
        }
    }
    if (cond > 1 / eps || !fin) return;       // accuracy is claimed up to cond = 1/eps
    if (isIdentity<T, N> (got) && cond > 4)
    {
        // the overflow guard fired (|det| tiny against the cofactors): a "clean singular outcome", not an accuracy case
        ++guardIdentity;
        return;
    }
    ++st.judged;
    Q err = 0;
    for (int i = 0; i < N; ++i) for (int j = 0; j < N; ++j) err = std::max (err, qabs ((Q) got[i][j] - x[i][j]));
    double ratio = (double) (err / (cond * eps * nx));
    if (ratio > st.worst) { st.worst = ratio; st.worstCond = (double) cond; }
    if (ratio > CBOUND)
    {
        snprintf (buf, 400, "%s err/(cond*eps*|X|)=%.4g bound=%g cond=%.3g class=%s in=", tyName<T> (), ratio, CBOUND, (double) cond, cls.c_str ());
        failLine (st, "residue:accuracy:" + path, buf + showM<T, N> (m) + " dec=" + showDec<T, N> (m));
    }
}
template <class T> static T detOf (const Matrix22<T>& m) { return m.determinant (); }
template <class T> static T detOf (const Matrix33<T>& m) { return m.determinant (); }
template <class T> static T detOf (const Matrix44<T>& m) { return m.determinant (); }
template <class T> static Matrix22<T> gjOf (const Matrix22<T>& m) { return m.inverse (); }
template <class T> static Matrix33<T> gjOf (const Matrix33<T>& m) { return m.gjInverse (); }
template <class T> static Matrix44<T> gjOf (const Matrix44<T>& m) { return m.gjInverse (); }

template <class T, int N> static void both (const std::string& cls, const typename MatT<T, N>::type& m)
{
    T d = detOf (m);
    if (std::fabs ((double) d) >= 1) ++detGe1; else ++detLt1;
    judge<T, N> (cls, inversePath<T, N> (m), m, m.inverse ());
    {
        // the duplicated `bool singExc` bodies with singExc = false are non-throwing determinant-based forms as well
        typedef typename MatT<T, N>::type M;
        M v = m.inverse (), vf = m.inverse (false), c (m);
        c.invert (false);
        if (!eqM<M, N> (vf, v) || !eqM<M, N> (c, v))
            failLine (pstat[inversePath<T, N> (m) + " " + tyName<T> ()], "residue:spelling:" + inversePath<T, N> (m),
                      std::string (tyName<T> ()) + " inverse(false)/invert(false) differ from inverse() class=" + cls + " in=" + inHex<T, N> (m));
    }
    if (N > 2) judge<T, N> (cls, N == 3 ? "M33.gjInverse" : "M44.gjInverse", m, gjOf (m));
}

// affine matrix m (fast path) against p = m with one last-column entry moved by one ulp (general path):
// the two results must agree to the same bound (no jump)
template <class T, int N> static void jump (const std::string& cls, const typename MatT<T, N>::type& m, const typename MatT<T, N>::type& p)
{
    typedef typename MatT<T, N>::type M;
    M x0 = m.inverse (), x1 = p.inverse ();
    judge<T, N> (cls + "-perturbed", inversePath<T, N> (p), p, x1);
    Q a[4][4], x[4][4];
    for (int i = 0; i < N; ++i) for (int j = 0; j < N; ++j) a[i][j] = (Q) m[i][j];
    std::string path = std::string ("affine-jump:") + (N == 3 ? "M33.inverse" : "M44.inverse");
    PathStat& st = pstat[path + " " + tyName<T> ()];
    ++st.n;
    if (!invQ<N> (a, x) || !finiteM<T, N> (x0) || !finiteM<T, N> (x1)) return;
    Q e = (Q) std::numeric_limits<T>::epsilon (), nx = normInf<N> (x), cond = normInf<N> (a) * nx, jmp = 0;
    if (cond > 1 / e) return;
    if (isIdentity<T, N> (x0) != isIdentity<T, N> (x1)) return;   // one side took the guarded singular exit
    for (int i = 0; i < N; ++i) for (int j = 0; j < N; ++j) jmp = std::max (jmp, qabs ((Q) x0[i][j] - (Q) x1[i][j]));
    double ratio = (double) (jmp / (cond * e * nx));
    ++st.judged;
    if (ratio > st.worst) { st.worst = ratio; st.worstCond = (double) cond; }
    if (ratio > 2 * CBOUND)
    {
        char buf[400];
        snprintf (buf, 400, "%s |inverse(M)-inverse(M')|/(cond*eps*|X|)=%.4g bound=%g cond=%.3g class=%s in=", tyName<T> (), ratio, 2 * CBOUND, (double) cond, cls.c_str ());
        failLine (st, "residue:" + path, buf + showM<T, N> (m) + " perturbed=" + showM<T, N> (p) + " dec=" + showDec<T, N> (m));
    }
}

// integer lattice: cofactors and determinant are exact, so every entry produced by a single division must be the
// correctly rounded quotient adj_ij/det (a change such as  s / r  ->  s * (1 / r)  is invisible in exact arithmetic
// and far below the cond*eps bound, but not below this one)
// exact determinant of the K x K integer matrix a (rows r[], columns c[])
static long long idet (const long long a[4][4], const int* r, const int* c, int K)
{
    if (K == 1) return a[r[0]][c[0]];
    long long d = 0;
    for (int j = 0; j < K; ++j)
    {
        int cc[3], k = 0;
        for (int q = 0; q < K; ++q) if (q != j) cc[k++] = c[q];
        long long t = a[r[0]][c[j]] * idet (a, r + 1, cc, K - 1);
        d += (j & 1) ? -t : t;
    }
    return d;
}
template <class T, int N> static void lattice (const typename MatT<T, N>::type& m)
{
    typedef typename MatT<T, N>::type M;
    std::string path = inversePath<T, N> (m);
    if (path == "M44.inverse:nonaffine-arm") return;   // Gauss-Jordan: several roundings per entry
    PathStat& st = pstat["lattice:" + path + " " + tyName<T> ()];
    ++st.n;
    long long a[4][4];
    for (int i = 0; i < N; ++i) for (int j = 0; j < N; ++j) a[i][j] = (long long) m[i][j];
    int all[4] = {0, 1, 2, 3};
    long long det = idet (a, all, all, N);
    M got = m.inverse ();
    if (det == 0)
    {
        if (!isIdentity<T, N> (got)) failLine (st, "residue:lattice:" + path, std::string (tyName<T> ()) + " singular-integer-matrix-not-identity in=" + showM<T, N> (m) + " dec=" + showDec<T, N> (m));
        return;
    }
    if (isIdentity<T, N> (got)) return;
    // entries obtained by one division: all of them (general arms), or the leading (N-1)x(N-1) block (affine arms)
    int K = (path == "M33.inverse:affine-arm" || path == "M44.inverse:cofactor-affine-arm") ? N - 1 : N;
    ++st.judged; ++latticeChecked;
    for (int i = 0; i < K; ++i) for (int j = 0; j < K; ++j)
    {
        // X[i][j] = (-1)^(i+j) * minor(j,i) / det
        int rr[3], cc[3], k = 0;
        for (int q = 0; q < N; ++q) if (q != j) rr[k++] = q;
        k = 0;
        for (int q = 0; q < N; ++q) if (q != i) cc[k++] = q;
        long long cof = N == 1 ? 1 : idet (a, rr, cc, N - 1);
        if ((i + j) & 1) cof = -cof;
        T want = (T) ((Q) cof / (Q) det);   // small integers: the quad quotient rounds to the correctly rounded T quotient
        if (!sameBits (want + (T) 0, got[i][j] + (T) 0))   // +0: the sign of a zero quotient is not claimed
        {
            char buf[300];
            snprintf (buf, 300, "%s entry[%d][%d]=%.17g correctly-rounded-adj/det=%.17g in=", tyName<T> (), i, j, (double) got[i][j], (double) want);
            failLine (st, "residue:lattice:" + path, buf + showM<T, N> (m) + " dec=" + showDec<T, N> (m));
            return;
        }
    }
}

// orthogonal-like factor: product of plane rotations with Pythagorean cosines/sines (quad precision)
template <int N> static void orthoQ (Q u[4][4])
{
    static const int tr[][3] = {{3, 4, 5}, {5, 12, 13}, {8, 15, 17}, {7, 24, 25}, {20, 21, 29}, {12, 35, 37}};
    for (int i = 0; i < N; ++i) for (int j = 0; j < N; ++j) u[i][j] = i == j ? 1 : 0;
    for (int s = 0; s < 2 * N; ++s)
    {
        int i = (int) irand (0, N - 1), j = (int) irand (0, N - 1);
        if (i == j) continue;
        const int* t = tr[irand (0, 5)];
        Q c = (Q) t[0] / t[2], sn = (Q) t[1] / t[2];
        if (irand (0, 1)) std::swap (c, sn);
        if (irand (0, 1)) sn = -sn;
        for (int k = 0; k < N; ++k) { Q a = u[i][k], b = u[j][k]; u[i][k] = c * a - sn * b; u[j][k] = sn * a + c * b; }
    }
}
// U diag(sigma) V rounded to T; profile 0: geometric grading, 1: one small singular value, 2: one large, the rest small
template <class T, int N> static typename MatT<T, N>::type usv (double kappa, int profile, double scale)
{
    Q u[4][4], v[4][4], sg[4];
    orthoQ<N> (u); orthoQ<N> (v);
    for (int k = 0; k < N; ++k)
    {
        double e = profile == 0 ? (double) k / (N - 1) : profile == 1 ? (k == N - 1 ? 1.0 : 0.0) : (k == 0 ? 0.0 : 1.0);
        sg[k] = (Q) std::pow (kappa, -e) * (Q) scale;
    }
    typename MatT<T, N>::type m;
    for (int i = 0; i < N; ++i) for (int j = 0; j < N; ++j) { Q s = 0; for (int k = 0; k < N; ++k) s += u[i][k] * sg[k] * v[k][j]; m[i][j] = (T) s; }
    return m;
}
static const char* profName (int p) { return p == 0 ? "graded-geometric" : p == 1 ? "graded-one-small" : "graded-one-large"; }
template <class T, int N> static void makeAffine (typename MatT<T, N>::type& m)
{
    for (int i = 0; i < N - 1; ++i) m[i][N - 1] = 0;
    m[N - 1][N - 1] = 1;
}
template <class T, int N> static typename MatT<T, N>::type perturbLastColumn (const typename MatT<T, N>::type& m)
{
    typename MatT<T, N>::type p (m);
    int r = (int) irand (0, N - 1);
    if (r == N - 1) p[r][N - 1] = std::nextafter ((T) 1, irand (0, 1) ? (T) 2 : (T) 0);
    else p[r][N - 1] = (irand (0, 1) ? (T) 1 : (T) -1) * (irand (0, 1) ? std::numeric_limits<T>::denorm_min () : std::numeric_limits<T>::epsilon () * (T) std::ldexp (1.0, (int) -irand (0, 40)));
    return p;
}

// FIXED (unseeded) canonical witnesses, judged first so that the first RESIDUE-FAIL line of a key is always the same:
//   M = u v^T + delta * B,  u = (.3,.7,1.1), v = (.9,.6,1.3), B = [[.2,-.5,.4],[.7,.1,-.3],[-.6,.8,.5]]
// (one large, two small singular values: cofactor inversion loses cond^2 * eps), alone (3x3 general arm) and as the
// linear block of an affine 4x4 with translation row (1,2,3) (4x4 affine arm; jump against the general path).
template <class T> static void fixedWitnesses ()
{
    const double u[3] = {0.3, 0.7, 1.1}, v[3] = {0.9, 0.6, 1.3}, B[3][3] = {{0.2, -0.5, 0.4}, {0.7, 0.1, -0.3}, {-0.6, 0.8, 0.5}};
    const double delta = sizeof (T) == 8 ? 1e-5 : 1e-2;
    Matrix33<T> m3;
    for (int i = 0; i < 3; ++i) for (int j = 0; j < 3; ++j) m3[i][j] = (T) (u[i] * v[j] + delta * B[i][j]);
    both<T, 3> ("fixed-witness", m3);
    Matrix44<T> m4;
    for (int i = 0; i < 3; ++i) for (int j = 0; j < 3; ++j) m4[i][j] = m3[i][j];
    m4[3][0] = 1; m4[3][1] = 2; m4[3][2] = 3;
    makeAffine<T, 4> (m4);
    both<T, 4> ("fixed-witness", m4);
    Matrix44<T> p4 (m4);
    p4[0][3] = std::numeric_limits<T>::denorm_min ();
    jump<T, 4> ("fixed-witness", m4, p4);
}

template <class T, int N> static void residueRound (long it)
{
    typedef typename MatT<T, N>::type M;
    const double eps = (double) std::numeric_limits<T>::epsilon ();
    auto U01 = [] () { return std::uniform_real_distribution<double> (0, 1) (rng); };
    M m;
    // well conditioned
    for (int i = 0; i < N; ++i) for (int j = 0; j < N; ++j) m[i][j] = (T) urand ();
    both<T, N> ("well", m);
    // integer lattice (general arm, and affine arm)
    for (int i = 0; i < N; ++i) for (int j = 0; j < N; ++j) m[i][j] = (T) (double) irand (-4, 4);
    lattice<T, N> (m);
    if (N > 2) { makeAffine<T, N> (m); lattice<T, N> (m); }
    // graded condition numbers up to 1/eps, three singular-value profiles, |det| on both sides of 1
    {
        double kappa = std::pow (1 / eps, U01 ());
        int profile = (int) (it % 3);
        m = usv<T, N> (kappa, profile, std::ldexp (1.0, (int) irand (-3, 6)));
        both<T, N> (profName (profile), m);
    }
    // rows of a dyadic matrix scaled by powers of two
    {
        M u = dyadic<T, N> ((int) irand (3, 8), false);
        for (int i = 0; i < N; ++i) { T s = (T) std::ldexp (1.0, (int) irand (-12, 12)); for (int j = 0; j < N; ++j) u[i][j] *= s; }
        both<T, N> ("rowscaled", u);
    }
    // |det| straddling 1: scale a random matrix so that |det| = 1 -/+ a few ulps
    {
        for (int i = 0; i < N; ++i) for (int j = 0; j < N; ++j) m[i][j] = (T) urand ();
        double d = std::fabs ((double) detOf (m));
        if (d > 1e-3)
        {
            double f = std::pow (d, -1.0 / N) * (1 + (double) irand (-4, 4) * eps);
            for (int i = 0; i < N; ++i) for (int j = 0; j < N; ++j) m[i][j] = (T) (m[i][j] * f);
            both<T, N> ("det-near-1", m);
        }
    }
    // beyond 1/eps, below 1/eps^2: only finiteness is claimed
    {
        double kappa = std::pow (1 / eps, 1 + 0.9 * U01 ());
        m = usv<T, N> (kappa, (int) (it % 3), 1.0);
        both<T, N> ("ill-beyond-1/eps", m);
    }
    if (N > 2)
    {
        // affine: fast path; then one last-column entry moved by one ulp -> general path
        double kappa = std::pow (1 / eps, 0.8 * U01 ());
        int profile = (int) (it % 3);
        m = usv<T, N> (kappa, profile, std::ldexp (1.0, (int) irand (-2, 3)));
        for (int j = 0; j < N - 1; ++j) m[N - 1][j] = (T) (urand () * 4);
        makeAffine<T, N> (m);
        std::string cls = std::string ("affine-") + profName (profile);
        both<T, N> (cls, m);
        jump<T, N> (cls, m, perturbLastColumn<T, N> (m));
        // affine with a uniformly small linear block (translation dominates)
        double sc = std::pow (eps, 0.45 * U01 ());
        for (int i = 0; i < N - 1; ++i) for (int j = 0; j < N - 1; ++j) m[i][j] = (T) (urand () * sc);
        both<T, N> ("affine-small-block", m);
        jump<T, N> ("affine-small-block", m, perturbLastColumn<T, N> (m));
    }
}

static int residueMain (unsigned long seed, long n)
{
    fixedWitnesses<double> ();
    fixedWitnesses<float> ();
    rng.seed (seed * 40503ul + 977);
    for (long it = 0; it < n; ++it)
    {
        residueRound<double, 2> (it); residueRound<double, 3> (it); residueRound<double, 4> (it);
        residueRound<float, 2> (it); residueRound<float, 3> (it); residueRound<float, 4> (it);
    }
    for (auto& kv : pstat)
        printf ("RPATH %s n=%ld judged=%ld worst=%.4g worst_at_cond=%.3g fails=%ld nonfinite=%ld\n", kv.first.c_str (), kv.second.n, kv.second.judged, kv.second.worst, kv.second.worstCond, kv.second.fails,
                kv.second.nonfinite);
    printf ("RCLASSES");
    for (auto& kv : classN) printf (" %s=%ld", kv.first.c_str (), kv.second);
    printf ("\n");
    printf ("RESIDUE evals=%ld failures=%ld bound=%g det_ge1=%ld det_lt1=%ld guard_identity=%ld finite_checked=%ld lattice_checked=%ld dynamic_range_excluded_from_finiteness=%ld\n", rEvals, rFail, CBOUND, detGe1, detLt1, guardIdentity,
            finiteChecked, latticeChecked, rangeExcluded);
    return rFail ? 1 : 0;
}

int main (int argc, char** argv)
{
    std::string mode = argc > 1 ? argv[1] : "corr";
    unsigned long seed = argc > 2 ? strtoul (argv[2], 0, 10) : 1;
    long n = argc > 3 ? atol (argv[3]) : 100;
    if (argc > 4) CBOUND = atof (argv[4]);
    if (mode == "corr") return corrMain (seed, n);
    if (mode == "residue") return residueMain (seed, n);
    fprintf (stderr, "usage: c06_inv corr|residue <seed> <n> [c]\n");
    return 2;
}
