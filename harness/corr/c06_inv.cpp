// C06: matrix inversion — correspondence (H-route tie of the Gauss-Jordan hand model) and residue measurement.
//
//   c06_inv corr <seed> <n>       one line per case:
//        <tag> <3|4> <d|f> <n*n input bit patterns> => <n><ty> exc=<ok|invalidArgument> <n*n bit patterns of gjInverse()>
//     computed by the REAL Matrix33/44<T>::gjInverse() (values) and gjInverse(true) (exception kind); the part after
//     "=>" must equal, bit for bit, what lean/Driver/GaussJordan.lean prints for the part before it.
//     Also checked here, in-process (lines `SELF-FAIL ...`): gjInvert()/invert() leave exactly what gjInverse()/inverse()
//     return; gjInverse(true) returns the same values as gjInverse() when it does not throw; Matrix44::inverse() of a
//     non-affine matrix is gjInverse().  Last line: `CORR cases=<k> self=<k> selffail=<k> classes=...`.
//
//   c06_inv residue <seed> <n> [c]   measured rounding residue (DESIGN.md §2.4; never presented as proof):
//     error of inverse()/gjInverse() against a 113-bit (__float128) full-pivoting Gauss-Jordan inverse X of the SAME
//     floating-point input, in units of  cond(M) * eps * ||X||   (infinity norms, cond = ||M|| ||X||), bound c (default 8),
//     accounted PER CODE PATH (M22.inverse, M33.inverse:affine-arm / :cofactor-general-arm, M33.gjInverse,
//     M44.inverse:nonaffine-arm / :cofactor-affine-arm, M44.gjInverse): graded condition numbers up to 1/eps with three
//     singular-value profiles, both |det| branches, affine last column perturbed by one ulp (fast path vs general path must
//     agree to 2c: `affine-jump:*`), finiteness of every result for cond < 1/eps^2 (entries within a dynamic range of 1/eps^2), and on integer lattices every entry
//     produced by one division must be the correctly rounded adj/det.  The fixed witnesses come first (unseeded).
//     GUARD (independent float-level specification, `guardSpec`): for every matrix given to the determinant-based inverse()
//     the determinant and the cofactors the property speaks of (all of them; of the linear block on the affine arms) are
//     computed in quad with rigorous rounding/underflow intervals for the values the T-code can have computed; outside
//     that band the outcome is decided: |det| >= 1, or |det|/min() above every |cofactor|  =>  NOT the identity (unless
//     M = I); |det| < 1 and |det|/min() at or below some |cofactor|  =>  the identity.  Identity results are no longer
//     dropped: they are accepted only where this spec asks for them (or cannot decide).  Generator classes `guard-edge-*`
//     scale one row of the block to put |det|/min() above all / between the two largest / below / within ulps of the
//     cofactors; fixed exact ties (`guard-tie`).  Gauss-Jordan paths: an identity result for cond < 1/(64 eps) is a failure.
//     affine-jump pairs where exactly ONE side is the identity are counted (`RJUMP`): they must be explained by the
//     exact-arithmetic theorems M33_arms_disagree_iff / M44_affine_vs_gj (spec verdicts decided on both sides) and can
//     not occur for cond <= 1/eps (`residue:affine-jump-identity:<fn>`).
//     CEILINGS on the paths with recorded findings (cofactor arms, M44 jump): residue:accuracy2:<arm> / residue:affine-jump2:<fn>
//     (err <= C2*cond^2*eps*|X| where cond^2*eps <= 1/16) and residue:accuracy-wellcond:<arm> (8*cond*eps for cond <= 100); pseudo
//     paths `accuracy2:`, `accuracy-wellcond:`, `affine-jump2:` in the RPATH lines.  Inputs outside the dynamic range 1/eps^2 with
//     cond < 1/eps^2: `ROUTSIDE` lines / counters (finite unless the exact inverse has an entry above max()/4), not failures.
//     Lines: `RESIDUE-FAIL <key> ...` (key = residue:accuracy:<path> | residue:affine-jump:<fn> | residue:nonfinite:<path> |
//     residue:lattice:<path> | residue:guard:<path> | residue:affine-jump-identity:<fn> | residue:residual:<path> | the ceiling
//     keys above; at most 4 per key and type), `RPATH <path> <ty> n= judged= worst= ...`, `RGUARD ...`, `RJUMP ...`, one `RESIDUE ...` summary.
//
//   c06_inv exh33 <stride> <offset>   EXHAUSTIVE small-integer 3x3 families for the three-way tie real code / hand model /
//     specification: family x = all 4^9 matrices over {-1,0,1,2} (those with hash(index) % stride == offset), family y = first
//     column in {-2..2}^3, other entries in {0,1} (all 8000, double and float).  Lines as in `corr` followed by
//     ` ## det=<exact integer> q=<9 reduced fractions of det^-1 * adjugate | ->`; in-process (`EXH-FAIL`): threw <=> det = 0
//     <=> identity returned; otherwise every entry within 8 eps * max|X| of adj/det.  Last line `EXH cases= ...`.
#include <ImathMatrix.h>
#include <ImathMatrixAlgo.h>
#include <cmath>
#include <cstdio>
#include <cstdlib>
#include <cstring>
#include <cstdint>
#include <algorithm>
#include <map>
#include <random>
#include <stdexcept>
#include <string>
#include <vector>
using namespace IMATH_NAMESPACE;
typedef __float128 Q;
static std::mt19937_64 rng;
static long irand (long lo, long hi) { return lo + (long) (rng () % (uint64_t) (hi - lo + 1)); }
static double urand () { return std::uniform_real_distribution<double> (-1, 1) (rng); }

template <class T, int N> struct MatT;
template <class T> struct MatT<T, 2> { typedef Matrix22<T> type; };
template <class T> struct MatT<T, 3> { typedef Matrix33<T> type; };
template <class T> struct MatT<T, 4> { typedef Matrix44<T> type; };

static std::string hexOf (double x) { if (x != x) return "nan"; uint64_t u; memcpy (&u, &x, 8); char b[20]; snprintf (b, 20, "%016llx", (unsigned long long) u); return b; }
static std::string hexOf (float x) { if (x != x) return "nan"; uint32_t u; memcpy (&u, &x, 4); char b[20]; snprintf (b, 20, "%08x", u); return b; }
static std::string rawHex (double x) { uint64_t u; memcpy (&u, &x, 8); char b[20]; snprintf (b, 20, "%016llx", (unsigned long long) u); return b; }
static std::string rawHex (float x) { uint32_t u; memcpy (&u, &x, 4); char b[20]; snprintf (b, 20, "%08x", u); return b; }
template <class T> static bool sameBits (T a, T b) { if (a != a && b != b) return true; return memcmp (&a, &b, sizeof (T)) == 0; }
template <class T> static const char* tyName () { return sizeof (T) == 8 ? "d" : "f"; }

//---------------------------------------------------------------------------------------------------------------
// correspondence

static long corrCases = 0, selfChecks = 0, selfFail = 0;
static std::map<std::string, long> classCount;

template <class M, int N> static bool eqM (const M& a, const M& b)
{
    for (int i = 0; i < N; ++i) for (int j = 0; j < N; ++j) if (!sameBits (a[i][j], b[i][j])) return false;
    return true;
}
template <class T, int N> static std::string inHex (const typename MatT<T, N>::type& m)
{
    std::string s;
    for (int i = 0; i < N; ++i) for (int j = 0; j < N; ++j) s += " " + rawHex (m[i][j]);
    return s;
}
template <class T, int N> static void selfFailLine (const char* what, const typename MatT<T, N>::type& m)
{
    ++selfFail;
    printf ("SELF-FAIL %s %d%s in=%s\n", what, N, tyName<T> (), inHex<T, N> (m).c_str ());
}

template <class T, int N> static void emitCase (const std::string& cls, const typename MatT<T, N>::type& m, const std::string& suffix = "")
{
    typedef typename MatT<T, N>::type M;
    ++corrCases;
    long k = classCount[cls]++;
    M r = m.gjInverse ();
    bool threw = false;
    M re;
    try { re = m.gjInverse (true); }
    catch (const std::invalid_argument&) { threw = true; }
    catch (...) { threw = true; selfFailLine<T, N> ("gjInverse(true)-throws-other-type", m); }
    printf ("%s%ld %d %s%s => %d%s exc=%s", cls.c_str (), k, N, tyName<T> (), inHex<T, N> (m).c_str (), N, tyName<T> (), threw ? "invalidArgument" : "ok");
    for (int i = 0; i < N; ++i) for (int j = 0; j < N; ++j) printf (" %s", hexOf (r[i][j]).c_str ());
    printf ("%s\n", suffix.c_str ());
    // in-process identities between the spellings
    ++selfChecks;
    if (!threw && !eqM<M, N> (r, re)) selfFailLine<T, N> ("gjInverse(true)-value-differs-from-gjInverse()", m);
    { M c (m); c.gjInvert (); ++selfChecks; if (!eqM<M, N> (c, r)) selfFailLine<T, N> ("gjInvert()-differs-from-gjInverse()", m); }
    { M c (m); bool t2 = false; try { c.gjInvert (true); } catch (...) { t2 = true; } ++selfChecks;
      if (t2 != threw || (!t2 && !eqM<M, N> (c, r))) selfFailLine<T, N> ("gjInvert(true)-differs", m); }
    { M c (m); c.invert (); M v = m.inverse (); ++selfChecks; if (!eqM<M, N> (c, v)) selfFailLine<T, N> ("invert()-differs-from-inverse()", m); }
    // the duplicated bodies taking `bool singExc`: with singExc = false they are non-throwing determinant-based forms too
    { M v = m.inverse (); M vf = m.inverse (false); ++selfChecks; if (!eqM<M, N> (vf, v)) selfFailLine<T, N> ("inverse(false)-differs-from-inverse()", m);
      M c (m); c.invert (false); ++selfChecks; if (!eqM<M, N> (c, v)) selfFailLine<T, N> ("invert(false)-differs-from-inverse()", m);
      M gf = m.gjInverse (false); ++selfChecks; if (!eqM<M, N> (gf, r)) selfFailLine<T, N> ("gjInverse(false)-differs-from-gjInverse()", m);
      bool t3 = false; M ve; try { ve = m.inverse (true); } catch (...) { t3 = true; } ++selfChecks;
      if (!t3 && !eqM<M, N> (ve, v)) selfFailLine<T, N> ("inverse(true)-value-differs-from-inverse()", m); }
}
template <class T> static void self44 (const Matrix44<T>& m)
{
    // non-affine 4x4: inverse() is gjInverse()
    if (m[0][3] != 0 || m[1][3] != 0 || m[2][3] != 0 || m[3][3] != 1)
    {
        ++selfChecks;
        if (!eqM<Matrix44<T>, 4> (m.inverse (), m.gjInverse ())) selfFailLine<T, 4> ("M44.inverse()-nonaffine-differs-from-gjInverse()", m);
    }
}
template <class T> static void self44 (const Matrix33<T>&) {}

// a dyadic matrix with determinant +-2^k: products of elementary operations on a signed power-of-two diagonal
template <class T, int N> static typename MatT<T, N>::type dyadic (int steps, bool singular)
{
    typename MatT<T, N>::type m;
    for (int i = 0; i < N; ++i) for (int j = 0; j < N; ++j) m[i][j] = 0;
    for (int i = 0; i < N; ++i) m[i][i] = (T) std::ldexp (irand (0, 1) ? 1.0 : -1.0, (int) irand (-2, 2));
    if (singular) { int z = (int) irand (0, N - 1); m[z][z] = 0; }   // rank N-1, still dyadic
    static const double cs[] = {1, -1, 2, -2, 0.5, -0.5};
    for (int s = 0; s < steps; ++s)
    {
        int i = (int) irand (0, N - 1), j = (int) irand (0, N - 1);
        if (i == j) continue;
        T c = (T) cs[irand (0, 5)];
        switch (irand (0, 3))
        {
            case 0: for (int k = 0; k < N; ++k) m[i][k] += c * m[j][k]; break;          // row shear
            case 1: for (int k = 0; k < N; ++k) m[k][i] += c * m[k][j]; break;          // column shear
            case 2: for (int k = 0; k < N; ++k) std::swap (m[i][k], m[j][k]); break;    // row swap
            default: for (int k = 0; k < N; ++k) std::swap (m[k][i], m[k][j]); break;   // column swap
        }
    }
    return m;
}

template <class T, int N> static void corrRound (long it)
{
    typedef typename MatT<T, N>::type M;
    M m;
    auto fill = [&] (auto f) { for (int i = 0; i < N; ++i) for (int j = 0; j < N; ++j) m[i][j] = (T) f (i, j); };
    // exact classes (dyadic, determinant a power of two: every pivot is a power of two, no operation rounds)
    m = dyadic<T, N> ((int) irand (2, 8), false); emitCase<T, N> ("ex-dyadic-", m); self44 (m);
    m = dyadic<T, N> ((int) irand (2, 8), true); emitCase<T, N> ("ex-singular-", m); self44 (m);
    // signed scaled permutations: a zero on the diagonal at every stage, swap needed
    {
        int p[4] = {0, 1, 2, 3};
        for (long s = irand (0, 23); s > 0; --s) std::next_permutation (p, p + N);
        fill ([&] (int i, int j) { return j == p[i] ? std::ldexp (irand (0, 1) ? 1.0 : -1.0, (int) irand (-3, 3)) : 0.0; });
        emitCase<T, N> ("ex-perm-", m); self44 (m);
    }
    // random
    fill ([&] (int, int) { return urand (); }); emitCase<T, N> ("rand-", m); self44 (m);
    fill ([&] (int, int) { return (double) irand (-3, 3); }); emitCase<T, N> ("randint-", m); self44 (m);
    fill ([&] (int, int) { return urand () * std::ldexp (1.0, (int) irand (-20, 20)); }); emitCase<T, N> ("graded-", m); self44 (m);
    // zero column / zero row at each position (zero pivot at that stage; last one is found by the backward loop)
    {
        int c = (int) (it % N);
        fill ([&] (int, int j) { return j == c ? 0.0 : urand (); }); emitCase<T, N> ("zerocol" + std::to_string (c) + "-", m);
        fill ([&] (int i, int) { return i == c ? 0.0 : urand (); }); emitCase<T, N> ("zerorow" + std::to_string (c) + "-", m);
        // zero pivot first met at stage c: M = L * U, L unit lower (|entries| <= 1/2, dyadic), U upper with U[c][c] = 0 (dyadic)
        double L[4][4], U[4][4];
        for (int i = 0; i < N; ++i) for (int j = 0; j < N; ++j)
        {
            L[i][j] = i == j ? 1.0 : i > j ? (double) irand (-2, 2) / 4 : 0.0;
            U[i][j] = i == j ? std::ldexp (irand (0, 1) ? 1.0 : -1.0, (int) irand (-1, 1)) : i < j ? (double) irand (-3, 3) : 0.0;
        }
        U[c][c] = 0;
        fill ([&] (int i, int j) { double s = 0; for (int k = 0; k < N; ++k) s += L[i][k] * U[k][j]; return s; });
        emitCase<T, N> ("ex-stage" + std::to_string (c) + "-", m);
    }
    // rank deficient: one row a combination of two others
    {
        fill ([&] (int, int) { return (double) irand (-4, 4); });
        int r = (int) irand (0, N - 1), a = (r + 1) % N, b = (r + 2) % N;
        for (int j = 0; j < N; ++j) m[r][j] = m[a][j] * 2 - m[b][j];
        emitCase<T, N> ("rankdef-", m);
    }
    // affine 4x4 / 3x3 (gjInverse does not special-case it) and nearly singular
    fill ([&] (int i, int j) { return j == N - 1 ? (i == N - 1 ? 1.0 : 0.0) : urand (); }); emitCase<T, N> ("affine-", m);
    {
        fill ([&] (int, int) { return urand (); });
        int r = (int) irand (0, N - 1), a = (r + 1) % N;
        double e = std::ldexp (1.0, (int) -irand (10, sizeof (T) == 8 ? 60 : 28));
        for (int j = 0; j < N; ++j) m[r][j] = m[a][j] * (T) 0.5 + (T) (e * urand ());
        emitCase<T, N> ("nearsing-", m);
    }
    // special values: signed zeros, denormals, huge/tiny, occasionally inf/nan
    {
        static const double sp[] = {0.0, -0.0, 1.0, -1.0, 4.9e-324, -4.9e-324, 1e-310, 1e300, -1e300, 1e-300, 2.0, 0.5, 3.0, 1e30, 1e-30, 1.5};
        bool wild = irand (0, 9) == 0;
        fill ([&] (int, int) { double v = sp[irand (0, 15)]; if (wild && irand (0, 7) == 0) v = irand (0, 1) ? INFINITY : NAN; return v; });
        emitCase<T, N> (wild ? "special-nonfinite-" : "special-", m);
    }
}

static int corrMain (unsigned long seed, long n)
{
    rng.seed (seed * 2654435761ul + 17);
    for (long it = 0; it < n; ++it)
    {
        corrRound<double, 3> (it); corrRound<double, 4> (it);
        corrRound<float, 3> (it); corrRound<float, 4> (it);
    }
    printf ("CORR cases=%ld self=%ld selffail=%ld classes=", corrCases, selfChecks, selfFail);
    for (auto& kv : classCount) printf ("%s%ld,", kv.first.c_str (), kv.second);
    printf ("\n");
    return selfFail ? 1 : 0;
}

//---------------------------------------------------------------------------------------------------------------
// residue

static Q qabs (Q x) { return x < 0 ? -x : x; }
// full-pivoting Gauss-Jordan in quad precision; false = exactly singular
template <int N> static bool invQ (const Q a[4][4], Q x[4][4])
{
    Q w[4][8];
    for (int i = 0; i < N; ++i) for (int j = 0; j < N; ++j) { w[i][j] = a[i][j]; w[i][N + j] = i == j ? 1 : 0; }
    int colOf[4];
    bool usedR[4] = {false, false, false, false}, usedC[4] = {false, false, false, false};
    for (int s = 0; s < N; ++s)
    {
        int pr = -1, pc = -1; Q best = 0;
        for (int i = 0; i < N; ++i) if (!usedR[i]) for (int j = 0; j < N; ++j) if (!usedC[j] && qabs (w[i][j]) > best) { best = qabs (w[i][j]); pr = i; pc = j; }
        if (pr < 0) return false;
        usedR[pr] = usedC[pc] = true; colOf[pr] = pc;
        Q d = w[pr][pc];
        for (int j = 0; j < 2 * N; ++j) w[pr][j] /= d;
        for (int i = 0; i < N; ++i) if (i != pr) { Q f = w[i][pc]; if (f != 0) for (int j = 0; j < 2 * N; ++j) w[i][j] -= f * w[pr][j]; }
    }
    // row r now has a 1 in column colOf[r]: X[colOf[r]][*] = right half of row r
    for (int r = 0; r < N; ++r) for (int j = 0; j < N; ++j) x[colOf[r]][j] = w[r][N + j];
    return true;
}
template <int N> static Q normInf (const Q a[4][4])
{
    Q m = 0;
    for (int i = 0; i < N; ++i) { Q s = 0; for (int j = 0; j < N; ++j) s += qabs (a[i][j]); if (s > m) m = s; }
    return m;
}

// one record per (path, element type); the path names are the stable part of the failure keys
struct PathStat { long n = 0, judged = 0, fails = 0, nonfinite = 0, printed = 0; double worst = 0, worstCond = 0, worstRes = 0; };
static std::map<std::string, PathStat> pstat;
static std::map<std::string, long> classN;
static long rEvals = 0, rFail = 0, detGe1 = 0, detLt1 = 0, guardIdentity = 0, finiteChecked = 0, latticeChecked = 0, rangeExcluded = 0;
static double CBOUND = 8;
// The two cofactor arms and the M44 affine/general jump do not meet c*cond*eps (recorded known findings, whose description is
// "~cond^2*eps").  So that the path-wide known-finding keys cannot absorb a NEW numerical defect, these paths are additionally
// held to (a) a CEILING  err <= C2*cond^2*eps*|X|  (keys residue:accuracy2:<arm>, residue:affine-jump2:<fn>; calibrated: clean-tree
// maxima over seeds 1-5 at the thorough size are 0.43 (accuracy2, bound C2 = 1) and 0.25 (jump2, bound 2*C2), judged where
// cond^2*eps <= 1/16) and (b) the property's own 8*cond*eps bound wherever they DO conform:
// cond <= WELLCOND (key residue:accuracy-wellcond:<arm>; clean-tree maximum 0.79).  None of these keys is in KNOWN_FINDINGS.
static double C2 = 1, WELLCOND = 100;
static long outsideRangeChecked = 0, outsideRangeNonfinite = 0;

template <class T, int N> static std::string showM (const typename MatT<T, N>::type& m)
{
    std::string s;
    for (int i = 0; i < N; ++i) for (int j = 0; j < N; ++j) s += (s.empty () ? "" : " ") + rawHex (m[i][j]);
    return s;
}
template <class T, int N> static std::string showDec (const typename MatT<T, N>::type& m)
{
    std::string s; char b[40];
    for (int i = 0; i < N; ++i) for (int j = 0; j < N; ++j) { snprintf (b, 40, "%.17g", (double) m[i][j]); s += (s.empty () ? "" : ",") + std::string (b); }
    return s;
}
template <class T, int N> static bool finiteM (const typename MatT<T, N>::type& m)
{
    for (int i = 0; i < N; ++i) for (int j = 0; j < N; ++j) if (!std::isfinite ((double) m[i][j])) return false;
    return true;
}
template <class T, int N> static bool isIdentity (const typename MatT<T, N>::type& m)
{
    for (int i = 0; i < N; ++i) for (int j = 0; j < N; ++j) if (m[i][j] != (i == j ? (T) 1 : (T) 0)) return false;
    return true;
}
template <class T, int N> static bool isAffine (const typename MatT<T, N>::type& m)
{
    for (int i = 0; i < N - 1; ++i) if (m[i][N - 1] != 0) return false;
    return m[N - 1][N - 1] == 1;
}
// which arm of the code computes inverse() of this matrix
template <class T, int N> static std::string inversePath (const typename MatT<T, N>::type& m)
{
    if (N == 2) return "M22.inverse";
    if (N == 3) return isAffine<T, N> (m) ? "M33.inverse:affine-arm" : "M33.inverse:cofactor-general-arm";
    return isAffine<T, N> (m) ? "M44.inverse:cofactor-affine-arm" : "M44.inverse:nonaffine-arm";
}
static void failLine (PathStat& st, const std::string& key, const std::string& text)
{
    ++rFail; ++st.fails;
    if (st.printed++ < 4) printf ("RESIDUE-FAIL %s %s\n", key.c_str (), text.c_str ());
}
//---------------------------------------------------------------------------------------------------------------
// independent float-level specification of the overflow guard of the determinant-based inverse() (audit C06 S2)
//
// The property: "a determinant so small that dividing the cofactors by it would overflow => identity", i.e. with r = det
// of the block the arm inverts (whole matrix; linear block on the affine arms) and s_ij its cofactors:
//     |r| >= 1  or  |r| / numeric_limits<T>::min() > |s_ij| for ALL i,j   =>  adj/det        else identity.
// r and s_ij are recomputed here in quad from the T-valued input, together with a rigorous bound on how far the values
// computed in T arithmetic (any evaluation order, incl. underflow to denormals) can be from them; the verdict is
// G_DIV / G_ID when every value in those intervals decides the same way, G_BAND otherwise.
enum { G_ID = -1, G_BAND = 0, G_DIV = 1 };
struct GuardVerdict { bool applies = false; int v = G_BAND; int unique = -1; int K = 0; double q = 0; };
struct GuardStat { long n = 0, mustDivide = 0, mustIdentity = 0, band = 0, fails = 0, ties = 0, printed = 0, edgeN = 0, edgeBand = 0; unsigned posMask = 0; int K = 0; };
static std::map<std::string, GuardStat> gstat;
struct JumpStat { long pairs = 0, oneSide = 0, arms = 0, moved = 0, band = 0, unexplained = 0, withinCond = 0, printed = 0; };
static std::map<std::string, JumpStat> jstat;

// forceGeneral (3x3 only): the predicate of the GENERAL arm (all nine cofactors) evaluated on an affine matrix
template <class T, int N> static GuardVerdict guardSpec (const typename MatT<T, N>::type& m, bool forceGeneral = false)
{
    GuardVerdict g;
    const bool aff = N > 2 && isAffine<T, N> (m) && !(forceGeneral && N == 3);
    if (N == 4 && !aff) return g;                       // Gauss-Jordan arm: no guard
    g.applies = true;
    const int K = N == 2 ? 2 : aff ? N - 1 : N;
    g.K = K;
    const Q eps = (Q) std::numeric_limits<T>::epsilon (), u = (Q) std::numeric_limits<T>::denorm_min (), mn = (Q) std::numeric_limits<T>::min ();
    const Q G = 16;
    Q b[3][3], cof[9], dcof[9], det = 0, ddet = 0;
    for (int i = 0; i < K; ++i) for (int j = 0; j < K; ++j) b[i][j] = (Q) m[i][j];
    if (K == 2)
    {
        // position (row deleted, column deleted): the cofactor is the remaining entry, exactly
        for (int i = 0; i < 2; ++i) for (int j = 0; j < 2; ++j) { cof[2 * i + j] = qabs (b[1 - i][1 - j]); dcof[2 * i + j] = 0; }
        det = b[0][0] * b[1][1] - b[1][0] * b[0][1];
        ddet = G * eps * (qabs (b[0][0] * b[1][1]) + qabs (b[1][0] * b[0][1])) + G * u;
    }
    else
    {
        Q sgn[3][3], pc[3][3];
        for (int i = 0; i < 3; ++i) for (int j = 0; j < 3; ++j)
        {
            const int r1 = i == 0 ? 1 : 0, r2 = i == 2 ? 1 : 2, c1 = j == 0 ? 1 : 0, c2 = j == 2 ? 1 : 2;
            Q mnr = b[r1][c1] * b[r2][c2] - b[r1][c2] * b[r2][c1];
            sgn[i][j] = ((i + j) & 1) ? -mnr : mnr;
            pc[i][j] = qabs (b[r1][c1] * b[r2][c2]) + qabs (b[r1][c2] * b[r2][c1]);
            cof[3 * i + j] = qabs (mnr);
            dcof[3 * i + j] = G * eps * pc[i][j] + G * u;
        }
        Q pd = 0, sa = 0;
        for (int k = 0; k < 3; ++k) { det += b[0][k] * sgn[0][k]; pd += qabs (b[0][k]) * pc[0][k]; sa += qabs (b[0][k]); }
        ddet = G * eps * pd + G * u * (1 + sa);
    }
    const Q ra = qabs (det), rlo = ra > ddet ? ra - ddet : 0, rhi = ra + ddet;
    int nPass = 0, nFail = 0, failPos = -1;
    Q qmin = -1;
    for (int p = 0; p < K * K; ++p)
    {
        if (rlo / mn > cof[p] + dcof[p]) ++nPass;                                // every admissible mr > |s|
        else if (cof[p] > dcof[p] && rhi / mn <= cof[p] - dcof[p]) { ++nFail; failPos = p; }   // every admissible mr <= |s|
        if (cof[p] > 0) { Q q = ra / mn / cof[p]; if (qmin < 0 || q < qmin) qmin = q; }
    }
    g.q = qmin < 0 ? INFINITY : (double) qmin;
    const bool allPass = nPass == K * K;
    if (rlo >= 1) g.v = G_DIV;
    else if (rhi < 1) g.v = allPass ? G_DIV : nFail ? G_ID : G_BAND;
    else g.v = allPass ? G_DIV : G_BAND;
    if (g.v == G_ID && nFail == 1 && nPass == K * K - 1) g.unique = failPos;
    return g;
}
template <class T, int N> static bool inputIsIdentity (const typename MatT<T, N>::type& m)
{
    const T e = 4 * std::numeric_limits<T>::epsilon ();
    for (int i = 0; i < N; ++i) for (int j = 0; j < N; ++j) if (std::fabs (m[i][j] - (i == j ? (T) 1 : (T) 0)) > e) return false;
    return true;
}
static void guardFail (GuardStat& gs, const std::string& key, const std::string& text)
{
    ++rFail; ++gs.fails;
    if (gs.printed++ < 4) printf ("RESIDUE-FAIL %s %s\n", key.c_str (), text.c_str ());
}
// compare the outcome of the determinant-based inverse() (identity / not) with the spec; returns the verdict
template <class T, int N> static int guardCheck (const std::string& cls, const std::string& path, const typename MatT<T, N>::type& m, const typename MatT<T, N>::type& got, bool& violated)
{
    violated = false;
    GuardVerdict g = guardSpec<T, N> (m);
    if (!g.applies) return G_BAND;
    GuardStat& gs = gstat[path + " " + tyName<T> ()];
    ++gs.n; gs.K = g.K;
    const bool id = isIdentity<T, N> (got);
    char buf[300];
    snprintf (buf, 300, "%s min|det|/(min()*|cofactor|)=%.6g class=%s in=", tyName<T> (), g.q, cls.c_str ());
    if (g.v == G_DIV)
    {
        ++gs.mustDivide;
        if (id && !inputIsIdentity<T, N> (m))
        {
            violated = true;
            guardFail (gs, "residue:guard:" + path, std::string ("returned-identity-although-|det|>=1-or-|det|/min()-exceeds-every-cofactor ") + buf + showM<T, N> (m) + " dec=" + showDec<T, N> (m));
        }
    }
    else if (g.v == G_ID)
    {
        ++gs.mustIdentity;
        if (g.unique >= 0) gs.posMask |= 1u << g.unique;
        if (!id)
        {
            violated = true;
            guardFail (gs, "residue:guard:" + path, std::string ("inverted-although-|det|<1-and-|det|/min()-is-at-or-below-a-cofactor ") + buf + showM<T, N> (m) + " dec=" + showDec<T, N> (m));
        }
    }
    else ++gs.band;
    // the guard-edge classes built to be DECIDED (all but `guard-edge-ulps`): how many of them end in the band
    if (cls.compare (0, 10, "guard-edge") == 0 && cls != "guard-edge-ulps") { ++gs.edgeN; if (g.v == G_BAND) ++gs.edgeBand; }
    return g.v;
}
static bool isGJPath (const std::string& path) { return path.find ("gjInverse") != std::string::npos || path.find ("nonaffine") != std::string::npos; }

// error of `got` against the quad inverse of m, in units of cond*eps*||X||
template <class T, int N> static void judge (const std::string& cls, const std::string& path, const typename MatT<T, N>::type& m, const typename MatT<T, N>::type& got)
{
    Q a[4][4], x[4][4];
    for (int i = 0; i < N; ++i) for (int j = 0; j < N; ++j) a[i][j] = (Q) m[i][j];
    ++rEvals; ++classN[cls];
    PathStat& st = pstat[path + " " + tyName<T> ()];
    ++st.n;
    const bool gj = isGJPath (path);
    bool guardViolated = false;
    const int gv = gj ? G_BAND : guardCheck<T, N> (cls, path, m, got, guardViolated);
    if (guardViolated) return;                 // reported under residue:guard:<path>
    if (!invQ<N> (a, x)) return;
    Q eps = (Q) std::numeric_limits<T>::epsilon ();
    Q nx = normInf<N> (x), cond = normInf<N> (a) * nx;
    bool fin = finiteM<T, N> (got);
    char buf[400];
    // the finiteness claim is for entries "in a bounded dynamic range": a non-zero entry below eps^2 * max|entry| (e.g. a
    // denormal next to O(1) entries) makes 1/pivot overflow once the matrix is numerically singular; such inputs are counted apart
    Q amax = 0, amin = 0;
    for (int i = 0; i < N; ++i) for (int j = 0; j < N; ++j) { Q v = qabs (a[i][j]); if (v > amax) amax = v; if (v != 0 && (amin == 0 || v < amin)) amin = v; }
    bool bounded = amin == 0 || amin >= amax * eps * eps;
    if (!bounded) ++rangeExcluded;
    if (cond < 1 / (eps * eps) && bounded)
    {
        ++finiteChecked;
        if (!fin)
        {
            ++st.nonfinite;
            snprintf (buf, 400, "%s cond=%.3g class=%s in=", tyName<T> (), (double) cond, cls.c_str ());
            failLine (st, "residue:nonfinite:" + path, buf + showM<T, N> (m) + " dec=" + showDec<T, N> (m));
            return;
        }
    }
    if (cond < 1 / (eps * eps) && !bounded)
    {
        // OUTSIDE the property's quantifier (dynamic range of the entries above 1/eps^2), but kept visible with a weaker, still
        // checkable claim: the result is finite unless the exact inverse itself is not representable (an entry above max()/4)
        ++outsideRangeChecked;
        Q xm = 0;
        for (int i = 0; i < N; ++i) for (int j = 0; j < N; ++j) xm = std::max (xm, qabs (x[i][j]));
        if (!fin && xm < (Q) std::numeric_limits<T>::max () / 4)
        {
            // not a failure of the property: counted, the first few printed, and the SHARE is bounded by the check
            ++outsideRangeNonfinite;
            snprintf (buf, 400, "%s cond=%.3g max|X|=%.3g class=%s in=", tyName<T> (), (double) cond, (double) xm, cls.c_str ());
            if (outsideRangeNonfinite <= 6) printf ("ROUTSIDE %s %s%s dec=%s\n", path.c_str (), buf, showM<T, N> (m).c_str (), showDec<T, N> (m).c_str ());
            return;
        }
    }
    if (cond > 1 / eps || !fin) return;       // accuracy is claimed up to cond = 1/eps
    if (isIdentity<T, N> (got) && !inputIsIdentity<T, N> (m))
    {
        if (gj)
        {
            // zero-pivot exit.  Backward error analysis of partial pivoting: the computed pivots are the exact pivots of
            // M + E, |E| <= c eps |M|, nonsingular when cond * c * eps < 1: below cond = 1/(64 eps) the exit is a failure
            GuardStat& gs = gstat[path + " " + tyName<T> ()];
            ++gs.n;
            if (cond * 64 * eps < 1)
            {
                ++gs.mustDivide;
                snprintf (buf, 400, "%s cond=%.3g class=%s in=", tyName<T> (), (double) cond, cls.c_str ());
                guardFail (gs, "residue:guard:" + path, std::string ("zero-pivot-exit-(identity)-for-a-matrix-with-cond<1/(64eps) ") + buf + showM<T, N> (m) + " dec=" + showDec<T, N> (m));
                return;
            }
            ++gs.band; ++guardIdentity;
            return;
        }
        if (gv != G_DIV)
        {
            // the spec asks for the identity, or cannot decide (|det|/min() within rounding of a cofactor, or a determinant
            // that is zero up to rounding): a "clean singular outcome", not an accuracy case
            ++guardIdentity;
            return;
        }
    }
    ++st.judged;
    Q err = 0;
    for (int i = 0; i < N; ++i) for (int j = 0; j < N; ++j) err = std::max (err, qabs ((Q) got[i][j] - x[i][j]));
    double ratio = (double) (err / (cond * eps * nx));
    if (ratio > st.worst) { st.worst = ratio; st.worstCond = (double) cond; }
    if (path == "M33.inverse:cofactor-general-arm" || path == "M44.inverse:cofactor-affine-arm")
    {
        PathStat& s2 = pstat["accuracy2:" + path + " " + tyName<T> ()];
        ++s2.n;
        // a ceiling in units of cond^2*eps exists only while cond^2*eps is small: the computed determinant is det*(1 + O(cond^2*eps))
        // and may cancel completely beyond that; there (counted: n - judged) only the recorded finding speaks
        const bool inRange = cond * cond * eps * 16 <= 1;
        if (inRange) ++s2.judged;
        double r2 = inRange ? (double) (err / (cond * cond * eps * nx)) : 0;
        if (r2 > s2.worst) { s2.worst = r2; s2.worstCond = (double) cond; }
        if (r2 > C2)
        {
            snprintf (buf, 400, "%s err/(cond^2*eps*|X|)=%.4g bound=%g cond=%.3g class=%s in=", tyName<T> (), r2, C2, (double) cond, cls.c_str ());
            failLine (s2, "residue:accuracy2:" + path, buf + showM<T, N> (m) + " dec=" + showDec<T, N> (m));
        }
        if (cond <= WELLCOND)
        {
            PathStat& sw = pstat["accuracy-wellcond:" + path + " " + tyName<T> ()];
            ++sw.n; ++sw.judged;
            if (ratio > sw.worst) { sw.worst = ratio; sw.worstCond = (double) cond; }
            if (ratio > CBOUND)
            {
                snprintf (buf, 400, "%s err/(cond*eps*|X|)=%.4g bound=%g cond=%.3g<=%g class=%s in=", tyName<T> (), ratio, CBOUND, (double) cond, WELLCOND, cls.c_str ());
                failLine (sw, "residue:accuracy-wellcond:" + path, buf + showM<T, N> (m) + " dec=" + showDec<T, N> (m));
            }
        }
    }
    if (ratio > CBOUND)
    {
        snprintf (buf, 400, "%s err/(cond*eps*|X|)=%.4g bound=%g cond=%.3g class=%s in=", tyName<T> (), ratio, CBOUND, (double) cond, cls.c_str ());
        failLine (st, "residue:accuracy:" + path, buf + showM<T, N> (m) + " dec=" + showDec<T, N> (m));
        return;
    }
    // the property's other wording: M*X and X*M equal the identity "to that accuracy times the norm of M" -- computed in
    // quad from the T-valued result:  max_ij(|M X - I|, |X M - I|) <= N * (c * cond * eps * |X|) * |M| = c * N * cond^2 * eps
    // (implied by the entrywise bound just judged, so it cannot fail on its own; it is the direct measurement of that clause)
    Q res = 0;
    for (int i = 0; i < N; ++i) for (int j = 0; j < N; ++j)
    {
        Q l = 0, r = 0;
        for (int k = 0; k < N; ++k) { l += a[i][k] * (Q) got[k][j]; r += (Q) got[i][k] * a[k][j]; }
        res = std::max (res, std::max (qabs (l - (i == j ? 1 : 0)), qabs (r - (i == j ? 1 : 0))));
    }
    double rr = (double) (res / (cond * cond * eps * N));
    if (rr > st.worstRes) st.worstRes = rr;
    if (rr > CBOUND)
    {
        snprintf (buf, 400, "%s max(|MX-I|,|XM-I|)/(N*cond^2*eps)=%.4g bound=%g cond=%.3g class=%s in=", tyName<T> (), rr, CBOUND, (double) cond, cls.c_str ());
        failLine (st, "residue:residual:" + path, buf + showM<T, N> (m) + " dec=" + showDec<T, N> (m));
    }
}
template <class T> static T detOf (const Matrix22<T>& m) { return m.determinant (); }
template <class T> static T detOf (const Matrix33<T>& m) { return m.determinant (); }
template <class T> static T detOf (const Matrix44<T>& m) { return m.determinant (); }
template <class T> static Matrix22<T> gjOf (const Matrix22<T>& m) { return m.inverse (); }
template <class T> static Matrix33<T> gjOf (const Matrix33<T>& m) { return m.gjInverse (); }
template <class T> static Matrix44<T> gjOf (const Matrix44<T>& m) { return m.gjInverse (); }

template <class T, int N> static void both (const std::string& cls, const typename MatT<T, N>::type& m)
{
    T d = detOf (m);
    if (std::fabs ((double) d) >= 1) ++detGe1; else ++detLt1;
    judge<T, N> (cls, inversePath<T, N> (m), m, m.inverse ());
    {
        // the duplicated `bool singExc` bodies with singExc = false are non-throwing determinant-based forms as well
        typedef typename MatT<T, N>::type M;
        M v = m.inverse (), vf = m.inverse (false), c (m);
        c.invert (false);
        if (!eqM<M, N> (vf, v) || !eqM<M, N> (c, v))
            failLine (pstat[inversePath<T, N> (m) + " " + tyName<T> ()], "residue:spelling:" + inversePath<T, N> (m),
                      std::string (tyName<T> ()) + " inverse(false)/invert(false) differ from inverse() class=" + cls + " in=" + inHex<T, N> (m));
    }
    if (N > 2) judge<T, N> (cls, N == 3 ? "M33.gjInverse" : "M44.gjInverse", m, gjOf (m));
}

// affine matrix m (fast path) against p = m with one last-column entry moved by one ulp (general path):
// the two results must agree to the same bound (no jump)
template <class T, int N> static void jump (const std::string& cls, const typename MatT<T, N>::type& m, const typename MatT<T, N>::type& p)
{
    typedef typename MatT<T, N>::type M;
    M x0 = m.inverse (), x1 = p.inverse ();
    judge<T, N> (cls + "-perturbed", inversePath<T, N> (p), p, x1);
    Q a[4][4], x[4][4];
    for (int i = 0; i < N; ++i) for (int j = 0; j < N; ++j) a[i][j] = (Q) m[i][j];
    std::string path = std::string ("affine-jump:") + (N == 3 ? "M33.inverse" : "M44.inverse");
    PathStat& st = pstat[path + " " + tyName<T> ()];
    ++st.n;
    const bool inv = invQ<N> (a, x);
    ++jstat[path + " " + tyName<T> ()].pairs;
    Q e = (Q) std::numeric_limits<T>::epsilon (), nx = inv ? normInf<N> (x) : 0, cond = normInf<N> (a) * nx, jmp = 0;
    const bool id0 = isIdentity<T, N> (x0), id1 = isIdentity<T, N> (x1);
    if (id0 != id1)
    {
        // exactly one side took the singular exit.  In exact arithmetic (Props/C06.lean: M33_arms_disagree_iff,
        // M44_affine_vs_gj) this happens only when an entry of the exact inverse is >= 1/min():  3x3: the fast path accepts
        // (block cofactors pass) and the general arm refuses (a translation cofactor fails);  4x4: the fast path refuses
        // (a block cofactor fails) and Gauss-Jordan inverts.  Such pairs are counted, never silently skipped.
        JumpStat& js = jstat[path + " " + tyName<T> ()];
        ++js.oneSide;
        GuardVerdict g0 = guardSpec<T, N> (m), g1 = guardSpec<T, N> (p);
        // each side's outcome is what the spec of ITS arm decides on ITS matrix
        const bool decided = (id0 ? g0.v == G_ID : g0.v == G_DIV) && (!g1.applies || (id1 ? g1.v == G_ID : g1.v == G_DIV));
        // ... and it is the disagreement of the two ARMS on the affine matrix itself (the theorems), not the perturbation
        // having moved the matrix across the threshold (the one-ulp change of the last column changes the determinant by
        // (translation cofactor) * ulp, which is not small against a determinant near min())
        const bool arms = N == 3 ? (!id0 && id1 && guardSpec<T, N> (m, true).v == G_ID) : (id0 && !id1 && !isIdentity<T, N> (gjOf (m)));
        if (decided && arms) ++js.arms;
        else if (decided) ++js.moved;
        else if (g0.v == G_BAND || (g1.applies && g1.v == G_BAND)) ++js.band;
        else ++js.unexplained;             // a guard violation on one side: reported by judge() under residue:guard:<path>
        if (inv && cond <= 1 / e)
        {
            ++js.withinCond;
            char buf[300];
            snprintf (buf, 300, "%s identity-on-%s-side-only cond=%.3g class=%s in=", tyName<T> (), id0 ? "the-affine" : "the-perturbed", (double) cond, cls.c_str ());
            ++rFail;
            if (js.printed++ < 4)
                printf ("RESIDUE-FAIL residue:affine-jump-identity:%s %s%s perturbed=%s dec=%s\n", N == 3 ? "M33.inverse" : "M44.inverse", buf, showM<T, N> (m).c_str (), showM<T, N> (p).c_str (), showDec<T, N> (m).c_str ());
        }
        return;
    }
    if (!inv || !finiteM<T, N> (x0) || !finiteM<T, N> (x1)) return;
    if (cond > 1 / e) return;
    for (int i = 0; i < N; ++i) for (int j = 0; j < N; ++j) jmp = std::max (jmp, qabs ((Q) x0[i][j] - (Q) x1[i][j]));
    double ratio = (double) (jmp / (cond * e * nx));
    {
        PathStat& s2 = pstat[std::string ("affine-jump2:") + (N == 3 ? "M33.inverse" : "M44.inverse") + " " + tyName<T> ()];
        ++s2.n;
        const bool inRange = cond * cond * e * 16 <= 1;        // as for accuracy2
        if (inRange) ++s2.judged;
        double r2 = inRange ? (double) (jmp / (cond * cond * e * nx)) : 0;
        if (r2 > s2.worst) { s2.worst = r2; s2.worstCond = (double) cond; }
        if (r2 > 2 * C2)
        {
            char b2[400];
            snprintf (b2, 400, "%s |inverse(M)-inverse(M')|/(cond^2*eps*|X|)=%.4g bound=%g cond=%.3g class=%s in=", tyName<T> (), r2, 2 * C2, (double) cond, cls.c_str ());
            failLine (s2, std::string ("residue:affine-jump2:") + (N == 3 ? "M33.inverse" : "M44.inverse"), b2 + showM<T, N> (m) + " perturbed=" + showM<T, N> (p) + " dec=" + showDec<T, N> (m));
        }
    }
    ++st.judged;
    if (ratio > st.worst) { st.worst = ratio; st.worstCond = (double) cond; }
    if (ratio > 2 * CBOUND)
    {
        char buf[400];
        snprintf (buf, 400, "%s |inverse(M)-inverse(M')|/(cond*eps*|X|)=%.4g bound=%g cond=%.3g class=%s in=", tyName<T> (), ratio, 2 * CBOUND, (double) cond, cls.c_str ());
        failLine (st, "residue:" + path, buf + showM<T, N> (m) + " perturbed=" + showM<T, N> (p) + " dec=" + showDec<T, N> (m));
    }
}

// integer lattice: cofactors and determinant are exact, so every entry produced by a single division must be the
// correctly rounded quotient adj_ij/det (a change such as  s / r  ->  s * (1 / r)  is invisible in exact arithmetic
// and far below the cond*eps bound, but not below this one)
// exact determinant of the K x K integer matrix a (rows r[], columns c[])
static long long idet (const long long a[4][4], const int* r, const int* c, int K)
{
    if (K == 1) return a[r[0]][c[0]];
    long long d = 0;
    for (int j = 0; j < K; ++j)
    {
        int cc[3], k = 0;
        for (int q = 0; q < K; ++q) if (q != j) cc[k++] = c[q];
        long long t = a[r[0]][c[j]] * idet (a, r + 1, cc, K - 1);
        d += (j & 1) ? -t : t;
    }
    return d;
}
template <class T, int N> static void lattice (const typename MatT<T, N>::type& m)
{
    typedef typename MatT<T, N>::type M;
    std::string path = inversePath<T, N> (m);
    if (path == "M44.inverse:nonaffine-arm") return;   // Gauss-Jordan: several roundings per entry
    PathStat& st = pstat["lattice:" + path + " " + tyName<T> ()];
    ++st.n;
    long long a[4][4];
    for (int i = 0; i < N; ++i) for (int j = 0; j < N; ++j) a[i][j] = (long long) m[i][j];
    int all[4] = {0, 1, 2, 3};
    long long det = idet (a, all, all, N);
    M got = m.inverse ();
    if (det == 0)
    {
        if (!isIdentity<T, N> (got)) failLine (st, "residue:lattice:" + path, std::string (tyName<T> ()) + " singular-integer-matrix-not-identity in=" + showM<T, N> (m) + " dec=" + showDec<T, N> (m));
        return;
    }
    if (isIdentity<T, N> (got) && !isIdentity<T, N> (m))
    {
        // a non-singular integer matrix has |det| >= 1: the unguarded branch, never the identity (unless M = I)
        failLine (st, "residue:lattice:" + path, std::string (tyName<T> ()) + " nonsingular-integer-matrix-gave-identity in=" + showM<T, N> (m) + " dec=" + showDec<T, N> (m));
        return;
    }
    // entries obtained by one division: all of them (general arms), or the leading (N-1)x(N-1) block (affine arms)
    int K = (path == "M33.inverse:affine-arm" || path == "M44.inverse:cofactor-affine-arm") ? N - 1 : N;
    ++st.judged; ++latticeChecked;
    for (int i = 0; i < K; ++i) for (int j = 0; j < K; ++j)
    {
        // X[i][j] = (-1)^(i+j) * minor(j,i) / det
        int rr[3], cc[3], k = 0;
        for (int q = 0; q < N; ++q) if (q != j) rr[k++] = q;
        k = 0;
        for (int q = 0; q < N; ++q) if (q != i) cc[k++] = q;
        long long cof = N == 1 ? 1 : idet (a, rr, cc, N - 1);
        if ((i + j) & 1) cof = -cof;
        T want = (T) ((Q) cof / (Q) det);   // small integers: the quad quotient rounds to the correctly rounded T quotient
        if (!sameBits (want + (T) 0, got[i][j] + (T) 0))   // +0: the sign of a zero quotient is not claimed
        {
            char buf[300];
            snprintf (buf, 300, "%s entry[%d][%d]=%.17g correctly-rounded-adj/det=%.17g in=", tyName<T> (), i, j, (double) got[i][j], (double) want);
            failLine (st, "residue:lattice:" + path, buf + showM<T, N> (m) + " dec=" + showDec<T, N> (m));
            return;
        }
    }
}

// orthogonal-like factor: product of plane rotations with Pythagorean cosines/sines (quad precision)
template <int N> static void orthoQ (Q u[4][4])
{
    static const int tr[][3] = {{3, 4, 5}, {5, 12, 13}, {8, 15, 17}, {7, 24, 25}, {20, 21, 29}, {12, 35, 37}};
    for (int i = 0; i < N; ++i) for (int j = 0; j < N; ++j) u[i][j] = i == j ? 1 : 0;
    for (int s = 0; s < 2 * N; ++s)
    {
        int i = (int) irand (0, N - 1), j = (int) irand (0, N - 1);
        if (i == j) continue;
        const int* t = tr[irand (0, 5)];
        Q c = (Q) t[0] / t[2], sn = (Q) t[1] / t[2];
        if (irand (0, 1)) std::swap (c, sn);
        if (irand (0, 1)) sn = -sn;
        for (int k = 0; k < N; ++k) { Q a = u[i][k], b = u[j][k]; u[i][k] = c * a - sn * b; u[j][k] = sn * a + c * b; }
    }
}
// U diag(sigma) V rounded to T; profile 0: geometric grading, 1: one small singular value, 2: one large, the rest small
template <class T, int N> static typename MatT<T, N>::type usv (double kappa, int profile, double scale)
{
    Q u[4][4], v[4][4], sg[4];
    orthoQ<N> (u); orthoQ<N> (v);
    for (int k = 0; k < N; ++k)
    {
        double e = profile == 0 ? (double) k / (N - 1) : profile == 1 ? (k == N - 1 ? 1.0 : 0.0) : (k == 0 ? 0.0 : 1.0);
        sg[k] = (Q) std::pow (kappa, -e) * (Q) scale;
    }
    typename MatT<T, N>::type m;
    for (int i = 0; i < N; ++i) for (int j = 0; j < N; ++j) { Q s = 0; for (int k = 0; k < N; ++k) s += u[i][k] * sg[k] * v[k][j]; m[i][j] = (T) s; }
    return m;
}
static const char* profName (int p) { return p == 0 ? "graded-geometric" : p == 1 ? "graded-one-small" : "graded-one-large"; }
template <class T, int N> static void makeAffine (typename MatT<T, N>::type& m)
{
    for (int i = 0; i < N - 1; ++i) m[i][N - 1] = 0;
    m[N - 1][N - 1] = 1;
}
template <class T, int N> static typename MatT<T, N>::type perturbLastColumn (const typename MatT<T, N>::type& m)
{
    typename MatT<T, N>::type p (m);
    int r = (int) irand (0, N - 1);
    if (r == N - 1) p[r][N - 1] = std::nextafter ((T) 1, irand (0, 1) ? (T) 2 : (T) 0);
    else p[r][N - 1] = (irand (0, 1) ? (T) 1 : (T) -1) * (irand (0, 1) ? std::numeric_limits<T>::denorm_min () : std::numeric_limits<T>::epsilon () * (T) std::ldexp (1.0, (int) -irand (0, 40)));
    return p;
}

// FIXED (unseeded) canonical witnesses, judged first so that the first RESIDUE-FAIL line of a key is always the same:
//   M = u v^T + delta * B,  u = (.3,.7,1.1), v = (.9,.6,1.3), B = [[.2,-.5,.4],[.7,.1,-.3],[-.6,.8,.5]]
// (one large, two small singular values: cofactor inversion loses cond^2 * eps), alone (3x3 general arm) and as the
// linear block of an affine 4x4 with translation row (1,2,3) (4x4 affine arm; jump against the general path).
template <class T> static void fixedWitnesses ()
{
    const double u[3] = {0.3, 0.7, 1.1}, v[3] = {0.9, 0.6, 1.3}, B[3][3] = {{0.2, -0.5, 0.4}, {0.7, 0.1, -0.3}, {-0.6, 0.8, 0.5}};
    const double delta = sizeof (T) == 8 ? 1e-5 : 1e-2;
    Matrix33<T> m3;
    for (int i = 0; i < 3; ++i) for (int j = 0; j < 3; ++j) m3[i][j] = (T) (u[i] * v[j] + delta * B[i][j]);
    both<T, 3> ("fixed-witness", m3);
    Matrix44<T> m4;
    for (int i = 0; i < 3; ++i) for (int j = 0; j < 3; ++j) m4[i][j] = m3[i][j];
    m4[3][0] = 1; m4[3][1] = 2; m4[3][2] = 3;
    makeAffine<T, 4> (m4);
    both<T, 4> ("fixed-witness", m4);
    Matrix44<T> p4 (m4);
    p4[0][3] = std::numeric_limits<T>::denorm_min ();
    jump<T, 4> ("fixed-witness", m4, p4);
}

// guard-edge classes: a well-conditioned K x K block A with row k scaled by t so that |det|/min() sits above all cofactors
// (mode 0, 4), between the two largest (mode 1: exactly one guard fails, at a position that varies with k), below the
// cofactors of the unscaled rows (mode 2), or within a few ulps of one of them (mode 3: either outcome is acceptable).
// affine != 0: the block is the linear part of an affine N x N matrix (translation row up to +-64).
template <class T, int N> static void guardEdge (long it, bool affine)
{
    typedef typename MatT<T, N>::type M;
    const int K = affine ? N - 1 : N;
    if (K > 3 || K < 2) return;
    const Q mn = (Q) std::numeric_limits<T>::min (), eps = (Q) std::numeric_limits<T>::epsilon ();
    Q A[3][3], det = 0;
    for (int tries = 0; tries < 50; ++tries)
    {
        for (int i = 0; i < K; ++i) for (int j = 0; j < K; ++j) A[i][j] = (Q) (T) urand ();
        det = K == 2 ? A[0][0] * A[1][1] - A[1][0] * A[0][1]
                     : A[0][0] * (A[1][1] * A[2][2] - A[2][1] * A[1][2]) - A[0][1] * (A[1][0] * A[2][2] - A[2][0] * A[1][2]) + A[0][2] * (A[1][0] * A[2][1] - A[2][0] * A[1][1]);
        if (qabs (det) > 0.05) break;
    }
    if (!(qabs (det) > 0.05)) return;
    const int k = (int) irand (0, K - 1);
    // cofactors that do not contain row k (they keep their size when row k is scaled)
    std::vector<Q> c;
    for (int j = 0; j < K; ++j)
    {
        if (K == 2) c.push_back (qabs (A[1 - k][1 - j]));
        else
        {
            const int r1 = k == 0 ? 1 : 0, r2 = k == 2 ? 1 : 2, c1 = j == 0 ? 1 : 0, c2 = j == 2 ? 1 : 2;
            c.push_back (qabs (A[r1][c1] * A[r2][c2] - A[r1][c2] * A[r2][c1]));
        }
    }
    std::sort (c.begin (), c.end (), [] (Q a, Q b) { return a > b; });
    if (!(c.back () > 1e-3)) return;
    int mode = (int) (it % 5);
    if (mode == 1 && !(c[0] > c[1] * (Q) 1.05)) mode = 0;
    Q target;
    switch (mode)
    {
        case 0: target = c[0] * (2 + 2 * (Q) std::fabs (urand ())); break;
        case 1: target = (Q) std::sqrt ((double) (c[0] * c[1])); break;
        case 2: target = c.back () / 4; break;
        case 3: target = c[irand (0, K - 1)] * (1 + (Q) irand (-3, 3) * eps); break;
        default: target = c[0] * (Q) std::ldexp (1.0, (int) irand (2, 40)); break;
    }
    const Q t = target * mn / qabs (det);
    M m;
    for (int i = 0; i < N; ++i) for (int j = 0; j < N; ++j) m[i][j] = 0;
    for (int i = 0; i < K; ++i) for (int j = 0; j < K; ++j) m[i][j] = (T) (i == k ? A[i][j] * t : A[i][j]);
    if (affine)
    {
        for (int j = 0; j < K; ++j) m[N - 1][j] = (T) (urand () * 64);
        makeAffine<T, N> (m);
    }
    else if (N > 2 && isAffine<T, N> (m)) return;
    static const char* names[] = {"guard-edge-pass", "guard-edge-one-fails", "guard-edge-fails", "guard-edge-ulps", "guard-edge-pass-far"};
    both<T, N> (names[mode], m);
    if (affine) jump<T, N> (names[mode], m, perturbLastColumn<T, N> (m));
}

// FIXED exact ties of the guard (every operation exact): |det|/min() EQUAL to a cofactor must give the identity (`>` is
// strict), twice that must not.  d = min():  M22 diag(1,d);  M33 general diag(1,d,2);  M33 affine [[1,0,0],[0,d,0],[5,7,1]];
// M44 affine with linear block diag(1,d,2) and translation (5,7,9).  Also |det| >= 1 with a cofactor above |det|/min()
// (the guard must not be consulted): M22 diag(1/min(), min()).
template <class T> static void guardTies ()
{
    const T d = std::numeric_limits<T>::min ();
    auto check = [&] (const std::string& path, bool wantIdentity, bool gotIdentity, const std::string& in)
    {
        GuardStat& gs = gstat[path + " " + tyName<T> ()];
        ++gs.ties;
        if (wantIdentity != gotIdentity)
            guardFail (gs, "residue:guard:" + path, std::string (tyName<T> ()) + (wantIdentity ? " exact-tie-|det|/min()==|cofactor|-must-give-the-identity" : " |det|/min()-twice-the-largest-cofactor-or-|det|>=1-must-not-give-the-identity") + " class=guard-tie in=" + in);
    };
    for (int f = 1; f <= 2; ++f)
    {
        const bool want = f == 1;
        Matrix22<T> a (1, 0, 0, d * f);
        check ("M22.inverse", want, isIdentity<T, 2> (a.inverse ()), showM<T, 2> (a));
        Matrix33<T> g (1, 0, 0, 0, d * f, 0, 0, 0, 2);
        check ("M33.inverse:cofactor-general-arm", want, isIdentity<T, 3> (g.inverse ()), showM<T, 3> (g));
        Matrix33<T> h (1, 0, 0, 0, d * f, 0, 5, 7, 1);
        check ("M33.inverse:affine-arm", want, isIdentity<T, 3> (h.inverse ()), showM<T, 3> (h));
        Matrix44<T> q (1, 0, 0, 0, 0, d * f, 0, 0, 0, 0, 2, 0, 5, 7, 9, 1);
        check ("M44.inverse:cofactor-affine-arm", want, isIdentity<T, 4> (q.inverse ()), showM<T, 4> (q));
        // the in-place and `bool` spellings take the same exits
        Matrix22<T> a2 (a); a2.invert (); Matrix33<T> g2 (g); g2.invert (false); Matrix44<T> q2 (q); q2.invert ();
        check ("M22.inverse", want, isIdentity<T, 2> (a2), showM<T, 2> (a));
        check ("M33.inverse:cofactor-general-arm", want, isIdentity<T, 3> (g2), showM<T, 3> (g));
        check ("M44.inverse:cofactor-affine-arm", want, isIdentity<T, 4> (q2), showM<T, 4> (q));
    }
    const int emin = std::numeric_limits<T>::min_exponent - 1;                                // min() = 2^emin
    Matrix22<T> big ((T) std::ldexp (1.0, -emin), 0, 0, (T) std::ldexp (1.0, emin));          // det = 1, cofactor 1/min() = |det|/min()
    check ("M22.inverse", false, isIdentity<T, 2> (big.inverse ()), showM<T, 2> (big));
}

template <class T, int N> static void residueRound (long it)
{
    typedef typename MatT<T, N>::type M;
    const double eps = (double) std::numeric_limits<T>::epsilon ();
    auto U01 = [] () { return std::uniform_real_distribution<double> (0, 1) (rng); };
    M m;
    // well conditioned
    for (int i = 0; i < N; ++i) for (int j = 0; j < N; ++j) m[i][j] = (T) urand ();
    both<T, N> ("well", m);
    // integer lattice (general arm, and affine arm)
    for (int i = 0; i < N; ++i) for (int j = 0; j < N; ++j) m[i][j] = (T) (double) irand (-4, 4);
    lattice<T, N> (m);
    if (N > 2) { makeAffine<T, N> (m); lattice<T, N> (m); }
    // graded condition numbers up to 1/eps, three singular-value profiles, |det| on both sides of 1
    {
        double kappa = std::pow (1 / eps, U01 ());
        int profile = (int) (it % 3);
        m = usv<T, N> (kappa, profile, std::ldexp (1.0, (int) irand (-3, 6)));
        both<T, N> (profName (profile), m);
    }
    // rows of a dyadic matrix scaled by powers of two
    {
        M u = dyadic<T, N> ((int) irand (3, 8), false);
        for (int i = 0; i < N; ++i) { T s = (T) std::ldexp (1.0, (int) irand (-12, 12)); for (int j = 0; j < N; ++j) u[i][j] *= s; }
        both<T, N> ("rowscaled", u);
    }
    // |det| straddling 1: scale a random matrix so that |det| = 1 -/+ a few ulps
    {
        for (int i = 0; i < N; ++i) for (int j = 0; j < N; ++j) m[i][j] = (T) urand ();
        double d = std::fabs ((double) detOf (m));
        if (d > 1e-3)
        {
            double f = std::pow (d, -1.0 / N) * (1 + (double) irand (-4, 4) * eps);
            for (int i = 0; i < N; ++i) for (int j = 0; j < N; ++j) m[i][j] = (T) (m[i][j] * f);
            both<T, N> ("det-near-1", m);
        }
    }
    // beyond 1/eps, below 1/eps^2: only finiteness is claimed
    {
        double kappa = std::pow (1 / eps, 1 + 0.9 * U01 ());
        m = usv<T, N> (kappa, (int) (it % 3), 1.0);
        both<T, N> ("ill-beyond-1/eps", m);
    }
    if (N > 2)
    {
        // affine: fast path; then one last-column entry moved by one ulp -> general path
        double kappa = std::pow (1 / eps, 0.8 * U01 ());
        int profile = (int) (it % 3);
        m = usv<T, N> (kappa, profile, std::ldexp (1.0, (int) irand (-2, 3)));
        for (int j = 0; j < N - 1; ++j) m[N - 1][j] = (T) (urand () * 4);
        makeAffine<T, N> (m);
        std::string cls = std::string ("affine-") + profName (profile);
        both<T, N> (cls, m);
        jump<T, N> (cls, m, perturbLastColumn<T, N> (m));
        // affine with a uniformly small linear block (translation dominates)
        double sc = std::pow (eps, 0.45 * U01 ());
        for (int i = 0; i < N - 1; ++i) for (int j = 0; j < N - 1; ++j) m[i][j] = (T) (urand () * sc);
        both<T, N> ("affine-small-block", m);
        jump<T, N> ("affine-small-block", m, perturbLastColumn<T, N> (m));
    }
    // the overflow guard itself, on both sides of its threshold
    if (N < 4) guardEdge<T, N> (it, false);
    if (N > 2) guardEdge<T, N> (it, true);
}

static int residueMain (unsigned long seed, long n)
{
    fixedWitnesses<double> ();
    fixedWitnesses<float> ();
    rng.seed (seed * 40503ul + 977);
    for (long it = 0; it < n; ++it)
    {
        residueRound<double, 2> (it); residueRound<double, 3> (it); residueRound<double, 4> (it);
        residueRound<float, 2> (it); residueRound<float, 3> (it); residueRound<float, 4> (it);
    }
    guardTies<double> ();          // after the seeded rounds: the first line printed for a guard key is then an ordinary matrix
    guardTies<float> ();
    for (auto& kv : pstat)
        printf ("RPATH %s n=%ld judged=%ld worst=%.4g worst_at_cond=%.3g fails=%ld nonfinite=%ld\n", kv.first.c_str (), kv.second.n, kv.second.judged, kv.second.worst, kv.second.worstCond, kv.second.fails,
                kv.second.nonfinite);
    for (auto& kv : pstat)
        if (kv.second.judged && kv.first.compare (0, 8, "lattice:") != 0 && kv.first.compare (0, 11, "affine-jump") != 0 && kv.first.compare (0, 8, "accuracy") != 0)
            printf ("RRESIDUAL %s worst=%.4g\n", kv.first.c_str (), kv.second.worstRes);
    for (auto& kv : gstat)
    {
        int bits = 0;
        for (int b = 0; b < 9; ++b) bits += (kv.second.posMask >> b) & 1;
        printf ("RGUARD %s n=%ld must_divide=%ld must_identity=%ld band=%ld ties=%ld unique_fail_positions=%d/%d fails=%ld edge_cases=%ld edge_band=%ld\n", kv.first.c_str (), kv.second.n, kv.second.mustDivide,
                kv.second.mustIdentity, kv.second.band, kv.second.ties, bits, kv.second.K * kv.second.K, kv.second.fails, kv.second.edgeN, kv.second.edgeBand);
    }
    for (auto& kv : jstat)
        printf ("RJUMP %s pairs=%ld one_side_identity=%ld arms_disagree_as_in_theorem=%ld perturbation_crossed_threshold=%ld band=%ld unexplained=%ld within_cond_1/eps=%ld\n", kv.first.c_str (), kv.second.pairs,
                kv.second.oneSide, kv.second.arms, kv.second.moved, kv.second.band, kv.second.unexplained, kv.second.withinCond);
    printf ("RCLASSES");
    for (auto& kv : classN) printf (" %s=%ld", kv.first.c_str (), kv.second);
    printf ("\n");
    printf ("RESIDUE evals=%ld failures=%ld bound=%g det_ge1=%ld det_lt1=%ld guard_identity=%ld finite_checked=%ld lattice_checked=%ld dynamic_range_excluded_from_finiteness=%ld outside_range_checked=%ld outside_range_nonfinite=%ld\n", rEvals, rFail, CBOUND, detGe1, detLt1, guardIdentity,
            finiteChecked, latticeChecked, rangeExcluded, outsideRangeChecked, outsideRangeNonfinite);
    return rFail ? 1 : 0;
}

//---------------------------------------------------------------------------------------------------------------
// exhaustive small-integer 3x3 families (three-way tie real code / hand model / det^-1 * adjugate)

static long exhCases = 0, exhFail = 0, exhSingular = 0;
static long long gcdll (long long a, long long b) { a = a < 0 ? -a : a; b = b < 0 ? -b : b; while (b) { long long t = a % b; a = b; b = t; } return a; }
static std::string fracStr (long long n, long long d)
{
    if (d < 0) { n = -n; d = -d; }
    long long g = gcdll (n, d);
    if (g > 1) { n /= g; d /= g; }
    char b[60];
    if (d == 1) snprintf (b, 60, "%lld", n); else snprintf (b, 60, "%lld/%lld", n, d);
    return b;
}
template <class T> static void exhCase (const std::string& fam, const int v[9])
{
    Matrix33<T> m;
    long long a[4][4];
    for (int i = 0; i < 3; ++i) for (int j = 0; j < 3; ++j) { m[i][j] = (T) v[3 * i + j]; a[i][j] = v[3 * i + j]; }
    int all[4] = {0, 1, 2, 3};
    const long long det = idet (a, all, all, 3);
    std::string q;
    long long adj[3][3];
    for (int i = 0; i < 3; ++i) for (int j = 0; j < 3; ++j)
    {
        int rr[3], cc[3], k = 0;
        for (int t = 0; t < 3; ++t) if (t != j) rr[k++] = t;
        k = 0;
        for (int t = 0; t < 3; ++t) if (t != i) cc[k++] = t;
        long long c = idet (a, rr, cc, 2);
        adj[i][j] = ((i + j) & 1) ? -c : c;
        if (det != 0) q += (q.empty () ? "" : ",") + fracStr (adj[i][j], det);
    }
    char suf[80];
    snprintf (suf, 80, " ## det=%lld q=", det);
    ++exhCases;
    if (det == 0) ++exhSingular;
    const long before = selfFail;
    emitCase<T, 3> (fam, m, std::string (suf) + (det == 0 ? "-" : q));
    if (selfFail != before) ++exhFail;
    // real code against the exact specification, in-process
    Matrix33<T> r = m.gjInverse ();
    bool threw = false;
    try { (void) m.gjInverse (true); } catch (...) { threw = true; }
    const char* what = 0;
    if (threw != (det == 0)) what = "gjInverse(true)-throws-iff-det=0";
    else if (det == 0 && !isIdentity<T, 3> (r)) what = "singular-but-not-identity";
    else if (det != 0)
    {
        Q mx = 0, err = 0;
        for (int i = 0; i < 3; ++i) for (int j = 0; j < 3; ++j)
        {
            Q w = (Q) adj[i][j] / (Q) det;
            mx = std::max (mx, qabs (w)); err = std::max (err, qabs ((Q) r[i][j] - w));
        }
        if (!(err <= 8 * (Q) std::numeric_limits<T>::epsilon () * mx)) what = "entry-further-than-8eps*max|X|-from-adj/det";
    }
    if (what) { ++exhFail; printf ("EXH-FAIL %s %s in=%s dec=%s\n", what, tyName<T> (), showM<T, 3> (m).c_str (), showDec<T, 3> (m).c_str ()); }
}
static int exhMain (long stride, long offset)
{
    if (stride < 1) stride = 1;
    static const int xs[4] = {-1, 0, 1, 2};
    int v[9];
    for (long idx = 0; idx < 262144; ++idx)
    {
        // a hash of the index, so that a 1-in-`stride` sample does not fix any entry of the matrix
        if ((long) ((((uint64_t) idx * 2654435761ull) >> 9) % (uint64_t) stride) != offset % stride) continue;
        long t = idx;
        for (int k = 0; k < 9; ++k) { v[k] = xs[t & 3]; t >>= 2; }
        exhCase<double> ("x-", v);
    }
    for (long idx = 0; idx < 8000; ++idx)
    {
        long t = idx;
        for (int k = 0; k < 9; ++k)
        {
            if (k % 3 == 0) { v[k] = (int) (t % 5) - 2; t /= 5; }
            else { v[k] = (int) (t & 1); t >>= 1; }
        }
        exhCase<double> ("y-", v);
        exhCase<float> ("y-", v);
    }
    printf ("EXH cases=%ld singular=%ld fails=%ld self=%ld selffail=%ld\n", exhCases, exhSingular, exhFail, selfChecks, selfFail);
    return exhFail || selfFail ? 1 : 0;
}

int main (int argc, char** argv)
{
    std::string mode = argc > 1 ? argv[1] : "corr";
    unsigned long seed = argc > 2 ? strtoul (argv[2], 0, 10) : 1;
    long n = argc > 3 ? atol (argv[3]) : 100;
    if (argc > 4) CBOUND = atof (argv[4]);
    if (mode == "corr") return corrMain (seed, n);
    if (mode == "residue") return residueMain (seed, n);
    if (mode == "exh33") return exhMain ((long) seed, n);
    fprintf (stderr, "usage: c06_inv corr|residue <seed> <n> [c] | exh33 <stride> <offset>\n");
    return 2;
}
