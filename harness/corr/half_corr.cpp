// Correspondence harness for half conversion (C01/C02/C03): runs the *real*
// code from /repo/src/Imath/half.h, in whatever configuration this TU is
// compiled with, and prints the same canonical lines as lean/Driver/Half.lean.
//
//   f2h_blocks <lo> <hi> <api> <canon>   api: c | cxx ; canon: 0 | 1 (NaN -> sign|0x7e00)
//   h2f_all <api> <canon>
//   round_all <n> | class_all | f2h <hex>.. | h2f <hex>..
#ifdef __cplusplus
#include <half.h>
#include <cstdio>
#include <cstring>
#include <cstdlib>
#include <cstdint>
#include <thread>
#include <vector>
using namespace IMATH_NAMESPACE;
#define HAVE_CXX 1
#else
#include <half.h>
#include <stdio.h>
#include <string.h>
#include <stdlib.h>
#include <stdint.h>
#include <pthread.h>
#define HAVE_CXX 0
#endif

static uint32_t f2u (float f) { uint32_t u; memcpy (&u, &f, 4); return u; }
static float u2f (uint32_t u) { float f; memcpy (&f, &u, 4); return f; }

static uint16_t conv_f2h (uint32_t u, int cxx)
{
#if HAVE_CXX
    if (cxx) { half h (u2f (u)); return h.bits (); }
#endif
    return imath_float_to_half (u2f (u));
}
static uint32_t conv_h2f (uint16_t b, int cxx)
{
#if HAVE_CXX
    if (cxx) { half h; h.setBits (b); return f2u ((float) h); }
#endif
    return f2u (imath_half_to_float (b));
}
static uint16_t canon16 (uint16_t h) { return ((h & 0x7c00) == 0x7c00 && (h & 0x3ff)) ? (uint16_t)((h & 0x8000) | 0x7e00) : h; }
static uint32_t canon32 (uint32_t f) { return ((f & 0x7f800000u) == 0x7f800000u && (f & 0x7fffffu)) ? ((f & 0x80000000u) | 0x7fc00000u) : f; }

static uint64_t block_hash (uint32_t b, int cxx, int canon)
{
    uint64_t h = 1469598103934665603ull;
    uint32_t base = b << 16;
    for (uint32_t i = 0; i < 65536; ++i)
    {
        uint16_t r = conv_f2h (base + i, cxx);
        if (canon) r = canon16 (r);
        h = (h ^ (uint64_t) r) * 1099511628211ull;
    }
    return h;
}

#if !HAVE_CXX
// plain C: the same 16-way split of the block range, with pthreads
struct blk_job { uint32_t lo, hi, t, nt; int cxx, canon; uint64_t* out; };
static void* blk_worker (void* p)
{
    struct blk_job* j = (struct blk_job*) p;
    for (uint32_t b = j->lo + j->t; b < j->hi; b += j->nt) j->out[b - j->lo] = block_hash (b, j->cxx, j->canon);
    return 0;
}
#endif

int main (int argc, char** argv)
{
    if (argc < 2) return 2;
    if (!strcmp (argv[1], "config"))
    {
        // which #if branch of half.h this translation unit was compiled with
#if defined(__F16C__)
        printf ("branch=f16c");
#elif defined(IMATH_HALF_USE_LOOKUP_TABLE) && !defined(IMATH_HALF_NO_LOOKUP_TABLE)
        printf ("branch=table");
#else
        printf ("branch=shift");
#endif
#ifdef __cplusplus
        printf (" lang=c++%ld\n", (long) __cplusplus);
#else
        printf (" lang=c%ld\n", (long) __STDC_VERSION__);
#endif
        return 0;
    }
    if (!strcmp (argv[1], "f2h_blocks"))
    {
        uint32_t lo = (uint32_t) atol (argv[2]), hi = (uint32_t) atol (argv[3]);
        int cxx = !strcmp (argv[4], "cxx"), canon = atoi (argv[5]);
        uint64_t* out = (uint64_t*) malloc (sizeof (uint64_t) * (hi - lo + 1));
#if HAVE_CXX
        unsigned nt = 16;
        std::vector<std::thread> th;
        for (unsigned t = 0; t < nt; ++t)
            th.emplace_back ([=] { for (uint32_t b = lo + t; b < hi; b += nt) out[b - lo] = block_hash (b, cxx, canon); });
        for (auto& t : th) t.join ();
#else
        enum { NT = 16 };
        pthread_t th[NT];
        struct blk_job jobs[NT];
        for (unsigned t = 0; t < NT; ++t)
        {
            struct blk_job j = { lo, hi, t, NT, cxx, canon, out };
            jobs[t] = j;
            if (pthread_create (&th[t], 0, blk_worker, &jobs[t])) return 3;
        }
        for (unsigned t = 0; t < NT; ++t) pthread_join (th[t], 0);
#endif
        for (uint32_t b = lo; b < hi; ++b) printf ("%llx\n", (unsigned long long) out[b - lo]);
        return 0;
    }
    if (!strcmp (argv[1], "h2f_all"))
    {
        int cxx = !strcmp (argv[2], "cxx"), canon = atoi (argv[3]);
        for (uint32_t h = 0; h < 65536; ++h)
        {
            uint32_t r = conv_h2f ((uint16_t) h, cxx);
            if (canon) r = canon32 (r);
            printf ("%x\n", r);
        }
        return 0;
    }
    if (!strcmp (argv[1], "f2h_range"))
    {
        uint32_t lo = (uint32_t) strtoul (argv[2], 0, 10), hi = (uint32_t) strtoul (argv[3], 0, 10);
        int cxx = argc > 4 && !strcmp (argv[4], "cxx"), canon = argc > 5 ? atoi (argv[5]) : 0;
        for (uint64_t u = lo; u < hi; ++u) { uint16_t r = conv_f2h ((uint32_t) u, cxx); printf ("%x\n", canon ? canon16 (r) : r); }
        return 0;
    }
    if (!strcmp (argv[1], "f2h"))
    {
        for (int i = 2; i < argc; ++i) printf ("%x\n", conv_f2h ((uint32_t) strtoul (argv[i], 0, 16), 0));
        return 0;
    }
    if (!strcmp (argv[1], "h2f"))
    {
        for (int i = 2; i < argc; ++i) printf ("%x\n", conv_h2f ((uint16_t) strtoul (argv[i], 0, 16), 0));
        return 0;
    }
#if HAVE_CXX
    if (!strcmp (argv[1], "round_all"))
    {
        unsigned n = (unsigned) atoi (argv[2]);
        for (uint32_t b = 0; b < 65536; ++b) { half h; h.setBits ((uint16_t) b); printf ("%x\n", h.round (n).bits ()); }
        return 0;
    }
    if (!strcmp (argv[1], "class_all"))
    {
        for (uint32_t b = 0; b < 65536; ++b)
        {
            half h; h.setBits ((uint16_t) b);
            int c = (h.isFinite () ? 1 : 0) + (h.isNormalized () ? 2 : 0) + (h.isDenormalized () ? 4 : 0) +
                    (h.isZero () ? 8 : 0) + (h.isNan () ? 16 : 0) + (h.isInfinity () ? 32 : 0) + (h.isNegative () ? 64 : 0);
            printf ("%d %x\n", c, (-h).bits ());
        }
        return 0;
    }
#endif
    return 2;
}
