// Correspondence harness for half conversion (C01/C02/C03): runs the *real*
// code from /repo/src/Imath/half.h, in whatever configuration this TU is
// compiled with, and prints the same canonical lines as lean/Driver/Half.lean.
//
//   f2h_blocks <lo> <hi> <api> <canon>   api: c | cxx | asg ; canon: 0 | 1 (NaN -> sign|0x7e00)
//        c   = imath_float_to_half / imath_half_to_float
//        cxx = half::half(float) + bits() / half::operator float()
//        asg = half::operator=(float) + bits()            (float->half only)
//   f2h_list <api> <canon> <block>..     the same hashes for an explicit list of 2^16-blocks
//   f2hx_blocks <lo> <hi> <api> | f2hx_list <api> <block>.. | f2hx_range <lo> <hi> <api>
//        hash / list of (result | raised<<16), raised = 1 FE_OVERFLOW, 2 FE_UNDERFLOW, 4 any other
//        exception flag, read with fetestexcept after every call (IMATH_HALF_ENABLE_FP_EXCEPTIONS build)
//   h2f_all <api> <canon>
//   roundtrip_all <api> <canon>          half -> float -> half on the real code, all 2^16 patterns
//   canon_all | config | rm_control | round_all <n> | class_all | f2h <hex>.. | h2f <hex>..
//
// Environment HALF_CORR_ROUND = ne | tz | up | dn : fesetround() in main and in every worker
// thread before any conversion runs (the conversions must not depend on the caller's rounding
// mode); every worker re-reads fegetround() afterwards and the run fails (exit 4) if it changed.
#ifdef __cplusplus
#include <half.h>
#include <fenv.h>
#include <cstdio>
#include <cstring>
#include <cstdlib>
#include <cstdint>
#include <thread>
#include <vector>
using namespace IMATH_NAMESPACE;
#define HAVE_CXX 1
#else
#include <half.h>
#include <fenv.h>
#include <stdio.h>
#include <string.h>
#include <stdlib.h>
#include <stdint.h>
#include <pthread.h>
#define HAVE_CXX 0
#endif

static uint32_t f2u (float f) { uint32_t u; memcpy (&u, &f, 4); return u; }
static float u2f (uint32_t u) { float f; memcpy (&f, &u, 4); return f; }

static int g_round = -1;     // -1: leave the rounding mode alone
static int g_round_bad = 0;
static void set_round (void) { if (g_round >= 0 && fesetround (g_round)) g_round_bad = 1; }
static void chk_round (void) { if (g_round >= 0 && fegetround () != g_round) g_round_bad = 1; }
static int parse_api (const char* s) { return !strcmp (s, "cxx") ? 1 : !strcmp (s, "asg") ? 2 : 0; }

static uint16_t conv_f2h (uint32_t u, int cxx)
{
#if HAVE_CXX
    if (cxx == 1) { half h (u2f (u)); return h.bits (); }
    if (cxx == 2) { half h; h.setBits (0x5555); h = u2f (u); return h.bits (); }
#endif
    return imath_float_to_half (u2f (u));
}
static uint32_t conv_h2f (uint16_t b, int cxx)
{
#if HAVE_CXX
    if (cxx) { half h; h.setBits (b); return f2u ((float) h); }
#endif
    return f2u (imath_half_to_float (b));
}
#if defined(__F16C__) && !defined(_MSC_VER)
// the harness' OWN hardware conversion (positive control of the rounding-mode dimension), kept in a
// named non-inlined function so that the check can tell it from half.h's when it disassembles this object
#ifdef __cplusplus
extern "C"
#endif
__attribute__ ((noinline)) unsigned rm_control_f16c (float x) { return (unsigned) _cvtss_sh (x, _MM_FROUND_CUR_DIRECTION); }
#endif
static uint16_t canon16 (uint16_t h) { return ((h & 0x7c00) == 0x7c00 && (h & 0x3ff)) ? (uint16_t)((h & 0x8000) | 0x7e00) : h; }
static uint32_t canon32 (uint32_t f) { return ((f & 0x7f800000u) == 0x7f800000u && (f & 0x7fffffu)) ? ((f & 0x80000000u) | 0x7fc00000u) : f; }

static uint64_t block_hash (uint32_t b, int cxx, int canon)
{
    uint64_t h = 1469598103934665603ull;
    uint32_t base = b << 16;
    for (uint32_t i = 0; i < 65536; ++i)
    {
        uint16_t r = conv_f2h (base + i, cxx);
        if (canon) r = canon16 (r);
        h = (h ^ (uint64_t) r) * 1099511628211ull;
    }
    return h;
}

// float->half observing the floating-point exception flags the call leaves behind
static uint32_t conv_f2hx (uint32_t u, int cxx)
{
    uint16_t r = conv_f2h (u, cxx);
    int e = fetestexcept (FE_ALL_EXCEPT);
    uint32_t code = 0;
    if (e)
    {
        feclearexcept (FE_ALL_EXCEPT);
        code = ((e & FE_OVERFLOW) ? 1u : 0u) | ((e & FE_UNDERFLOW) ? 2u : 0u) | ((e & ~(FE_OVERFLOW | FE_UNDERFLOW)) ? 4u : 0u);
    }
    return (uint32_t) r | (code << 16);
}
static uint64_t block_hashx (uint32_t b, int cxx)
{
    uint64_t h = 1469598103934665603ull;
    uint32_t base = b << 16;
    feclearexcept (FE_ALL_EXCEPT);
    for (uint32_t i = 0; i < 65536; ++i) h = (h ^ (uint64_t) conv_f2hx (base + i, cxx)) * 1099511628211ull;
    return h;
}
// canon < 0 selects the exception-observing hash
static uint64_t any_hash (uint32_t b, int cxx, int canon) { return canon < 0 ? block_hashx (b, cxx) : block_hash (b, cxx, canon); }

#if !HAVE_CXX
// plain C: the same 16-way split of the block range, with pthreads
struct blk_job { uint32_t lo, hi, t, nt; int cxx, canon; uint64_t* out; const uint32_t* list; };
static void* blk_worker (void* p)
{
    struct blk_job* j = (struct blk_job*) p;
    set_round ();
    for (uint32_t b = j->lo + j->t; b < j->hi; b += j->nt)
        j->out[b - j->lo] = any_hash (j->list ? j->list[b] : b, j->cxx, j->canon);
    chk_round ();
    return 0;
}
#endif

// hashes of blocks lo..hi-1 (list == 0) or of list[lo..hi-1], 16 worker threads
static void run_blocks (uint32_t lo, uint32_t hi, const uint32_t* list, int cxx, int canon, uint64_t* out)
{
#if HAVE_CXX
    unsigned nt = 16;
    std::vector<std::thread> th;
    for (unsigned t = 0; t < nt; ++t)
        th.emplace_back ([=] {
            set_round ();
            for (uint32_t b = lo + t; b < hi; b += nt) out[b - lo] = any_hash (list ? list[b] : b, cxx, canon);
            chk_round ();
        });
    for (auto& t : th) t.join ();
#else
    enum { NT = 16 };
    pthread_t th[NT];
    struct blk_job jobs[NT];
    for (unsigned t = 0; t < NT; ++t)
    {
        struct blk_job j = { lo, hi, t, NT, cxx, canon, out, list };
        jobs[t] = j;
        if (pthread_create (&th[t], 0, blk_worker, &jobs[t])) exit (3);
    }
    for (unsigned t = 0; t < NT; ++t) pthread_join (th[t], 0);
#endif
}

int main (int argc, char** argv)
{
    if (argc < 2) return 2;
    {
        const char* rm = getenv ("HALF_CORR_ROUND");
        if (rm && *rm)
        {
            if (!strcmp (rm, "ne")) g_round = FE_TONEAREST;
            else if (!strcmp (rm, "tz")) g_round = FE_TOWARDZERO;
            else if (!strcmp (rm, "up")) g_round = FE_UPWARD;
            else if (!strcmp (rm, "dn")) g_round = FE_DOWNWARD;
            else return 5;
            set_round ();
        }
    }
    if (!strcmp (argv[1], "rm_control"))
    {
        // positive control for the rounding-mode dimension: a conversion that DOES follow the
        // caller's rounding mode (hardware: vcvtps2ph with _MM_FROUND_CUR_DIRECTION; software
        // builds: a float addition), so the check can see that HALF_CORR_ROUND is in effect
        volatile float one = 1.0f, tiny = 5.9604645e-8f;   // 1 + 2^-24: inexact in binary32
        volatile float sum = one + tiny, dif = -one - tiny;
        printf ("mode=%d add=%x sub=%x", fegetround (), f2u (sum), f2u (dif));
#if defined(__F16C__) && !defined(_MSC_VER)
        volatile float x = u2f (0x3f801001u), y = u2f (0xbf801001u);   // +-(1 + 2^-11 + 2^-23): inexact in binary16
        printf (" f16c_cur=%x,%x", rm_control_f16c (x), rm_control_f16c (y));
#endif
        printf ("\n");
        return g_round_bad ? 4 : 0;
    }
    if (!strcmp (argv[1], "config"))
    {
        // which macros this translation unit was compiled with, and which branch they SHOULD select
        // (a copy of half.h's condition: an input to the check, not an observation of half.h --
        // tools/props/c02.py observes the compiled branch with nm / objdump / a poisoned table)
#if defined(__F16C__)
        printf ("branch=f16c");
#elif defined(IMATH_HALF_USE_LOOKUP_TABLE) && !defined(IMATH_HALF_NO_LOOKUP_TABLE)
        printf ("branch=table");
#else
        printf ("branch=shift");
#endif
#ifdef __cplusplus
        printf (" lang=c++%ld\n", (long) __cplusplus);
#else
        printf (" lang=c%ld\n", (long) __STDC_VERSION__);
#endif
        return 0;
    }
    if (!strcmp (argv[1], "f2h_blocks") || !strcmp (argv[1], "f2hx_blocks"))
    {
        int x = !strcmp (argv[1], "f2hx_blocks");
        if (argc < (x ? 5 : 6)) return 2;
        uint32_t lo = (uint32_t) atol (argv[2]), hi = (uint32_t) atol (argv[3]);
        int cxx = parse_api (argv[4]), canon = x ? -1 : atoi (argv[5]);
        uint64_t* out = (uint64_t*) malloc (sizeof (uint64_t) * (hi - lo + 1));
        run_blocks (lo, hi, 0, cxx, canon, out);
        for (uint32_t b = lo; b < hi; ++b) printf ("%llx\n", (unsigned long long) out[b - lo]);
        return g_round_bad ? 4 : 0;
    }
    if (!strcmp (argv[1], "f2h_list") || !strcmp (argv[1], "f2hx_list"))
    {
        int x = !strcmp (argv[1], "f2hx_list");
        int first = x ? 3 : 4;
        if (argc < first) return 2;
        int cxx = parse_api (argv[2]), canon = x ? -1 : atoi (argv[3]);
        uint32_t n = (uint32_t) (argc - first);
        uint32_t* list = (uint32_t*) malloc (sizeof (uint32_t) * (n + 1));
        uint64_t* out = (uint64_t*) malloc (sizeof (uint64_t) * (n + 1));
        for (uint32_t i = 0; i < n; ++i) list[i] = (uint32_t) strtoul (argv[first + (int) i], 0, 10) & 0xffffu;
        run_blocks (0, n, list, cxx, canon, out);
        for (uint32_t i = 0; i < n; ++i) printf ("%llx\n", (unsigned long long) out[i]);
        return g_round_bad ? 4 : 0;
    }
    if (!strcmp (argv[1], "f2hx_range"))
    {
        uint32_t lo = (uint32_t) strtoul (argv[2], 0, 10), hi = (uint32_t) strtoul (argv[3], 0, 10);
        int cxx = argc > 4 ? parse_api (argv[4]) : 0;
        feclearexcept (FE_ALL_EXCEPT);
        for (uint64_t u = lo; u < hi; ++u) printf ("%x\n", conv_f2hx ((uint32_t) u, cxx));
        return g_round_bad ? 4 : 0;
    }
    if (!strcmp (argv[1], "h2f_all"))
    {
        int cxx = !strcmp (argv[2], "cxx"), canon = atoi (argv[3]);
        for (uint32_t h = 0; h < 65536; ++h)
        {
            uint32_t r = conv_h2f ((uint16_t) h, cxx);
            if (canon) r = canon32 (r);
            printf ("%x\n", r);
        }
        chk_round ();
        return g_round_bad ? 4 : 0;
    }
    if (!strcmp (argv[1], "canon_all"))
    {
        // the harness' own NaN canonicalisers, so that the check can compare them with tools/halfspec.py's
        for (uint32_t h = 0; h < 65536; ++h)
            printf ("%x %x %x\n", canon16 ((uint16_t) h), canon32 (h << 16), canon32 ((h << 16) | 1u));
        return 0;
    }
    if (!strcmp (argv[1], "roundtrip_all"))
    {
        // the composition on the REAL code: half -> float -> half through one api, every pattern
        int cxx = argc > 2 ? parse_api (argv[2]) : 0, canon = argc > 3 ? atoi (argv[3]) : 0;
        for (uint32_t h = 0; h < 65536; ++h)
        {
            uint16_t r = conv_f2h (conv_h2f ((uint16_t) h, cxx == 2 ? 1 : cxx), cxx);
            printf ("%x\n", canon ? canon16 (r) : r);
        }
        chk_round ();
        return g_round_bad ? 4 : 0;
    }
    if (!strcmp (argv[1], "f2h_range"))
    {
        uint32_t lo = (uint32_t) strtoul (argv[2], 0, 10), hi = (uint32_t) strtoul (argv[3], 0, 10);
        int cxx = argc > 4 ? parse_api (argv[4]) : 0, canon = argc > 5 ? atoi (argv[5]) : 0;
        for (uint64_t u = lo; u < hi; ++u) { uint16_t r = conv_f2h ((uint32_t) u, cxx); printf ("%x\n", canon ? canon16 (r) : r); }
        return g_round_bad ? 4 : 0;
    }
    if (!strcmp (argv[1], "f2h"))
    {
        for (int i = 2; i < argc; ++i) printf ("%x\n", conv_f2h ((uint32_t) strtoul (argv[i], 0, 16), 0));
        return 0;
    }
    if (!strcmp (argv[1], "h2f"))
    {
        for (int i = 2; i < argc; ++i) printf ("%x\n", conv_h2f ((uint16_t) strtoul (argv[i], 0, 16), 0));
        return 0;
    }
#if HAVE_CXX
    if (!strcmp (argv[1], "round_all"))
    {
        unsigned n = (unsigned) atoi (argv[2]);
        for (uint32_t b = 0; b < 65536; ++b) { half h; h.setBits ((uint16_t) b); printf ("%x\n", h.round (n).bits ()); }
        return 0;
    }
    if (!strcmp (argv[1], "class_all"))
    {
        for (uint32_t b = 0; b < 65536; ++b)
        {
            half h; h.setBits ((uint16_t) b);
            int c = (h.isFinite () ? 1 : 0) + (h.isNormalized () ? 2 : 0) + (h.isDenormalized () ? 4 : 0) +
                    (h.isZero () ? 8 : 0) + (h.isNan () ? 16 : 0) + (h.isInfinity () ? 32 : 0) + (h.isNegative () ? 64 : 0);
            printf ("%d %x\n", c, (-h).bits ());
        }
        return 0;
    }
#endif
    return 2;
}
