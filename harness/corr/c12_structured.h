// C12: STRUCTURED SPARSE matrices for the Jacobi solvers, deterministic (no seed), used in every tier by both
// c12_corr.cpp (model == real code, bitwise) and c12_residue.cpp (reconstruct / orthonormality / ordering).
// Dense random inputs never exercise code that depends on WHERE the non-zero off-diagonal entries are (e.g. a loop bound
// in maxOffDiag that skips the last row): these classes put the off-diagonal mass in one position / row / column / block.
//   single(i,j)      diag(d) + e*E_ij for every off-diagonal position
//   row(r) / col(c)  diag(d) + one populated row / column
//   translate-row / translate-col   identity + last row / last column (a pure translation and its transpose)
//   scale-translate  diag(d) + last row
//   block 2+2, 3+1, 1+3 (n = 4), 2+1, 1+2 (n = 3)
//   upper / lower triangular, permutation x diagonal
// each at magnitudes e in {1, 1e-3, 1e3}.  `symmetric` mirrors the pattern (A := pattern + pattern^T off the diagonal).
#pragma once
#include <string>
#include <utility>
#include <vector>

template <class M, class T, int n> std::vector<std::pair<std::string, M>> c12Structured (bool symmetric)
{
    std::vector<std::pair<std::string, M>> out;
    static const double MAG[3] = {1.0, 1e-3, 1e3};
    static const char*  MAGN[3] = {"e=1", "e=1e-3", "e=1e3"};
    static const double D[4] = {2.0, -1.5, 0.75, 3.0};
    static const double VAL[4] = {3.0, -4.0, 12.0, 0.5};
    auto diag = [] (bool identity) { M m; for (int i = 0; i < n; ++i) for (int j = 0; j < n; ++j) m[i][j] = i == j ? (T) (identity ? 1.0 : D[i]) : (T) 0; return m; };
    auto fin = [&] (const std::string& name, int mg, M m) {
        if (symmetric) for (int i = 0; i < n; ++i) for (int j = 0; j < i; ++j) { T s = m[i][j] + m[j][i]; m[i][j] = m[j][i] = s; }
        out.push_back ({name + ":" + MAGN[mg], m});
    };
    for (int mg = 0; mg < 3; ++mg)
    {
        const double e = MAG[mg];
        for (int i = 0; i < n; ++i) for (int j = 0; j < n; ++j)
        {
            if (i == j || (symmetric && j < i)) continue;
            M m = diag (false); m[i][j] = (T) (1.5 * e);
            fin ("single(" + std::to_string (i) + "," + std::to_string (j) + ")", mg, m);
        }
        for (int r = 0; r < n; ++r)
        {
            M m = diag (false); for (int j = 0; j < n; ++j) if (j != r) m[r][j] = (T) (VAL[j] * e);
            fin ("row(" + std::to_string (r) + ")", mg, m);
            if (!symmetric)
            {
                M c = diag (false); for (int i = 0; i < n; ++i) if (i != r) c[i][r] = (T) (VAL[i] * e);
                fin ("col(" + std::to_string (r) + ")", mg, c);
            }
        }
        {
            M m = diag (true); for (int j = 0; j + 1 < n; ++j) m[n - 1][j] = (T) (VAL[j] * e);
            fin ("translate-row", mg, m);
            M c = diag (true); for (int i = 0; i + 1 < n; ++i) c[i][n - 1] = (T) (VAL[i] * e);
            if (!symmetric) fin ("translate-col", mg, c);
            M s = diag (false); for (int j = 0; j + 1 < n; ++j) s[n - 1][j] = (T) (VAL[j] * e);
            fin ("scale-translate", mg, s);
        }
        // block-diagonal: first block of size b, second of size n - b, dense inside the blocks
        for (int b = 1; b < n; ++b)
        {
            M m = diag (false);
            for (int i = 0; i < n; ++i) for (int j = 0; j < n; ++j)
                if (i != j && ((i < b) == (j < b))) m[i][j] = (T) (e * (0.25 + 0.5 * i - 0.375 * j));
            fin ("block(" + std::to_string (b) + "+" + std::to_string (n - b) + ")", mg, m);
        }
        {
            M u = diag (false), l = diag (false);
            for (int i = 0; i < n; ++i) for (int j = 0; j < n; ++j)
            {
                if (i < j) u[i][j] = (T) (e * (1.0 + 0.5 * i - 0.25 * j));
                if (i > j) l[i][j] = (T) (e * (-0.5 + 0.25 * i + 0.75 * j));
            }
            fin ("upper-triangular", mg, u);
            if (!symmetric) fin ("lower-triangular", mg, l);
        }
        // permutation x diagonal: cyclic shift, swap of the first two, swap of first and last
        for (int p = 0; p < 3; ++p)
        {
            int perm[4] = {0, 1, 2, 3};
            if (p == 0) for (int i = 0; i < n; ++i) perm[i] = (i + 1) % n;
            if (p == 1) { perm[0] = 1; perm[1] = 0; }
            if (p == 2) { perm[0] = n - 1; perm[n - 1] = 0; }
            if (symmetric && p == 0) continue;
            M m; for (int i = 0; i < n; ++i) for (int j = 0; j < n; ++j) m[i][j] = (T) 0;
            for (int i = 0; i < n; ++i) m[i][perm[i]] = (T) (D[symmetric ? (i < perm[i] ? i : perm[i]) : i] * e);
            if (symmetric) { out.push_back ({std::string ("perm-diag(") + (p == 1 ? "swap01" : "swap0n") + "):" + MAGN[mg], m}); continue; }
            fin (std::string ("perm-diag(") + (p == 0 ? "cycle" : p == 1 ? "swap01" : "swap0n") + ")", mg, m);
        }
    }
    return out;
}
