// Translator step for tools/gen_halflimits.py: prints, from the CURRENT half.h,
// the bit patterns returned by std::numeric_limits<half>, its integer
// constants, the binary32 patterns of the HALF_* macros (as a C++ user gets
// them after conversion to float) and the special-value factories.
#include <half.h>
#include <cstdio>
#include <cstring>
#include <limits>
using namespace IMATH_NAMESPACE;
typedef std::numeric_limits<half> L;
static unsigned fb (float f) { unsigned u; memcpy (&u, &f, 4); return u; }
int main ()
{
    printf ("bits limits_min %x\n", L::min ().bits ());
    printf ("bits limits_max %x\n", L::max ().bits ());
    printf ("bits limits_lowest %x\n", L::lowest ().bits ());
    printf ("bits limits_epsilon %x\n", L::epsilon ().bits ());
    printf ("bits limits_round_error %x\n", L::round_error ().bits ());
    printf ("bits limits_infinity %x\n", L::infinity ().bits ());
    printf ("bits limits_quiet_NaN %x\n", L::quiet_NaN ().bits ());
    printf ("bits limits_signaling_NaN %x\n", L::signaling_NaN ().bits ());
    printf ("bits limits_denorm_min %x\n", L::denorm_min ().bits ());
    printf ("bits half_posInf %x\n", half::posInf ().bits ());
    printf ("bits half_negInf %x\n", half::negInf ().bits ());
    printf ("bits half_qNan %x\n", half::qNan ().bits ());
    printf ("bits half_sNan %x\n", half::sNan ().bits ());
    printf ("int limits_digits %d\n", (int) L::digits);
    printf ("int limits_digits10 %d\n", (int) L::digits10);
    printf ("int limits_max_digits10 %d\n", (int) L::max_digits10);
    printf ("int limits_radix %d\n", (int) L::radix);
    printf ("int limits_min_exponent %d\n", (int) L::min_exponent);
    printf ("int limits_max_exponent %d\n", (int) L::max_exponent);
    printf ("int limits_min_exponent10 %d\n", (int) L::min_exponent10);
    printf ("int limits_max_exponent10 %d\n", (int) L::max_exponent10);
    printf ("int limits_is_signed %d\n", (int) L::is_signed);
    printf ("int limits_has_infinity %d\n", (int) L::has_infinity);
    printf ("int limits_has_quiet_NaN %d\n", (int) L::has_quiet_NaN);
    printf ("int limits_has_signaling_NaN %d\n", (int) L::has_signaling_NaN);
    printf ("int limits_has_denorm %d\n", (int) (L::has_denorm == std::denorm_present));
    printf ("int limits_round_to_nearest %d\n", (int) (L::round_style == std::round_to_nearest));
    // members outside the property's list of extremes, dumped so that they are at least stated (Props/C03.lean
    // other_members; is_bounded & co. are only reported, extra.observed_outside_property)
    printf ("int limits_is_specialized %d\n", (int) L::is_specialized);
    printf ("int limits_is_integer %d\n", (int) L::is_integer);
    printf ("int limits_is_exact %d\n", (int) L::is_exact);
    printf ("int limits_is_modulo %d\n", (int) L::is_modulo);
    printf ("int limits_is_bounded %d\n", (int) L::is_bounded);
    printf ("int limits_is_iec559 %d\n", (int) L::is_iec559);
    printf ("int limits_traps %d\n", (int) L::traps);
    printf ("int limits_tinyness_before %d\n", (int) L::tinyness_before);
    printf ("int limits_has_denorm_loss %d\n", (int) L::has_denorm_loss);
    printf ("f32 macro_HALF_DENORM_MIN %x\n", fb ((float) HALF_DENORM_MIN));
    printf ("f32 macro_HALF_NRM_MIN %x\n", fb ((float) HALF_NRM_MIN));
    printf ("f32 macro_HALF_MIN %x\n", fb ((float) HALF_MIN));
    printf ("f32 macro_HALF_MAX %x\n", fb ((float) HALF_MAX));
    printf ("f32 macro_HALF_EPSILON %x\n", fb ((float) HALF_EPSILON));
    printf ("int macro_HALF_MANT_DIG %d\n", (int) HALF_MANT_DIG);
    printf ("int macro_HALF_DIG %d\n", (int) HALF_DIG);
    printf ("int macro_HALF_DECIMAL_DIG %d\n", (int) HALF_DECIMAL_DIG);
    printf ("int macro_HALF_RADIX %d\n", (int) HALF_RADIX);
    printf ("int macro_HALF_DENORM_MIN_EXP %d\n", (int) HALF_DENORM_MIN_EXP);
    printf ("int macro_HALF_MAX_EXP %d\n", (int) HALF_MAX_EXP);
    printf ("int macro_HALF_DENORM_MIN_10_EXP %d\n", (int) HALF_DENORM_MIN_10_EXP);
    printf ("int macro_HALF_MAX_10_EXP %d\n", (int) HALF_MAX_10_EXP);
    return 0;
}
