#!/usr/bin/env python3
"""C19 buffer protocol observations on the REAL imath module (JSON on stdout).

  c19_buffers.py export            memoryview() of every *Array class (dense lengths 0..4, read-only, masked,
                                   strided component arrays): nbytes, itemsize, format, ndim, shape, strides, readonly
  c19_buffers.py export-ro <cls>   memoryview() of a read-only array (own process: may abort)
  c19_buffers.py from safe         every *ArrayFromBuffer function x array.array typecodes x lengths, only the
                                   combinations where the copy cannot overrun the new allocation
  c19_buffers.py from one <func> <typecode> <n> [<rows> <cols>]
                                   a single (possibly overrunning) call, for subprocess / valgrind use"""
import sys, json, array


def mvinfo(mv):
    return {"nbytes": mv.nbytes, "itemsize": mv.itemsize, "format": mv.format, "ndim": mv.ndim,
            "shape": list(mv.shape), "strides": list(mv.strides), "readonly": mv.readonly}


def tr(f):
    try:
        return f()
    except BaseException as e:
        return {"error": type(e).__name__ + ": " + str(e)[:100]}


def export():
    import imath
    out = {}
    for n in sorted(dir(imath)):
        c = getattr(imath, n)
        if not (n.endswith("Array") and hasattr(c, "__getitem__") and hasattr(c, "__len__")):
            continue
        try:
            a0 = c(1)
            memoryview(a0)
        except TypeError:
            out[n] = {"supported": False}
            continue
        except Exception as e:
            out[n] = {"supported": False, "error": str(e)[:80]}
            continue
        rec = {"supported": True, "dense": {}, "strided": {}}
        for k in range(5):
            rec["dense"][str(k)] = tr(lambda: mvinfo(memoryview(c(k))))
        if hasattr(a0, "makeReadOnly"):
            m = imath.IntArray(3)
            m[0] = 1
            rec["masked"] = tr(lambda: mvinfo(memoryview(c(3)[m])))
        # strided views: component arrays of the vector arrays
        for comp in ("x", "y", "z", "w", "r", "g", "b", "a"):
            try:
                has = hasattr(a0, comp)
            except TypeError as e:      # e.g. V2i64Array.x: FixedArray<long> has no Python class
                rec["strided"][comp] = {"error": "TypeError: " + str(e)[:100]}
                continue
            if has:
                def f():
                    v = getattr(c(4), comp)
                    return dict(mvinfo(memoryview(v)), cls=type(v).__name__, len=len(v))
                r = tr(f)
                if "error" not in r or "bytes-like" not in r["error"]:
                    rec["strided"][comp] = r
        # the view really aliases the array: write through the array, read through the memoryview
        def alias():
            a = c(2)
            mv = memoryview(a)
            before = bytes(mv)
            return {"nbytes_of_bytes": len(before)}
        rec["bytes"] = tr(alias)
        out[n] = rec
    json.dump(out, sys.stdout)


TYPECODES = "bBhHiIlqfd"


def make_src(tc, n, rows=None, cols=None):
    vals = [k + 1 for k in range(n)]
    a = array.array(tc, [float(v) for v in vals] if tc in "fd" else vals)
    if rows is not None:
        return memoryview(a).cast("B").cast(tc, shape=[rows, cols]), a
    return a, a


def call_from(func, tc, n, rows=None, cols=None):
    import imath
    f = getattr(imath, func)
    src, keep = make_src(tc, n, rows, cols)
    mv = memoryview(src)
    info = {"func": func, "typecode": tc, "n": n, "rows": rows, "cols": cols, "src_itemsize": mv.itemsize,
            "src_format": mv.format, "src_shape0": mv.shape[0] if mv.ndim else 0, "src_nbytes": mv.nbytes}
    try:
        r = f(src)
        info["result_len"] = len(r)
        info["result_class"] = type(r).__name__
        # the copied elements, read back as raw bytes through the result's own buffer when it has one
        try:
            info["result_bytes"] = list(bytes(memoryview(r)))[:mv.nbytes]
            info["src_bytes"] = list(bytes(mv))
        except Exception:
            pass
    except BaseException as e:
        info["error"] = type(e).__name__ + ": " + str(e)[:100]
    return info


ELEM = {"Int": ("i", 4, 1), "Float": ("f", 4, 1), "Double": ("d", 8, 1),
        "V2i": ("i", 4, 2), "V2f": ("f", 4, 2), "V2d": ("d", 8, 2), "V3i": ("i", 4, 3), "V3f": ("f", 4, 3),
        "V3d": ("d", 8, 3), "V4i": ("i", 4, 4), "V4f": ("f", 4, 4), "V4d": ("d", 8, 4)}


def from_funcs():
    import imath
    return [n for n in sorted(dir(imath)) if n.endswith("ArrayFromBuffer")]


def cases(func):
    """(typecode, n, rows, cols, safe) — 1-D sources of every typecode, and 2-D sources with `width` columns"""
    base = func[:-len("ArrayFromBuffer")]
    fmt, atom, width = ELEM.get(base, ("?", 0, 0))
    sizeof_t = atom * width
    out = []
    for tc in TYPECODES:
        isz = array.array(tc).itemsize
        for n in range(0, 4):
            out.append((tc, n, None, None, n * isz <= n * sizeof_t))
        if width > 1:
            for rows in range(0, 3):
                out.append((tc, rows * width, rows, width, rows * width * isz <= rows * sizeof_t))
    return out


def main():
    if sys.argv[1] == "export":
        export()
    elif sys.argv[1] == "export-ro":
        # memoryview of a READ-ONLY array; separate process: an exception escaping the C getbuffer slot aborts
        import imath
        c = getattr(imath, sys.argv[2])
        a = c(3)
        a.makeReadOnly()
        json.dump(tr(lambda: mvinfo(memoryview(a))), sys.stdout)
    elif sys.argv[1] == "from" and sys.argv[2] == "safe":
        res, unsafe = [], []
        for func in from_funcs():
            for (tc, n, rows, cols, safe) in cases(func):
                if rows == 0 and cols:
                    continue      # cast() refuses zero-sized shapes
                if safe:
                    res.append(call_from(func, tc, n, rows, cols))
                else:
                    unsafe.append([func, tc, n, rows, cols])
        json.dump({"safe": res, "unsafe": unsafe, "funcs": from_funcs()}, sys.stdout)
    elif sys.argv[1] == "from" and sys.argv[2] == "one":
        a = sys.argv[3:]
        rows = int(a[3]) if len(a) > 3 else None
        cols = int(a[4]) if len(a) > 4 else None
        json.dump(call_from(a[0], a[1], int(a[2]), rows, cols), sys.stdout)


if __name__ == "__main__":
    main()
