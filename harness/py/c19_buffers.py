#!/usr/bin/env python3
"""C19 buffer protocol observations on the REAL imath module (JSON on stdout).

  c19_buffers.py export            memoryview() of every *Array class (dense lengths 0..4, read-only, masked,
                                   strided component arrays): nbytes, itemsize, format, ndim, shape, strides, readonly
  c19_buffers.py export-check      the same views against an INDEPENDENT expectation derived from the class name (element
                                   kind x size x components: format, itemsize, ndim, shape, strides, nbytes), their
                                   CONTENTS against the packed element values, writes through the view; lengths 0,1,2,5
  c19_buffers.py export-ro <cls>   memoryview() of a read-only array (own process: may abort)
  c19_buffers.py from safe         every *ArrayFromBuffer function x source kinds (contiguous array.array of every
                                   typecode, 2-D casts, NON-CONTIGUOUS memoryview slices [::2] [1::2] [::-1] ..., imath's
                                   own strided component arrays, bytes); called in process only when neither the write
                                   nor a flat read of `nbytes` can leave the buffers, described (not called) otherwise
  c19_buffers.py from one <json>   a single (possibly overrunning / over-reading) call, for subprocess / valgrind use"""
import sys, json, array, struct


def mvinfo(mv):
    return {"nbytes": mv.nbytes, "itemsize": mv.itemsize, "format": mv.format, "ndim": mv.ndim,
            "shape": list(mv.shape), "strides": list(mv.strides), "readonly": mv.readonly}


def tr(f):
    try:
        return f()
    except BaseException as e:
        return {"error": type(e).__name__ + ": " + str(e)[:100]}


def export():
    import imath
    out = {}
    for n in sorted(dir(imath)):
        c = getattr(imath, n)
        if not (n.endswith("Array") and hasattr(c, "__getitem__") and hasattr(c, "__len__")):
            continue
        try:
            a0 = c(1)
            memoryview(a0)
        except TypeError:
            out[n] = {"supported": False}
            continue
        except Exception as e:
            out[n] = {"supported": False, "error": str(e)[:80]}
            continue
        rec = {"supported": True, "dense": {}, "strided": {}}
        for k in range(5):
            rec["dense"][str(k)] = tr(lambda: mvinfo(memoryview(c(k))))
        if hasattr(a0, "makeReadOnly"):
            m = imath.IntArray(3)
            m[0] = 1
            rec["masked"] = tr(lambda: mvinfo(memoryview(c(3)[m])))
        # strided views: component arrays of the vector arrays
        for comp in ("x", "y", "z", "w", "r", "g", "b", "a"):
            try:
                has = hasattr(a0, comp)
            except TypeError as e:      # e.g. V2i64Array.x: FixedArray<long> has no Python class
                rec["strided"][comp] = {"error": "TypeError: " + str(e)[:100]}
                continue
            if has:
                def f():
                    v = getattr(c(4), comp)
                    return dict(mvinfo(memoryview(v)), cls=type(v).__name__, len=len(v))
                r = tr(f)
                if "error" not in r or "bytes-like" not in r["error"]:
                    rec["strided"][comp] = r
        # the view really aliases the array: write through the array, read through the memoryview
        def alias():
            a = c(2)
            mv = memoryview(a)
            before = bytes(mv)
            return {"nbytes_of_bytes": len(before)}
        rec["bytes"] = tr(alias)
        out[n] = rec
    json.dump(out, sys.stdout)


# ----------------------------------------------------------------------------------------------
# INDEPENDENT expectation of an exported view, derived from the CLASS NAME only (element kind x width), never from
# PyImathFixedArrayTraits.h: (kind, component size, components per element)
SCALAR_KINDS = {"Int": ("signed", 4), "Float": ("float", 4), "Double": ("float", 8), "UnsignedChar": ("unsigned", 1),
                "SignedChar": ("signed", 1), "Short": ("signed", 2), "UnsignedShort": ("unsigned", 2),
                "UnsignedInt": ("unsigned", 4), "Int64": ("signed", 8), "Bool": ("unsigned", 1)}
SUFFIX_KINDS = {"s": ("signed", 2), "i": ("signed", 4), "i64": ("signed", 8), "f": ("float", 4), "d": ("float", 8),
                "c": ("unsigned", 1), "h": ("float", 2)}
FORMAT_KIND = {"e": "float", "f": "float", "d": "float", "b": "signed", "h": "signed", "i": "signed", "l": "signed",
               "q": "signed", "B": "unsigned", "H": "unsigned", "I": "unsigned", "L": "unsigned", "Q": "unsigned", "?": "unsigned"}


def expected_layout(cname):
    """class name -> (kind, size, width) or None"""
    import re
    base = cname[:-5] if cname.endswith("Array") else cname
    if base in SCALAR_KINDS:
        return SCALAR_KINDS[base] + (1,)
    m = re.match(r"^(V|C)([234])(i64|s|i|f|d|c|h)$", base)
    if m:
        return SUFFIX_KINDS[m.group(3)] + (int(m.group(2)),)
    return None


def export_check():
    """every array class that exports a buffer x lengths 0,1,2,5 (+ its component arrays): the view's description is
    compared with the independent expectation, its CONTENTS with the packed element values written through the
    Python API, and a write through the view must land in the array"""
    import imath
    out = {"classes": {}, "bad": [], "cases": 0, "unknown": []}

    def check(label, mv, kind, size, shape, strides, values, model=None):
        out["cases"] += 1
        if model is not None:
            # for the Lean model of the exported view (`exportBytes`): class whose traits apply, the array's length / element
            # stride, its storage block and the byte offset of its first element; `tobytes` is what a consumer reads
            out.setdefault("model_cases", []).append(dict(model, what=label, tobytes=mv.tobytes().hex()))
        exp = {"itemsize": size, "ndim": len(shape), "shape": list(shape), "strides": list(strides),
               "nbytes": size * (1 if not shape else __import__("functools").reduce(lambda a, b: a * b, shape, 1))}
        got = {"itemsize": mv.itemsize, "ndim": mv.ndim, "shape": list(mv.shape), "strides": list(mv.strides), "nbytes": mv.nbytes}
        probs = [k for k in exp if exp[k] != got[k] and not (k == "strides" and mv.nbytes == 0)]
        f = mv.format.lstrip("@<")
        try:
            if FORMAT_KIND.get(f) != kind or struct.calcsize(f) != size:
                probs.append("format")
        except struct.error:
            probs.append("format")
        if not probs:
            packed = struct.pack("<%d%s" % (len(values), {("float", 4): "f", ("float", 8): "d", ("signed", 1): "b", ("signed", 2): "h",
                                                          ("signed", 4): "i", ("signed", 8): "q", ("unsigned", 1): "B",
                                                          ("unsigned", 2): "H", ("unsigned", 4): "I"}[(kind, size)]),
                                 *[float(v) if kind == "float" else v for v in values])
            if mv.tobytes() != packed:
                probs.append("contents")
        if probs:
            out["bad"].append({"what": label, "problems": probs, "expected": exp, "expected_kind": [kind, size],
                               "got": dict(got, format=mv.format)})
        return not probs

    for n in sorted(dir(imath)):
        c = getattr(imath, n)
        if not (n.endswith("Array") and isinstance(c, type) and hasattr(c, "__getitem__") and hasattr(c, "__len__")):
            continue
        try:
            memoryview(c(1))
        except TypeError:
            continue
        except Exception as e:
            out["bad"].append({"what": n, "problems": ["memoryview raises"], "error": str(e)[:80]})
            continue
        lay = expected_layout(n)
        if lay is None:
            out["unknown"].append(n)
            continue
        kind, size, w = lay
        rec = out["classes"][n] = {"layout": lay, "lengths": [], "components": []}
        for L in (0, 1, 2, 5):
            a = c(L)
            vals = []
            for i in range(L):
                comps = [7 * i + k + 1 for k in range(w)]
                if w == 1:
                    a[i] = float(comps[0]) if kind == "float" else comps[0]
                else:
                    e = c(1)[0]
                    for k in range(w):
                        e[k] = comps[k]
                    a[i] = e
                vals += comps
            mv = memoryview(a)
            shape = (L,) if w == 1 else (L, w)
            strides = (size,) if w == 1 else (w * size, size)
            FMT = {("float", 4): "f", ("float", 8): "d", ("signed", 1): "b", ("signed", 2): "h", ("signed", 4): "i", ("signed", 8): "q",
                   ("unsigned", 1): "B", ("unsigned", 2): "H", ("unsigned", 4): "I"}[(kind, size)]
            storage = struct.pack("<%d%s" % (len(vals), FMT), *[float(x) if kind == "float" else x for x in vals]).hex()
            ok = check("%s(%d)" % (n, L), mv, kind, size, shape, strides, vals,
                       {"cls": n, "length": L, "stride": 1, "mem": storage, "off": 0})
            rec["lengths"].append(L)
            # a write through the view lands in the array
            if ok and L and not mv.readonly:
                try:
                    if w == 1:
                        mv[L - 1] = 99.0 if kind == "float" else 99
                        back = a[L - 1]
                    else:
                        mv[L - 1, w - 1] = 99.0 if kind == "float" else 99
                        back = a[L - 1][w - 1]
                    out["cases"] += 1
                    if back != 99:
                        out["bad"].append({"what": "%s(%d)" % (n, L), "problems": ["write through the view does not land in the array"],
                                           "got": repr(back)})
                except Exception as e:
                    out["bad"].append({"what": "%s(%d)" % (n, L), "problems": ["write through the view raises"], "error": str(e)[:80]})
            # component arrays: strided 1-D views of the same storage
            if w > 1 and L in (1, 5):
                names = {"V": "xyzw", "C": "rgba"}[n[0]][:w]
                for k, cn in enumerate(names):
                    try:
                        comp = getattr(a, cn)
                        mvc = memoryview(comp)
                    except TypeError:
                        continue      # the component array class exports no buffer / has no Python class
                    a2 = [7 * i + k + 1 for i in range(L)]
                    if L and not mv.readonly and k == w - 1:
                        a2[L - 1] = 99
                    st2 = list(vals)
                    if L and not mv.readonly:
                        st2[(L - 1) * w + (w - 1)] = 99      # the write made through the parent's view above
                    storage2 = struct.pack("<%d%s" % (len(st2), FMT), *[float(x) if kind == "float" else x for x in st2]).hex()
                    check("%s(%d).%s" % (n, L, cn), mvc, kind, size, (L,), (w * size,), a2,
                          {"cls": type(comp).__name__, "length": L, "stride": w, "mem": storage2, "off": k * size})
                    if cn not in rec["components"]:
                        rec["components"].append(cn)
    json.dump(out, sys.stdout)


TYPECODES = "bBhHiIlqfd"
COMPONENTS = {"x": 0, "y": 1, "z": 2, "w": 3, "r": 0, "g": 1, "b": 2, "a": 3}


def base_array(tc, n):
    vals = [k + 1 for k in range(n)]
    return array.array(tc, [float(v) for v in vals] if tc in "fd" else vals)


def make_src(kind, tc, n, rows=None, cols=None, extra=None):
    """-> (source object, keep-alive, geometry) for one source kind.

    geometry = what the model needs and Python cannot read off a memoryview: the exporter's whole memory block
    (`mem`, bytes) and the offset of `view.buf` inside it (`off`).  Source kinds:
      dense            array.array(tc, 1..n)
      2d               the same cast to shape [rows, cols]                       (C-contiguous)
      slice            memoryview(array.array(tc, 1..n))[extra]                  extra = (start, stop, step)
      2dslice          memoryview(2-D cast)[extra]                               rows strided
      comp             memoryview(getattr(imath.<extra[0]>(n), extra[1]))        imath's own strided export
      bytes            memoryview(bytes(n))                                      format 'B', read-only"""
    if kind == "bytes":
        b = bytes(range(1, n + 1))
        return memoryview(b), b, {"mem": b, "off": 0}
    if kind == "comp":
        import imath
        cname, comp = extra
        v = getattr(imath, cname)(n)
        w = len(getattr(imath, cname)(1)[0])
        for i in range(n):
            e = getattr(imath, cname)(1)[0]
            for k in range(w):
                e[k] = 10 * (i + 1) + k
            v[i] = e
        c = getattr(v, comp)
        mvc = memoryview(c)
        # the exporter's block = the vector array's storage, rebuilt from the element values (not every vector
        # array class exports a buffer itself)
        vals = [10 * (i + 1) + k for i in range(n) for k in range(w)]
        mem = struct.pack("<%d%s" % (n * w, mvc.format), *[float(x) if mvc.format in "fd" else x for x in vals])
        return mvc, (v, c), {"mem": mem, "off": COMPONENTS[comp] * mvc.itemsize if n else 0}
    a = base_array(tc, n)
    mem = a.tobytes()
    if kind == "dense":
        return a, a, {"mem": mem, "off": 0}
    if kind == "2d":
        return memoryview(a).cast("B").cast(tc, shape=[rows, cols]), a, {"mem": mem, "off": 0}
    sl = slice(*extra)
    if kind == "slice":
        mv = memoryview(a)[sl]
        start = sl.indices(n)[0]
        return mv, a, {"mem": mem, "off": max(0, min(start, n)) * a.itemsize if len(mv) else 0}
    if kind == "2dslice":
        m2 = memoryview(a).cast("B").cast(tc, shape=[rows, cols])
        mv = m2[sl]
        start = sl.indices(rows)[0]
        return mv, a, {"mem": mem, "off": max(0, min(start, rows)) * cols * a.itemsize if mv.nbytes else 0}
    raise ValueError(kind)


def call_from(func, kind, tc, n, rows=None, cols=None, extra=None, call=True):
    import imath
    f = getattr(imath, func)
    src, keep, geo = make_src(kind, tc, n, rows, cols, extra)
    mv = memoryview(src)
    info = {"func": func, "kind": kind, "typecode": tc, "n": n, "rows": rows, "cols": cols, "extra": extra,
            "src_itemsize": mv.itemsize, "src_format": mv.format, "src_shape": list(mv.shape), "src_strides": list(mv.strides),
            "src_shape0": mv.shape[0] if mv.ndim else 0, "src_nbytes": mv.nbytes, "src_off": geo["off"],
            "src_mem": geo["mem"].hex(), "src_bytes": mv.tobytes().hex(), "contiguous": mv.c_contiguous}
    # does a flat read of `nbytes` from `buf` stay inside the exporter's block?  (otherwise the call is made out of process)
    info["flat_read_inside"] = geo["off"] + mv.nbytes <= len(geo["mem"])
    if not call:
        return info
    try:
        r = f(src)
        info["result_len"] = len(r)
        info["result_class"] = type(r).__name__
    except BaseException as e:
        info["error"] = type(e).__name__ + ": " + str(e)[:100]
        return info
    try:
        info["result_bytes"] = memoryview(r).tobytes().hex()
    except TypeError:
        # the result class exports no buffer (V4dArray): its storage, rebuilt from the element values
        fmtc = ELEM[func[:-len("ArrayFromBuffer")]][0]
        vals = [c for i in range(len(r)) for c in ([r[i]] if isinstance(r[i], (int, float)) else [r[i][k] for k in range(len(r[i]))])]
        info["result_bytes"] = struct.pack("<%d%s" % (len(vals), fmtc), *vals).hex()
        info["result_bytes_from"] = "elements"
    return info


ELEM = {"Int": ("i", 4, 1), "Float": ("f", 4, 1), "Double": ("d", 8, 1),
        "V2i": ("i", 4, 2), "V2f": ("f", 4, 2), "V2d": ("d", 8, 2), "V3i": ("i", 4, 3), "V3f": ("f", 4, 3),
        "V3d": ("d", 8, 3), "V4i": ("i", 4, 4), "V4f": ("f", 4, 4), "V4d": ("d", 8, 4)}
SLICES = [(None, None, 2), (1, None, 2), (None, None, -1), (None, None, -2), (1, 4, 1), (None, None, 3), (5, None, 1)]


def from_funcs():
    import imath
    return [n for n in sorted(dir(imath)) if n.endswith("ArrayFromBuffer")]


def component_exporters(fmt):
    """(class, component) pairs whose component arrays export format `fmt` (introspection)"""
    import imath
    out = []
    for cn in sorted(dir(imath)):
        c = getattr(imath, cn)
        if not (cn.endswith("Array") and isinstance(c, type)):
            continue
        for comp in COMPONENTS:
            try:
                if not hasattr(c, comp):
                    continue
                v = getattr(c(1), comp)
                if memoryview(v).format == fmt and len(c(1)[0]) > COMPONENTS[comp]:
                    out.append((cn, comp))
            except Exception:
                continue
    return out


def cases(func):
    """(kind, typecode, n, rows, cols, extra, write_safe): contiguous 1-D sources of every typecode, 2-D sources with
    `width` columns, NON-CONTIGUOUS views of both (every-other, reversed, offset), imath's own strided component
    arrays, and a `bytes` object.  write_safe = the copy cannot overrun the new allocation."""
    base = func[:-len("ArrayFromBuffer")]
    fmt, atom, width = ELEM.get(base, ("?", 0, 0))
    sizeof_t = atom * width
    out = []
    for tc in TYPECODES:
        isz = array.array(tc).itemsize
        for n in range(0, 4):
            out.append(("dense", tc, n, None, None, None, n * isz <= n * sizeof_t))
        if width > 1:
            for rows in range(0, 3):
                out.append(("2d", tc, rows * width, rows, width, None, rows * width * isz <= rows * sizeof_t))
    # non-contiguous views of the array's own element type (and one foreign type)
    for tc in sorted({fmt, "d" if fmt != "d" else "f"}):
        isz = array.array(tc).itemsize
        for n in (6, 5, 1):
            for sl in SLICES:
                k = len(range(n)[slice(*sl)])
                out.append(("slice", tc, n, None, None, sl, k * isz <= k * sizeof_t))
        if width > 1:
            for rows in (4, 3):
                for sl in SLICES[:5]:
                    k = len(range(rows)[slice(*sl)])
                    out.append(("2dslice", tc, rows * width, rows, width, sl, k * width * isz <= k * sizeof_t))
    if width == 1:
        for (cn, comp) in component_exporters(fmt):
            for n in (0, 1, 4):
                out.append(("comp", fmt, n, None, None, (cn, comp), True))
    for n in (0, 4, 8, 12):
        out.append(("bytes", "B", n, None, None, None, n <= n * sizeof_t))
    return out


def main():
    if sys.argv[1] == "export":
        export()
    elif sys.argv[1] == "export-check":
        export_check()
    elif sys.argv[1] == "export-ro":
        # memoryview of a READ-ONLY array; separate process: an exception escaping the C getbuffer slot aborts
        import imath
        c = getattr(imath, sys.argv[2])
        a = c(3)
        a.makeReadOnly()
        json.dump(tr(lambda: mvinfo(memoryview(a))), sys.stdout)
    elif sys.argv[1] == "from" and sys.argv[2] == "safe":
        # every case whose copy stays inside both buffers is called here; the others are only DESCRIBED (call=False)
        # and executed one per process by the check (`from one`)
        res, unsafe = [], []
        for func in from_funcs():
            for (kind, tc, n, rows, cols, extra, wsafe) in cases(func):
                if rows == 0 and cols:
                    continue      # cast() refuses zero-sized shapes
                try:
                    d = call_from(func, kind, tc, n, rows, cols, extra, call=False)
                except Exception as e:
                    res.append({"func": func, "kind": kind, "typecode": tc, "n": n, "harness_error": str(e)[:100]})
                    continue
                if wsafe and d["flat_read_inside"]:
                    res.append(call_from(func, kind, tc, n, rows, cols, extra))
                else:
                    d["write_safe"] = wsafe
                    unsafe.append(d)
        json.dump({"safe": res, "unsafe": unsafe, "funcs": from_funcs()}, sys.stdout)
    elif sys.argv[1] == "from" and sys.argv[2] == "batch":
        # several calls in one process (cases the model predicts to be REJECTED before any copy): JSON list on stdin
        out = []
        for spec in json.load(sys.stdin):
            ex = spec.get("extra")
            out.append(call_from(spec["func"], spec["kind"], spec["typecode"], spec["n"], spec.get("rows"), spec.get("cols"),
                                 tuple(ex) if ex is not None else None))
        json.dump(out, sys.stdout)
    elif sys.argv[1] == "from" and sys.argv[2] == "one":
        spec = json.loads(sys.argv[3])
        ex = spec.get("extra")
        json.dump(call_from(spec["func"], spec["kind"], spec["typecode"], spec["n"], spec.get("rows"), spec.get("cols"),
                            tuple(ex) if ex is not None else None), sys.stdout)


if __name__ == "__main__":
    main()
